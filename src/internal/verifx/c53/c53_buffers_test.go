package c53_test

// C53 (buffers unit): pooled buffers are released exactly once, only after
// every reference was freed, and every live reference reads the original
// bytes; readers return exactly the referenced bytes.
//
// Black-box on google.golang.org/grpc/mem with a tracking pool
// (internal/verifkit/trackpool). The plan is a list of API calls over live
// handles (buffers, buffer slices, readers); the executor keeps an
// independent reference-count model per root allocation.

import (
	"bytes"
	"errors"
	"fmt"
	"io"
	"reflect"
	"runtime/debug"
	"sort"
	"testing"

	imem "google.golang.org/grpc/internal/mem"
	"google.golang.org/grpc/internal/verifkit/trackpool"
	"google.golang.org/grpc/internal/verifkit/vk"
	"google.golang.org/grpc/mem"
	"pgregory.net/rapid"
)

// ---------------------------------------------------------------- plan

type bop struct {
	K string `json:"k"`
	A int    `json:"a,omitempty"`
	B int    `json:"b,omitempty"`
	C int    `json:"c,omitempty"`
	L []int  `json:"l,omitempty"`
}

type bufPlan struct {
	Thr   int   `json:"thr"`   // buffer pooling threshold during the case (1024 = production value)
	Reuse bool  `json:"reuse"` // tracking pool recycles released buffers
	Dirty bool  `json:"dirty"` // tracking pool hands out non-zero memory
	Slack int   `json:"slack"` // extra capacity: 0 none, else (len*7+Slack)%97 extra bytes
	Ops   []bop `json:"ops"`
	Free  []int `json:"free"` // order of the final clean-up
}

// op kinds by what they need: nothing, a directly held buffer, a live buffer
// slice, a reader. The generator keeps approximate counts so that most drawn
// ops are applicable when executed (inapplicable ops are skipped at run time).
var (
	opsCreate = []string{"new", "new", "new", "copy", "copy", "rall", "write"}
	opsDirect = []string{"ref", "free", "free", "free", "free", "slice", "slice", "slice", "split", "split", "split", "split", "split", "readu", "mk", "mk"}
	opsSlice  = []string{"sref", "sfree", "sfree", "mat", "matb", "matb", "copyto", "rdr", "rdr", "rdr", "write", "rall"}
	opsReader = []string{"read", "read", "read", "rbyte", "peek", "disc", "disc", "rem", "reset", "close", "close", "rall"}
)

func genSize(rt *rapid.T, thr int, label string) int {
	switch rapid.IntRange(0, 9).Draw(rt, label+"_kind") {
	case 0:
		return rapid.SampledFrom([]int{0, 1, 2, 3}).Draw(rt, label)
	case 1, 2:
		return max(0, thr+rapid.IntRange(-1, 3).Draw(rt, label))
	case 3:
		return rapid.IntRange(0, 64).Draw(rt, label)
	case 4, 5, 6:
		return thr + 1 + rapid.IntRange(0, 80).Draw(rt, label)
	case 7:
		return 2*thr + rapid.IntRange(0, 300).Draw(rt, label)
	case 8:
		if rapid.IntRange(0, 3).Draw(rt, label+"_big") == 0 {
			return rapid.SampledFrom([]int{32767, 32768, 32769, 40000, 65536, 65541}).Draw(rt, label)
		}
		return thr + 1 + rapid.IntRange(0, 2000).Draw(rt, label)
	default:
		return rapid.IntRange(0, 4*thr+8).Draw(rt, label)
	}
}

func genPos(rt *rapid.T, label string) int {
	switch rapid.IntRange(0, 4).Draw(rt, label+"_kind") {
	case 0:
		return 0
	case 1:
		return rapid.IntRange(0, 3).Draw(rt, label)
	case 2:
		return -1 - rapid.IntRange(0, 3).Draw(rt, label) // counted from the end
	default:
		return rapid.IntRange(0, 1<<17).Draw(rt, label)
	}
}

func genBufPlan(rt *rapid.T) bufPlan {
	p := bufPlan{}
	if rapid.IntRange(0, 2).Draw(rt, "prodthr") == 0 {
		p.Thr = 1024
	} else {
		p.Thr = rapid.SampledFrom([]int{0, 1, 8, 16}).Draw(rt, "thr")
	}
	p.Reuse = rapid.IntRange(0, 3).Draw(rt, "reuse") != 0
	p.Dirty = rapid.Bool().Draw(rt, "dirty")
	if rapid.Bool().Draw(rt, "hasslack") {
		p.Slack = rapid.IntRange(1, 96).Draw(rt, "slack")
	}
	maxOps := vk.Pick(30, 300)
	minOps := vk.Pick(12, 20)
	if rapid.IntRange(0, 4).Draw(rt, "short") == 0 {
		minOps, maxOps = 1, 10
	}
	n := rapid.IntRange(minOps, maxOps).Draw(rt, "nops")
	nd, nsl, nrd := 0, 0, 0 // approximate numbers of direct refs, live slices, readers
	for i := 0; i < n; i++ {
		var groups [][]string
		groups = append(groups, opsCreate)
		if nd > 0 {
			groups = append(groups, opsDirect, opsDirect)
		}
		if nsl > 0 {
			groups = append(groups, opsSlice)
		}
		if nrd > 0 {
			groups = append(groups, opsReader)
		}
		if nd+nsl+nrd >= 3 && rapid.IntRange(0, 19).Draw(rt, "flush") == 0 {
			// the caller releases everything it holds (in a generated order) and goes on
			p.Ops = append(p.Ops, bop{K: "flush", L: rapid.SliceOfN(rapid.IntRange(0, 31), 0, 12).Draw(rt, "order")})
			nd, nsl, nrd = 0, 0, 0
			continue
		}
		if rapid.IntRange(0, 19).Draw(rt, "anyop") == 0 { // also inapplicable ops
			groups = [][]string{opsCreate, opsDirect, opsSlice, opsReader}
		}
		g := groups[rapid.IntRange(0, len(groups)-1).Draw(rt, "group")]
		o := bop{K: rapid.SampledFrom(g).Draw(rt, "k")}
		o.A = rapid.IntRange(0, 15).Draw(rt, "a")
		switch o.K {
		case "new", "copy", "ref", "slice", "split", "matb":
			nd++
		case "free":
			nd = max(0, nd-1)
		case "sref", "write":
			nsl++
		case "sfree":
			nsl = max(0, nsl-1)
		case "rdr":
			nrd++
		}
		switch o.K {
		case "new":
			o.B = genSize(rt, p.Thr, "size")
			if rapid.IntRange(0, 3).Draw(rt, "cut") == 0 {
				o.C = rapid.IntRange(0, 1<<16).Draw(rt, "cutn")
			}
		case "copy", "write":
			o.B = genSize(rt, p.Thr, "size")
		case "slice":
			o.B, o.C = genPos(rt, "start"), genPos(rt, "end")
		case "split":
			o.B = genPos(rt, "n")
		case "readu", "copyto", "read", "peek", "disc":
			o.B = genPos(rt, "n")
			o.C = rapid.IntRange(0, 2).Draw(rt, "c")
		case "mk":
			o.L = rapid.SliceOfN(rapid.IntRange(0, 15), 0, 4).Draw(rt, "picks")
			nd = max(0, nd-len(o.L))
			nsl++
		case "rdr":
			o.C = rapid.IntRange(0, 2).Draw(rt, "zero")
		case "reset":
			o.B = rapid.IntRange(0, 15).Draw(rt, "slice")
		case "rall":
			o.A = rapid.IntRange(0, 15).Draw(rt, "src")
			o.C = rapid.IntRange(0, 5).Draw(rt, "mode")
			if nrd > 0 && rapid.Bool().Draw(rt, "frommem") {
				o.C = 0
			}
			nsl++
			o.B = genSize(rt, p.Thr, "size")
			o.L = rapid.SliceOfN(rapid.IntRange(0, 70000), 0, 5).Draw(rt, "chunks")
		}
		p.Ops = append(p.Ops, o)
	}
	p.Free = rapid.SliceOfN(rapid.IntRange(0, 31), 0, 24).Draw(rt, "free")
	return p
}

// ---------------------------------------------------------------- model

type rootM struct {
	id      int
	content []byte // the original bytes
	allocID int    // trackpool allocation (0 = memory not from the pool)
	pooled  bool   // the pool must get the memory back
	nobjs   int    // objects ever created on this root
	firstObjDead,
	derivedOutlived bool
}

type objM struct {
	buf    mem.Buffer
	root   *rootM // nil for a zero-length result without backing root
	lo, hi int
	direct int // references held directly by the caller
	inSl   int // references held by buffer slices
	rdMust int // references held by readers for data not yet consumed
	rdMay  int // references a reader may or may not have dropped already
	first  bool
}

func (o *objM) must() int { return o.direct + o.inSl + o.rdMust }

func (o *objM) want() []byte {
	if o.root == nil {
		return nil
	}
	return o.root.content[o.lo:o.hi]
}

type sliceM struct {
	bs    mem.BufferSlice
	elems []*objM
	live  bool
}

type rdrM struct {
	r      *mem.Reader
	elems  []*objM
	ends   []int
	state  []int // 0 must, 1 may, 2 released
	stream []byte
	pos    int
	live   bool // not closed (a closed reader may still be Reset)
}

type bufModel struct {
	plan    bufPlan
	pool    *trackpool.Pool
	roots   []*rootM
	byAlloc map[int]*rootM
	objs    []*objM
	slices  []*sliceM
	rdrs    []*rdrM
	lastEv  int
	classes map[string]bool
	steps   int
	putSeen, getAfterPut bool
}

func (m *bufModel) class(c string) { m.classes[c] = true }

func pattern(id, n int) []byte {
	b := make([]byte, n)
	for i := range b {
		b[i] = byte(1 + (i*7+id*13+(i>>8)*3)%190)
	}
	return b
}

func samePtr(a, b mem.Buffer) bool {
	if a == nil || b == nil {
		return false
	}
	va, vb := reflect.ValueOf(a), reflect.ValueOf(b)
	if va.Kind() != reflect.Pointer || vb.Kind() != reflect.Pointer {
		return false
	}
	return va.Pointer() == vb.Pointer()
}

func resolve(sel, n int) int { // position selector -> [0, n]
	if sel < 0 {
		k := (-sel - 1) % (n + 1)
		return n - k
	}
	return sel % (n + 1)
}

// newRoot registers a root whose original bytes are content and whose memory
// is data (used to find the pool allocation).
func (m *bufModel) newRoot(content []byte, data []byte) *rootM {
	r := &rootM{id: len(m.roots) + 1, content: content}
	if a, ok := m.pool.LookupData(data); ok && !a.Released {
		if m.byAlloc[a.ID] != nil {
			// A value-typed (SliceBuffer) result that shares the memory of an
			// existing never-pooled root, e.g. MaterializeToBuffer of a
			// single SliceBuffer. Its Free is a no-op; only its content is
			// tracked.
			m.class("result_shares_unpooled_memory")
		} else {
			r.allocID = a.ID
			r.pooled = a.Cap > m.plan.Thr
			m.byAlloc[a.ID] = r
		}
	}
	m.roots = append(m.roots, r)
	if r.pooled {
		m.class("root_pooled")
	} else if r.allocID != 0 {
		m.class("root_pool_memory_below_threshold")
	} else {
		m.class("root_unpooled")
	}
	return r
}

func (m *bufModel) newObj(buf mem.Buffer, r *rootM, lo, hi int) *objM {
	o := &objM{buf: buf, root: r, lo: lo, hi: hi}
	if r != nil {
		o.first = r.nobjs == 0
		r.nobjs++
	}
	m.objs = append(m.objs, o)
	return o
}

func (m *bufModel) directObjs() []*objM {
	var out []*objM
	for _, o := range m.objs {
		if o.direct > 0 {
			out = append(out, o)
		}
	}
	return out
}

func (m *bufModel) liveSlices() []*sliceM {
	var out []*sliceM
	for _, s := range m.slices {
		if s.live {
			out = append(out, s)
		}
	}
	return out
}

func (m *bufModel) openRdrs() []*rdrM {
	var out []*rdrM
	for _, r := range m.rdrs {
		if r.live {
			out = append(out, r)
		}
	}
	return out
}

func (m *bufModel) noteDead(o *objM) {
	if o.root == nil || o.must()+o.rdMay > 0 {
		return
	}
	if o.first {
		o.root.firstObjDead = true
		// anything else still alive on this root?
		for _, x := range m.objs {
			if x != o && x.root == o.root && x.must() > 0 {
				o.root.derivedOutlived = true
			}
		}
	}
}

// check is the per-step oracle.
func (m *bufModel) check(force bool) string {
	if v := m.pool.Violations(); len(v) > 0 {
		return "tracking pool: " + v[0]
	}
	ev := m.pool.Events()
	changed := ev != m.lastEv
	m.lastEv = ev
	mustBy := map[*rootM]int{}
	mayBy := map[*rootM]int{}
	for _, o := range m.objs {
		if o.root != nil {
			mustBy[o.root] += o.must()
			mayBy[o.root] += o.rdMay
		}
	}
	for _, r := range m.roots {
		if r.allocID == 0 {
			continue
		}
		a, _ := m.pool.Alloc(r.allocID)
		if a.Released && mustBy[r] > 0 {
			return fmt.Sprintf("root %d (len %d): memory returned to the pool while %d reference(s) are still live", r.id, len(r.content), mustBy[r])
		}
		if r.pooled && !a.Released && mustBy[r]+mayBy[r] == 0 {
			return fmt.Sprintf("root %d (len %d, cap %d): every reference was freed but the memory was not returned to the pool", r.id, len(r.content), a.Cap)
		}
	}
	if changed || force {
		for i, o := range m.objs {
			if o.must() == 0 {
				continue
			}
			got := o.buf.ReadOnlyData()
			if !bytes.Equal(got, o.want()) {
				return fmt.Sprintf("object %d (root %v, view [%d:%d)) no longer reads the original bytes: %s", i, rootID(o.root), o.lo, o.hi, diff(got, o.want()))
			}
			if o.buf.Len() != len(o.want()) {
				return fmt.Sprintf("object %d Len() = %d, want %d", i, o.buf.Len(), len(o.want()))
			}
		}
	}
	return ""
}

func rootID(r *rootM) any {
	if r == nil {
		return "none"
	}
	return r.id
}

func diff(got, want []byte) string {
	if len(got) != len(want) {
		return fmt.Sprintf("length %d, want %d", len(got), len(want))
	}
	for i := range got {
		if got[i] != want[i] {
			return fmt.Sprintf("byte %d is %#x, want %#x (poison=%#x)", i, got[i], want[i], trackpool.Poison)
		}
	}
	return "equal"
}

// adopt registers a Buffer returned by the code under test that is expected to
// hold exactly content, backed by new memory (a new root).
func (m *bufModel) adopt(b mem.Buffer, content []byte) (*objM, string) {
	got := b.ReadOnlyData()
	if !bytes.Equal(got, content) {
		return nil, "returned buffer holds wrong bytes: " + diff(got, content)
	}
	if len(content) == 0 {
		return m.newObj(b, nil, 0, 0), ""
	}
	r := m.newRoot(append([]byte(nil), content...), got)
	return m.newObj(b, r, 0, len(content)), ""
}

func (m *bufModel) sliceContent(s *sliceM) []byte {
	var out []byte
	for _, e := range s.elems {
		out = append(out, e.want()...)
	}
	return out
}

func (m *bufModel) newReaderModel(r *mem.Reader, s *sliceM) *rdrM {
	rm := &rdrM{r: r, live: true}
	m.bindReader(rm, s)
	m.rdrs = append(m.rdrs, rm)
	return rm
}

func (m *bufModel) bindReader(rm *rdrM, s *sliceM) {
	rm.elems = append([]*objM(nil), s.elems...)
	rm.ends = rm.ends[:0]
	rm.state = rm.state[:0]
	rm.stream = m.sliceContent(s)
	rm.pos = 0
	end := 0
	for _, e := range rm.elems {
		end += len(e.want())
		rm.ends = append(rm.ends, end)
		rm.state = append(rm.state, 0)
		e.rdMust++
	}
	m.advance(rm, 0)
}

func (m *bufModel) advance(rm *rdrM, n int) {
	rm.pos += n
	for i, e := range rm.elems {
		if rm.state[i] == 0 && rm.pos >= rm.ends[i] {
			rm.state[i] = 1
			e.rdMust--
			e.rdMay++
		}
	}
}

func (m *bufModel) releaseReader(rm *rdrM) {
	for i, e := range rm.elems {
		switch rm.state[i] {
		case 0:
			e.rdMust--
		case 1:
			e.rdMay--
		}
		rm.state[i] = 2
	}
	for _, e := range rm.elems {
		m.noteDead(e)
	}
	rm.elems, rm.ends, rm.state, rm.stream, rm.pos = nil, nil, nil, nil, 0
}

func (rm *rdrM) remaining() int { return len(rm.stream) - rm.pos }

// chunkReader is a plain io.Reader (no WriterTo) that hands out data in
// chunks given by the plan and ends with EOF or an injected error, optionally
// together with the last bytes.
type chunkReader struct {
	data     []byte
	chunks   []int
	i        int
	err      error
	withData bool
	given    int
}

func (c *chunkReader) Read(p []byte) (int, error) {
	if len(c.data) == 0 {
		return 0, c.err
	}
	n := len(c.data)
	if c.i < len(c.chunks) {
		n = min(n, c.chunks[c.i])
		c.i++
	}
	n = min(n, len(p))
	copy(p, c.data[:n])
	c.data = c.data[n:]
	c.given += n
	if len(c.data) == 0 && c.withData {
		return n, c.err
	}
	return n, nil
}

var errInjected = errors.New("c53: injected read error")

// ---------------------------------------------------------------- executor

func (m *bufModel) exec(o bop) (viol string) {
	pool := m.pool
	switch o.K {
	case "new":
		size := o.B
		id := len(m.roots) + 1
		if o.A%8 == 0 { // caller-owned memory, nil pool: Free is a no-op
			data := pattern(id, size)
			b := mem.NewBuffer(&data, nil)
			ob, v := m.adopt(b, pattern(id, size))
			if v != "" {
				return "NewBuffer(nil pool): " + v
			}
			ob.direct = 1
			m.class("op_new_nilpool")
			return ""
		}
		hdr := pool.Get(size)
		copy(*hdr, pattern(id, size))
		if o.C > 0 && size > 0 { // hand over a prefix of the pool buffer (as ReadAll does)
			size = size - 1 - (o.C-1)%size
			*hdr = (*hdr)[:size]
			m.class("op_new_prefix")
		}
		b := mem.NewBuffer(hdr, pool)
		content := pattern(id, size)
		got := b.ReadOnlyData()
		if !bytes.Equal(got, content) {
			return "NewBuffer: " + diff(got, content)
		}
		// the root is the pool allocation even when the view is empty
		r := &rootM{id: id, content: content}
		if a, ok := pool.Lookup(hdr); ok {
			r.allocID = a.ID
			r.pooled = a.Cap > m.plan.Thr
			m.byAlloc[a.ID] = r
		}
		m.roots = append(m.roots, r)
		if r.pooled {
			m.class("root_pooled")
		} else {
			m.class("root_pool_memory_below_threshold")
		}
		ob := m.newObj(b, r, 0, size)
		ob.direct = 1
		m.class("op_new")
	case "copy":
		id := len(m.roots) + 1
		src := pattern(id, o.B)
		b := mem.Copy(src, pool)
		for i := range src { // Copy must not alias its argument
			src[i] = 0xEE
		}
		ob, v := m.adopt(b, pattern(id, o.B))
		if v != "" {
			return "Copy: " + v
		}
		ob.direct = 1
		m.class("op_copy")
	case "ref":
		d := m.directObjs()
		if len(d) == 0 {
			return ""
		}
		ob := d[o.A%len(d)]
		ob.buf.Ref()
		ob.direct++
		m.class("op_ref")
	case "free":
		d := m.directObjs()
		if len(d) == 0 {
			return ""
		}
		ob := d[o.A%len(d)]
		ob.buf.Free()
		ob.direct--
		m.noteDead(ob)
		m.class("op_free")
	case "slice":
		d := m.directObjs()
		if len(d) == 0 {
			return ""
		}
		ob := d[o.A%len(d)]
		n := ob.hi - ob.lo
		s, e := resolve(o.B, n), resolve(o.C, n)
		if s > e {
			s, e = e, s
		}
		nb := ob.buf.Slice(s, e)
		if nb == nil {
			return "Slice returned nil"
		}
		switch {
		case samePtr(nb, ob.buf):
			if s != 0 || e != n {
				return fmt.Sprintf("Slice(%d,%d) of a %d byte buffer returned the receiver", s, e, n)
			}
			ob.direct++
			m.class("slice_returns_receiver")
		case e == s:
			if nb.Len() != 0 {
				return fmt.Sprintf("Slice(%d,%d) has length %d", s, e, nb.Len())
			}
			// may or may not hold a reference; treat as a view on the root:
			// a zero-length view holding no reference is fine because nothing
			// can be read through it.
			no := m.newObj(nb, nil, 0, 0)
			no.direct = 1
			m.class("slice_empty")
		default:
			no := m.newObj(nb, ob.root, ob.lo+s, ob.lo+e)
			no.direct = 1
			m.class("slice_view")
			if !ob.first {
				m.class("slice_of_derived")
			}
		}
	case "split":
		var cand []*objM
		for _, x := range m.directObjs() {
			if x.direct == 1 && x.inSl == 0 && x.rdMust == 0 && x.rdMay == 0 {
				cand = append(cand, x)
			}
		}
		if len(cand) == 0 {
			return ""
		}
		ob := cand[o.A%len(cand)]
		n := resolve(o.B, ob.hi-ob.lo)
		l, r := mem.SplitUnsafe(ob.buf, n)
		if l == nil || r == nil {
			return "SplitUnsafe returned nil"
		}
		// the caller's reference continues as l; r is a new reference
		mid := ob.lo + n
		hi := ob.hi
		ob.buf = l
		ob.hi = mid
		no := m.newObj(r, ob.root, mid, hi)
		no.direct = 1
		m.class("op_split")
		if n == 0 || mid == hi {
			m.class("split_at_edge")
		}
		if !ob.first {
			m.class("split_of_derived")
		}
		return m.check(true)
	case "readu":
		var cand []*objM
		for _, x := range m.directObjs() {
			if x.direct == 1 && x.inSl == 0 && x.rdMust == 0 && x.rdMay == 0 {
				cand = append(cand, x)
			}
		}
		if len(cand) == 0 {
			return ""
		}
		ob := cand[o.A%len(cand)]
		n := ob.hi - ob.lo
		var dl int
		switch o.C {
		case 0:
			dl = resolve(o.B, n)
		case 1:
			dl = n + resolve(o.B, 3)
		default:
			dl = resolve(o.B, 5)
		}
		dst := make([]byte, dl)
		want := append([]byte(nil), ob.want()...)
		got, rest := mem.ReadUnsafe(dst, ob.buf)
		wn := min(dl, n)
		if got != wn {
			return fmt.Sprintf("ReadUnsafe(dst %d) on %d bytes returned n=%d, want %d", dl, n, got, wn)
		}
		if !bytes.Equal(dst[:got], want[:got]) {
			return "ReadUnsafe copied wrong bytes: " + diff(dst[:got], want[:got])
		}
		if rest == nil {
			if got != n {
				return fmt.Sprintf("ReadUnsafe returned no remainder after reading %d of %d bytes", got, n)
			}
			ob.direct = 0 // the reference was consumed
			m.noteDead(ob)
			m.class("readu_consumed")
		} else {
			ob.buf = rest
			ob.lo += got
			m.class("readu_partial")
		}
		return m.check(true)
	case "mk":
		s := &sliceM{live: true}
		for _, k := range o.L {
			d := m.directObjs()
			if len(d) == 0 {
				break
			}
			ob := d[k%len(d)]
			ob.direct--
			ob.inSl++
			s.elems = append(s.elems, ob)
			s.bs = append(s.bs, ob.buf)
		}
		m.slices = append(m.slices, s)
		m.class(fmt.Sprintf("mk_%d", min(len(s.elems), 3)))
	case "sref":
		ls := m.liveSlices()
		if len(ls) == 0 {
			return ""
		}
		s := ls[o.A%len(ls)]
		s.bs.Ref()
		c := &sliceM{live: true, bs: append(mem.BufferSlice(nil), s.bs...), elems: append([]*objM(nil), s.elems...)}
		for _, e := range c.elems {
			e.inSl++
		}
		m.slices = append(m.slices, c)
		m.class("op_sref")
	case "sfree":
		ls := m.liveSlices()
		if len(ls) == 0 {
			return ""
		}
		s := ls[o.A%len(ls)]
		s.bs.Free()
		s.live = false
		for _, e := range s.elems {
			e.inSl--
		}
		for _, e := range s.elems {
			m.noteDead(e)
		}
		m.class("op_sfree")
	case "mat":
		ls := m.liveSlices()
		if len(ls) == 0 {
			return ""
		}
		s := ls[o.A%len(ls)]
		want := m.sliceContent(s)
		if got := s.bs.Len(); got != len(want) {
			return fmt.Sprintf("BufferSlice.Len() = %d, want %d", got, len(want))
		}
		got := s.bs.Materialize()
		if !bytes.Equal(got, want) {
			return "Materialize: " + diff(got, want)
		}
		m.class("op_mat")
	case "matb":
		ls := m.liveSlices()
		if len(ls) == 0 {
			return ""
		}
		s := ls[o.A%len(ls)]
		want := m.sliceContent(s)
		nb := s.bs.MaterializeToBuffer(pool)
		if nb == nil {
			return "MaterializeToBuffer returned nil"
		}
		for _, e := range s.elems {
			if samePtr(nb, e.buf) {
				if !bytes.Equal(nb.ReadOnlyData(), want) {
					return "MaterializeToBuffer (shared): " + diff(nb.ReadOnlyData(), want)
				}
				e.direct++
				m.class("matb_shared")
				return ""
			}
		}
		ob, v := m.adopt(nb, want)
		if v != "" {
			return "MaterializeToBuffer: " + v
		}
		ob.direct = 1
		m.class(fmt.Sprintf("matb_%d", min(len(s.elems), 3)))
	case "copyto":
		ls := m.liveSlices()
		if len(ls) == 0 {
			return ""
		}
		s := ls[o.A%len(ls)]
		want := m.sliceContent(s)
		var dl int
		switch o.C {
		case 0:
			dl = resolve(o.B, len(want))
		case 1:
			dl = len(want) + resolve(o.B, 3)
		default:
			dl = resolve(o.B, 5)
		}
		dst := make([]byte, dl)
		n := s.bs.CopyTo(dst)
		if n != min(dl, len(want)) {
			return fmt.Sprintf("CopyTo(dst %d) of %d bytes returned %d", dl, len(want), n)
		}
		if !bytes.Equal(dst[:n], want[:n]) {
			return "CopyTo: " + diff(dst[:n], want[:n])
		}
		m.class("op_copyto")
	case "rdr":
		ls := m.liveSlices()
		if len(ls) == 0 {
			return ""
		}
		s := ls[o.A%len(ls)]
		var r *mem.Reader
		if o.C == 0 {
			r = new(mem.Reader)
			if r.Remaining() != 0 {
				return "zero Reader has Remaining() != 0"
			}
			r.Reset(s.bs)
			m.class("rdr_zero_reset")
		} else {
			r = s.bs.Reader()
			m.class("rdr_new")
		}
		rm := m.newReaderModel(r, s)
		if r.Remaining() != rm.remaining() {
			return fmt.Sprintf("new Reader Remaining() = %d, want %d", r.Remaining(), rm.remaining())
		}
	case "read":
		rs := m.rdrs
		if len(rs) == 0 {
			return ""
		}
		rm := rs[o.A%len(rs)]
		rem := rm.remaining()
		var n int
		switch o.C {
		case 0:
			n = resolve(o.B, rem)
		case 1:
			n = rem + resolve(o.B, 3)
		default:
			n = resolve(o.B, 5)
		}
		buf := make([]byte, n)
		got, err := rm.r.Read(buf)
		wn := min(n, rem)
		if got != wn {
			return fmt.Sprintf("Reader.Read(%d) with %d remaining returned %d", n, rem, got)
		}
		if !bytes.Equal(buf[:got], rm.stream[rm.pos:rm.pos+got]) {
			return "Reader.Read: " + diff(buf[:got], rm.stream[rm.pos:rm.pos+got])
		}
		if rem > 0 && err != nil {
			return fmt.Sprintf("Reader.Read with %d remaining returned error %v", rem, err)
		}
		if rem == 0 && n > 0 && err != io.EOF {
			return fmt.Sprintf("Reader.Read at the end returned error %v, want io.EOF", err)
		}
		m.advance(rm, got)
		if rm.r.Remaining() != rm.remaining() {
			return fmt.Sprintf("Remaining() = %d after Read, want %d", rm.r.Remaining(), rm.remaining())
		}
		if !rm.live {
			m.class("read_after_close")
		} else {
			m.class("op_read")
		}
	case "rbyte":
		rs := m.rdrs
		if len(rs) == 0 {
			return ""
		}
		rm := rs[o.A%len(rs)]
		b, err := rm.r.ReadByte()
		if rm.remaining() == 0 {
			if err != io.EOF {
				return fmt.Sprintf("ReadByte at the end returned (%d, %v), want io.EOF", b, err)
			}
			return ""
		}
		if err != nil || b != rm.stream[rm.pos] {
			return fmt.Sprintf("ReadByte = (%#x, %v), want %#x", b, err, rm.stream[rm.pos])
		}
		m.advance(rm, 1)
		m.class("op_rbyte")
	case "peek":
		rs := m.rdrs
		if len(rs) == 0 {
			return ""
		}
		rm := rs[o.A%len(rs)]
		rem := rm.remaining()
		var n int
		switch o.C {
		case 0:
			n = resolve(o.B, rem)
		case 1:
			n = rem + 1 + resolve(o.B, 2)
		default:
			n = resolve(o.B, 5)
		}
		var res [][]byte
		pre := o.A % 3
		for i := 0; i < pre; i++ {
			res = append(res, []byte{byte(i)})
		}
		out, err := rm.r.Peek(n, res)
		if n > rem {
			if err == nil {
				return fmt.Sprintf("Peek(%d) with %d remaining returned no error", n, rem)
			}
			m.class("peek_short")
			return ""
		}
		if err != nil {
			return fmt.Sprintf("Peek(%d) with %d remaining returned %v", n, rem, err)
		}
		if len(out) < pre {
			return "Peek dropped the entries of the provided slice"
		}
		for i := 0; i < pre; i++ {
			if len(out[i]) != 1 || out[i][0] != byte(i) {
				return "Peek modified the entries of the provided slice"
			}
		}
		var cat []byte
		for _, v := range out[pre:] {
			cat = append(cat, v...)
		}
		if !bytes.Equal(cat, rm.stream[rm.pos:rm.pos+n]) {
			return "Peek: " + diff(cat, rm.stream[rm.pos:rm.pos+n])
		}
		if rm.r.Remaining() != rem {
			return "Peek advanced the reader"
		}
		m.class("op_peek")
	case "disc":
		rs := m.rdrs
		if len(rs) == 0 {
			return ""
		}
		rm := rs[o.A%len(rs)]
		rem := rm.remaining()
		var n int
		switch o.C {
		case 0:
			n = resolve(o.B, rem)
		case 1:
			n = rem + 1 + resolve(o.B, 2)
		default:
			n = resolve(o.B, 5)
		}
		got, err := rm.r.Discard(n)
		if got != min(n, rem) {
			return fmt.Sprintf("Discard(%d) with %d remaining discarded %d", n, rem, got)
		}
		if (err != nil) != (n > rem) {
			return fmt.Sprintf("Discard(%d) with %d remaining returned error %v", n, rem, err)
		}
		m.advance(rm, got)
		if rm.r.Remaining() != rm.remaining() {
			return fmt.Sprintf("Remaining() = %d after Discard, want %d", rm.r.Remaining(), rm.remaining())
		}
		m.class("op_disc")
	case "rem":
		rs := m.rdrs
		if len(rs) == 0 {
			return ""
		}
		rm := rs[o.A%len(rs)]
		if rm.r.Remaining() != rm.remaining() {
			return fmt.Sprintf("Remaining() = %d, want %d", rm.r.Remaining(), rm.remaining())
		}
	case "reset":
		rs := m.rdrs
		ls := m.liveSlices()
		if len(rs) == 0 || len(ls) == 0 {
			return ""
		}
		rm := rs[o.A%len(rs)]
		s := ls[o.B%len(ls)]
		if rm.live && rm.remaining() > 0 {
			m.class("reset_with_unread")
		}
		// Reset frees the old slice before it references the new one; a
		// correct caller therefore holds its own reference to s (it does: s
		// is a live slice).
		rm.r.Reset(s.bs)
		m.releaseReader(rm)
		rm.live = true
		m.bindReader(rm, s)
		if rm.r.Remaining() != rm.remaining() {
			return fmt.Sprintf("Remaining() = %d after Reset, want %d", rm.r.Remaining(), rm.remaining())
		}
		m.class("op_reset")
	case "close":
		rs := m.openRdrs()
		if len(rs) == 0 {
			return ""
		}
		rm := rs[o.A%len(rs)]
		if rm.remaining() > 0 {
			m.class("close_with_unread")
			if rm.pos > 0 {
				m.class("close_partially_read")
			}
		}
		if err := rm.r.Close(); err != nil {
			return fmt.Sprintf("Close returned %v", err)
		}
		m.releaseReader(rm)
		rm.live = false
		if rm.r.Remaining() != 0 {
			return "Remaining() != 0 after Close"
		}
		m.class("op_close")
	case "rall":
		return m.execReadAll(o)
	case "flush":
		m.class("op_flush")
		return m.releaseAll(o.L)
	case "write":
		ls := m.liveSlices()
		var s *sliceM
		if len(ls) == 0 || o.A%4 == 0 {
			s = &sliceM{live: true}
			m.slices = append(m.slices, s)
		} else {
			s = ls[o.A%len(ls)]
		}
		id := len(m.roots) + 1
		src := pattern(id, o.B)
		before := len(s.bs)
		w := mem.NewWriter(&s.bs, pool)
		n, err := w.Write(src)
		if n != len(src) || err != nil {
			return fmt.Sprintf("Writer.Write(%d bytes) = (%d, %v)", len(src), n, err)
		}
		if len(s.bs) != before+1 {
			return fmt.Sprintf("Writer.Write appended %d buffers, want 1", len(s.bs)-before)
		}
		for i := range src {
			src[i] = 0xEE
		}
		ob, v := m.adopt(s.bs[before], pattern(id, o.B))
		if v != "" {
			return "Writer.Write: " + v
		}
		ob.inSl = 1
		s.elems = append(s.elems, ob)
		m.class("op_write")
	}
	return ""
}

func (m *bufModel) execReadAll(o bop) string {
	pool := m.pool
	var (
		src     io.Reader
		want    []byte
		wantErr error
		cr      *chunkReader
		rm      *rdrM
	)
	id := len(m.roots) + 1
	switch o.C {
	case 0: // an existing mem.Reader (plain io.Reader path)
		if len(m.rdrs) == 0 {
			return ""
		}
		rm = m.rdrs[o.A%len(m.rdrs)]
		want = append([]byte(nil), rm.stream[rm.pos:]...)
		src = rm.r
		m.class("rall_memreader")
	case 1: // io.WriterTo path
		want = pattern(id, o.B)
		src = bytes.NewReader(append([]byte(nil), want...))
		m.class("rall_writerto")
	default:
		want = pattern(id, o.B)
		cr = &chunkReader{data: append([]byte(nil), want...), chunks: o.L, err: io.EOF, withData: o.C == 3 || o.C == 5}
		if o.C >= 4 {
			cr.err = errInjected
			wantErr = errInjected
			m.class("rall_error")
		} else {
			m.class("rall_chunked")
		}
		src = cr
	}
	before := len(pool.Allocs())
	res, err := mem.ReadAll(src, pool)
	if err != wantErr {
		return fmt.Sprintf("ReadAll returned error %v, want %v", err, wantErr)
	}
	if rm != nil {
		m.advance(rm, len(want))
	}
	got := res.Materialize()
	if wantErr == nil {
		if !bytes.Equal(got, want) {
			return "ReadAll: " + diff(got, want)
		}
	} else if !bytes.HasPrefix(want, got) {
		return "ReadAll (failed read) returned bytes that are not a prefix of the data read"
	}
	// every returned buffer is a new root owned by the caller
	s := &sliceM{live: true, bs: res}
	off := 0
	for _, b := range res {
		n := b.Len()
		ob, v := m.adopt(b, got[off:off+n])
		if v != "" {
			return "ReadAll: " + v
		}
		ob.inSl = 1
		s.elems = append(s.elems, ob)
		off += n
	}
	m.slices = append(m.slices, s)
	if len(res) > 1 {
		m.class("rall_multi_buffer")
	}
	// pool buffers obtained by ReadAll are either handed to the caller or
	// returned right away
	for _, a := range pool.Allocs()[before:] {
		if !a.Released && m.byAlloc[a.ID] == nil {
			return fmt.Sprintf("ReadAll took allocation #%d (cap %d) from the pool and neither returned it nor handed it to the caller", a.ID, a.Cap)
		}
		if a.Released {
			m.class("rall_unused_buffer_returned")
		}
	}
	return ""
}

// cleanup frees everything the caller still owns, in the order given by the
// plan, checking the oracle after each release.
func (m *bufModel) cleanup() string {
	if v := m.releaseAll(m.plan.Free); v != "" {
		return "during clean-up: " + v
	}
	return m.finalCheck()
}

// releaseAll frees every reference the caller holds, in the given order.
func (m *bufModel) releaseAll(order []int) string {
	type holder struct {
		kind int // 0 direct ref, 1 slice, 2 reader
		o    *objM
		s    *sliceM
		r    *rdrM
	}
	for i := 0; ; i++ {
		var hs []holder
		for _, o := range m.objs {
			if o.direct > 0 {
				hs = append(hs, holder{kind: 0, o: o})
			}
		}
		for _, s := range m.slices {
			if s.live {
				hs = append(hs, holder{kind: 1, s: s})
			}
		}
		for _, r := range m.rdrs {
			if r.live {
				hs = append(hs, holder{kind: 2, r: r})
			}
		}
		if len(hs) == 0 {
			break
		}
		k := 0
		if i < len(order) {
			k = order[i]
		}
		h := hs[k%len(hs)]
		switch h.kind {
		case 0:
			h.o.buf.Free()
			h.o.direct--
			m.noteDead(h.o)
		case 1:
			h.s.bs.Free()
			h.s.live = false
			for _, e := range h.s.elems {
				e.inSl--
			}
			for _, e := range h.s.elems {
				m.noteDead(e)
			}
		case 2:
			h.r.r.Close()
			m.releaseReader(h.r)
			h.r.live = false
		}
		if v := m.check(false); v != "" {
			return v
		}
	}
	return ""
}

func (m *bufModel) finalCheck() string {
	// everything has been freed
	for _, o := range m.objs {
		if o.must()+o.rdMay != 0 {
			return "harness: object still referenced after clean-up"
		}
	}
	for _, a := range m.pool.Allocs() {
		r := m.byAlloc[a.ID]
		switch {
		case r == nil && !a.Released:
			return fmt.Sprintf("allocation #%d (cap %d) was taken from the pool, never handed to the caller and never returned", a.ID, a.Cap)
		case r != nil && r.pooled && !a.Released:
			return fmt.Sprintf("root %d: memory never returned to the pool", r.id)
		}
	}
	m.pool.CheckPoison()
	if v := m.pool.Violations(); len(v) > 0 {
		return "tracking pool: " + v[0]
	}
	return ""
}

func runBuf(_ *testing.T, p bufPlan) (res vk.Result) {
	old := imem.BufferPoolingThreshold
	imem.BufferPoolingThreshold = p.Thr
	defer func() { imem.BufferPoolingThreshold = old }()
	opt := trackpool.Options{Reuse: p.Reuse, DirtyGet: p.Dirty}
	if p.Slack > 0 {
		opt.Slack = func(n int) int { return (n*7 + p.Slack) % 97 }
	}
	m := &bufModel{plan: p, pool: trackpool.New(opt), byAlloc: map[int]*rootM{}, classes: map[string]bool{}}
	step := -1
	defer func() {
		if r := recover(); r != nil {
			op := "clean-up"
			if step >= 0 && step < len(p.Ops) {
				op = fmt.Sprintf("op %d %+v", step, p.Ops[step])
			}
			res = vk.Bad("panic during %s: %v\n%s", op, r, debug.Stack())
		}
	}()
	for i, o := range p.Ops {
		step = i
		_, putsBefore, _ := m.pool.Stats()
		getsBefore, _, _ := m.pool.Stats()
		if v := m.exec(o); v != "" {
			return vk.Bad("op %d %+v: %s", i, o, v)
		}
		if v := m.check(false); v != "" {
			return vk.Bad("after op %d %+v: %s", i, o, v)
		}
		gets, puts, _ := m.pool.Stats()
		if m.putSeen && gets > getsBefore {
			m.getAfterPut = true
		}
		if puts > putsBefore {
			m.putSeen = true
		}
		m.steps++
	}
	step = len(p.Ops)
	if v := m.cleanup(); v != "" {
		return vk.Bad("%s", v)
	}
	_, _, reuses := m.pool.Stats()
	outlived := false
	for _, r := range m.roots {
		if r.pooled && r.derivedOutlived {
			outlived = true
		}
	}
	if outlived {
		m.class("derived_view_outlived_first_handle")
	}
	if reuses > 0 {
		m.class("pool_memory_recycled")
	}
	if m.getAfterPut {
		m.class("get_after_put")
	}
	if p.Thr == 1024 {
		m.class("threshold_production")
	} else {
		m.class("threshold_lowered")
	}
	res = vk.Result{NonTrivial: outlived && m.getAfterPut, Steps: m.steps}
	for c := range m.classes {
		res.Classes = append(res.Classes, c)
	}
	sort.Strings(res.Classes)
	return res
}

func TestVerifC53Buffers(t *testing.T) {
	vk.Check(t, vk.Unit[bufPlan]{
		ID: "C53", Name: "buffers",
		Rule: "API call lists (NewBuffer/Copy/Ref/Free/Slice/SplitUnsafe/ReadUnsafe, BufferSlice Ref/Free/Materialize/MaterializeToBuffer/CopyTo/Reader, Reader Read/ReadByte/Peek/Discard/Remaining/Reset/Close, ReadAll over mem.Reader/WriterTo/chunked readers with EOF or error, NewWriter) over live handles with a tracking pool (recycling, dirty memory, capacity slack) and pooling threshold 1024 or lowered (0,1,8,16); sizes around the threshold and the 32 KiB ReadAll chunk; clean-up order from the plan. non-trivial = a pooled root had a derived view (slice/split/reader/materialized reference) that outlived the first handle, and the pool served a Get after a Put",
		Gen:  genBufPlan, Run: runBuf,
	})
}
