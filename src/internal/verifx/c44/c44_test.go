package c44_test

// C44: management-server fallback follows gRFC A71 (1..3 servers).

import (
	"sort"
	"testing"

	"google.golang.org/grpc/internal/verifkit/vk"
	"google.golang.org/grpc/internal/verifkit/xdsrig"
	"pgregory.net/rapid"
)

func cfg(authPct int) xdsrig.GenCfg {
	return xdsrig.GenCfg{
		MaxServers: 3, MinOps: 4, MaxOps: vk.Pick(24, 100),
		WWatch: 16, WUnwatch: 7, WResp: 26, WBreak: 12, WGrant: 22, WRelease: 4, WAdvance: 4, WRestart: 2, WFailover: 8, WRevert: 7,
		UnknownPct: 0, HoldPct: 5, BadPct: 20, RefusePct: 40, IgnoreDel: false,
		MaxAuths: 3, AuthPct: authPct,
	}
}

// gen: unit "fallback" - mostly the top-level authority alone (the original
// domain), 35 % of the multi-server cases with 1..3 named authorities.
func gen(rt *rapid.T) xdsrig.Plan {
	p := xdsrig.Gen(rt, cfg(35))
	na := 1 + len(p.Auths)
	if rapid.IntRange(0, 9).Draw(rt, "prefix") < 8 {
		pre := []xdsrig.Op{{K: "watch", T: rapid.IntRange(0, 1).Draw(rt, "pt"), N: xdsrig.GenName(rt), A: rapid.IntRange(0, na-1).Draw(rt, "pa")}}
		if na > 1 && rapid.Bool().Draw(rt, "second_authority") {
			// a second authority is in use from the start (its servers may overlap)
			pre = append(pre, xdsrig.Op{K: "watch", T: rapid.IntRange(0, 1).Draw(rt, "pt2"), N: xdsrig.GenName(rt), A: rapid.IntRange(0, na-1).Draw(rt, "pa2")})
		}
		// half of those start with an unreachable primary (-> fallback, if >= 2 servers)
		if rapid.Bool().Draw(rt, "primary_down") {
			pre = append(pre, xdsrig.Op{K: "grant", S: rapid.IntRange(0, 2).Draw(rt, "ps"), Accept: false})
		}
		p.Ops = append(pre, p.Ops...)
	}
	return p
}

func rank(x int, set ...int) int {
	r := 0
	for _, y := range set {
		if y < x {
			r++
		}
	}
	return r
}

// genShared: unit "shared" - always 2..3 servers and 1..3 named authorities
// whose server lists overlap with each other and with the top-level list.
// 60 % of the cases open with a skeleton that makes two authorities meet on one
// server at different priority positions: authority X = [p, f, ...] and
// authority Y = [f, ...] both get a watch, p refuses its stream before any
// response (X falls back onto the channel Y already holds), and - after a few
// free ops - p comes up and answers (X reverts while Y keeps using f). All
// operands stay relative; the ops around and after the skeleton are free.
func genShared(rt *rapid.T) xdsrig.Plan {
	c := cfg(100)
	p := xdsrig.Gen(rt, c)
	if p.Servers < 2 {
		p.Servers = rapid.IntRange(2, 3).Draw(rt, "servers3")
		p.IgnoreDel = make([]bool, p.Servers)
	}
	if len(p.Auths) == 0 {
		p.Auths = xdsrig.GenAuths(rt, p.Servers, c.MaxAuths)
		// the ops were drawn for the top-level authority only: redraw
		n := len(p.Ops)
		p.Ops = nil
		for len(p.Ops) < n {
			p.Ops = append(p.Ops, xdsrig.GenOpsAuth(rt, c, 1+len(p.Auths))...)
		}
	}
	p.Auths = xdsrig.NormAuths(p.Servers, p.Auths)
	na := 1 + len(p.Auths)
	list := func(a int) []int {
		if a == 0 || len(p.Auths[a-1]) == 0 {
			l := make([]int, p.Servers)
			for i := range l {
				l[i] = i
			}
			return l
		}
		return p.Auths[a-1]
	}
	if rapid.IntRange(0, 9).Draw(rt, "skeleton") >= 6 {
		// free start: one or two watches
		pre := []xdsrig.Op{{K: "watch", T: rapid.IntRange(0, 1).Draw(rt, "pt"), N: xdsrig.GenName(rt), A: rapid.IntRange(0, na-1).Draw(rt, "pa")}}
		if rapid.Bool().Draw(rt, "second_authority") {
			pre = append(pre, xdsrig.Op{K: "watch", T: rapid.IntRange(0, 1).Draw(rt, "pt2"), N: xdsrig.GenName(rt), A: rapid.IntRange(0, na-1).Draw(rt, "pa2")})
		}
		p.Ops = append(pre, p.Ops...)
		return p
	}
	// X: an authority with >= 2 servers (the top-level one always qualifies)
	var xs []int
	for a := 0; a < na; a++ {
		if len(list(a)) >= 2 {
			xs = append(xs, a)
		}
	}
	x := xs[rapid.IntRange(0, len(xs)-1).Draw(rt, "x")]
	pr, fb := list(x)[0], list(x)[1]
	// Y: another authority whose primary is X's first fallback server; if the
	// drawn configuration has none, a named authority (!= X) is given such a list
	var ys []int
	for a := 0; a < na; a++ {
		if a != x && list(a)[0] == fb {
			ys = append(ys, a)
		}
	}
	y := 0
	if len(ys) > 0 {
		y = ys[rapid.IntRange(0, len(ys)-1).Draw(rt, "y")]
	} else {
		yl := []int{fb}
		if rapid.Bool().Draw(rt, "ylonger") {
			yl = append(yl, pr)
		}
		switch {
		case x != 1 && len(p.Auths) >= 1:
			y = 1
			p.Auths[0] = yl
		case len(p.Auths) >= 2:
			y = 2
			p.Auths[1] = yl
		default:
			p.Auths = append(p.Auths, yl)
			y = len(p.Auths)
			na = 1 + len(p.Auths)
		}
	}
	tx, ty := rapid.IntRange(0, 1).Draw(rt, "tx"), rapid.IntRange(0, 1).Draw(rt, "ty")
	nx, ny := xdsrig.GenName(rt), xdsrig.GenName(rt)
	wx := xdsrig.Op{K: "watch", T: tx, N: nx, A: x}
	wy := xdsrig.Op{K: "watch", T: ty, N: ny, A: y}
	pre := []xdsrig.Op{wy, wx}
	if rapid.Bool().Draw(rt, "xfirst") {
		pre = []xdsrig.Op{wx, wy}
	}
	if rapid.Bool().Draw(rt, "x2") {
		pre = append(pre, xdsrig.Op{K: "watch", T: rapid.IntRange(0, 1).Draw(rt, "tx2"), N: xdsrig.GenName(rt), A: x})
	}
	// both channels are waiting for their stream: pr and fb
	if rapid.Bool().Draw(rt, "fb_up_first") {
		pre = append(pre, xdsrig.Op{K: "grant", S: rank(fb, pr), Accept: true}) // waiting: {pr, fb}
		if rapid.Bool().Draw(rt, "fb_answers") {
			pre = append(pre, xdsrig.Op{K: "resp", S: 0, T: ty, Ver: 1, Nonce: 1, Res: []xdsrig.ResSpec{{N: ny, A: y, V: 1}}})
		}
		pre = append(pre, xdsrig.Op{K: "grant", S: 0, Accept: false}) // waiting: {pr}
	} else {
		pre = append(pre, xdsrig.Op{K: "grant", S: rank(pr, fb), Accept: false}) // waiting: {pr, fb}
	}
	// X is now on fb together with Y; pr keeps retrying
	for k := rapid.IntRange(0, 3).Draw(rt, "mid"); k > 0; k-- {
		pre = append(pre, xdsrig.GenOpsAuth(rt, c, na)...)
	}
	if rapid.IntRange(0, 9).Draw(rt, "revert") < 7 {
		// pr comes up and answers with a valid resource of X
		pre = append(pre, xdsrig.Op{K: "release", All: true},
			xdsrig.Op{K: "grant", S: rank(pr, fb), Accept: true}, // if fb is still waiting as well
			xdsrig.Op{K: "resp", S: rank(pr, fb), T: tx, Ver: 2, Nonce: 2, Res: []xdsrig.ResSpec{{N: nx, A: x, V: rapid.IntRange(0, 2).Draw(rt, "xv")}}})
	}
	p.Ops = append(pre, p.Ops...)
	return p
}

// sigs in the order in which they are reported when several occur in one case
var sigs = []string{xdsrig.SigFallbackNonActive}

func run(t *testing.T, p xdsrig.Plan) vk.Result { return runWith(t, p, false) }

func runShared(t *testing.T, p xdsrig.Plan) vk.Result { return runWith(t, p, true) }

func runWith(t *testing.T, p xdsrig.Plan, shared bool) vk.Result {
	rep := xdsrig.Execute(t, p, xdsrig.AspFallback)
	res := vk.Result{Steps: rep.Steps}
	for c := range rep.Classes {
		res.Classes = append(res.Classes, c)
	}
	sort.Strings(res.Classes)
	if rep.OffAspect != "" {
		res.Classes = append(res.Classes, "stopped_offaspect_divergence")
		return res
	}
	res.NonTrivial = rep.Stats.Fallbacks >= 1 && rep.Stats.Reverts >= 1
	if shared {
		res.NonTrivial = rep.Stats.SharedReverts >= 1
	}
	if rep.Violation != "" {
		return vk.Bad("%s", rep.Violation).With(res.Classes...)
	}
	for _, s := range sigs {
		if d, ok := rep.Known[s]; ok {
			r := vk.Bad("%s", d).With(res.Classes...)
			r.Sig = s
			return r
		}
	}
	return res
}

func TestVerifC44Fallback(t *testing.T) {
	vk.Check(t, vk.Unit[xdsrig.Plan]{
		ID: "C44", Name: "fallback",
		Rule: "1..3 management servers (70% >= 2), top-level authority and - in 35% of the multi-server cases - 1..3 named authorities whose server lists are ordered subsets of the same servers; op sequences of watch/unwatch (any authority), stream refusals and breaks before/after a response on any server, stream establishment on any server, responses from any connected server (valid/invalid/missing resources of any authority), watch-expiry advances; after every event the set of channels created/released by the client and the subscriptions requested from each server are compared with a gRFC A71 reference model (per authority: active server, held channels; per server: union of the names of the authorities using it). non-trivial = a fallback happened and a later response from a higher-priority server made the client revert",
		Gen:  gen, Run: run,
	})
}

func TestVerifC44Shared(t *testing.T) {
	vk.Check(t, vk.Unit[xdsrig.Plan]{
		ID: "C44", Name: "shared",
		Rule: "2..3 management servers, the top-level authority plus 1..3 named authorities (xdstp names) whose server lists are ordered subsets / permutations of the pool, so one reference-counted channel is commonly the primary of one authority and a fallback of another; 60% of the cases open with: authority X=[p,f,..] and Y=[f,..] both watched, p refuses its stream (X falls back onto the channel Y holds), free ops, p comes up and answers; otherwise and afterwards free ops as in unit fallback. Same A71 model oracle: per server the requested names must be the union over the authorities currently using it, a channel is closed iff no authority holds it. non-trivial = some authority reverted to a higher-priority server while another authority still held a lower-priority server it left (its names must disappear there, the channel must stay open)",
		Gen:  genShared, Run: runShared,
	})
}
