package c44_test

// C44: management-server fallback follows gRFC A71 (1..3 servers).

import (
	"os"
	"sort"
	"testing"

	"google.golang.org/grpc/internal/verifkit/vk"
	"google.golang.org/grpc/internal/verifkit/xdsrig"
	"pgregory.net/rapid"
)

func gen(rt *rapid.T) xdsrig.Plan {
	c := xdsrig.GenCfg{
		MaxServers: 3, MinOps: 4, MaxOps: vk.Pick(24, 100),
		WWatch: 16, WUnwatch: 7, WResp: 26, WBreak: 12, WGrant: 22, WRelease: 4, WAdvance: 4, WRestart: 2, WFailover: 8, WRevert: 7,
		UnknownPct: 0, HoldPct: 5, BadPct: 20, RefusePct: 40, IgnoreDel: false,
		MaxAuths: 3, AuthPct: 75,
	}
	p := xdsrig.Gen(rt, c)
	na := 1 + len(p.Auths)
	if rapid.IntRange(0, 9).Draw(rt, "prefix") < 8 {
		pre := []xdsrig.Op{{K: "watch", T: rapid.IntRange(0, 1).Draw(rt, "pt"), N: xdsrig.GenName(rt), A: rapid.IntRange(0, na-1).Draw(rt, "pa")}}
		if na > 1 && rapid.Bool().Draw(rt, "second_authority") {
			// a second authority is in use from the start (its servers may overlap)
			pre = append(pre, xdsrig.Op{K: "watch", T: rapid.IntRange(0, 1).Draw(rt, "pt2"), N: xdsrig.GenName(rt), A: rapid.IntRange(0, na-1).Draw(rt, "pa2")})
		}
		// half of those start with an unreachable primary (-> fallback, if >= 2 servers)
		if rapid.Bool().Draw(rt, "primary_down") {
			pre = append(pre, xdsrig.Op{K: "grant", S: rapid.IntRange(0, 2).Draw(rt, "ps"), Accept: false})
		}
		p.Ops = append(pre, p.Ops...)
	}
	return p
}

// sigs in the order in which they are reported when several occur in one case
var sigs = []string{xdsrig.SigFallbackNonActive}

func run(t *testing.T, p xdsrig.Plan) vk.Result {
	rep := xdsrig.Execute(t, p, xdsrig.AspFallback)
	res := vk.Result{Steps: rep.Steps}
	for c := range rep.Classes {
		res.Classes = append(res.Classes, c)
	}
	sort.Strings(res.Classes)
	if rep.OffAspect != "" {
		res.Classes = append(res.Classes, "stopped_offaspect_divergence")
		if os.Getenv("VERIF_C44_DEBUG_OFFASPECT") != "" {
			return vk.Bad("DEBUG offaspect: %s", rep.OffAspect)
		}
		return res
	}
	res.NonTrivial = rep.Stats.Fallbacks >= 1 && rep.Stats.Reverts >= 1
	if rep.Violation != "" {
		return vk.Bad("%s", rep.Violation).With(res.Classes...)
	}
	for _, s := range sigs {
		if d, ok := rep.Known[s]; ok {
			r := vk.Bad("%s", d).With(res.Classes...)
			r.Sig = s
			return r
		}
	}
	return res
}

func TestVerifC44Fallback(t *testing.T) {
	vk.Check(t, vk.Unit[xdsrig.Plan]{
		ID: "C44", Name: "fallback",
		Rule: "1..3 management servers (70% >= 2); op sequences of watch/unwatch, stream refusals and breaks before/after a response on any server, stream establishment on any server, responses from any connected server (valid/invalid/missing resources), watch-expiry advances; after every event the set of channels created/released by the client and the subscriptions requested from each server are compared with a gRFC A71 reference model. non-trivial = a fallback happened and a later response from a higher-priority server made the client revert",
		Gen:  gen, Run: run,
	})
}
