package c13_test

// Unit "tokenrace" (C13 liveness / NewStream-waiter half of C17): the state in
// which the ONE wake-up token of http2Client.streamsQuotaAvailable has been
// handed to (or is pending for) a waiter whose context has ended. Whatever
// that waiter does, the wake-up must be passed on: at the next quiescent point
// no other NewStream call may be blocked while stream quota is free.
//
// Same executor and oracles as unit "admission"; only the generator differs:
// it composes plans from short op sequences ("gadgets") that put a context
// end and a quota release into ONE scheduling step, mixed with ops of the
// general mix. Every gadget consists of ordinary plan ops.
//
// Go facts the gadgets rely on (GOMAXPROCS=1, synctest bubble):
//   - a send on a channel with a goroutine blocked in select hands the value
//     to the FIRST such goroutine and fixes the arm its select will return
//     with, at the time of the send; a later cancel does not change the arm;
//   - the plan's goroutine keeps the only P until it blocks (synctest.Wait /
//     time.Sleep); ClientStream.Close(err) -> closeStream -> executeAndPut puts
//     the token synchronously and context cancel functions do not block, so
//     "finish(how=cancel) nowait; cancel_waiter" is atomic for everybody else;
//   - a goroutine parked by the harness at h2c.newStream.beforeWait is
//     registered as a waiter but not in the select: a token sent meanwhile
//     stays in the channel's buffer, and after its context ended and it is
//     released both arms are ready (select then picks pseudo-randomly).

import (
	"testing"

	"google.golang.org/grpc/internal/verifkit/vk"
	"pgregory.net/rapid"
)

func trNew(rt *rapid.T, dlShare int) Op {
	op := Op{K: opNew}
	if rapid.IntRange(0, 99).Draw(rt, "has_dl") < dlShare {
		op.N = rapid.IntRange(50, 3000).Draw(rt, "dl")
	}
	return op
}

// trFinish: mostly the application-side close (how=0), which releases quota
// synchronously on the plan's goroutine.
func trFinish(rt *rapid.T, nowait bool) Op {
	how := howCancel
	if rapid.IntRange(0, 9).Draw(rt, "other_how") == 0 {
		how = rapid.IntRange(0, numHow-1).Draw(rt, "how")
	}
	return Op{K: opFinish, S: rapid.IntRange(0, 5).Draw(rt, "s"), Cnt: rapid.SampledFrom([]int{1, 1, 1, 1, 2, 3}).Draw(rt, "cnt"), How: how, NoWait: nowait}
}

func trCancel(rt *rapid.T, nowait bool) Op {
	return Op{K: opCancelWaiter, S: rapid.SampledFrom([]int{0, 0, 0, 0, 1, 1, 2, 3}).Draw(rt, "s"), Cnt: rapid.SampledFrom([]int{1, 1, 1, 1, 2}).Draw(rt, "cnt"), NoWait: nowait}
}

func genTokenRace(rt *rapid.T) Plan {
	limit := rapid.SampledFrom([]int{1, 1, 1, 2, 2, 3}).Draw(rt, "limit0")
	p := Plan{Limit0: limit, ZeroIWS: rapid.IntRange(0, 7).Draw(rt, "zero_iws") == 0}
	add := func(ops ...Op) { p.Ops = append(p.Ops, ops...) }
	noise := func(max int, late bool) {
		for i, n := 0, rapid.IntRange(0, max).Draw(rt, "noise"); i < n; i++ {
			add(genOps(rt, late)...)
		}
	}
	for i := 0; i < limit; i++ {
		add(Op{K: opNew}) // fill the quota
	}
	rounds := rapid.IntRange(1, vk.Pick(3, 10)).Draw(rt, "rounds")
	for r := 0; r < rounds; r++ {
		switch g := rapid.IntRange(0, 11).Draw(rt, "gadget"); {
		case g < 4:
			// close, then cancel, in one step: the first blocked waiter is handed the token and its context
			// ends before it runs again.
			for i, n := 0, rapid.IntRange(2, 4).Draw(rt, "waiters"); i < n; i++ {
				add(trNew(rt, 20))
			}
			noise(1, false)
			add(trFinish(rt, true), trCancel(rt, false))
		case g < 6:
			// cancel, then close, in one step: the cancelled waiter's select is fixed on ctx.Done() when the token is sent.
			for i, n := 0, rapid.IntRange(2, 3).Draw(rt, "waiters"); i < n; i++ {
				add(trNew(rt, 20))
			}
			add(trCancel(rt, true), trFinish(rt, false))
		case g < 8:
			// as before, but another waiter sits in the check-then-wait window, so the token is buffered
			// while the cancelled waiter leaves.
			add(trNew(rt, 0))
			add(Op{K: opPark, N: rapid.IntRange(1, 2).Draw(rt, "n")})
			for i, n := 0, rapid.IntRange(1, 2).Draw(rt, "late_waiters"); i < n; i++ {
				add(trNew(rt, 0))
			}
			add(trCancel(rt, true), trFinish(rt, false))
			add(Op{K: opRelease, S: rapid.IntRange(0, 1).Draw(rt, "rel")})
			if rapid.Bool().Draw(rt, "rel2") {
				add(Op{K: opRelease})
			}
		case g < 10:
			// all new waiters are parked in the check-then-wait window; a close makes the token pending, one
			// parked waiter's context ends, then they are released: both select arms are ready.
			n := rapid.IntRange(1, 2).Draw(rt, "n")
			add(Op{K: opPark, N: n})
			for i := 0; i < n; i++ {
				add(trNew(rt, 0))
			}
			fin, can := trFinish(rt, rapid.Bool().Draw(rt, "fuse")), Op{K: opCancelWaiter, S: rapid.IntRange(0, 1).Draw(rt, "s"), Cnt: 1, How: 1}
			if rapid.Bool().Draw(rt, "cancel_first") {
				can.NoWait, fin.NoWait = fin.NoWait, false
				add(can, fin)
			} else {
				add(fin, can)
			}
			for i := 0; i < n; i++ {
				add(Op{K: opRelease, S: rapid.IntRange(0, 1).Draw(rt, "rel")})
			}
		case g < 11:
			// closes at exactly the virtual instant at which a waiter's deadline expires.
			for i, n := 0, rapid.IntRange(2, 3).Draw(rt, "waiters"); i < n; i++ {
				add(trNew(rt, 70))
			}
			f := trFinish(rt, false)
			f.Cnt = rapid.SampledFrom([]int{1, 2, 2, 3}).Draw(rt, "cnt")
			add(Op{K: opSleepDeadline, S: rapid.IntRange(0, 2).Draw(rt, "s"), N: rapid.SampledFrom([]int{0, 0, 0, 0, -1, 1}).Draw(rt, "delta"), NoWait: true}, f)
		default:
			// a raise (broadcast) and a cancel in one step.
			for i, n := 0, rapid.IntRange(2, 3).Draw(rt, "waiters"); i < n; i++ {
				add(trNew(rt, 20))
			}
			add(Op{K: opSettings, N: limit + rapid.IntRange(1, 2).Draw(rt, "raise"), NoWait: true}, trCancel(rt, false))
			add(Op{K: opSettings, N: limit})
		}
		noise(2, r > 0)
	}
	noise(4, true)
	return p
}

const ruleTokenRace = "plans against a real http2Client and a scripted h2peer server (same executor and oracles as unit admission): initial MAX_CONCURRENT_STREAMS 1..3 filled with streams, then 1-3/1-10 gadgets mixed with ops of the general mix; " +
	"a gadget starts 1-4 NewStream calls that must wait and ends the context of a waiter in the same scheduling step as a quota release (GOMAXPROCS=1, nowait-fused ops): " +
	"close-then-cancel (the waiter has been handed the one wake-up token), cancel-then-close, the same with other waiters parked in the check-then-wait window (token buffered), all waiters parked + close + cancel + release (both select arms ready), " +
	"a close at exactly the virtual instant of a waiter's deadline, a SETTINGS raise fused with a cancel. non-trivial = within one scheduling step the plan ended the context of a blocked NewStream call and released stream quota while >= 2 calls were blocked, or a NewStream call that had been blocked returned a stream although its context had already ended (class token_taken_by_waiter_with_done_context: it took the quota wake-up with a done context)"

func runTokenRace(t *testing.T, p Plan) vk.Result { return runUnit(t, p, true) }

func TestVerifC13TokenRace(t *testing.T) {
	vk.Check(t, vk.Unit[Plan]{ID: "C13", Name: "tokenrace", Rule: ruleTokenRace, Gen: genTokenRace, Run: runTokenRace})
}
