package c13_test

// C13: a grpc-go client never has more streams open than the server's most
// recent MAX_CONCURRENT_STREAMS; ids are odd and increasing; waiting NewStream
// calls are admitted once quota frees (or fail on deadline / GOAWAY / close).
//
// Real http2Client against a scripted h2peer server in a synctest bubble.
// Safety oracle: the h2peer Ledger, evaluated at every HEADERS frame on the
// wire. Liveness oracle: at quiescence (synctest.Wait) a NewStream call must
// not be waiting while the ledger's open count is below the limit in force
// (this is also the NewStream-waiter half of C17).

import (
	"context"
	"errors"
	"fmt"
	"strings"
	"sync"
	"testing"
	"testing/synctest"
	"time"

	"golang.org/x/net/http2"
	"golang.org/x/net/http2/hpack"
	"google.golang.org/grpc/codes"
	"google.golang.org/grpc/internal/transport"
	"google.golang.org/grpc/internal/verifhook"
	"google.golang.org/grpc/internal/verifkit/h2peer"
	"google.golang.org/grpc/internal/verifkit/h2peer/h2grpc"
	"google.golang.org/grpc/internal/verifkit/vk"
	"google.golang.org/grpc/mem"
	"google.golang.org/grpc/status"
	"pgregory.net/rapid"
)

const (
	opNew      = "new"      // start a NewStream call on its own goroutine; N = deadline in ms (0 = none)
	opFinish   = "finish"   // finish Cnt admitted streams starting at the S-th open one; How selects the way
	opSettings = "settings" // peer SETTINGS{MAX_CONCURRENT_STREAMS=N}
	opSleep    = "sleep"    // advance virtual time by N ms
	opPark     = "park"     // arm the h2c.newStream.beforeWait hook: the next N goroutines reaching it are parked
	opRelease  = "release"  // release the S-th parked goroutine
	opGoAway   = "goaway"   // peer GOAWAY (N&1: last-stream-id = highest seen id, else 2^31-1)
	opClose    = "close"    // close the client transport
	// opCancelWaiter cancels the context of Cnt NewStream calls that have not returned yet, starting at the S-th
	// oldest (How=0) / S-th newest (How=1) such call. With NoWait on the preceding (or on this) op the cancellation
	// and the neighbouring op happen in ONE scheduling step: the unit runs with GOMAXPROCS=1 and the plan's goroutine
	// does not block between two ops unless it calls synctest.Wait, so no other goroutine runs in between.
	opCancelWaiter = "cancel_waiter"
	// opSleepDeadline advances virtual time to deadline+N ms (N in -1..1) of the S-th waiting call that has a
	// deadline in the future (no-op if there is none): with N=0 and NoWait the next op executes at exactly the
	// virtual instant at which that waiter's context expires.
	opSleepDeadline = "sleep_deadline"
)

// Ways to finish a stream.
const (
	howCancel       = 0 // application cancels: RST_STREAM(CANCEL) from the client
	howPeerRST      = 1 // server RST_STREAM(REFUSED_STREAM/CANCEL)
	howHalfTrailers = 2 // client half-closes (empty END_STREAM), then server headers+trailers
	howTrailersRST  = 3 // server trailers then RST_STREAM(NO_ERROR) (what a grpc-go server does)
	howTrailers     = 4 // server trailers only; the client has not half-closed (client must RST)
	howBlockedEnd   = 5 // client writes a last message that is stuck behind flow control (plan IWS 0), then server trailers only
	// The server ends a stream the client has not half-closed with a HEADERS+END_STREAM frame the client must
	// REJECT (malformed): the stream is over for the application, and the client still has to reset it on the wire.
	howBadStatusTrailers  = 6 // response headers, then trailers with a non-numeric grpc-status
	howBadBinTrailersOnly = 7 // trailers-only response carrying a -bin header that is not base64
	howBadHTTPStatus      = 8 // trailers-only response with a non-numeric :status
	numHow                = 9
)

type Op struct {
	K      string `json:"k"`
	S      int    `json:"s,omitempty"`
	N      int    `json:"n,omitempty"`
	Cnt    int    `json:"cnt,omitempty"`
	How    int    `json:"how,omitempty"`
	NoWait bool   `json:"nowait,omitempty"`
}

type Plan struct {
	Limit0  int  `json:"limit0"`   // MAX_CONCURRENT_STREAMS in the server preface; <0: absent (unlimited)
	ZeroIWS bool `json:"zero_iws"` // server preface SETTINGS_INITIAL_WINDOW_SIZE=0 (client DATA is stuck; needed by howBlockedEnd)
	Ops     []Op `json:"ops"`
}

func genLimit(rt *rapid.T, label string) int {
	switch rapid.IntRange(0, 5).Draw(rt, label+"_kind") {
	case 0:
		return 0
	case 1, 2:
		return rapid.IntRange(1, 3).Draw(rt, label)
	case 3, 4:
		return rapid.IntRange(1, 6).Draw(rt, label)
	default:
		return rapid.SampledFrom([]int{8, 100, 1 << 20, 1<<31 - 1, 1<<32 - 1}).Draw(rt, label)
	}
}

func genPlan(rt *rapid.T) Plan {
	p := Plan{Limit0: -1}
	if rapid.IntRange(0, 5).Draw(rt, "has_limit0") > 0 {
		p.Limit0 = genLimit(rt, "limit0")
	}
	p.ZeroIWS = rapid.IntRange(0, 3).Draw(rt, "zero_iws") == 0
	n := rapid.IntRange(4, vk.Pick(30, 200)).Draw(rt, "nops")
	for i := 0; i < n; i++ {
		p.Ops = append(p.Ops, genOps(rt, i > n/2)...)
	}
	return p
}

// genOps draws one op of the general mix; a cancel_waiter is, in half of the
// cases, fused (nowait) with an application-side close (finish how=0, which
// releases stream quota synchronously) into one scheduling step, in either order.
func genOps(rt *rapid.T, late bool) []Op {
	op := genOp(rt, late)
	if op.K != opCancelWaiter || rapid.Bool().Draw(rt, "fused") {
		return []Op{op}
	}
	fin := Op{K: opFinish, S: rapid.IntRange(0, 15).Draw(rt, "s"), Cnt: rapid.SampledFrom([]int{1, 1, 2}).Draw(rt, "cnt"), How: howCancel}
	if rapid.Bool().Draw(rt, "close_first") {
		fin.NoWait = true
		return []Op{fin, op}
	}
	fin.NoWait, op.NoWait = op.NoWait, true
	return []Op{op, fin}
}

// genOp draws one op of the general mix; late allows goaway / close.
func genOp(rt *rapid.T, late bool) Op {
	var op Op
	w := rapid.IntRange(0, 99).Draw(rt, "w")
	switch {
	case w < 32:
		op = Op{K: opNew}
		if rapid.IntRange(0, 3).Draw(rt, "has_dl") == 0 {
			op.N = rapid.IntRange(1, 5000).Draw(rt, "dl")
		}
	case w < 36:
		op = Op{K: opCancelWaiter, S: rapid.IntRange(0, 3).Draw(rt, "s"), Cnt: rapid.SampledFrom([]int{1, 1, 1, 2}).Draw(rt, "cnt"), How: rapid.IntRange(0, 1).Draw(rt, "newest")}
	case w < 38:
		op = Op{K: opSleepDeadline, S: rapid.IntRange(0, 3).Draw(rt, "s"), N: rapid.SampledFrom([]int{0, 0, 0, -1, 1}).Draw(rt, "delta")}
	case w < 60:
		op = Op{K: opFinish, S: rapid.IntRange(0, 15).Draw(rt, "s"), Cnt: rapid.SampledFrom([]int{1, 1, 1, 2, 2, 3}).Draw(rt, "cnt"), How: rapid.IntRange(0, numHow-1).Draw(rt, "how")}
	case w < 78:
		op = Op{K: opSettings, N: genLimit(rt, "limit")}
	case w < 84:
		op = Op{K: opSleep, N: rapid.IntRange(1, 6000).Draw(rt, "ms")}
	case w < 91:
		op = Op{K: opPark, N: rapid.IntRange(1, 2).Draw(rt, "n")}
	case w < 96:
		op = Op{K: opRelease, S: rapid.IntRange(0, 7).Draw(rt, "s")}
	case w < 98 && late:
		op = Op{K: opGoAway, N: rapid.IntRange(0, 1).Draw(rt, "last")}
	case w < 99 && late:
		op = Op{K: opClose}
	default:
		op = Op{K: opNew}
	}
	op.NoWait = rapid.IntRange(0, 4).Draw(rt, "nowait") == 0
	return op
}

// call is one NewStream invocation.
type call struct {
	idx      int
	path     string
	deadline time.Time // zero: none
	cancel   context.CancelFunc

	mu       sync.Mutex
	returned bool
	s        *transport.ClientStream
	err      error
	finished bool // the plan finished this stream

	cancelled   bool  // the plan cancelled the call's context while it had not returned (main goroutine only)
	seenWaiting bool  // observed blocked at a quiescent point (main goroutine only)
	ctxErr      error // ctx.Err() read by the call's goroutine right after NewStream returned (under mu)
}

// ctxErrAtReturn reports, for a returned call, the context error seen right after NewStream returned.
func (c *call) ctxErrAtReturn() error {
	c.mu.Lock()
	defer c.mu.Unlock()
	return c.ctxErr
}

func (c *call) state() (returned bool, s *transport.ClientStream, err error) {
	c.mu.Lock()
	defer c.mu.Unlock()
	return c.returned, c.s, c.err
}

type exec struct {
	rig  *h2grpc.ClientRig
	peer *h2peer.Peer
	led  *h2peer.Ledger

	calls              []*call
	blockedEnd         map[uint32]bool // wire ids of streams finished with howBlockedEnd (client END_STREAM queued behind flow control)
	serverEndedPending []uint32        // ended by the server since the last quiescent point
	serverEndedOpen    map[uint32]bool // wire ids of streams the server ended (END_STREAM, no RST) on a live transport while the client had not half-closed

	hmu        sync.Mutex
	parkBudget int
	parked     []chan struct{}
	parkedEver int

	drained bool // GOAWAY sent
	closed  bool // transport closed by the plan

	// Per scheduling step (= ops between two quiescent points): did the plan end the context of a call that was
	// blocked at the step's start, and did it release stream quota (stream finished / limit raised), and how many
	// calls were blocked at the step's start.
	stepCtxEnd, stepRelease bool
	stepBlocked             int

	classes map[string]bool
	bad     []string
}

func (e *exec) class(c string) { e.classes[c] = true }

func (e *exec) badf(format string, a ...any) {
	if len(e.bad) < 6 {
		e.bad = append(e.bad, fmt.Sprintf(format, a...))
	}
}

func (e *exec) hook(name string) {
	if name != "h2c.newStream.beforeWait" {
		return
	}
	e.hmu.Lock()
	if e.parkBudget <= 0 {
		e.hmu.Unlock()
		return
	}
	e.parkBudget--
	ch := make(chan struct{})
	e.parked = append(e.parked, ch)
	e.parkedEver++
	e.hmu.Unlock()
	<-ch
}

func (e *exec) numParked() int { e.hmu.Lock(); defer e.hmu.Unlock(); return len(e.parked) }

func (e *exec) release(k int) {
	e.hmu.Lock()
	if len(e.parked) == 0 {
		e.hmu.Unlock()
		return
	}
	k %= len(e.parked)
	ch := e.parked[k]
	e.parked = append(e.parked[:k], e.parked[k+1:]...)
	e.hmu.Unlock()
	close(ch)
}

func (e *exec) releaseAll() {
	e.hmu.Lock()
	e.parkBudget = 0
	ps := e.parked
	e.parked = nil
	e.hmu.Unlock()
	for _, ch := range ps {
		close(ch)
	}
}

// open returns the calls that were admitted and not yet finished by the plan.
func (e *exec) open() []*call {
	var out []*call
	for _, c := range e.calls {
		ret, s, _ := c.state()
		if ret && s != nil && !c.finished {
			out = append(out, c)
		}
	}
	return out
}

// waiting returns the number of calls that have not returned and how many of
// them have a context that has ended (deadline passed or cancelled by the plan).
func (e *exec) waiting() (n int, expired int) {
	now := time.Now()
	for _, c := range e.calls {
		if ret, _, _ := c.state(); !ret {
			n++
			if (!c.deadline.IsZero() && now.After(c.deadline)) || c.cancelled {
				expired++
			}
		}
	}
	return
}

// unreturned lists the calls that have not returned, oldest first.
func (e *exec) unreturned() []*call {
	var out []*call
	for _, c := range e.calls {
		if ret, _, _ := c.state(); !ret {
			out = append(out, c)
		}
	}
	return out
}

func (e *exec) wireID(c *call) uint32 {
	id, _ := e.led.StreamIDByPath(c.path)
	return id
}

func classify(err error) string {
	var nse *transport.NewStreamError
	if errors.As(err, &nse) {
		err = nse.Err
	}
	if errors.Is(err, transport.ErrConnClosing) {
		return "closed"
	}
	var ce transport.ConnectionError
	if errors.As(err, &ce) {
		return "closed"
	}
	if st, ok := status.FromError(err); ok {
		switch st.Code() {
		case codes.DeadlineExceeded:
			return "deadline"
		case codes.Canceled:
			return "cancelled"
		case codes.Unavailable:
			if strings.Contains(st.Message(), "draining") {
				return "drain"
			}
		}
	}
	return "other:" + err.Error()
}

func (e *exec) doOp(op Op) {
	switch op.K {
	case opNew:
		c := &call{idx: len(e.calls)}
		c.path = fmt.Sprintf("/vf/c%d", c.idx)
		ctx := context.Background()
		if op.N > 0 {
			c.deadline = time.Now().Add(time.Duration(op.N) * time.Millisecond)
			ctx, c.cancel = context.WithDeadline(ctx, c.deadline)
		} else {
			ctx, c.cancel = context.WithCancel(ctx)
		}
		e.calls = append(e.calls, c)
		go func() {
			s, err := e.rig.CT.NewStream(ctx, &transport.CallHdr{Host: "vf", Method: c.path}, nil)
			cerr := ctx.Err()
			c.mu.Lock()
			c.returned, c.s, c.err, c.ctxErr = true, s, err, cerr
			c.mu.Unlock()
		}()
	case opFinish:
		for i := 0; i < max(1, op.Cnt); i++ {
			open := e.open()
			if len(open) == 0 {
				return
			}
			c := open[op.S%len(open)]
			c.finished = true
			e.finish(c, op.How)
		}
	case opSettings:
		if lim, ok := e.led.MaxConcurrentInForce(); ok && e.led.OpenCount() > 0 && uint64(op.N) < uint64(e.led.OpenCount()) && uint64(lim) >= uint64(e.led.OpenCount()) {
			e.class("limit_lowered_below_open")
			if w, _ := e.waiting(); w > 0 {
				e.class("limit_lowered_below_open_with_waiter")
			}
		} else if !ok && e.led.OpenCount() > op.N {
			e.class("limit_lowered_below_open")
		}
		if op.N == 0 {
			e.class("limit_zero")
		}
		if lim, ok := e.led.MaxConcurrentInForce(); ok && uint64(op.N) > uint64(lim) {
			if w, _ := e.waiting(); w > 1 {
				e.class("raise_with_waiters")
			}
		}
		e.peer.WriteSettings(http2.Setting{ID: http2.SettingMaxConcurrentStreams, Val: uint32(op.N)})
	case opSleep:
		time.Sleep(time.Duration(op.N) * time.Millisecond)
	case opPark:
		e.hmu.Lock()
		e.parkBudget += op.N
		e.hmu.Unlock()
	case opRelease:
		e.release(op.S)
	case opGoAway:
		if e.drained || e.closed {
			return
		}
		e.drained = true
		last := uint32(1<<31 - 1)
		if op.N&1 == 1 {
			last = 0
			for _, id := range e.led.StreamIDs() {
				if id > last {
					last = id
				}
			}
		}
		if w, _ := e.waiting(); w > 0 {
			e.class("goaway_with_waiter")
		}
		e.peer.WriteGoAway(last, http2.ErrCodeNo, nil)
	case opClose:
		if e.closed {
			return
		}
		e.closed = true
		if w, _ := e.waiting(); w > 0 {
			e.class("close_with_waiter")
		}
		e.rig.CT.Close(errors.New("closed by the plan"))
	case opCancelWaiter:
		var w []*call
		for _, c := range e.unreturned() {
			if !c.cancelled {
				w = append(w, c)
			}
		}
		for i := 0; i < max(1, op.Cnt) && len(w) > 0; i++ {
			k := op.S % len(w)
			if op.How == 1 {
				k = len(w) - 1 - k
			}
			c := w[k]
			w = append(w[:k], w[k+1:]...)
			c.cancelled = true
			if c.seenWaiting {
				e.class("waiter_ctx_cancelled")
				e.stepCtxEnd = true
			}
			c.cancel() // closes ctx.Done(); does not block
		}
	case opSleepDeadline:
		now := time.Now()
		var w []*call
		for _, c := range e.unreturned() {
			if !c.deadline.IsZero() && c.deadline.After(now) {
				w = append(w, c)
			}
		}
		if len(w) == 0 {
			return
		}
		c := w[op.S%len(w)]
		if d := c.deadline.Sub(now) + time.Duration(op.N)*time.Millisecond; d > 0 {
			if op.N == 0 && c.seenWaiting {
				e.class("slept_to_exact_waiter_deadline")
				e.stepCtxEnd = true
			}
			time.Sleep(d)
		}
	}
}

func (e *exec) finish(c *call, how int) {
	_, s, _ := c.state()
	id := e.wireID(c)
	if w, _ := e.waiting(); w > 0 {
		e.class("finish_with_waiter")
	}
	defer func() { e.stepRelease = true }()
	if id == 0 { // never reached the wire (orphaned while draining / closed)
		s.Close(status.Error(codes.Canceled, "cancelled"))
		return
	}
	if !e.closed && (how == howTrailers || how == howBadStatusTrailers || how == howBadBinTrailersOnly || how == howBadHTTPStatus) {
		// the server ends a stream the client has not half-closed, on a live transport: the client must reset it
		e.serverEndedPending = append(e.serverEndedPending, id)
	}
	switch how {
	case howCancel:
		s.Close(status.Error(codes.Canceled, "cancelled"))
	case howPeerRST:
		code := http2.ErrCodeCancel
		if c.idx%2 == 0 {
			code = http2.ErrCodeRefusedStream
		}
		e.peer.WriteRSTStream(id, code)
	case howHalfTrailers:
		s.Write(nil, nil, &transport.WriteOptions{Last: true})
		synctest.Wait()
		e.stepCtxEnd, e.stepRelease = false, false // a quiescent point inside the op
		e.peer.WriteHeaders(h2peer.Headers{StreamID: id, Fields: h2peer.ResponseHeaders()})
		e.peer.WriteHeaders(h2peer.Headers{StreamID: id, Fields: h2peer.Trailers(0, ""), EndStream: true})
	case howTrailersRST:
		e.peer.WriteHeaders(h2peer.Headers{StreamID: id, Fields: h2peer.TrailersOnly(0, ""), EndStream: true})
		e.peer.WriteRSTStream(id, http2.ErrCodeNo)
	case howTrailers:
		e.peer.WriteHeaders(h2peer.Headers{StreamID: id, Fields: h2peer.TrailersOnly(0, ""), EndStream: true})
	case howBadStatusTrailers:
		e.class("server_ends_stream_with_malformed_headers")
		e.peer.WriteHeaders(h2peer.Headers{StreamID: id, Fields: h2peer.ResponseHeaders()})
		e.peer.WriteHeaders(h2peer.Headers{StreamID: id, Fields: []hpack.HeaderField{{Name: "grpc-status", Value: "xx"}}, EndStream: true})
	case howBadBinTrailersOnly:
		e.class("server_ends_stream_with_malformed_headers")
		e.peer.WriteHeaders(h2peer.Headers{StreamID: id, Fields: h2peer.TrailersOnly(0, "", hpack.HeaderField{Name: "x-verif-bin", Value: "%%%not-base64%%%"}), EndStream: true})
	case howBadHTTPStatus:
		e.class("server_ends_stream_with_malformed_headers")
		e.peer.WriteHeaders(h2peer.Headers{StreamID: id, Fields: []hpack.HeaderField{{Name: ":status", Value: "2x0"}, {Name: "content-type", Value: "application/grpc"}, {Name: "grpc-status", Value: "0"}}, EndStream: true})
	case howBlockedEnd:
		if e.blockedEnd == nil {
			e.blockedEnd = map[uint32]bool{}
		}
		e.blockedEnd[id] = true
		hdr := []byte{0, 0, 0, 0, 3}
		s.Write(hdr, mem.BufferSlice{mem.SliceBuffer([]byte("abc"))}, &transport.WriteOptions{Last: true})
		synctest.Wait()
		e.stepCtxEnd, e.stepRelease = false, false // a quiescent point inside the op
		if st, ok := e.led.Stream(id); ok && !st.InEnd && !st.Closed {
			e.class("peer_ends_stream_while_client_end_stream_is_flow_blocked")
		}
		e.peer.WriteHeaders(h2peer.Headers{StreamID: id, Fields: h2peer.TrailersOnly(0, ""), EndStream: true})
	}
}

// stepEnd is called at a quiescent point after check: it classifies the
// scheduling step that just ended and starts the next one.
func (e *exec) stepEnd() {
	// a quiescent point with the transport still open: the client has had the chance to reset every stream the
	// server ended before it
	if !e.closed && !e.rig.Conn.Closed() {
		for _, id := range e.serverEndedPending {
			if e.serverEndedOpen == nil {
				e.serverEndedOpen = map[uint32]bool{}
			}
			e.serverEndedOpen[id] = true
		}
		e.serverEndedPending = nil
	}
	if e.stepCtxEnd && e.stepRelease && e.stepBlocked >= 2 {
		e.class(clsCtxEndInReleaseStep)
	}
	e.stepCtxEnd, e.stepRelease, e.stepBlocked = false, false, 0
	for _, c := range e.unreturned() {
		if c.seenWaiting && !c.cancelled {
			e.stepBlocked++
		}
	}
}

// check is the liveness oracle, evaluated at quiescence.
func (e *exec) check(where string) {
	for _, c := range e.unreturned() {
		c.seenWaiting = true // blocked at a quiescent point: in the wait select or parked at the hook just before it
	}
	waiting, expired := e.waiting()
	parked := e.numParked()
	// A goroutine parked by the harness at the hook cannot notice its deadline;
	// the harness does not know which calls are parked, so up to `parked`
	// expired calls are excused.
	if expired > parked {
		e.badf("%s: %d NewStream call(s) still blocked after their deadline passed / their context was cancelled (%d goroutine(s) parked by the harness)", where, expired, parked)
	}
	if e.closed || e.drained {
		if waiting-parked > 0 && e.closed {
			e.badf("%s: %d NewStream call(s) still blocked after the transport was closed", where, waiting-parked)
		}
		if waiting-parked > 0 && e.drained && !e.closed {
			e.badf("%s: %d NewStream call(s) still blocked after a GOAWAY was received", where, waiting-parked)
		}
		return
	}
	if waiting-parked <= 0 {
		return
	}
	lim, ok := e.led.MaxConcurrentInForce()
	open := e.led.OpenCount()
	if !ok || uint64(open) < uint64(lim) {
		e.badf("%s: %d NewStream call(s) waiting (not parked by the harness) although only %d streams are open and MAX_CONCURRENT_STREAMS in force is %d (set=%v)", where, waiting-parked, open, lim, ok)
	} else {
		e.class("waiter_blocked_at_limit")
	}
}

type outcome struct {
	bad         []string
	led         []string
	half        []string // known shape sigHalfClosed
	neverClosed int      // streams ended by the server that the client never ended nor reset
	neverOther  int      // ... of which the client had NOT queued its own END_STREAM (not the known shape)
	blockedEnd  map[uint32]bool
	classes     map[string]bool
	setupErr    error
	nCalls      int
}

func runPlan(t *testing.T, p Plan) (out outcome) {
	out.classes = map[string]bool{}
	msg := vk.Bubble(t, func(t *testing.T) {
		e := &exec{classes: out.classes}
		cfg := h2peer.Config{}
		if p.Limit0 >= 0 {
			cfg.Settings = append(cfg.Settings, http2.Setting{ID: http2.SettingMaxConcurrentStreams, Val: uint32(p.Limit0)})
		}
		if p.ZeroIWS {
			cfg.Settings = append(cfg.Settings, http2.Setting{ID: http2.SettingInitialWindowSize, Val: 0})
		}
		rig, err := h2grpc.NewClient(cfg, transport.ConnectOptions{})
		if err != nil {
			out.setupErr = err
			return
		}
		e.rig, e.peer, e.led = rig, rig.Peer, rig.Peer.Ledger()
		verifhook.SetHandler(e.hook)
		defer verifhook.ClearHandler()
		synctest.Wait()
		for i, op := range p.Ops {
			e.doOp(op)
			if !op.NoWait {
				synctest.Wait()
				e.check(fmt.Sprintf("after op %d (%s)", i, op.K))
				e.stepEnd()
			}
		}
		synctest.Wait()
		e.releaseAll()
		synctest.Wait()
		e.check("after releasing all parked goroutines")
		// Outcomes: every returned call ended with exactly one of the allowed results.
		for _, c := range e.calls {
			ret, s, err := c.state()
			if !ret {
				continue
			}
			if (s == nil) == (err == nil) {
				e.badf("NewStream %s returned (stream=%v, err=%v)", c.path, s != nil, err)
				continue
			}
			if err == nil {
				e.class("admitted")
				// A call that had been blocked and whose context was already done when
				// NewStream returned a stream: it left the wait through the quota-signal
				// arm although its context had ended (allowed; the state in which a
				// waiter must still pass the wake-up on).
				if c.seenWaiting && c.ctxErrAtReturn() != nil {
					e.class(clsTokenDoneCtx)
				}
				continue
			}
			k := classify(err)
			switch k {
			case "cancelled":
				if !c.cancelled {
					e.badf("NewStream %s failed with %v but its context was not cancelled", c.path, err)
				}
				e.class("failed_cancelled")
			case "deadline":
				if c.deadline.IsZero() {
					e.badf("NewStream %s failed with a deadline error but had no deadline: %v", c.path, err)
				}
				e.class("failed_deadline")
			case "drain":
				if !e.drained && !e.closed {
					e.badf("NewStream %s failed with %v but no GOAWAY was sent", c.path, err)
				}
				e.class("failed_drain")
			case "closed":
				if !e.closed && !e.drained {
					e.badf("NewStream %s failed with %v but the transport was not closed", c.path, err)
				}
				e.class("failed_closed")
			default:
				e.badf("NewStream %s failed with unexpected error %v", c.path, err)
			}
		}
		// Close: everything still waiting must be released.
		if !e.closed {
			e.closed = true
			e.rig.CT.Close(errors.New("end of plan"))
		}
		synctest.Wait()
		if w, _ := e.waiting(); w > 0 {
			e.badf("%d NewStream call(s) still blocked after the transport was closed at the end of the plan", w)
			for _, c := range e.calls {
				c.cancel()
			}
			synctest.Wait()
		}
		for _, c := range e.calls {
			c.cancel()
		}
		rig.Close()
		out.bad = e.bad
		out.led = e.led.Violations("stream.id", "stream.maxconcurrent")
		out.half = e.led.Violations("stream.halfclosed_over_limit")
		out.blockedEnd = e.blockedEnd
		// Streams the server ended and the client never ended nor reset, up to
		// and including the transport's shutdown.
		for _, st := range e.led.Streams() {
			if st.OutEnd && !st.InEnd && !st.InRST && !st.OutRST {
				if e.serverEndedOpen[st.ID] {
					out.neverOther++
				}
				out.neverClosed++
			}
		}
		out.nCalls = len(e.calls)
		if e.parkedEver > 0 {
			e.class("parked_in_check_then_wait_window")
		}
		st := e.led.Stats()
		if st.StreamsAtLimit > 0 {
			e.class("opened_stream_reaching_limit")
		}
		if st.OpenAboveLimitAfterLowering > 0 {
			e.class("open_above_limit_after_ack")
		}
	})
	if msg != "" {
		panic("VERIF-HARNESS: " + msg)
	}
	return out
}

// sigHalfClosed is the known finding: the server ended a stream (END_STREAM,
// no RST_STREAM) while the client's own END_STREAM was still queued behind
// flow control; the client frees the stream's MAX_CONCURRENT_STREAMS slot but
// never sends END_STREAM or RST_STREAM, so the stream stays half-closed at
// the server and still counts there (RFC 7540 5.1.2).
const sigHalfClosed = "c13.server_ended_stream_not_closed_by_client"

// clsCtxEndInReleaseStep: within one scheduling step (no quiescent point in between) the plan ended the context of
// a blocked NewStream call and released stream quota while at least two calls were blocked.
const clsCtxEndInReleaseStep = "ctx_end_and_quota_release_in_one_step_with_2_waiters"

// clsTokenDoneCtx: a blocked NewStream call took the quota wake-up although its context had already ended.
const clsTokenDoneCtx = "token_taken_by_waiter_with_done_context"

const rule = "plans of <=30/200 ops against a real http2Client and a scripted h2peer server: NewStream calls on their own goroutines (25% with a 1..5000 ms virtual deadline), " +
	"cancelling the context of the k-th call that is still waiting (cancel_waiter), sleeping to the exact deadline of a waiting call (sleep_deadline), both fusable with the neighbouring op into one scheduling step (nowait, GOMAXPROCS=1), " +
	"finishing 1-3 admitted streams in one of 6 ways (client cancel, server RST, half-close + trailers, trailers + RST(NO_ERROR), trailers only, trailers while the client's END_STREAM is flow-control blocked), " +
	"server SETTINGS MAX_CONCURRENT_STREAMS in {0,1..6,8,100,2^20,2^31-1,2^32-1} raising and lowering, virtual sleeps, parking goroutines at the h2c.newStream.beforeWait hook (check-then-wait window) and releasing them later, GOAWAY, Close; " +
	"initial limit absent/0/1..6/large. non-trivial = the limit was lowered below the open count while a NewStream call was waiting, or a waiter existed while a stream finished / the limit was raised"

func run(t *testing.T, p Plan) vk.Result { return runUnit(t, p, false) }

// runUnit executes the plan; tokenRace selects the non-trivial rule of the unit "tokenrace".
func runUnit(t *testing.T, p Plan, tokenRace bool) vk.Result {
	out := runPlan(t, p)
	if out.setupErr != nil {
		return vk.Result{Discard: true}
	}
	var cl []string
	for _, c := range []string{"limit_lowered_below_open", "limit_lowered_below_open_with_waiter", "limit_zero", "raise_with_waiters", "finish_with_waiter", "goaway_with_waiter", "close_with_waiter",
		"waiter_blocked_at_limit", "parked_in_check_then_wait_window", "opened_stream_reaching_limit", "open_above_limit_after_ack", "admitted", "failed_deadline", "failed_drain", "failed_closed",
		"peer_ends_stream_while_client_end_stream_is_flow_blocked", "server_ends_stream_with_malformed_headers",
		clsTokenDoneCtx, clsCtxEndInReleaseStep, "waiter_ctx_cancelled", "slept_to_exact_waiter_deadline", "failed_cancelled"} {
		if out.classes[c] {
			cl = append(cl, c)
		}
	}
	v := append(out.led, out.bad...)
	if len(v) > 0 {
		r := vk.Bad("%d violation(s), first: %s", len(v), strings.Join(v[:min(3, len(v))], " || ")).With(cl...)
		return r
	}
	if len(out.half) > 0 {
		// Known shape: the server ended a stream whose client END_STREAM is still
		// queued behind flow control; the client frees the stream's quota without
		// END_STREAM or RST_STREAM ever reaching the wire. Only this shape gets the
		// signature (the ledger reports a plain stream.maxconcurrent for any excess
		// that remains when such streams are not counted).
		r := vk.Bad("%d violation(s), first: %s [server-ended streams never closed by the client: %d, of which the client had not half-closed and had a quiescent chance to reset: %d]", len(out.half), out.half[0], out.neverClosed, out.neverOther).With(append(cl, "known_half_closed_over_limit")...)
		// The ledger reports this kind only if the excess over the limit consists
		// entirely of streams that the server ended (END_STREAM, no RST) and the
		// client had neither ended nor reset when it opened the next stream; the
		// signature additionally requires that such streams were never closed by
		// the client later on either.
		// ... and that the client had queued its own END_STREAM on every one of them (the listed finding is about
		// exactly that shape; a stream the client never half-closed and never reset is a different violation).
		// The listed finding is about streams on which the CLIENT'S OWN END_STREAM was queued behind flow control
		// when the server ended them. The ledger names the streams that make up the excess ("dangling ids"): the
		// signature is given only if every one of them was finished by the plan in that way (howBlockedEnd); an
		// excess containing a stream the client never half-closed (e.g. one the server ended with a rejected final
		// HEADERS frame) is a different violation and is reported as such.
		// A dangling stream that is merely in flight (the client has not yet processed the server's END_STREAM) is
		// counted as open by the client too, so it cannot cause an excess; only streams whose slot the client has
		// freed can. Hence: the signature is given iff the streams of the known shape alone explain the excess
		// (open - limit <= number of dangling streams finished with howBlockedEnd).
		onlyKnownShape := out.neverClosed > 0
		for _, msg := range out.half {
			var sid, open, limit int
			k := strings.Index(msg, "HEADERS opens stream ")
			i := strings.Index(msg, "[dangling ids: ")
			if k < 0 || i < 0 {
				onlyKnownShape = false
				break
			}
			if _, err := fmt.Sscanf(msg[k:], "HEADERS opens stream %d: %d streams open > MAX_CONCURRENT_STREAMS %d", &sid, &open, &limit); err != nil {
				onlyKnownShape = false
				break
			}
			rest := msg[i+len("[dangling ids: "):]
			if j := strings.Index(rest, "]"); j >= 0 {
				rest = rest[:j]
			}
			known := 0
			for _, f := range strings.Fields(rest) {
				var id uint32
				if _, err := fmt.Sscan(f, &id); err == nil && out.blockedEnd[id] {
					known++
				}
			}
			if open-limit > known {
				onlyKnownShape = false
			}
		}
		if onlyKnownShape {
			r.Sig = sigHalfClosed
		}
		return r
	}
	nt := out.classes["limit_lowered_below_open_with_waiter"] || (out.classes["waiter_blocked_at_limit"] && (out.classes["finish_with_waiter"] || out.classes["raise_with_waiters"]))
	if tokenRace {
		nt = out.classes[clsTokenDoneCtx] || out.classes[clsCtxEndInReleaseStep]
	}
	res := vk.OK(nt, cl...)
	res.Steps = len(p.Ops)
	return res
}

func TestVerifC13(t *testing.T) {
	vk.Check(t, vk.Unit[Plan]{ID: "C13", Name: "admission", Rule: rule, Gen: genPlan, Run: run})
}
