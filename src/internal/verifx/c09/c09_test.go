package c09_test

// C09: user metadata crosses the wire unchanged (both directions, per-key
// order), transport-reserved names are neither sent from user metadata nor
// surfaced (except :authority and user-agent), invalid user metadata fails
// the RPC with INTERNAL before anything is sent.
//
// Unit "md": real client + real server over bufconn in a bubble, with a wire
// tap decoded by an independent http2/hpack decoder.
// Unit "peerb64": scripted raw HTTP/2 client sending padded / unpadded base64
// -bin values to a real server.

import (
	"bytes"
	"context"
	"encoding/base64"
	"fmt"
	"io"
	"sort"
	"strings"
	"sync"
	"testing"
	"time"

	"google.golang.org/grpc"
	"google.golang.org/grpc/codes"
	"google.golang.org/grpc/internal/verifkit/e2e"
	"google.golang.org/grpc/internal/verifkit/vk"
	"google.golang.org/grpc/metadata"
	"google.golang.org/grpc/status"
	"pgregory.net/rapid"
)

// ---------------------------------------------------------------- plan

type kv struct {
	K string `json:"k"`
	V []byte `json:"v"`
}

const (
	opNewPairs = iota // metadata.NewOutgoingContext(ctx, metadata.Pairs(kv...))  (Pairs lowercases keys)
	opNewRaw          // metadata.NewOutgoingContext(ctx, metadata.MD{k: vs...})   (keys as given)
	opAppend          // metadata.AppendToOutgoingContext(ctx, kv...)              (lowercases keys)
)

type mdOp struct {
	Kind int  `json:"kind"`
	KVs  []kv `json:"kvs"`
}

type srvOp struct {
	// Pairs: build with metadata.Pairs (lowercased) instead of a raw MD literal.
	Pairs bool `json:"pairs"`
	KVs   []kv `json:"kvs"`
}

type rpcPlan struct {
	Stream     bool    `json:"stream"` // bidi stream (stream API on the server) vs unary (grpc.SetHeader(ctx))
	ClientOps  []mdOp  `json:"client_ops"`
	SetHeader  []srvOp `json:"set_header"`
	SendHeader *srvOp  `json:"send_header"`
	SetTrailer []srvOp `json:"set_trailer"`
	NResp      int     `json:"nresp"` // stream: responses sent (unary: 1 when OK)
	Fail       bool    `json:"fail"`  // handler returns an error status (trailers-only when nothing else was sent)
}

type plan struct {
	RPCs []rpcPlan `json:"rpcs"`
}

// ---------------------------------------------------------------- reference model (from the statement)

// reservedName: "Transport-reserved names (pseudo-headers, content-type, te,
// grpc-status and similar)": the gRPC-over-HTTP/2 request/response header
// names owned by the transport.
func reservedName(k string) bool {
	if strings.HasPrefix(k, ":") {
		return true
	}
	switch k {
	case "content-type", "te", "user-agent", "grpc-status", "grpc-message", "grpc-encoding", "grpc-timeout", "grpc-message-type":
		return true
	}
	return false
}

func isBin(k string) bool { return strings.HasSuffix(k, "-bin") }

func validKey(k string) bool {
	if k == "" {
		return false
	}
	for i := 0; i < len(k); i++ {
		c := k[i]
		if !(c >= 'a' && c <= 'z' || c >= '0' && c <= '9' || c == '-' || c == '_' || c == '.') {
			return false
		}
	}
	return true
}

func printable(v []byte) bool {
	for _, c := range v {
		if c < 0x20 || c > 0x7e {
			return false
		}
	}
	return true
}

// validPair: the statement's definition of valid user metadata; pseudo-header
// keys are tolerated (and dropped) - the generator only gives them printable
// values.
func validPair(k string, v []byte) bool {
	if strings.HasPrefix(k, ":") {
		return printable(v)
	}
	if !validKey(k) {
		return false
	}
	return isBin(k) || printable(v)
}

// omap is an ordered multimap: per-key value lists (order across keys is not
// part of the property).
type omap map[string][][]byte

func (m omap) add(k string, v []byte) { m[k] = append(m[k], append([]byte{}, v...)) }

func asciiLower(s string) string {
	b := []byte(s)
	for i, c := range b {
		if c >= 'A' && c <= 'Z' {
			b[i] = c + 32
		}
	}
	return string(b)
}

// clientModel interprets the client ops: it returns the metadata the server
// must observe (reserved names removed) and whether all of it is valid.
func clientModel(ops []mdOp) (want omap, valid bool) {
	base := omap{}
	var added []kv
	for _, op := range ops {
		switch op.Kind {
		case opNewPairs:
			base = omap{}
			added = nil
			for _, p := range op.KVs {
				base.add(asciiLower(p.K), p.V)
			}
		case opNewRaw:
			base = omap{}
			added = nil
			for _, p := range op.KVs {
				base.add(p.K, p.V)
			}
		case opAppend:
			for _, p := range op.KVs {
				added = append(added, kv{asciiLower(p.K), p.V})
			}
		}
	}
	valid = true
	want = omap{}
	keys := make([]string, 0, len(base))
	for k := range base {
		keys = append(keys, k)
	}
	sort.Strings(keys)
	for _, k := range keys {
		for _, v := range base[k] {
			if !validPair(k, v) {
				valid = false
			}
			if !reservedName(k) {
				want.add(k, v)
			}
		}
	}
	for _, p := range added {
		if !validPair(p.K, p.V) {
			valid = false
		}
		if !reservedName(p.K) {
			want.add(p.K, p.V)
		}
	}
	return want, valid
}

func srvOpKVs(op srvOp) []kv {
	if !op.Pairs {
		return op.KVs
	}
	out := make([]kv, len(op.KVs))
	for i, p := range op.KVs {
		out[i] = kv{asciiLower(p.K), p.V}
	}
	return out
}

func srvOpValid(op srvOp) bool {
	for _, p := range srvOpKVs(op) {
		if !validPair(p.K, p.V) {
			return false
		}
	}
	return true
}

// serverModel: headers / trailers the client must observe.
func serverModel(r rpcPlan) (hdr, trl omap) {
	hdr, trl = omap{}, omap{}
	addAll := func(m omap, op srvOp) {
		for _, p := range srvOpKVs(op) {
			if !reservedName(p.K) {
				m.add(p.K, p.V)
			}
		}
	}
	for _, op := range r.SetHeader {
		if srvOpValid(op) {
			addAll(hdr, op)
		}
	}
	if r.SendHeader != nil && srvOpValid(*r.SendHeader) {
		addAll(hdr, *r.SendHeader)
	}
	for _, op := range r.SetTrailer {
		addAll(trl, op)
	}
	return hdr, trl
}

func (m omap) String() string {
	keys := make([]string, 0, len(m))
	for k := range m {
		keys = append(keys, k)
	}
	sort.Strings(keys)
	var sb strings.Builder
	for _, k := range keys {
		fmt.Fprintf(&sb, "%q:%q ", k, m[k])
	}
	return sb.String()
}

// diffMD compares an observed metadata.MD (minus ignore) with the model.
func diffMD(got metadata.MD, want omap, ignore map[string]bool) string {
	g := omap{}
	for k, vs := range got {
		if ignore[k] {
			continue
		}
		for _, v := range vs {
			g.add(k, []byte(v))
		}
	}
	return diffOmap(g, want)
}

func diffOmap(g, want omap) string {
	for k, vs := range want {
		gv := g[k]
		if len(gv) != len(vs) {
			return fmt.Sprintf("key %q: got %d values %q, want %d values %q", k, len(gv), gv, len(vs), vs)
		}
		for i := range vs {
			if !bytes.Equal(gv[i], vs[i]) {
				return fmt.Sprintf("key %q value %d: got %q want %q (all: got %q want %q)", k, i, gv[i], vs[i], gv, vs)
			}
		}
	}
	for k, gv := range g {
		if _, ok := want[k]; !ok {
			return fmt.Sprintf("unexpected key %q with values %q", k, gv)
		}
	}
	return ""
}

// ---------------------------------------------------------------- generator

var plainKeys = []string{"k", "x-a", "a.b_c-1", "0", "x", "bin", "a-binx", "grpc-foo", "authority", "status"}
var binKeys = []string{"k-bin", "x-bin", "-bin", "a.b-bin", "grpc-trace-x-bin"}
var reservedKeys = []string{":path", ":authority", ":method", ":scheme", ":status", ":x-custom", ":", "content-type", "user-agent", "te",
	"grpc-status", "grpc-message", "grpc-timeout", "grpc-encoding", "grpc-message-type"}
var invalidKeys = []string{"", "a b", "a\x00", "k\xc3\xa9", "a:b", "a/b", "k@", "k\n", "\xff-bin", "k=v", "a,b", "k\x7f", "a b-bin"}

func upperSome(rt *rapid.T, k string) string {
	b := []byte(k)
	any := false
	for i, c := range b {
		if c >= 'a' && c <= 'z' && rapid.Bool().Draw(rt, "up") {
			b[i] = c - 32
			any = true
		}
	}
	if !any {
		for i, c := range b {
			if c >= 'a' && c <= 'z' {
				b[i] = c - 32
				break
			}
		}
	}
	return string(b)
}

func genPrintable(rt *rapid.T) []byte {
	switch rapid.IntRange(0, 4).Draw(rt, "pv_kind") {
	case 0:
		return []byte{}
	case 1:
		return []byte(rapid.SampledFrom([]string{" ", " lead", "trail ", "a,b", "a, b", "%41", "=", "a=b;c", "~", "\"q\"", "v", "v", "w"}).Draw(rt, "pv"))
	default:
		n := rapid.IntRange(1, 12).Draw(rt, "n")
		b := make([]byte, n)
		for i := range b {
			b[i] = byte(rapid.IntRange(0x20, 0x7e).Draw(rt, "c"))
		}
		return b
	}
}

func genBinary(rt *rapid.T) []byte {
	switch rapid.IntRange(0, 4).Draw(rt, "bv_kind") {
	case 0:
		return []byte{}
	case 1: // all residues mod 3, high bytes
		n := rapid.IntRange(1, 9).Draw(rt, "n")
		b := make([]byte, n)
		for i := range b {
			b[i] = byte(rapid.IntRange(0x80, 0xff).Draw(rt, "c"))
		}
		return b
	case 2:
		return rapid.SampledFrom([][]byte{{0}, {0xff}, {0xfb, 0xff}, {0xff, 0xff, 0xff}, []byte("===="), []byte("YQ=="), []byte("\x00\x00\x00\x00"), {0xfb, 0xef, 0xbe}, []byte(",")}).Draw(rt, "bv")
	default:
		return rapid.SliceOfN(rapid.Byte(), 1, 40).Draw(rt, "bytes")
	}
}

func genInvalidValue(rt *rapid.T) []byte {
	b := genPrintable(rt)
	bad := rapid.SampledFrom([]byte{0, 0x1f, 0x7f, 0x80, 0xff, '\n', '\r', '\t', 0xc3}).Draw(rt, "badbyte")
	pos := rapid.IntRange(0, len(b)).Draw(rt, "pos")
	out := append([]byte{}, b[:pos]...)
	out = append(out, bad)
	return append(out, b[pos:]...)
}

// genKV draws one pair. allowInvalid gates the invalid shapes; lowercasing
// says whether the API will lowercase the key (mixed case is then valid).
func genKV(rt *rapid.T, allowInvalid, lowercasing bool) kv {
	kind := rapid.IntRange(0, 11).Draw(rt, "kv_kind")
	switch kind {
	case 0, 1, 2:
		return kv{rapid.SampledFrom(plainKeys).Draw(rt, "key"), genPrintable(rt)}
	case 3, 4, 5:
		return kv{rapid.SampledFrom(binKeys).Draw(rt, "key"), genBinary(rt)}
	case 6:
		return kv{rapid.StringMatching(`[0-9a-z_.-]{1,8}`).Draw(rt, "key"), genPrintable(rt)}
	case 7:
		return kv{rapid.SampledFrom(reservedKeys).Draw(rt, "key"), genPrintable(rt)}
	case 8: // mixed case of a plain / binary / reserved key
		var k string
		var v []byte
		switch rapid.IntRange(0, 2).Draw(rt, "mc_kind") {
		case 0:
			k, v = rapid.SampledFrom(plainKeys).Draw(rt, "key"), genPrintable(rt)
		case 1:
			k, v = rapid.SampledFrom(binKeys).Draw(rt, "key"), genBinary(rt)
		default:
			k, v = rapid.SampledFrom(reservedKeys[7:]).Draw(rt, "key"), genPrintable(rt)
		}
		if lowercasing || allowInvalid {
			return kv{upperSome(rt, k), v}
		}
		return kv{k, v}
	case 9:
		if allowInvalid {
			return kv{rapid.SampledFrom(invalidKeys).Draw(rt, "key"), genPrintable(rt)}
		}
		return kv{rapid.SampledFrom(binKeys).Draw(rt, "key"), genBinary(rt)}
	case 10:
		if allowInvalid {
			return kv{rapid.SampledFrom(plainKeys).Draw(rt, "key"), genInvalidValue(rt)}
		}
		return kv{rapid.SampledFrom(plainKeys).Draw(rt, "key"), genPrintable(rt)}
	default:
		return kv{rapid.SampledFrom(binKeys).Draw(rt, "key"), genBinary(rt)}
	}
}

func genKVs(rt *rapid.T, min, max int, allowInvalid, lowercasing bool) []kv {
	n := rapid.IntRange(min, max).Draw(rt, "nkv")
	out := make([]kv, 0, n)
	for i := 0; i < n; i++ {
		out = append(out, genKV(rt, allowInvalid, lowercasing))
	}
	return out
}

func genSrvOp(rt *rapid.T, allowInvalid bool) srvOp {
	op := srvOp{Pairs: rapid.Bool().Draw(rt, "pairs")}
	op.KVs = genKVs(rt, 0, 4, allowInvalid, op.Pairs)
	return op
}

func genRPC(rt *rapid.T) rpcPlan {
	r := rpcPlan{Stream: rapid.Bool().Draw(rt, "stream")}
	// ~25% of the RPCs may contain invalid client metadata
	cliInvalid := rapid.IntRange(0, 3).Draw(rt, "cli_invalid") == 0
	nops := rapid.IntRange(0, 4).Draw(rt, "nops")
	for i := 0; i < nops; i++ {
		k := rapid.SampledFrom([]int{opNewPairs, opNewRaw, opAppend, opAppend, opAppend}).Draw(rt, "op")
		if i > 0 && k != opAppend && rapid.Bool().Draw(rt, "keep_append") {
			k = opAppend
		}
		r.ClientOps = append(r.ClientOps, mdOp{Kind: k, KVs: genKVs(rt, 0, 5, cliInvalid, k != opNewRaw)})
	}
	// server side: invalid metadata only through the ServerStream API (which
	// validates); grpc.SetHeader(ctx) in unary handlers does not validate, so
	// unary handlers get valid metadata only. SetTrailer is always valid (it
	// cannot report an error).
	srvInvalid := r.Stream && rapid.IntRange(0, 3).Draw(rt, "srv_invalid") == 0
	for i, n := 0, rapid.IntRange(0, 3).Draw(rt, "nsethdr"); i < n; i++ {
		r.SetHeader = append(r.SetHeader, genSrvOp(rt, srvInvalid))
	}
	if rapid.Bool().Draw(rt, "sendhdr") {
		op := genSrvOp(rt, srvInvalid)
		r.SendHeader = &op
	}
	for i, n := 0, rapid.IntRange(0, 3).Draw(rt, "nsettrl"); i < n; i++ {
		r.SetTrailer = append(r.SetTrailer, genSrvOp(rt, false))
	}
	r.Fail = rapid.IntRange(0, 3).Draw(rt, "fail") == 0
	if r.Stream {
		r.NResp = rapid.IntRange(0, 2).Draw(rt, "nresp")
	} else if !r.Fail {
		r.NResp = 1
	}
	return r
}

func genPlan(rt *rapid.T) plan {
	n := rapid.IntRange(1, 3).Draw(rt, "nrpcs")
	p := plan{}
	for i := 0; i < n; i++ {
		p.RPCs = append(p.RPCs, genRPC(rt))
	}
	return p
}

// ---------------------------------------------------------------- executor

func toMD(kvs []kv, pairs bool) metadata.MD {
	if pairs {
		flat := make([]string, 0, 2*len(kvs))
		for _, p := range kvs {
			flat = append(flat, p.K, string(p.V))
		}
		return metadata.Pairs(flat...)
	}
	md := metadata.MD{}
	for _, p := range kvs {
		md[p.K] = append(md[p.K], string(p.V))
	}
	return md
}

func buildCtx(ctx context.Context, ops []mdOp) context.Context {
	for _, op := range ops {
		switch op.Kind {
		case opNewPairs:
			ctx = metadata.NewOutgoingContext(ctx, toMD(op.KVs, true))
		case opNewRaw:
			ctx = metadata.NewOutgoingContext(ctx, toMD(op.KVs, false))
		case opAppend:
			flat := make([]string, 0, 2*len(op.KVs))
			for _, p := range op.KVs {
				flat = append(flat, p.K, string(p.V))
			}
			ctx = metadata.AppendToOutgoingContext(ctx, flat...)
		}
	}
	return ctx
}

type srvRecord struct {
	called  int
	inMD    metadata.MD
	apiErrs []string // violations observed inside the handler
}

const handlerFailMsg = "planned failure"

func run(t *testing.T, p plan) vk.Result {
	var res vk.Result
	msg := vk.Bubble(t, func(t *testing.T) { res = runInBubble(p) })
	if msg != "" && res.Violation == "" {
		return vk.Bad("harness/bubble: %s", msg).With(res.Classes...)
	}
	return res
}

func runInBubble(p plan) vk.Result {
	var mu sync.Mutex
	recs := make([]*srvRecord, len(p.RPCs))
	for i := range recs {
		recs[i] = &srvRecord{}
	}
	idxOf := func(req []byte) int {
		if len(req) != 1 || int(req[0]) >= len(p.RPCs) {
			return -1
		}
		return int(req[0])
	}
	// serverSide runs the planned server ops for RPC i. st is nil in unary handlers.
	serverSide := func(ctx context.Context, i int, st grpc.ServerStream) error {
		r := p.RPCs[i]
		rec := recs[i]
		md, _ := metadata.FromIncomingContext(ctx)
		mu.Lock()
		rec.called++
		rec.inMD = md
		mu.Unlock()
		note := func(f string, a ...any) {
			mu.Lock()
			rec.apiErrs = append(rec.apiErrs, fmt.Sprintf(f, a...))
			mu.Unlock()
		}
		checkAPI := func(what string, op srvOp, err error) {
			if srvOpValid(op) {
				if err != nil {
					note("%s with valid metadata failed: %v", what, err)
				}
				return
			}
			if err == nil {
				note("%s accepted invalid metadata %v", what, op.KVs)
			} else if status.Code(err) != codes.Internal {
				note("%s with invalid metadata: code %v, want Internal (%v)", what, status.Code(err), err)
			}
		}
		for _, op := range r.SetHeader {
			md := toMD(op.KVs, op.Pairs)
			if st != nil {
				checkAPI("ServerStream.SetHeader", op, st.SetHeader(md))
			} else {
				checkAPI("grpc.SetHeader", op, grpc.SetHeader(ctx, md))
			}
		}
		if r.SendHeader != nil {
			md := toMD(r.SendHeader.KVs, r.SendHeader.Pairs)
			if st != nil {
				checkAPI("ServerStream.SendHeader", *r.SendHeader, st.SendHeader(md))
			} else {
				checkAPI("grpc.SendHeader", *r.SendHeader, grpc.SendHeader(ctx, md))
			}
		}
		for k, op := range r.SetTrailer {
			md := toMD(op.KVs, op.Pairs)
			// the first half of the trailers is set before the responses, the rest after
			if st != nil {
				if k < (len(r.SetTrailer)+1)/2 {
					st.SetTrailer(md)
				}
			} else if err := grpc.SetTrailer(ctx, md); err != nil {
				note("grpc.SetTrailer failed: %v", err)
			}
		}
		if st != nil {
			for k := 0; k < r.NResp; k++ {
				if err := e2e.SendBytes(st, []byte{byte(k)}); err != nil {
					return err
				}
			}
			for k, op := range r.SetTrailer {
				if k >= (len(r.SetTrailer)+1)/2 {
					st.SetTrailer(toMD(op.KVs, op.Pairs))
				}
			}
		}
		if r.Fail {
			return status.Error(codes.FailedPrecondition, handlerFailMsg)
		}
		return nil
	}
	tap := &e2e.Tap{}
	pair, err := e2e.Start(e2e.Options{
		Tap: tap,
		Unary: func(ctx context.Context, req []byte) ([]byte, error) {
			i := idxOf(req)
			if i < 0 {
				return nil, status.Error(codes.DataLoss, "harness: bad request index")
			}
			if err := serverSide(ctx, i, nil); err != nil {
				return nil, err
			}
			return []byte{0}, nil
		},
		Stream: func(st grpc.ServerStream) error {
			req, err := e2e.RecvBytes(st)
			if err != nil {
				return err
			}
			i := idxOf(req)
			if i < 0 {
				return status.Error(codes.DataLoss, "harness: bad request index")
			}
			return serverSide(st.Context(), i, st)
		},
	})
	if err != nil {
		return vk.Bad("harness: start: %v", err)
	}
	defer pair.Close()

	out := vk.Result{}
	type sent struct {
		idx    int
		method string
	}
	var sentRPCs []sent // RPCs that must appear on the wire, in order
	viol := func(i int, f string, a ...any) {
		if out.Violation == "" {
			out.Violation = fmt.Sprintf("rpc %d: ", i) + fmt.Sprintf(f, a...)
		}
	}
	for i, r := range p.RPCs {
		out.Steps++
		want, valid := clientModel(r.ClientOps)
		wantHdr, wantTrl := serverModel(r)
		classify(&out, r, want, valid)

		ctx, cancel := context.WithTimeout(context.Background(), 30*time.Second)
		ctx = buildCtx(ctx, r.ClientOps)
		var gotHdr, gotTrl metadata.MD
		var rpcErr error
		var nmsgs int
		method := e2e.UnaryMethod
		if r.Stream {
			method = e2e.StreamMethod
			var cs grpc.ClientStream
			cs, rpcErr = pair.NewStream(ctx, method, true, true)
			if rpcErr == nil {
				if err := e2e.SendBytes(cs, []byte{byte(i)}); err != nil && err != io.EOF {
					rpcErr = err
				} else {
					_ = cs.CloseSend()
					gotHdr, _ = cs.Header()
					for {
						_, err := e2e.RecvBytes(cs)
						if err == io.EOF {
							break
						}
						if err != nil {
							rpcErr = err
							break
						}
						nmsgs++
					}
					gotTrl = cs.Trailer()
				}
			}
		} else {
			_, rpcErr = pair.Unary(ctx, method, []byte{byte(i)}, grpc.Header(&gotHdr), grpc.Trailer(&gotTrl))
		}
		cancel()

		mu.Lock()
		rec := *recs[i]
		mu.Unlock()

		if !valid {
			// invalid user metadata => INTERNAL, nothing sent, handler never runs
			if rpcErr == nil {
				viol(i, "invalid client metadata was accepted (ops %+v)", r.ClientOps)
			} else if status.Code(rpcErr) != codes.Internal {
				viol(i, "invalid client metadata: got code %v (%v), want Internal", status.Code(rpcErr), rpcErr)
			}
			if rec.called != 0 {
				viol(i, "handler ran %d times although the client metadata is invalid", rec.called)
			}
			continue
		}
		sentRPCs = append(sentRPCs, sent{i, method})
		if rec.called != 1 {
			viol(i, "handler ran %d times, want 1 (client err: %v)", rec.called, rpcErr)
			continue
		}
		for _, e := range rec.apiErrs {
			viol(i, "%s", e)
		}
		// server view: everything except what the transport itself adds
		ignoreIn := map[string]bool{":authority": true, "content-type": true, "user-agent": true, "grpc-accept-encoding": true}
		if d := diffMD(rec.inMD, want, ignoreIn); d != "" {
			viol(i, "server-side metadata differs: %s", d)
		}
		// the two whitelisted reserved names carry the transport's values, never the user's
		if a := rec.inMD[":authority"]; len(a) != 1 || a[0] != "bufnet" {
			viol(i, ":authority seen by the handler = %q, want [bufnet]", a)
		}
		if ua := rec.inMD["user-agent"]; len(ua) != 1 || !strings.HasPrefix(ua[0], "grpc-go/") {
			viol(i, "user-agent seen by the handler = %q, want one grpc-go/ value", ua)
		}
		if ct := rec.inMD["content-type"]; len(ct) != 1 || ct[0] != "application/grpc+"+e2e.CodecName {
			viol(i, "content-type seen by the handler = %q", ct)
		}
		// final status
		if r.Fail {
			if status.Code(rpcErr) != codes.FailedPrecondition || status.Convert(rpcErr).Message() != handlerFailMsg {
				viol(i, "client error = %v, want the handler's FailedPrecondition", rpcErr)
			}
		} else if rpcErr != nil {
			viol(i, "client error = %v, want nil", rpcErr)
		}
		if r.Stream && nmsgs != r.NResp {
			viol(i, "client received %d responses, want %d", nmsgs, r.NResp)
		}
		// client view
		ignoreOut := map[string]bool{"content-type": true}
		if d := diffMD(gotHdr, wantHdr, ignoreOut); d != "" {
			viol(i, "client Header() differs: %s", d)
		}
		if d := diffMD(gotTrl, wantTrl, ignoreOut); d != "" {
			viol(i, "client Trailer() differs: %s", d)
		}
	}

	// ---- wire log: independent decoding of both directions of the connection
	if tap.NumConns() > 1 {
		viol(-1, "harness: %d connections dialled", tap.NumConns())
	}
	c2s, s2c := tap.Bytes(0)
	cf, err1 := e2e.DecodeWire(c2s, true)
	sf, err2 := e2e.DecodeWire(s2c, false)
	if err1 != nil || err2 != nil {
		viol(-1, "wire log does not decode: %v / %v", err1, err2)
		return out
	}
	ids := e2e.StreamIDs(cf)
	if len(ids) != len(sentRPCs) {
		viol(-1, "wire shows %d request streams, but %d RPCs had valid metadata (invalid ones must send nothing)", len(ids), len(sentRPCs))
		return out
	}
	for n, id := range ids {
		s := sentRPCs[n]
		r := p.RPCs[s.idx]
		want, _ := clientModel(r.ClientOps)
		hs := e2e.HeadersOf(cf, id)
		if len(hs) != 1 {
			viol(s.idx, "wire: %d request HEADERS frames", len(hs))
			continue
		}
		if d := wireCheck(hs[0].Fields, want, map[string]string{
			":method": "POST", ":scheme": "http", ":path": s.method, ":authority": "bufnet",
			"content-type": "application/grpc+" + e2e.CodecName, "user-agent": "grpc-go/*", "te": "trailers", "grpc-timeout": "*",
		}, nil); d != "" {
			viol(s.idx, "wire (request headers): %s", d)
		}
		wantHdr, wantTrl := serverModel(r)
		shs := e2e.HeadersOf(sf, id)
		switch len(shs) {
		case 1: // trailers-only
			all := omap{}
			for k, v := range wantHdr {
				all[k] = v
			}
			if len(wantHdr) != 0 {
				viol(s.idx, "wire: trailers-only response although headers %v were set", wantHdr)
			}
			if d := wireCheck(shs[0].Fields, wantTrl, map[string]string{":status": "200", "content-type": "application/grpc+" + e2e.CodecName, "grpc-status": "*"},
				map[string]bool{"grpc-message": true}); d != "" {
				viol(s.idx, "wire (trailers-only): %s", d)
			}
			out.Classes = append(out.Classes, "wire_trailers_only")
		case 2:
			if d := wireCheck(shs[0].Fields, wantHdr, map[string]string{":status": "200", "content-type": "application/grpc+" + e2e.CodecName}, nil); d != "" {
				viol(s.idx, "wire (response headers): %s", d)
			}
			if d := wireCheck(shs[1].Fields, wantTrl, map[string]string{"grpc-status": "*"}, map[string]bool{"grpc-message": true}); d != "" {
				viol(s.idx, "wire (trailers): %s", d)
			}
		default:
			viol(s.idx, "wire: %d response HEADERS frames", len(shs))
		}
	}
	return out
}

// wireCheck verifies a decoded header block: every name in transport appears
// exactly once with the given value ("*" any, "prefix*"), names in optional at
// most once, no other reserved name appears, and the remaining fields equal
// the model (per-key order; -bin values base64-decoded independently).
func wireCheck(fields []e2e.HeaderField, want omap, transport map[string]string, optional map[string]bool) string {
	seen := map[string]int{}
	user := omap{}
	for _, f := range fields {
		if _, ok := transport[f.Name]; ok {
			seen[f.Name]++
			continue
		}
		if optional[f.Name] {
			seen[f.Name]++
			continue
		}
		if reservedName(f.Name) {
			return fmt.Sprintf("reserved name %q (value %q) on the wire", f.Name, f.Value)
		}
		if f.Name != asciiLower(f.Name) {
			return fmt.Sprintf("non-lowercase name %q on the wire", f.Name)
		}
		v := []byte(f.Value)
		if isBin(f.Name) {
			dec, err := decodeB64(f.Value)
			if err != nil {
				return fmt.Sprintf("-bin field %q value %q is not base64: %v", f.Name, f.Value, err)
			}
			v = dec
		}
		user.add(f.Name, v)
	}
	for name, val := range transport {
		if seen[name] != 1 {
			return fmt.Sprintf("transport field %q appears %d times", name, seen[name])
		}
		if val == "*" {
			continue
		}
		for _, f := range fields {
			if f.Name != name {
				continue
			}
			if strings.HasSuffix(val, "*") {
				if !strings.HasPrefix(f.Value, strings.TrimSuffix(val, "*")) {
					return fmt.Sprintf("transport field %q = %q, want prefix %q", name, f.Value, val)
				}
			} else if f.Value != val {
				return fmt.Sprintf("transport field %q = %q, want %q", name, f.Value, val)
			}
		}
	}
	for name := range optional {
		if seen[name] > 1 {
			return fmt.Sprintf("field %q appears %d times", name, seen[name])
		}
	}
	return diffOmap(user, want)
}

// decodeB64 accepts padded or unpadded standard base64 (gRPC spec).
func decodeB64(s string) ([]byte, error) {
	return base64.RawStdEncoding.DecodeString(strings.TrimRight(s, "="))
}

func classify(out *vk.Result, r rpcPlan, want omap, valid bool) {
	cls := func(c string) { out.Classes = append(out.Classes, c) }
	if r.Stream {
		cls("shape_stream")
	} else {
		cls("shape_unary")
	}
	if !valid {
		cls("client_md_invalid")
	}
	hiBin, mixed, reserved, repeated, empty, appended := false, false, false, false, false, false
	scan := func(k string, v []byte, lowercasing bool) {
		lk := k
		if lowercasing {
			lk = asciiLower(k)
			if lk != k {
				mixed = true
			}
		}
		if reservedName(lk) {
			reserved = true
		}
		if isBin(lk) {
			for _, c := range v {
				if c >= 0x80 {
					hiBin = true
				}
			}
		}
		if len(v) == 0 {
			empty = true
		}
	}
	for _, op := range r.ClientOps {
		for _, p := range op.KVs {
			scan(p.K, p.V, op.Kind != opNewRaw)
		}
		if op.Kind == opAppend && len(op.KVs) > 0 {
			appended = true
		}
	}
	srvInvalid := false
	for _, ops := range [][]srvOp{r.SetHeader, r.SetTrailer} {
		for _, op := range ops {
			for _, p := range op.KVs {
				scan(p.K, p.V, op.Pairs)
			}
			if !srvOpValid(op) {
				srvInvalid = true
			}
		}
	}
	if r.SendHeader != nil {
		for _, p := range r.SendHeader.KVs {
			scan(p.K, p.V, r.SendHeader.Pairs)
		}
		if !srvOpValid(*r.SendHeader) {
			srvInvalid = true
		}
	}
	for _, vs := range want {
		if len(vs) > 1 {
			repeated = true
		}
	}
	for name, b := range map[string]bool{"bin_high_bytes": hiBin, "mixed_case_key": mixed, "reserved_key": reserved, "repeated_key": repeated,
		"empty_value": empty, "appended": appended, "server_md_invalid": srvInvalid} {
		if b {
			cls(name)
		}
	}
	// rule: >= 1 binary value with a byte >= 0x80 and >= 1 reserved or mixed-case key
	if hiBin && (reserved || mixed) {
		out.NonTrivial = true
	}
}

func TestVerifC09(t *testing.T) {
	vk.Check(t, vk.Unit[plan]{
		ID: "C09", Name: "md",
		Rule: "1-3 sequential RPCs (unary via grpc.SetHeader/SendHeader/SetTrailer(ctx), bidi via the ServerStream API) on one client/server pair; client metadata built by 0-4 ops NewOutgoingContext(Pairs) / NewOutgoingContext(raw MD) / AppendToOutgoingContext with 0-5 pairs each from: plain keys, -bin keys with arbitrary bytes, random [0-9a-z_.-] keys, reserved names (pseudo-headers, content-type, te, grpc-*, user-agent), mixed-case variants, invalid keys/values (25% of RPCs); server SetHeader x0-3, SendHeader, SetTrailer x0-3 likewise. non-trivial = some RPC has a -bin value with a byte >= 0x80 and a reserved or mixed-case key",
		Gen:  genPlan, Run: run,
	})
}
