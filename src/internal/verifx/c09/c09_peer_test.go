package c09_test

// Unit "peerb64": a scripted raw HTTP/2 client (independent framer + hpack
// encoder) sends request headers the grpc-go client would never emit - -bin
// values in padded or unpadded base64, and transport-reserved names placed
// among the user fields - to a real grpc.Server. Oracle: the handler sees the
// decoded bytes (both encodings), per-key order preserved, and none of the
// reserved names except :authority and user-agent.

import (
	"context"
	"encoding/base64"
	"fmt"
	"sync"
	"testing"
	"time"

	"golang.org/x/net/http2"
	"google.golang.org/grpc/internal/verifkit/e2e"
	"google.golang.org/grpc/internal/verifkit/vk"
	"google.golang.org/grpc/metadata"
	"pgregory.net/rapid"
)

type peerField struct {
	K      string `json:"k"`
	V      []byte `json:"v"`
	Padded bool   `json:"padded"` // -bin only: StdEncoding (with '=') instead of RawStdEncoding
}

type peerPlan struct {
	Requests [][]peerField `json:"requests"`
}

// reserved names a peer may legally put on the wire (HTTP/2-valid, accepted by
// the server's header parsing) with a value the server tolerates.
var peerReserved = []peerField{
	{K: "grpc-status", V: []byte("7")}, {K: "grpc-message", V: []byte("from%20peer")}, {K: "grpc-message-type", V: []byte("some.Type")},
	{K: "grpc-encoding", V: []byte("identity")}, {K: "grpc-timeout", V: []byte("1H")}, {K: "te", V: []byte("trailers")},
	{K: "content-type", V: []byte("application/grpc")}, {K: "user-agent", V: []byte("second-agent")},
}

func genPeerPlan(rt *rapid.T) peerPlan {
	p := peerPlan{}
	nreq := rapid.IntRange(1, 3).Draw(rt, "nreq")
	for i := 0; i < nreq; i++ {
		n := rapid.IntRange(1, 10).Draw(rt, "nfields")
		var fs []peerField
		for j := 0; j < n; j++ {
			switch rapid.IntRange(0, 9).Draw(rt, "fkind") {
			case 0, 1:
				fs = append(fs, peerField{K: rapid.SampledFrom(plainKeys).Draw(rt, "key"), V: genPrintable(rt)})
			case 2:
				fs = append(fs, rapid.SampledFrom(peerReserved).Draw(rt, "reserved"))
			default:
				fs = append(fs, peerField{K: rapid.SampledFrom(binKeys).Draw(rt, "key"), V: genBinary(rt), Padded: rapid.Bool().Draw(rt, "padded")})
			}
		}
		p.Requests = append(p.Requests, fs)
	}
	return p
}

func runPeer(t *testing.T, p peerPlan) vk.Result {
	var res vk.Result
	msg := vk.Bubble(t, func(t *testing.T) { res = runPeerInBubble(p) })
	if msg != "" && res.Violation == "" {
		return vk.Bad("harness/bubble: %s", msg).With(res.Classes...)
	}
	return res
}

func runPeerInBubble(p peerPlan) vk.Result {
	var mu sync.Mutex
	seen := map[int]metadata.MD{}
	calls := map[int]int{}
	pair, err := e2e.Start(e2e.Options{
		NoClient: true,
		Unary: func(ctx context.Context, req []byte) ([]byte, error) {
			md, _ := metadata.FromIncomingContext(ctx)
			mu.Lock()
			if len(req) == 1 {
				seen[int(req[0])] = md
				calls[int(req[0])]++
			}
			mu.Unlock()
			return []byte("ok"), nil
		},
	})
	if err != nil {
		return vk.Bad("harness: start: %v", err)
	}
	defer pair.Close()
	rc, err := pair.DialRaw()
	if err != nil {
		return vk.Bad("harness: dial: %v", err)
	}
	defer rc.Conn.Close()
	_ = rc.Conn.SetDeadline(time.Now().Add(60 * time.Second))

	out := vk.Result{}
	for i, fs := range p.Requests {
		out.Steps++
		want := omap{}
		var extra []e2e.HeaderField
		userAgents := []string{"verif-rawclient/1"}
		padded, unpaddedNeeded, reserved := false, false, false
		for _, f := range fs {
			val := string(f.V)
			if isBin(f.K) {
				if f.Padded {
					val = base64.StdEncoding.EncodeToString(f.V)
				} else {
					val = base64.RawStdEncoding.EncodeToString(f.V)
				}
				if len(f.V)%3 != 0 {
					if f.Padded {
						padded = true
					} else {
						unpaddedNeeded = true
					}
				}
			}
			extra = append(extra, e2e.HeaderField{Name: f.K, Value: val})
			switch {
			case f.K == "user-agent":
				userAgents = append(userAgents, val)
				reserved = true
			case reservedName(f.K):
				reserved = true
			default:
				want.add(f.K, f.V)
			}
		}
		if padded {
			out.Classes = append(out.Classes, "padded_b64")
		}
		if unpaddedNeeded {
			out.Classes = append(out.Classes, "unpadded_b64")
		}
		if reserved {
			out.Classes = append(out.Classes, "peer_reserved_name")
		}
		if padded && unpaddedNeeded {
			out.NonTrivial = true
		}
		id, err := rc.StartStream(e2e.GRPCRequestHeaders(e2e.UnaryMethod, extra...), false)
		if err == nil {
			err = rc.WriteMessage(id, 0, []byte{byte(i)}, true)
		}
		if err != nil {
			return vk.Bad("harness: raw write: %v", err)
		}
		frames, err := rc.ReadUntilEnd(id)
		if err != nil {
			return vk.Bad("request %d: connection failed: %v (frames %+v)", i, err, frames).With(out.Classes...)
		}
		last := frames[len(frames)-1]
		if last.Type != http2.FrameHeaders || len(last.Get("grpc-status")) != 1 || last.Get("grpc-status")[0] != "0" {
			return vk.Bad("request %d (fields %+v): not answered with grpc-status 0: %+v", i, extra, frames).With(out.Classes...)
		}
		mu.Lock()
		md, n := seen[i], calls[i]
		mu.Unlock()
		if n != 1 {
			return vk.Bad("request %d: handler ran %d times", i, n).With(out.Classes...)
		}
		if d := diffMD(md, want, map[string]bool{":authority": true, "content-type": true, "user-agent": true}); d != "" {
			return vk.Bad("request %d (wire fields %q): handler metadata differs: %s", i, fmt.Sprint(extra), d).With(out.Classes...)
		}
		if a := md[":authority"]; len(a) != 1 || a[0] != "bufnet" {
			return vk.Bad("request %d: :authority = %q", i, a).With(out.Classes...)
		}
		if ua := md["user-agent"]; fmt.Sprint(ua) != fmt.Sprint(userAgents) {
			return vk.Bad("request %d: user-agent = %q, want %q", i, ua, userAgents).With(out.Classes...)
		}
	}
	return out
}

func TestVerifC09Peer(t *testing.T) {
	vk.Check(t, vk.Unit[peerPlan]{
		ID: "C09", Name: "peerb64",
		Rule: "1-3 requests from a scripted raw HTTP/2 client to a real server, each with 1-10 extra header fields: -bin keys with arbitrary bytes encoded padded (StdEncoding) or unpadded (RawStdEncoding), plain keys, and reserved names (grpc-status, grpc-message, grpc-message-type, grpc-encoding, grpc-timeout, te, content-type, user-agent) placed among them. non-trivial = a request carries both a padded and an unpadded value whose length is not a multiple of 3",
		Gen:  genPeerPlan, Run: runPeer,
	})
}
