package c47_test

// C47 reference evaluator and shared generators (black-box part).
//
// The reference is written from the property statement, not from the code:
//   - header matchers see the comma-joined values of the header;
//   - exact/prefix/suffix/contains are byte-wise comparisons, regex is a
//     full-string match, range is "base-10 integer in [start,end)";
//   - invert flips the result only when the header is present;
//   - present_match compares presence (xor invert, as in Envoy and as the
//     package's own TestHeaderPresentMatcherMatch expects);
//   - ignore_case folds ASCII letters only.

import (
	"regexp"
	"strings"
	"unicode/utf8"

	"pgregory.net/rapid"
)

// ---------- ASCII-only folding ----------

func asciiLower(s string) string {
	b := []byte(s)
	for i, c := range b {
		if 'A' <= c && c <= 'Z' {
			b[i] = c + ('a' - 'A')
		}
	}
	return string(b)
}

func isASCII(s string) bool {
	for i := 0; i < len(s); i++ {
		if s[i] >= 0x80 {
			return false
		}
	}
	return true
}

// crossRunes are the non-ASCII runes whose Unicode simple case mapping lands
// in ASCII: KELVIN SIGN -> k, LONG S -> S, DOTLESS I -> I, I WITH DOT -> i.
var crossRunes = []rune{0x212A, 0x017F, 0x0131, 0x0130}

func hasCrossRune(s string) bool {
	for _, r := range s {
		for _, c := range crossRunes {
			if r == c {
				return true
			}
		}
	}
	return false
}

// ---------- string matcher reference ----------

const (
	kExact = iota
	kPrefix
	kSuffix
	kContains
	kRegex
	kRange   // header only
	kPresent // header only
	kString  // header only: embedded StringMatcher
)

var kindNames = []string{"exact", "prefix", "suffix", "contains", "regex", "range", "present", "string"}

// refFullMatch decides "the whole input matches pattern" without anchoring the
// pattern textually: a full match exists iff the leftmost-longest match of the
// unanchored pattern is [0,len(input)].
func refFullMatch(pattern, input string) (match bool, compileErr error) {
	re, err := regexp.Compile(pattern)
	if err != nil {
		return false, err
	}
	re.Longest()
	loc := re.FindStringIndex(input)
	return loc != nil && loc[0] == 0 && loc[1] == len(input), nil
}

// refString evaluates a string matcher (kinds exact..regex). fold is the case
// folding used when ignoreCase is set (asciiLower for the oracle).
func refString(kind int, pattern, input string, ignoreCase bool, fold func(string) string) bool {
	if ignoreCase && kind != kRegex {
		pattern, input = fold(pattern), fold(input)
	}
	switch kind {
	case kExact:
		return input == pattern
	case kPrefix:
		return len(input) >= len(pattern) && input[:len(pattern)] == pattern
	case kSuffix:
		return len(input) >= len(pattern) && input[len(input)-len(pattern):] == pattern
	case kContains:
		for i := 0; i+len(pattern) <= len(input); i++ {
			if input[i:i+len(pattern)] == pattern {
				return true
			}
		}
		return false
	case kRegex:
		m, _ := refFullMatch(pattern, input)
		return m
	}
	return false
}

// refInt parses a base-10 integer: optional sign, one or more ASCII digits,
// value within int64.
func refInt(s string) (int64, bool) {
	neg := false
	i := 0
	if len(s) > 0 && (s[0] == '+' || s[0] == '-') {
		neg = s[0] == '-'
		i = 1
	}
	if i == len(s) {
		return 0, false
	}
	var mag uint64
	for ; i < len(s); i++ {
		c := s[i]
		if c < '0' || c > '9' {
			return 0, false
		}
		d := uint64(c - '0')
		if mag > (1<<63-d)/10 { // mag*10+d > 2^63
			return 0, false
		}
		mag = mag*10 + d
	}
	if neg {
		return int64(-mag), true // mag <= 2^63: wraps to MinInt64 correctly
	}
	if mag > 1<<63-1 {
		return 0, false
	}
	return int64(mag), true
}

// ---------- generators ----------

// foldGroups: members of one group are equal under Unicode simple case
// mapping (or, last group, collapse to U+FFFD as invalid UTF-8 under
// strings.ToLower/ToUpper); only the ASCII members of a group are equal
// under ASCII folding.
var foldGroups = [][]string{
	{"k", "K", "\u212a"},
	{"s", "S", "\u017f"},
	{"i", "I", "\u0131", "\u0130"},
	{"a", "A"},
	{"z", "Z"},
	{"\u00e9", "\u00c9"}, // e-acute pair: cased, but stays outside ASCII
	{"\xff", "\xfe", "\ufffd"},
	{"\u00df"}, // sharp s: no simple upper-case mapping
	{"/"}, {"-"}, {"1"}, {"0"}, {","}, {" "}, {"."}, {"@"}, {"["}, {"`"}, {"{"},
}

func genAtom(rt *rapid.T, label string) (group, member int) {
	// bias towards the case-bearing groups
	if rapid.IntRange(0, 9).Draw(rt, label+"_bias") < 6 {
		group = rapid.IntRange(0, 4).Draw(rt, label+"_g")
	} else {
		group = rapid.IntRange(0, len(foldGroups)-1).Draw(rt, label+"_g")
	}
	member = rapid.IntRange(0, len(foldGroups[group])-1).Draw(rt, label+"_m")
	return
}

// genText draws a string of 0..n atoms; validUTF8 excludes the raw 0xff/0xfe
// atoms (patterns always come out of proto string fields, which are validated
// UTF-8 on the wire).
func genText(rt *rapid.T, label string, minN, maxN int, validUTF8 bool) (string, [][2]int) {
	n := rapid.IntRange(minN, maxN).Draw(rt, label+"_n")
	var sb strings.Builder
	atoms := make([][2]int, 0, n)
	for i := 0; i < n; i++ {
		g, m := genAtom(rt, label)
		s := foldGroups[g][m]
		if validUTF8 && !utf8.ValidString(s) {
			m = 2 // "\ufffd"
			s = foldGroups[g][m]
		}
		atoms = append(atoms, [2]int{g, m})
		sb.WriteString(s)
	}
	return sb.String(), atoms
}

// genRelated derives an input from a pattern's atoms: every atom is kept,
// replaced by another member of its fold group, or (rarely) by a fresh atom;
// optional extra atoms before/after so that prefix/suffix/contains hit.
func genRelated(rt *rapid.T, label string, atoms [][2]int) string {
	var sb strings.Builder
	pre := rapid.IntRange(0, 3).Draw(rt, label+"_pre")
	for i := 0; i < pre/2; i++ { // 0,0,1,1
		g, m := genAtom(rt, label+"_p")
		sb.WriteString(foldGroups[g][m])
	}
	for _, a := range atoms {
		switch rapid.IntRange(0, 9).Draw(rt, label+"_mut") {
		case 0, 1, 2, 3, 4:
			sb.WriteString(foldGroups[a[0]][a[1]])
		case 5, 6, 7, 8:
			m := rapid.IntRange(0, len(foldGroups[a[0]])-1).Draw(rt, label+"_sib")
			sb.WriteString(foldGroups[a[0]][m])
		default:
			g, m := genAtom(rt, label+"_x")
			sb.WriteString(foldGroups[g][m])
		}
	}
	post := rapid.IntRange(0, 3).Draw(rt, label+"_post")
	for i := 0; i < post/2; i++ {
		g, m := genAtom(rt, label+"_q")
		sb.WriteString(foldGroups[g][m])
	}
	return sb.String()
}

var badRegexes = []string{"(", ")", "a)|(b", "[", "*a", "a{2,1}", "\\", "(?P<n>a", "a**", "[z-a]", "\\8", "(?z)a"}

// genRegex draws a regular expression over the same alphabet; about one in
// ten is syntactically invalid (including "a)|(b", which is only invalid
// before anchoring).
func genRegex(rt *rapid.T, label string, depth int) string {
	if depth == 0 && rapid.IntRange(0, 9).Draw(rt, label+"_bad") == 0 {
		return rapid.SampledFrom(badRegexes).Draw(rt, label+"_badre")
	}
	nAlt := rapid.IntRange(1, 2).Draw(rt, label+"_alts")
	var alts []string
	for a := 0; a < nAlt; a++ {
		nPiece := rapid.IntRange(0, 3).Draw(rt, label+"_pieces")
		var sb strings.Builder
		for p := 0; p < nPiece; p++ {
			switch k := rapid.IntRange(0, 11).Draw(rt, label+"_atom"); {
			case k <= 4:
				g, m := genAtom(rt, label+"_lit")
				s := foldGroups[g][m]
				if !utf8.ValidString(s) {
					s = "\ufffd"
				}
				sb.WriteString(regexp.QuoteMeta(s))
			case k == 5:
				sb.WriteString(".")
			case k == 6:
				sb.WriteString(rapid.SampledFrom([]string{"[a-k]", "[^a]", "[A-Z]", "\\d", "\\w", "[[:alpha:]]", "[k\u212a]", "\\pL"}).Draw(rt, label+"_cls"))
			case k == 7 && depth < 2:
				sb.WriteString("(" + genRegex(rt, label+"_g", depth+1) + ")")
			case k == 8 && depth < 2:
				sb.WriteString("(?i:" + genRegex(rt, label+"_i", depth+1) + ")")
			case k == 9:
				sb.WriteString(rapid.SampledFrom([]string{"^", "$", "\\b", "\\z", "\\A", "(?m:^)", "(?m:$)", "(?s:.)"}).Draw(rt, label+"_anc"))
				continue
			default:
				sb.WriteString("a")
			}
			sb.WriteString(rapid.SampledFrom([]string{"", "", "", "*", "+", "?", "{1,2}", "*?"}).Draw(rt, label+"_rep"))
		}
		alts = append(alts, sb.String())
	}
	return strings.Join(alts, "|")
}
