package c47_test

// C47: header and string matchers implement Envoy matcher semantics
// (internal/xds/matcher, exported API). Differential check against the
// reference evaluator in c47_ref_test.go (ASCII-only case folding).

import (
	"fmt"
	"regexp"
	"strings"
	"testing"
	"unicode/utf8"

	v3matcherpb "github.com/envoyproxy/go-control-plane/envoy/type/matcher/v3"
	"google.golang.org/grpc/internal/verifkit/vk"
	"google.golang.org/grpc/internal/xds/matcher"
	"google.golang.org/grpc/metadata"
	"pgregory.net/rapid"
)

const (
	sigUnicodeFold  = "c47.unicode_case_folding"
	sigPresentEmpty = "c47.present_empty_value"
)

// ---------------------------------------------------------------- string unit

type strPlan struct {
	Kind       int    `json:"kind"` // kExact..kRegex
	Pattern    []byte `json:"pattern"`
	Input      []byte `json:"input"`
	IgnoreCase bool   `json:"ignore_case"`
	ViaProto   bool   `json:"via_proto"`
}

func genStr(rt *rapid.T) strPlan {
	p := strPlan{
		Kind:       rapid.SampledFrom([]int{kExact, kExact, kPrefix, kSuffix, kContains, kRegex}).Draw(rt, "kind"),
		IgnoreCase: rapid.IntRange(0, 3).Draw(rt, "ic") > 0,
		ViaProto:   rapid.Bool().Draw(rt, "via_proto"),
	}
	if p.Kind == kRegex {
		switch rapid.IntRange(0, 2).Draw(rt, "re_mode") {
		case 0: // regex derived from the input so that full matches are common
			in, _ := genText(rt, "in", 0, 5, false)
			cut := rapid.IntRange(0, len(in)).Draw(rt, "cut")
			for cut > 0 && cut < len(in) && !utf8.RuneStart(in[cut]) {
				cut--
			}
			head := in[:cut]
			if !utf8.ValidString(head) {
				head = strings.ToValidUTF8(head, "\ufffd")
			}
			p.Pattern = []byte(regexp.QuoteMeta(head) + rapid.SampledFrom([]string{".*", ".+", "", "(?s:.*)", ".?", "[^/]*", "(?i:k|s|i)*"}).Draw(rt, "tail"))
			p.Input = []byte(in)
		default:
			p.Pattern = []byte(genRegex(rt, "re", 0))
			in, _ := genText(rt, "in", 0, 4, false)
			p.Input = []byte(in)
		}
		return p
	}
	pat, atoms := genText(rt, "pat", 0, 5, true)
	p.Pattern = []byte(pat)
	if rapid.IntRange(0, 4).Draw(rt, "related") > 0 {
		p.Input = []byte(genRelated(rt, "in", atoms))
	} else {
		in, _ := genText(rt, "in", 0, 6, false)
		p.Input = []byte(in)
	}
	return p
}

// buildString constructs the matcher under test. ok=false: the construction
// was (legitimately or not) refused; err carries the reason.
func buildString(kind int, pattern string, ignoreCase, viaProto bool) (matcher.StringMatcher, error) {
	if viaProto {
		mp := &v3matcherpb.StringMatcher{IgnoreCase: ignoreCase}
		switch kind {
		case kExact:
			mp.MatchPattern = &v3matcherpb.StringMatcher_Exact{Exact: pattern}
		case kPrefix:
			mp.MatchPattern = &v3matcherpb.StringMatcher_Prefix{Prefix: pattern}
		case kSuffix:
			mp.MatchPattern = &v3matcherpb.StringMatcher_Suffix{Suffix: pattern}
		case kContains:
			mp.MatchPattern = &v3matcherpb.StringMatcher_Contains{Contains: pattern}
		case kRegex:
			mp.MatchPattern = &v3matcherpb.StringMatcher_SafeRegex{SafeRegex: &v3matcherpb.RegexMatcher{Regex: pattern}}
		}
		return matcher.StringMatcherFromProto(mp)
	}
	switch kind {
	case kExact:
		return matcher.NewExactStringMatcher(pattern, ignoreCase), nil
	case kPrefix:
		return matcher.NewPrefixStringMatcher(pattern, ignoreCase), nil
	case kSuffix:
		return matcher.NewSuffixStringMatcher(pattern, ignoreCase), nil
	case kContains:
		return matcher.NewContainsStringMatcher(pattern, ignoreCase), nil
	case kRegex:
		re, err := matcher.CompileSafeRegex(pattern)
		if err != nil {
			return matcher.StringMatcher{}, err
		}
		return matcher.NewRegexStringMatcher(re), nil
	}
	return matcher.StringMatcher{}, fmt.Errorf("bad kind %d", kind)
}

// classifyFold decides whether a disagreement got != want on a case-folded
// comparison is exactly the known Unicode-folding shape: ignore_case is on, a
// non-ASCII byte is involved, and replacing ASCII folding by Go's Unicode
// strings.ToLower in the reference reproduces the observed answer.
func classifyFold(kind int, pattern, input string, ignoreCase, got bool) string {
	if !ignoreCase || kind == kRegex {
		return ""
	}
	if isASCII(pattern) && isASCII(input) {
		return ""
	}
	if refString(kind, pattern, input, true, strings.ToLower) == got {
		return sigUnicodeFold
	}
	return ""
}

func strClasses(kind int, pattern, input string, ignoreCase bool) (classes []string, cross bool) {
	classes = append(classes, "kind_"+kindNames[kind])
	if ignoreCase {
		classes = append(classes, "ignore_case")
	}
	cross = hasCrossRune(pattern) || hasCrossRune(input)
	if cross {
		classes = append(classes, "cross_rune")
	}
	if !utf8.ValidString(input) {
		classes = append(classes, "input_invalid_utf8")
	}
	if !isASCII(pattern) || !isASCII(input) {
		classes = append(classes, "non_ascii")
	}
	return
}

func runStr(_ *testing.T, p strPlan) vk.Result {
	pattern, input := string(p.Pattern), string(p.Input)
	if p.Kind < kExact || p.Kind > kRegex || !utf8.ValidString(pattern) {
		return vk.Result{Discard: true}
	}
	classes, cross := strClasses(p.Kind, pattern, input, p.IgnoreCase)
	res := vk.Result{Classes: classes, NonTrivial: cross}

	sm, err := buildString(p.Kind, pattern, p.IgnoreCase, p.ViaProto)
	if p.Kind == kRegex {
		if _, cerr := refFullMatch(pattern, input); (cerr != nil) != (err != nil) {
			return vk.Bad("regex %q: reference compile error=%v, code under test error=%v", pattern, cerr, err)
		}
	}
	if err != nil {
		res.Classes = append(res.Classes, "construct_rejected")
		// The only other refusal the proto constructor is allowed is an empty
		// prefix/suffix/contains pattern (Envoy: min_len 1).
		if p.Kind != kRegex && !(p.ViaProto && pattern == "" && p.Kind != kExact) {
			return vk.Bad("%s matcher %q refused: %v", kindNames[p.Kind], pattern, err)
		}
		return res
	}
	got := sm.Match(input)
	want := refString(p.Kind, pattern, input, p.IgnoreCase, asciiLower)
	if want {
		res.Classes = append(res.Classes, "ref_match")
	} else {
		res.Classes = append(res.Classes, "ref_nomatch")
	}
	if got != want {
		r := vk.Bad("StringMatcher %s pattern=%q ignore_case=%v via_proto=%v input=%q: Match=%v, reference (ASCII-only folding)=%v",
			kindNames[p.Kind], pattern, p.IgnoreCase, p.ViaProto, input, got, want)
		r.Sig = classifyFold(p.Kind, pattern, input, p.IgnoreCase, got)
		if r.Sig != "" {
			return r.With(append(classes, "known_shape_unicode_fold")...)
		}
		return r
	}
	// Same matcher a second time: matchers are values without state.
	if sm.Match(input) != got {
		return vk.Bad("StringMatcher %s %q is not deterministic on %q", kindNames[p.Kind], pattern, input)
	}
	return res
}

const strRule = "StringMatcher exact/prefix/suffix/contains/safe_regex, built by constructor or StringMatcherFromProto; patterns (valid UTF-8) and inputs (any bytes) are sequences of 0-6 atoms from case groups {k,K,U+212A} {s,S,U+017F} {i,I,U+0131,U+0130} {a,A} {z,Z} {e-acute pair} {0xff,0xfe,U+FFFD} plus punctuation around the ASCII letter range; 80% of inputs are derived from the pattern by swapping atoms inside their fold group and adding a head/tail; regexes from a small grammar incl. invalid ones. non-trivial = pattern or input contains U+212A/U+017F/U+0131/U+0130"

func TestVerifC47String(t *testing.T) {
	vk.Check(t, vk.Unit[strPlan]{ID: "C47", Name: "string", Rule: strRule, Gen: genStr, Run: runStr})
}

// FuzzVerifC47String: native fuzz on (kind/flags, pattern, input).
func FuzzVerifC47String(f *testing.F) {
	seeds := [][]byte{
		{0x10, 1, 'k', 0xe2, 0x84, 0xaa},
		{0x11, 1, 'a', 'A', 'b'},
		{0x04, 2, 'a', '*', 'a', 'a'},
		{0x13, 2, 'k', 's', 'x', 0xe2, 0x84, 0xaa, 0xc5, 0xbf},
		{0x32, 1, 'i', 0xc4, 0xb0},
	}
	vk.Fuzz(f, vk.Unit[strPlan]{ID: "C47", Name: "string", Run: runStr}, seeds, func(b []byte) (strPlan, bool) {
		if len(b) < 2 || len(b) > 40 {
			return strPlan{}, false
		}
		p := strPlan{Kind: int(b[0]&0x0f) % 5, IgnoreCase: b[0]&0x10 != 0, ViaProto: b[0]&0x20 != 0}
		n := int(b[1])
		rest := b[2:]
		if n > len(rest) {
			n = len(rest)
		}
		p.Pattern, p.Input = rest[:n], rest[n:]
		if !utf8.Valid(p.Pattern) {
			return strPlan{}, false
		}
		return p, true
	})
}

// ---------------------------------------------------------------- header unit

type hdrKV struct {
	Key  string   `json:"key"`
	Vals [][]byte `json:"vals"`
}

type hdrPlan struct {
	Kind       int     `json:"kind"` // kExact..kString
	Key        string  `json:"key"`
	Pattern    []byte  `json:"pattern"`
	Start      int64   `json:"start"`
	End        int64   `json:"end"`
	Present    bool    `json:"present"`
	Invert     bool    `json:"invert"`
	SMKind     int     `json:"sm_kind"`
	IgnoreCase bool    `json:"ignore_case"`
	MD         []hdrKV `json:"md"`
}

var hdrKeys = []string{"th", "x-a", "x-b", "content-type"}

func genIntText(rt *rapid.T, label string, start, end int64) string {
	switch rapid.IntRange(0, 7).Draw(rt, label+"_k") {
	case 0, 1: // at the boundaries
		v := rapid.SampledFrom([]int64{start - 1, start, start + 1, end - 1, end, end + 1}).Draw(rt, label+"_b")
		return fmt.Sprint(v)
	case 2:
		return fmt.Sprint(rapid.Int64().Draw(rt, label+"_any"))
	case 3: // legal alternative spellings
		v := rapid.SampledFrom([]int64{start, end - 1, end}).Draw(rt, label+"_b")
		if v >= 0 {
			return rapid.SampledFrom([]string{"+", "0", "00", "+0"}).Draw(rt, label+"_pfx") + fmt.Sprint(v)
		}
		return "-0" + fmt.Sprint(v)[1:]
	case 4: // not integers
		v := fmt.Sprint(rapid.SampledFrom([]int64{start, end - 1}).Draw(rt, label+"_b"))
		return rapid.SampledFrom([]string{" " + v, v + " ", v + ".0", "0x" + v, v + "e0", "1_0", "", "+", "-", "--1", "\u0661", v + "\n"}).Draw(rt, label+"_bad")
	case 5: // int64 overflow edges
		return rapid.SampledFrom([]string{"9223372036854775807", "9223372036854775808", "-9223372036854775808", "-9223372036854775809", "18446744073709551616", "+9223372036854775807", "000000000000000000009223372036854775807"}).Draw(rt, label+"_of")
	default:
		if start < end {
			return fmt.Sprint(rapid.Int64Range(start, end-1).Draw(rt, label+"_in"))
		}
		return fmt.Sprint(start)
	}
}

func genHdr(rt *rapid.T) hdrPlan {
	p := hdrPlan{
		Kind:   rapid.IntRange(kExact, kString).Draw(rt, "kind"),
		Key:    rapid.SampledFrom(hdrKeys).Draw(rt, "key"),
		Invert: rapid.Bool().Draw(rt, "invert"),
	}
	// the value list of the matched key; other keys are filled in afterwards
	var vals [][]byte
	nVals := rapid.SampledFrom([]int{1, 1, 1, 2, 2, 3}).Draw(rt, "nvals")
	switch p.Kind {
	case kRange:
		switch rapid.IntRange(0, 3).Draw(rt, "range_k") {
		case 0:
			p.Start = rapid.Int64Range(-5, 5).Draw(rt, "start")
			p.End = p.Start + rapid.Int64Range(-1, 6).Draw(rt, "len")
		case 1:
			p.Start = rapid.Int64().Draw(rt, "start")
			p.End = rapid.Int64().Draw(rt, "end")
		case 2:
			p.Start = -1 << 63
			p.End = 1<<63 - 1 - rapid.Int64Range(0, 1).Draw(rt, "d")
		default:
			p.End = 1<<63 - 1
			p.Start = p.End - rapid.Int64Range(0, 3).Draw(rt, "d")
		}
		if nVals > 1 && rapid.IntRange(0, 2).Draw(rt, "fewer") > 0 {
			nVals = 1
		}
		for i := 0; i < nVals; i++ {
			vals = append(vals, []byte(genIntText(rt, fmt.Sprintf("v%d", i), p.Start, p.End)))
		}
	case kPresent:
		p.Present = rapid.Bool().Draw(rt, "present")
		for i := 0; i < nVals; i++ {
			s, _ := genText(rt, fmt.Sprintf("v%d", i), 0, 2, false)
			vals = append(vals, []byte(s))
		}
	case kRegex:
		p.Pattern = []byte(genRegex(rt, "re", 0))
		for i := 0; i < nVals; i++ {
			s, _ := genText(rt, fmt.Sprintf("v%d", i), 0, 3, false)
			vals = append(vals, []byte(s))
		}
	default:
		if p.Kind == kString {
			p.SMKind = rapid.IntRange(kExact, kContains).Draw(rt, "sm_kind")
			p.IgnoreCase = rapid.Bool().Draw(rt, "ic")
		}
		// Draw the joined value first, then cut it into nVals values at
		// positions where the pattern has a comma (or anywhere), so that a
		// pattern spanning the "," joint is common.
		pat, atoms := genText(rt, "pat", 0, 5, true)
		p.Pattern = []byte(pat)
		var joined string
		if rapid.IntRange(0, 4).Draw(rt, "related") > 0 {
			joined = genRelated(rt, "in", atoms)
		} else {
			joined, _ = genText(rt, "in", 0, 6, false)
		}
		parts := strings.Split(joined, ",")
		if len(parts) >= 2 && rapid.Bool().Draw(rt, "split_at_comma") {
			for _, s := range parts {
				vals = append(vals, []byte(s))
			}
		} else {
			vals = append(vals, []byte(joined))
			for i := 1; i < nVals; i++ {
				s, _ := genText(rt, fmt.Sprintf("v%d", i), 0, 2, false)
				vals = append(vals, []byte(s))
			}
			if nVals > 1 && rapid.Bool().Draw(rt, "rot") { // related value last
				vals[0], vals[len(vals)-1] = vals[len(vals)-1], vals[0]
			}
		}
	}
	// metadata: the matched key is present in ~75 % of the cases
	present := rapid.IntRange(0, 3).Draw(rt, "key_present") > 0
	for _, k := range hdrKeys {
		if k == p.Key {
			if present {
				p.MD = append(p.MD, hdrKV{Key: k, Vals: vals})
			}
			continue
		}
		if rapid.IntRange(0, 2).Draw(rt, "other_"+k) == 0 {
			// a decoy: same values under another key
			p.MD = append(p.MD, hdrKV{Key: k, Vals: vals})
		}
	}
	return p
}

func runHdr(_ *testing.T, p hdrPlan) vk.Result {
	pattern := string(p.Pattern)
	if p.Kind < kExact || p.Kind > kString || !utf8.ValidString(pattern) || p.Key == "" {
		return vk.Result{Discard: true}
	}
	md := metadata.MD{}
	var joined string
	present := false
	nVals := 0
	for _, kv := range p.MD {
		if len(kv.Vals) == 0 || md[kv.Key] != nil {
			return vk.Result{Discard: true} // not a header map that can come off the wire
		}
		vs := make([]string, len(kv.Vals))
		for i, v := range kv.Vals {
			vs[i] = string(v)
		}
		md[kv.Key] = vs
		if kv.Key == p.Key {
			present, joined, nVals = true, strings.Join(vs, ","), len(vs)
		}
	}

	res := vk.Result{Classes: []string{"kind_" + kindNames[p.Kind]}}
	if p.Invert {
		res.Classes = append(res.Classes, "invert")
	}
	if !present {
		res.Classes = append(res.Classes, "header_absent")
		if p.Invert {
			res.Classes = append(res.Classes, "invert_and_absent")
		}
	}
	if nVals >= 2 {
		res.Classes = append(res.Classes, "multi_value")
	}
	cross := hasCrossRune(pattern) || hasCrossRune(joined)
	if cross {
		res.Classes = append(res.Classes, "cross_rune")
	}
	res.NonTrivial = nVals >= 2 || (present && cross)

	var m matcher.HeaderMatcher
	var base bool // reference result before invert, valid when present
	switch p.Kind {
	case kExact:
		m = matcher.NewHeaderExactMatcher(p.Key, pattern, p.Invert)
		base = refString(kExact, pattern, joined, false, asciiLower)
	case kPrefix:
		m = matcher.NewHeaderPrefixMatcher(p.Key, pattern, p.Invert)
		base = refString(kPrefix, pattern, joined, false, asciiLower)
	case kSuffix:
		m = matcher.NewHeaderSuffixMatcher(p.Key, pattern, p.Invert)
		base = refString(kSuffix, pattern, joined, false, asciiLower)
	case kContains:
		m = matcher.NewHeaderContainsMatcher(p.Key, pattern, p.Invert)
		base = refString(kContains, pattern, joined, false, asciiLower)
	case kRegex:
		re, err := matcher.CompileSafeRegex(pattern)
		full, cerr := refFullMatch(pattern, joined)
		if (err != nil) != (cerr != nil) {
			return vk.Bad("regex %q: reference compile error=%v, CompileSafeRegex error=%v", pattern, cerr, err)
		}
		if err != nil {
			return res.With("regex_rejected")
		}
		m = matcher.NewHeaderRegexMatcher(p.Key, re, p.Invert)
		base = full
	case kRange:
		m = matcher.NewHeaderRangeMatcher(p.Key, p.Start, p.End, p.Invert)
		v, ok := refInt(joined)
		base = ok && v >= p.Start && v < p.End
		if ok {
			res.Classes = append(res.Classes, "range_integer")
		} else {
			res.Classes = append(res.Classes, "range_not_integer")
		}
	case kPresent:
		m = matcher.NewHeaderPresentMatcher(p.Key, p.Present, p.Invert)
	case kString:
		sm, err := buildString(p.SMKind, pattern, p.IgnoreCase, false)
		if err != nil || p.SMKind > kContains {
			return vk.Result{Discard: true}
		}
		m = matcher.NewHeaderStringMatcher(p.Key, sm, p.Invert)
		base = refString(p.SMKind, pattern, joined, p.IgnoreCase, asciiLower)
		res.Classes = append(res.Classes, "sm_"+kindNames[p.SMKind])
	}

	var want bool
	switch {
	case p.Kind == kPresent:
		want = (present == p.Present) != p.Invert
	case !present:
		want = false
	default:
		want = base != p.Invert
	}
	if want {
		res.Classes = append(res.Classes, "ref_match")
	} else {
		res.Classes = append(res.Classes, "ref_nomatch")
	}

	got := m.Match(md)
	if got != want {
		r := vk.Bad("header matcher %s key=%q pattern=%q range=[%d,%d) present_match=%v invert=%v sm=%s/ignore_case=%v on md=%q (joined %q, present=%v): Match=%v, reference=%v",
			kindNames[p.Kind], p.Key, pattern, p.Start, p.End, p.Present, p.Invert, kindNames[p.SMKind], p.IgnoreCase, fmt.Sprint(md), joined, present, got, want)
		switch {
		case p.Kind == kString && present:
			// got = real(base) != invert  =>  real(base) = got != invert
			r.Sig = classifyFold(p.SMKind, pattern, joined, p.IgnoreCase, got != p.Invert)
			if r.Sig != "" {
				r = r.With("known_shape_unicode_fold")
			}
		case p.Kind == kPresent && present && joined == "":
			// header present with an empty value is treated as absent
			if got == ((false == p.Present) != p.Invert) {
				r.Sig = sigPresentEmpty
				r = r.With("known_shape_present_empty")
			}
		}
		return r.With(res.Classes...)
	}
	if m.Match(md) != got {
		return vk.Bad("header matcher %s is not deterministic", kindNames[p.Kind])
	}
	return res
}

const hdrRule = "one header matcher (exact, prefix, suffix, contains, safe_regex, range, present, string-matcher with ignore_case) with invert, against a metadata map of up to 4 keys with 1-3 values each (key absent in 25%; same values under decoy keys); values are cut so that patterns span the ',' joint; range values sit on start/end boundaries, use +/leading-zero spellings, non-integers and int64 overflow edges. non-trivial = matched header has >= 2 values, or is present and pattern/value contains U+212A/U+017F/U+0131/U+0130"

func TestVerifC47Header(t *testing.T) {
	vk.Check(t, vk.Unit[hdrPlan]{ID: "C47", Name: "header", Rule: hdrRule, Gen: genHdr, Run: runHdr})
}
