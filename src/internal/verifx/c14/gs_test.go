package c14_test

// C14, server side through a real grpc.Server: GracefulStop at a generated
// point while one or two scripted h2peer clients open streams before, between
// and after the two GOAWAYs and acknowledge the drain PING immediately, late
// or never. Handlers block until the plan releases them. The per-connection
// oracle is the drainModel of server_test.go; in addition GracefulStop must
// not return while a handler is running and must return once every connection
// is gone.

import (
	"fmt"
	"sync"
	"testing"
	"testing/synctest"
	"time"

	"golang.org/x/net/http2"
	"google.golang.org/grpc"
	"google.golang.org/grpc/internal/transport"
	"google.golang.org/grpc/internal/verifkit/h2peer"
	"google.golang.org/grpc/internal/verifkit/vk"
	"google.golang.org/grpc/internal/verifkit/vpipe"
	"google.golang.org/grpc/mem"
	"pgregory.net/rapid"
)

// rawCodec moves []byte / *[]byte messages unchanged.
type rawCodec struct{}

func (rawCodec) Name() string { return "c14raw" }

func (rawCodec) Marshal(v any) (mem.BufferSlice, error) {
	switch x := v.(type) {
	case []byte:
		return mem.BufferSlice{mem.SliceBuffer(append([]byte(nil), x...))}, nil
	case *[]byte:
		return mem.BufferSlice{mem.SliceBuffer(append([]byte(nil), *x...))}, nil
	}
	return nil, fmt.Errorf("rawCodec: cannot marshal %T", v)
}

func (rawCodec) Unmarshal(data mem.BufferSlice, v any) error {
	p, ok := v.(*[]byte)
	if !ok {
		return fmt.Errorf("rawCodec: cannot unmarshal into %T", v)
	}
	*p = data.Materialize()
	return nil
}

// GPlan: ops as in SPlan; the connection an op addresses is in bits 56.. of N;
// "drain" means GracefulStop.
type GPlan struct {
	Conns int   `json:"conns"`
	Ops   []SOp `json:"ops"`
}

func genGPlan(rt *rapid.T) GPlan {
	conns := rapid.IntRange(1, 2).Draw(rt, "conns")
	return GPlan{Conns: conns, Ops: genSOps(rt, vk.Pick(20, 80), conns)}
}

type gsHandlerRec struct {
	release chan bool // value: send a message first
	done    chan struct{}
	err     error
}

func runGS(t *testing.T, p GPlan) (out sOutcome) {
	out.classes = map[string]bool{}
	msg := vk.Bubble(t, func(t *testing.T) {
		start := time.Now()
		now := func() int64 { return int64(time.Since(start)) }
		var mu sync.Mutex
		recs := map[string]*gsHandlerRec{} // by path
		var models []*drainModel

		handler := func(_ any, stream grpc.ServerStream) error {
			path, _ := grpc.Method(stream.Context())
			var ci int
			fmt.Sscanf(path, "/c14/g%d", &ci)
			mu.Lock()
			m := models[ci]
			rec := &gsHandlerRec{release: make(chan bool, 1), done: make(chan struct{})}
			recs[path] = rec
			mu.Unlock()
			defer close(rec.done)
			id, _ := m.peer.Ledger().StreamIDByPath(path)
			m.onHandler(id)
			select {
			case withMsg := <-rec.release:
				if withMsg {
					if err := stream.SendMsg([]byte{7}); err != nil {
						rec.err = fmt.Errorf("SendMsg: %v", err)
					}
				}
				return nil
			case <-stream.Context().Done():
				return stream.Context().Err()
			}
		}
		lis := vpipe.Listen(nil)
		srv := grpc.NewServer(grpc.UnknownServiceHandler(handler), grpc.ForceServerCodecV2(rawCodec{}))
		serveDone := make(chan struct{})
		go func() { defer close(serveDone); srv.Serve(lis) }()
		var peers []*h2peer.Peer
		for i := 0; i < max(p.Conns, 1); i++ {
			c, err := lis.Dial()
			if err != nil {
				out.harnessErr = "dial: " + err.Error()
				return
			}
			vc := c.(*vpipe.Conn)
			peer := h2peer.New(vc, h2peer.Config{Role: h2peer.ClientRole, ManualPingAck: true})
			peers = append(peers, peer)
			mu.Lock()
			models = append(models, newDrainModel(fmt.Sprintf("conn%d", i), peer, vc.Peer().Closed, now, out.classes))
			mu.Unlock()
		}
		synctest.Wait()
		gsCalled := false
		gsDone := make(chan struct{})
		isGSDone := func() bool {
			select {
			case <-gsDone:
				return true
			default:
				return false
			}
		}
		bad := ""
		checkAll := func() {
			running := 0
			allClosed := true
			for _, m := range models {
				if m.acked {
					m.ackSettled = true
				}
				m.check()
				if m.bad != "" && bad == "" {
					bad = m.bad
				}
				running += len(m.unfinished())
				if !m.closed() {
					allClosed = false
				}
			}
			if bad != "" {
				return
			}
			switch {
			case isGSDone() && running > 0:
				bad = fmt.Sprintf("GracefulStop returned while %d handler(s) were still running", running)
			case isGSDone() && !allClosed:
				bad = "GracefulStop returned while a connection was still open"
			case gsCalled && allClosed && running == 0 && !isGSDone():
				bad = "every connection is closed and every handler returned, but GracefulStop has not returned"
			}
			if isGSDone() {
				out.classes["graceful_stop_returned"] = true
			}
		}
		finish := func(m *drainModel, ci int, id uint32, withMsg bool) {
			var path string
			for _, f := range m.peer.Ledger().FramesOf(h2peer.Out, id, false) {
				if f.Type == http2.FrameHeaders {
					path, _ = f.Field(":path")
				}
			}
			mu.Lock()
			rec := recs[path]
			mu.Unlock()
			if rec == nil {
				m.badf("harness: no handler record for stream %d (%s)", id, path)
				return
			}
			rec.release <- withMsg
			synctest.Wait()
			select {
			case <-rec.done:
			default:
				m.badf("handler of stream %d did not return after it was released", id)
				return
			}
			if rec.err != nil {
				m.badf("handled stream %d must be served to completion, but %v", id, rec.err)
				return
			}
			m.verifyServed(id, withMsg)
		}
		doOp := func(op SOp) {
			ci := int(op.N>>56) % len(models)
			m := models[ci]
			switch op.K {
			case soDrain:
				if gsCalled {
					return
				}
				gsCalled = true
				for _, mm := range models {
					mm.drainAt = now()
				}
				go func() { srv.GracefulStop(); close(gsDone) }()
			case soOpen:
				if m.closed() {
					return
				}
				m.open(fmt.Sprintf("/c14/g%d/s%d", ci, len(m.sent)), op.Flag)
			case soFinish:
				open := m.unfinished()
				if len(open) == 0 || m.closed() {
					return
				}
				id := open[op.S%len(open)]
				m.finished[id] = true
				finish(m, ci, id, op.Flag)
			default:
				runDrainOp(m, op, nil, func(uint32) *transport.ServerStream { return nil })
			}
		}
		for _, op := range p.Ops {
			if bad != "" {
				break
			}
			out.steps++
			doOp(op)
			if !op.NoWait {
				synctest.Wait()
				checkAll()
			}
		}
		for _, d := range []time.Duration{0, time.Duration(drainTimeout), time.Second} {
			time.Sleep(d)
			synctest.Wait()
			checkAll()
		}
		// serve everything to completion
		for ci, m := range models {
			for _, id := range m.unfinished() {
				if bad != "" || m.bad != "" || m.closed() {
					break
				}
				m.finished[id] = true
				finish(m, ci, id, id%4 == 1)
			}
		}
		for _, d := range []time.Duration{0, time.Second} {
			time.Sleep(d)
			synctest.Wait()
			checkAll()
		}
		if bad == "" && gsCalled && !isGSDone() {
			bad = "GracefulStop did not return although every stream was served and 1 s passed"
		}
		for _, m := range models {
			if v := m.peer.Ledger().Violations("frame.invalid", "goaway.increasing", "stream.after_end", "stream.after_rst", "stream.idle"); len(v) > 0 && bad == "" {
				bad = m.name + ": ledger: " + v[0]
			}
			if m.nt {
				out.nt = true
			}
		}
		if len(models) > 1 {
			out.classes["two_connections"] = true
		}
		out.bad = bad
		// teardown
		srv.Stop()
		for _, pe := range peers {
			pe.Close()
		}
		for _, pe := range peers {
			pe.Wait()
		}
		<-serveDone
		mu.Lock()
		all := make([]*gsHandlerRec, 0, len(recs))
		for _, r := range recs {
			all = append(all, r)
		}
		mu.Unlock()
		for _, r := range all {
			<-r.done
		}
		if gsCalled {
			<-gsDone
		}
	})
	if msg != "" && out.harnessErr == "" {
		out.harnessErr = msg
	}
	return out
}

func gsRun(t *testing.T, p GPlan) vk.Result {
	out := runGS(t, p)
	if out.harnessErr != "" {
		panic("VERIF-HARNESS: " + out.harnessErr)
	}
	var cl []string
	for _, c := range append(append([]string{}, sClassOrder...), "graceful_stop_returned", "two_connections") {
		if out.classes[c] {
			cl = append(cl, c)
		}
	}
	if out.bad != "" {
		return vk.Bad("%s", out.bad).With(cl...)
	}
	r := vk.OK(out.nt, cl...)
	r.Steps = out.steps
	return r
}
