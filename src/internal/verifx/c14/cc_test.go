package c14_test

// C14, client side through a real grpc.ClientConn: unary RPCs (raw codec,
// identified by an "x-call" metadata value) go through grpc.NewClient with a
// dialer that hands out vpipe ends; every connection is served by a scripted
// h2peer server that holds requests, sends GOAWAY (one- or two-phase) after
// its k-th stream with last-stream-id = the id of its j-th stream (j <= k),
// answers streams 1..j and never touches the others.
//
// Oracle:
//
//	- no call is processed (answered) by more than one server stream;
//	- a call appears on the wire at most twice, and a second appearance only
//	  after the first one was above its connection's GOAWAY id (unprocessed);
//	- a call whose stream was answered returns OK; a call that returns OK was
//	  answered exactly once; a call that fails was never answered;
//	- no stream arrives on a connection after the client acknowledged the PING
//	  that followed the connection's final GOAWAY.
//
// Refusal sequences (build session 3): a connection may also be of a refusing
// kind - RST_STREAM(REFUSED_STREAM) for its first k streams then GOAWAY;
// MAX_CONCURRENT_STREAMS=0 then GOAWAY(0) at the next quiescent point (calls
// wait for stream quota, nothing is written: NewStream fails before HEADERS);
// GOAWAY(0) right after the preface (already draining when picked); closed
// right after the preface - so that ONE call can meet 1..3 refusing
// connections in a row before a connection serves it. A client-side
// stats.Handler counts, per call, the attempts begun and the streams created
// (OutHeader). Added oracle (liveness, reference model of transparent retry):
// a call may FAIL only if two streams were created for it (first one refused
// a call may FAIL only if its last attempt created a stream and was not its
// first attempt (an unprocessed stream is transparently retried on the first
// attempt only), or if it was pending when a connection was cut without a
// GOAWAY; a refusal before a stream was created (never sent) is retried any
// number of times, also after the transparent retry was used up.

import (
	"context"
	"fmt"
	"net"
	"sort"
	"strconv"
	"sync"
	"testing"
	"testing/synctest"
	"time"

	"golang.org/x/net/http2"
	"google.golang.org/grpc"
	"google.golang.org/grpc/codes"
	"google.golang.org/grpc/credentials/insecure"
	"google.golang.org/grpc/internal/verifkit/h2peer"
	"google.golang.org/grpc/internal/verifkit/vk"
	"google.golang.org/grpc/internal/verifkit/vpipe"
	"google.golang.org/grpc/metadata"
	"google.golang.org/grpc/stats"
	"google.golang.org/grpc/status"
	"pgregory.net/rapid"
)

// CCConn scripts the i-th connection the channel dials.
type CCConn struct {
	After     int  `json:"after"`     // GOAWAY when the After-th stream arrives; 0 = never (everything is answered at the end)
	Processed int  `json:"processed"` // streams 1..Processed are answered, last-stream-id = id of the Processed-th (0: id 0)
	TwoPhase  bool `json:"two_phase"` // GOAWAY(2^31-1)+PING first, the final GOAWAY when the PING is acknowledged
	// Kind 0: the script above. ccKindRST: when the After-th stream arrives every stream so far gets
	// RST_STREAM(REFUSED_STREAM), then GOAWAY(id of the After-th). ccKindMCS0: preface advertises
	// MAX_CONCURRENT_STREAMS=0, GOAWAY(0) at the next quiescent point. ccKindDrained: GOAWAY(0) as soon as the
	// client's SETTINGS are read. ccKindClosed: connection closed as soon as the client's SETTINGS are read.
	Kind int `json:"kind,omitempty"`
}

const (
	ccKindGoAway = iota
	ccKindRST
	ccKindMCS0
	ccKindDrained
	ccKindClosed
)

// CCPlan is a serialisable case.
type CCPlan struct {
	Conns []CCConn `json:"conns"`
	// Batches: number of calls started together (without waiting for
	// quiescence in between); quiescence is awaited between batches.
	Batches []int `json:"batches"`
}

func genCCPlan(rt *rapid.T) CCPlan {
	var p CCPlan
	if rapid.Uint8Range(0, 7).Draw(rt, "refusal_sequence_bits") < 5 { // 5/8 of the plans
		return genCCSeqPlan(rt)
	}
	nc := rapid.IntRange(1, 4).Draw(rt, "nconns")
	for i := 0; i < nc; i++ {
		var c CCConn
		if rapid.IntRange(0, 5).Draw(rt, "goaway") > 0 {
			c.After = rapid.IntRange(1, 5).Draw(rt, "after")
			c.Processed = rapid.IntRange(0, c.After).Draw(rt, "processed")
			c.TwoPhase = rapid.Bool().Draw(rt, "two_phase")
		}
		p.Conns = append(p.Conns, c)
	}
	nb := rapid.IntRange(1, vk.Pick(5, 12)).Draw(rt, "nbatches")
	for i := 0; i < nb; i++ {
		p.Batches = append(p.Batches, rapid.IntRange(1, 5).Draw(rt, "batch"))
	}
	return p
}

// genCCSeqPlan: the first 1..3 connections are refusing ones (kinds drawn independently), optionally followed by
// one scripted connection of the classic kind; later connections answer everything. Few calls, so that one call
// walks through the whole sequence.
func genCCSeqPlan(rt *rapid.T) CCPlan {
	var p CCPlan
	// bits, not IntRange: rapid biases ranges to their bounds
	n := []int{1, 2, 2, 2, 2, 3, 3, 3}[rapid.Uint8Range(0, 7).Draw(rt, "nrefusals_bits")]
	for i := 0; i < n; i++ {
		var c CCConn
		k := int(rapid.Uint8Range(0, 15).Draw(rt, "kind_bits"))
		if i == 0 && k >= 4 && k < 13 {
			k %= 4 // the first refusal is a wire-level one in 13/16 of the sequences, later ones in 4/16
		}
		after := 1
		if rapid.Uint8Range(0, 3).Draw(rt, "after_bits") == 0 {
			after = 2
		}
		switch {
		case k < 2:
			c.Kind = ccKindGoAway
			c.After = after
			c.Processed = rapid.IntRange(0, c.After-1).Draw(rt, "processed")
			c.TwoPhase = rapid.Bool().Draw(rt, "two_phase")
		case k < 4:
			c.Kind = ccKindRST
			c.After = after
		case k < 11:
			c.Kind = ccKindMCS0
		case k < 14:
			c.Kind = ccKindDrained
		default:
			c.Kind = ccKindClosed
		}
		p.Conns = append(p.Conns, c)
	}
	if rapid.IntRange(0, 3).Draw(rt, "tail") == 0 {
		var c CCConn
		c.After = rapid.IntRange(1, 3).Draw(rt, "after")
		c.Processed = rapid.IntRange(0, c.After).Draw(rt, "processed")
		p.Conns = append(p.Conns, c)
	}
	nb := rapid.IntRange(1, 3).Draw(rt, "nbatches")
	for i := 0; i < nb; i++ {
		p.Batches = append(p.Batches, rapid.IntRange(1, 3).Draw(rt, "batch"))
	}
	return p
}

type ccArrival struct {
	conn      int
	id        uint32
	call      int
	answered  bool
	wantAns   bool // the script decided to answer; done once the request is complete
	reqDone   bool // the client's END_STREAM was read
	excluded  bool // above the connection's final GOAWAY id, or refused with RST_STREAM(REFUSED_STREAM)
	refused   bool // RST_STREAM(REFUSED_STREAM) was sent for it
	afterAck  bool // arrived after the client acknowledged the PING behind the final GOAWAY
	betweenGA bool // arrived between the two GOAWAYs of a two-phase drain
}

type ccServer struct {
	idx    int
	script CCConn
	peer   *h2peer.Peer

	order    []uint32 // stream ids in arrival order
	phase    int      // 0 serving, 1 first GOAWAY of two-phase sent, 2 final GOAWAY sent
	finalID  uint32
	proofAck bool
	flushed  bool
}

type ccWorld struct {
	mu       sync.Mutex
	plan     CCPlan
	servers  []*ccServer
	arrivals []*ccArrival
	byStream map[[2]uint32]*ccArrival
	bad      string

	rmu       sync.Mutex
	results   []*ccResult
	batchEnd  int          // number of calls started by the end of the current batch
	ambiguous map[int]bool // calls that were pending when a connection was cut without a GOAWAY

	smu      sync.Mutex
	attempts map[int][]*ccAttempt // per call, in order (client-side stats.Handler)
}

// ccAttempt is one attempt of a call as reported by the client's stats.Handler.
type ccAttempt struct {
	transparent bool // Begin.IsTransparentRetryAttempt
	created     bool // OutHeader seen: a transport stream was created for the attempt
}

type ccCallKey struct{}

// ccStats implements stats.Handler.
type ccStats struct{ w *ccWorld }

func (h ccStats) TagRPC(ctx context.Context, _ *stats.RPCTagInfo) context.Context {
	call := -1
	if md, ok := metadata.FromOutgoingContext(ctx); ok {
		if v := md.Get("x-call"); len(v) == 1 {
			call, _ = strconv.Atoi(v[0])
		}
	}
	return context.WithValue(ctx, ccCallKey{}, call)
}

func (h ccStats) HandleRPC(ctx context.Context, s stats.RPCStats) {
	call, ok := ctx.Value(ccCallKey{}).(int)
	if !ok {
		return
	}
	h.w.smu.Lock()
	defer h.w.smu.Unlock()
	switch e := s.(type) {
	case *stats.Begin:
		h.w.attempts[call] = append(h.w.attempts[call], &ccAttempt{transparent: e.IsTransparentRetryAttempt})
	case *stats.OutHeader:
		if as := h.w.attempts[call]; len(as) > 0 {
			as[len(as)-1].created = true
		}
	}
}

func (h ccStats) TagConn(ctx context.Context, _ *stats.ConnTagInfo) context.Context { return ctx }
func (h ccStats) HandleConn(context.Context, stats.ConnStats)                       {}

var (
	ccProof1 = [8]byte{0xc1, 0x41}
	ccProof2 = [8]byte{0xc1, 0x42}
)

func (w *ccWorld) badf(format string, a ...any) {
	if w.bad == "" {
		w.bad = fmt.Sprintf(format, a...)
	}
}

// answer writes a complete OK response once the whole request has been read
// (a real unary handler cannot run earlier). Caller holds w.mu.
func (w *ccWorld) answer(s *ccServer, a *ccArrival) {
	a.wantAns = true
	if a.answered || !a.reqDone {
		return
	}
	a.answered = true
	s.peer.WriteHeaders(h2peer.Headers{StreamID: a.id, Fields: h2peer.ResponseHeaders()})
	s.peer.WriteData(a.id, []byte{0, 0, 0, 0, 1, byte(a.call)}, false, -1)
	s.peer.WriteHeaders(h2peer.Headers{StreamID: a.id, Fields: h2peer.Trailers(0, ""), EndStream: true})
}

// finalGoAway sends the final GOAWAY and answers the processed prefix. Caller holds w.mu.
func (w *ccWorld) finalGoAway(s *ccServer) {
	j := min(s.script.Processed, len(s.order))
	if s.script.Kind != ccKindGoAway {
		j = 0
	}
	s.finalID = 0
	if j > 0 {
		s.finalID = s.order[j-1]
	}
	s.phase = 2
	s.peer.WriteGoAway(s.finalID, http2.ErrCodeNo, []byte("c14"))
	s.peer.WritePing(false, ccProof2)
	for _, id := range s.order {
		a := w.byStream[[2]uint32{uint32(s.idx), id}]
		if id <= s.finalID {
			w.answer(s, a)
		} else {
			a.excluded = true
		}
	}
}

func (w *ccWorld) onFrame(s *ccServer, f *h2peer.Frame) {
	w.mu.Lock()
	defer w.mu.Unlock()
	switch {
	case f.Type == http2.FrameSettings && !f.IsAck() && s.phase == 0 && s.script.Kind == ccKindDrained:
		w.finalGoAway(s) // Processed is 0: GOAWAY(0) before any stream
	case f.Type == http2.FrameSettings && !f.IsAck() && s.phase == 0 && s.script.Kind == ccKindClosed:
		// Cut without a GOAWAY: a call that is pending now (or started in the same batch) may have put a stream
		// on this connection that the server could have processed; its failure is outside C14.
		s.phase = 3
		w.rmu.Lock()
		for i := 0; i < w.batchEnd; i++ {
			if i >= len(w.results) || !w.results[i].done {
				w.ambiguous[i] = true
			}
		}
		w.rmu.Unlock()
		s.peer.Close()
	case f.Type == http2.FramePing && f.IsAck() && f.PingData == ccProof1 && s.phase == 1:
		w.finalGoAway(s)
	case f.Type == http2.FramePing && f.IsAck() && f.PingData == ccProof2:
		s.proofAck = true
	case f.Type == http2.FrameData && f.EndStream():
		if a := w.byStream[[2]uint32{uint32(s.idx), f.StreamID}]; a != nil {
			a.reqDone = true
			if a.wantAns {
				w.answer(s, a)
			}
		}
	case f.Type == http2.FrameHeaders && f.BlockComplete:
		call := -1
		if v, ok := f.Field("x-call"); ok {
			call, _ = strconv.Atoi(v)
		}
		a := &ccArrival{conn: s.idx, id: f.StreamID, call: call, afterAck: s.proofAck, betweenGA: s.phase == 1}
		w.arrivals = append(w.arrivals, a)
		w.byStream[[2]uint32{uint32(s.idx), f.StreamID}] = a
		s.order = append(s.order, f.StreamID)
		switch {
		case s.phase == 2:
			// in flight when the GOAWAY was sent (or a violation of (W), judged later): never processed
			a.excluded = f.StreamID > s.finalID
			if !a.excluded {
				w.badf("conn %d: new stream %d arrived with an id at or below the final GOAWAY id %d", s.idx, f.StreamID, s.finalID)
			}
		case s.flushed:
			w.answer(s, a)
		case s.script.Kind == ccKindRST:
			if len(s.order) == s.script.After {
				for _, id := range s.order {
					r := w.byStream[[2]uint32{uint32(s.idx), id}]
					r.excluded, r.refused = true, true
					s.peer.WriteRSTStream(id, http2.ErrCodeRefusedStream)
				}
				s.finalID = f.StreamID
				s.phase = 2
				s.peer.WriteGoAway(s.finalID, http2.ErrCodeNo, []byte("c14"))
				s.peer.WritePing(false, ccProof2)
			}
		case s.script.Kind != ccKindGoAway:
			// MCS0 before its GOAWAY: held, excluded by finalGoAway (a stream here exceeds MAX_CONCURRENT_STREAMS=0)
		case s.script.After > 0 && len(s.order) == s.script.After && s.phase == 0:
			if s.script.TwoPhase {
				s.phase = 1
				s.peer.WriteGoAway(1<<31-1, http2.ErrCodeNo, []byte("c14"))
				s.peer.WritePing(false, ccProof1)
			} else {
				w.finalGoAway(s)
			}
		}
	}
}

// kickMCS0 sends GOAWAY(0) on every established MAX_CONCURRENT_STREAMS=0 connection that has not sent one yet;
// called at quiescent points only, so calls that picked the connection are waiting for stream quota.
func (w *ccWorld) kickMCS0() bool {
	w.mu.Lock()
	defer w.mu.Unlock()
	any := false
	for _, s := range w.servers {
		if s.script.Kind == ccKindMCS0 && s.phase == 0 && s.peer != nil {
			w.finalGoAway(s)
			any = true
		}
	}
	return any
}

// flush answers everything that is still held on connections that will not send a GOAWAY any more.
func (w *ccWorld) flush() {
	w.mu.Lock()
	defer w.mu.Unlock()
	for _, s := range w.servers {
		if s.phase != 0 {
			continue
		}
		s.flushed = true
		for _, id := range s.order {
			w.answer(s, w.byStream[[2]uint32{uint32(s.idx), id}])
		}
	}
}

type ccResult struct {
	done bool
	err  error
	out  []byte
}

type ccOutcome struct {
	bad        string
	classes    map[string]bool
	nt         bool
	steps      int
	harnessErr string
}

func runCC(t *testing.T, p CCPlan) (out ccOutcome) {
	out.classes = map[string]bool{}
	msg := vk.Bubble(t, func(t *testing.T) {
		w := &ccWorld{plan: p, byStream: map[[2]uint32]*ccArrival{}, ambiguous: map[int]bool{}, attempts: map[int][]*ccAttempt{}}
		dialer := func(ctx context.Context, _ string) (net.Conn, error) {
			c, sEnd := vpipe.New()
			w.mu.Lock()
			s := &ccServer{idx: len(w.servers)}
			if s.idx < len(p.Conns) {
				s.script = p.Conns[s.idx]
			}
			w.servers = append(w.servers, s)
			w.mu.Unlock()
			cfg := h2peer.Config{Role: h2peer.ServerRole, OnFrame: func(f *h2peer.Frame) { w.onFrame(s, f) }}
			if s.script.Kind == ccKindMCS0 {
				cfg.Settings = []http2.Setting{{ID: http2.SettingMaxConcurrentStreams, Val: 0}}
			}
			s.peer = h2peer.New(sEnd, cfg)
			return c, nil
		}
		cc, err := grpc.NewClient("passthrough:///c14", grpc.WithTransportCredentials(insecure.NewCredentials()), grpc.WithContextDialer(dialer),
			grpc.WithDefaultCallOptions(grpc.ForceCodecV2(rawCodec{})), grpc.WithDisableRetry(), grpc.WithStatsHandler(ccStats{w}))
		if err != nil {
			out.harnessErr = "NewClient: " + err.Error()
			return
		}
		rmu := &w.rmu
		var results []*ccResult
		var wg sync.WaitGroup
		ctx, cancel := context.WithTimeout(context.Background(), time.Hour)
		call := 0
		for _, n := range p.Batches {
			rmu.Lock()
			w.batchEnd = call + n
			rmu.Unlock()
			for i := 0; i < n; i++ {
				r := &ccResult{}
				rmu.Lock()
				results = append(results, r)
				w.results = results
				rmu.Unlock()
				id := call
				call++
				wg.Add(1)
				go func() {
					defer wg.Done()
					c := metadata.AppendToOutgoingContext(ctx, "x-call", strconv.Itoa(id))
					var resp []byte
					err := cc.Invoke(c, "/c14/call", []byte{byte(id)}, &resp)
					rmu.Lock()
					r.done, r.err, r.out = true, err, resp
					rmu.Unlock()
				}()
				out.steps++
			}
			synctest.Wait()
			// calls that picked a MAX_CONCURRENT_STREAMS=0 connection now wait for stream quota: drain it
			for w.kickMCS0() {
				synctest.Wait()
			}
		}
		// Everything still held is answered now; calls retried onto fresh connections may need several rounds.
		for round := 0; round < 8; round++ {
			for w.kickMCS0() {
				synctest.Wait()
			}
			w.flush()
			synctest.Wait()
			time.Sleep(time.Second) // lets a reconnect backoff timer (if any) expire
			synctest.Wait()
		}
		rmu.Lock()
		pending := 0
		for _, r := range results {
			if !r.done {
				pending++
			}
		}
		rmu.Unlock()
		w.mu.Lock()
		if pending > 0 {
			w.badf("%d call(s) neither completed nor failed although every connection either answered or excluded their streams", pending)
		}
		// judge
		byCall := map[int][]*ccArrival{}
		for _, a := range w.arrivals {
			byCall[a.call] = append(byCall[a.call], a)
			if a.afterAck {
				w.badf("conn %d: stream %d (call %d) arrived after the client acknowledged the PING that followed the final GOAWAY (id %d)", a.conn, a.id, a.call, w.servers[a.conn].finalID)
			}
			if a.betweenGA {
				out.classes["stream_arrived_between_two_phase_goaways"] = true
			}
			if a.excluded {
				out.classes["stream_above_goaway_id"] = true
			}
		}
		calls := make([]int, 0, len(byCall))
		for c := range byCall {
			calls = append(calls, c)
		}
		sort.Ints(calls)
		rmu.Lock()
		for _, c := range calls {
			as := byCall[c]
			// attempts of one call go to successive connections; the scripted servers' readers are
			// independent goroutines, so the order of observation is not the order of sending
			sort.Slice(as, func(i, j int) bool {
				if as[i].conn != as[j].conn {
					return as[i].conn < as[j].conn
				}
				return as[i].id < as[j].id
			})
			answered := 0
			for _, a := range as {
				if a.answered {
					answered++
				}
			}
			if c < 0 || c >= len(results) {
				w.badf("stream without a known x-call value: %+v", *as[0])
				continue
			}
			r := results[c]
			if answered > 1 {
				w.badf("call %d was processed %d times: %v", c, answered, fmtArr(as))
			}
			if len(as) > 2 {
				w.badf("call %d appeared %d times on the wire (at most one transparent retry expected): %v", c, len(as), fmtArr(as))
			}
			if len(as) == 2 {
				out.classes["call_transparently_retried"] = true
				out.nt = true
				if !as[0].excluded || as[0].answered {
					w.badf("call %d was sent twice although its first stream was not above the GOAWAY id: %v", c, fmtArr(as))
				}
				if as[1].excluded {
					out.classes["retry_also_unprocessed_call_fails"] = true
				}
			}
			if !r.done {
				continue
			}
			ccJudgeAttempts(w, &out, c, r, as)
			switch {
			case r.err == nil && answered != 1:
				w.badf("call %d returned OK but was answered %d times: %v", c, answered, fmtArr(as))
			case r.err == nil && (len(r.out) != 1 || r.out[0] != byte(c)):
				w.badf("call %d returned OK with payload %v", c, r.out)
			case r.err != nil && answered > 0:
				w.badf("call %d was answered OK by the server but failed with %v: %v", c, r.err, fmtArr(as))
			}
			// The error VALUE of a failed call is outside C14's statement: it is recorded, not asserted.
			// Observed: a retried call whose second stream was orphaned inside loopy (created before the
			// GOAWAY was processed, HEADERS never written) returns a bare io.EOF - see notes/C14.md.
			if r.err != nil && status.Code(r.err) != codes.Unavailable {
				out.classes["call_failed_with_non_status_error_"+fmt.Sprintf("%T", r.err)] = true
			}
			if r.err != nil {
				out.classes["call_failed_unavailable"] = true
			} else {
				out.classes["call_ok"] = true
			}
		}
		for i, r := range results {
			if r.done && r.err == nil && len(byCall[i]) == 0 {
				w.badf("call %d returned OK but never reached a server", i)
			}
			if r.done && len(byCall[i]) == 0 {
				ccJudgeAttempts(w, &out, i, r, nil) // never on the wire: not visited by the loop above
			}
		}
		rmu.Unlock()
		if len(w.servers) > 1 {
			out.classes["reconnected_after_goaway"] = true
		}
		for _, s := range w.servers {
			if s.phase == 2 {
				out.classes["goaway_sent"] = true
				if s.finalID == 0 {
					out.classes["goaway_id_zero"] = true
				}
				if s.script.TwoPhase {
					out.classes["two_phase_goaway"] = true
				}
			}
		}
		out.bad = w.bad
		servers := append([]*ccServer(nil), w.servers...)
		w.mu.Unlock()
		// teardown
		cancel()
		cc.Close()
		wg.Wait()
		for _, s := range servers {
			s.peer.Close()
		}
		for _, s := range servers {
			s.peer.Wait()
		}
	})
	if msg != "" && out.harnessErr == "" {
		out.harnessErr = msg
	}
	return out
}

// ccJudgeAttempts applies the transparent-retry reference model to one finished call. Caller holds w.mu and w.rmu.
//
// Model (gRFC A6 as stream.go documents it): an attempt for which no transport stream was created (NewStream
// failed on a draining / closing connection: nothing was sent) is retried, whatever the attempt's number; an
// attempt whose stream was created and then reported unprocessed (id above the GOAWAY id, REFUSED_STREAM,
// orphaned before HEADERS were written) is retried only if it is the call's FIRST attempt ("First attempt, stream
// unprocessed: transparently retry" - grpc-go also spends that privilege on a never-sent refusal, which is
// stricter than A6; recorded in notes/C14.md, not asserted either way). Hence with retries disabled and no
// deadline a call fails because of GOAWAYs/refusals only when its LAST attempt created a stream and was not the
// first attempt. Every stream failure the scripted servers cause is an unprocessed one, except a connection cut
// without GOAWAY (calls pending then are exempt).
func ccJudgeAttempts(w *ccWorld, out *ccOutcome, c int, r *ccResult, as []*ccArrival) {
	w.smu.Lock()
	atts := append([]*ccAttempt(nil), w.attempts[c]...)
	w.smu.Unlock()
	created, neverSent, afterCreated := 0, 0, false
	desc := ""
	for _, a := range atts {
		if a.created {
			created++
			desc += "S"
		} else {
			neverSent++
			desc += "n"
			if created > 0 {
				afterCreated = true
			}
		}
	}
	refusals := len(atts)
	if r.err == nil {
		refusals--
	}
	if created < len(as) {
		w.badf("call %d: %d streams on the wire but the client reported only %d created streams (attempts %s)", c, len(as), created, desc)
	}
	if w.ambiguous[c] {
		out.classes["call_pending_while_connection_cut"] = true
	}
	if r.err != nil && !w.ambiguous[c] {
		switch {
		case len(atts) == 0:
			w.badf("call %d failed with %v before any attempt was begun", c, r.err)
		case !atts[len(atts)-1].created:
			w.badf("call %d failed with %v although its last attempt was refused before a stream was created (attempts, S=stream created n=refused before HEADERS: %s): "+
				"nothing was sent, the refusal is transparently retryable whatever came before; wire: %v", c, r.err, desc, fmtArr(as))
		case len(atts) == 1:
			w.badf("call %d failed with %v on its first attempt although every stream failure here is an unprocessed one (above the GOAWAY id / REFUSED_STREAM): "+
				"it must have been transparently retried; wire: %v", c, r.err, fmtArr(as))
		}
	}
	if neverSent > 0 {
		out.classes["never_sent_refusal"] = true
	}
	if refusals >= 2 {
		out.classes["call_met_2plus_refusals"] = true
	}
	if refusals >= 3 {
		out.classes["call_met_3plus_refusals"] = true
	}
	if neverSent >= 2 {
		out.classes["call_met_2plus_never_sent_refusals"] = true
	}
	if afterCreated {
		out.classes["never_sent_refusal_after_transparent_retry"] = true
		out.nt = true
	}
	for _, a := range as {
		if a.refused {
			out.classes["stream_refused_rst"] = true
		}
	}
}

func fmtArr(as []*ccArrival) string {
	s := ""
	for _, a := range as {
		s += fmt.Sprintf("[conn %d stream %d answered=%v aboveGoAway/refused=%v]", a.conn, a.id, a.answered, a.excluded)
	}
	return s
}

func ccRun(t *testing.T, p CCPlan) vk.Result {
	out := runCC(t, p)
	if out.harnessErr != "" {
		panic("VERIF-HARNESS: " + out.harnessErr)
	}
	var cl []string
	for _, c := range []string{"goaway_sent", "two_phase_goaway", "goaway_id_zero", "stream_above_goaway_id", "stream_arrived_between_two_phase_goaways",
		"call_transparently_retried", "retry_also_unprocessed_call_fails",
		"never_sent_refusal", "never_sent_refusal_after_transparent_retry", "call_met_2plus_refusals", "call_met_3plus_refusals", "call_met_2plus_never_sent_refusals",
		"stream_refused_rst", "call_pending_while_connection_cut", "reconnected_after_goaway", "call_ok", "call_failed_unavailable", "call_failed_with_non_status_error_*errors.errorString"} {
		if out.classes[c] {
			cl = append(cl, c)
		}
	}
	if out.bad != "" {
		return vk.Bad("%s", out.bad).With(cl...)
	}
	r := vk.OK(out.nt, cl...)
	r.Steps = out.steps
	return r
}
