package c14_test

// C14, server side at transport level: a real http2Server (h2grpc.NewServer)
// is drained with ServerTransport.Drain at a generated point while a scripted
// h2peer client opens streams before, between and after the two GOAWAYs and
// acknowledges the drain PING immediately, late, or never (5 s timer in
// virtual time).
//
// Oracle:
//
//	(1) Drain puts GOAWAY(last-stream-id 2^31-1, NO_ERROR) on the wire, directly
//	    followed by a PING; no final GOAWAY before the PING is acknowledged or
//	    5 s have passed, and one exactly then;
//	(2) the final GOAWAY's id is >= every stream for which the handler ran and
//	    <= the highest id the client had sent; with every request well-formed
//	    and no stream limit it equals the highest id sent before it;
//	(3) every stream for which the handler ran can be served to completion
//	    (headers, a message, trailers with grpc-status 0 reach the wire), also
//	    after the final GOAWAY;
//	(4) no handler runs for a stream the client opens after the final GOAWAY;
//	(5) the connection stays open while a handled stream is unfinished and is
//	    closed once the last one has finished after the final GOAWAY.

import (
	"fmt"
	"sync"
	"testing"
	"testing/synctest"
	"time"

	"golang.org/x/net/http2"
	"google.golang.org/grpc/codes"
	"google.golang.org/grpc/internal/transport"
	"google.golang.org/grpc/internal/verifkit/h2peer"
	"google.golang.org/grpc/internal/verifkit/h2peer/h2grpc"
	"google.golang.org/grpc/internal/verifkit/vk"
	"google.golang.org/grpc/mem"
	"google.golang.org/grpc/status"
	"pgregory.net/rapid"
)

const (
	soOpen   = "open"   // peer HEADERS for a new stream (Flag: with END_STREAM)
	soFinish = "finish" // handler: [message +] WriteStatus(OK) on the S-th unfinished handled stream (Flag: write a message first)
	soDrain  = "drain"  // ServerTransport.Drain
	soAck    = "ack"    // peer acknowledges the drain PING (Flag: with wrong data)
	soSleep  = "sleep"  // advance virtual time by N ns
	soRST    = "rst"    // peer RST_STREAM on the S-th unfinished handled stream
)

// SOp is one step.
type SOp struct {
	K      string `json:"k"`
	S      int    `json:"s,omitempty"`
	N      int64  `json:"n,omitempty"`
	Flag   bool   `json:"flag,omitempty"`
	NoWait bool   `json:"nowait,omitempty"`
}

// SPlan is a serialisable case.
type SPlan struct {
	Ops []SOp `json:"ops"`
}

var drainPingData = [8]byte{1, 6, 1, 8, 0, 3, 3, 9}

const drainTimeout = int64(5 * time.Second)

func genSleep(rt *rapid.T) int64 {
	return rapid.SampledFrom([]int64{1, int64(time.Second), drainTimeout - 1, drainTimeout, drainTimeout + 1, int64(2500 * time.Millisecond), int64(2500*time.Millisecond) - 1, int64(10 * time.Second)}).Draw(rt, "sleep")
}

func genSOps(rt *rapid.T, maxOps int, conns int) []SOp {
	n := rapid.IntRange(4, maxOps).Draw(rt, "nops")
	dpos := rapid.IntRange(1, n-2).Draw(rt, "drain_at") // Drain at this position at the latest
	var ops []SOp
	drained, finalLikely := false, false
	for i := 0; i < n; i++ {
		var op SOp
		w := rapid.IntRange(0, 99).Draw(rt, "w")
		between := drained && !finalLikely
		switch {
		case !drained && i == dpos:
			op.K = soDrain
			drained = true
		case between && w < 45:
			// the interesting window: streams racing between the two GOAWAYs
			op.K, op.Flag = soOpen, rapid.IntRange(0, 2).Draw(rt, "eos") == 0
		case between && w < 62:
			op.K, op.Flag = soAck, rapid.IntRange(0, 5).Draw(rt, "wrong") == 0
			finalLikely = !op.Flag
		case between && w < 75:
			op.K, op.N = soSleep, genSleep(rt)
			finalLikely = op.N >= drainTimeout
		case w < 35 || i == 0:
			op.K, op.Flag = soOpen, rapid.IntRange(0, 2).Draw(rt, "eos") == 0
		case w < 58:
			op.K, op.S, op.Flag = soFinish, rapid.IntRange(0, 15).Draw(rt, "s"), rapid.Bool().Draw(rt, "msg")
		case w < 66 && (!drained || rapid.IntRange(0, 3).Draw(rt, "redrain") == 0):
			op.K = soDrain
			drained = true
		case w < 76 && drained:
			op.K, op.Flag = soAck, rapid.IntRange(0, 5).Draw(rt, "wrong") == 0
		case w < 86 && drained:
			op.K, op.N = soSleep, genSleep(rt)
		case w < 92:
			op.K, op.S = soRST, rapid.IntRange(0, 15).Draw(rt, "s")
		default:
			op.K, op.Flag = soOpen, rapid.IntRange(0, 2).Draw(rt, "eos") == 0
		}
		if conns > 1 {
			op.N |= int64(rapid.IntRange(0, conns-1).Draw(rt, "conn")) << 56
		}
		op.NoWait = (op.K == soOpen || op.K == soDrain || op.K == soAck) && rapid.IntRange(0, 2).Draw(rt, "nowait") == 0
		ops = append(ops, op)
	}
	if !drained {
		ops = append(ops, SOp{K: soDrain})
	}
	return ops
}

func genSPlan(rt *rapid.T) SPlan {
	return SPlan{Ops: genSOps(rt, vk.Pick(20, 100), 1)}
}

// drainModel is the per-connection oracle shared by the transport-level unit
// and the grpc.Server unit. It reads the wire through the peer's ledger.
type drainModel struct {
	name    string
	peer    *h2peer.Peer
	closed  func() bool
	now     func() int64
	classes map[string]bool

	mu      sync.Mutex
	handled map[uint32]bool // streams for which the handler ran
	nHandle int

	sent       []uint32       // ids of streams the peer opened, in order
	sentAt     map[uint32]int // number of GOAWAYs on the wire when the peer wrote the HEADERS (at a quiescent point; -1 unknown)
	finished   map[uint32]bool
	drainAt    int64 // instant of the first Drain; -1: none
	acked      bool  // a correct ack was written
	ackSettled bool
	completeAt int64 // first quiescent instant at which the final GOAWAY was out and no handled stream was unfinished; -1: not yet
	bad        string
	nt         bool
}

func newDrainModel(name string, peer *h2peer.Peer, closed func() bool, now func() int64, classes map[string]bool) *drainModel {
	return &drainModel{name: name, peer: peer, closed: closed, now: now, classes: classes, handled: map[uint32]bool{}, sentAt: map[uint32]int{}, finished: map[uint32]bool{}, drainAt: -1, completeAt: -1}
}

func (m *drainModel) badf(format string, a ...any) {
	if m.bad == "" {
		m.bad = m.name + ": " + fmt.Sprintf(format, a...)
	}
}

func (m *drainModel) onHandler(id uint32) {
	m.mu.Lock()
	m.handled[id] = true
	m.nHandle++
	m.mu.Unlock()
}

func (m *drainModel) wasHandled(id uint32) bool {
	m.mu.Lock()
	defer m.mu.Unlock()
	return m.handled[id]
}

func (m *drainModel) goAways() []*h2peer.Frame { return m.peer.Ledger().GoAways(h2peer.In) }

// open writes HEADERS for a new stream.
func (m *drainModel) open(path string, endStream bool) uint32 {
	id := m.peer.NextStreamID()
	m.sentAt[id] = len(m.goAways())
	m.sent = append(m.sent, id)
	m.peer.WriteHeaders(h2peer.Headers{StreamID: id, Fields: h2peer.RequestHeaders(path, "c14"), EndStream: endStream})
	return id
}

// unfinished returns the handled, unfinished streams in id order.
func (m *drainModel) unfinished() []uint32 {
	var out []uint32
	for _, id := range m.sent {
		if m.wasHandled(id) && !m.finished[id] {
			out = append(out, id)
		}
	}
	return out
}

// check evaluates the oracle at a quiescent point. expectDrain: Drain / GracefulStop was called.
func (m *drainModel) check() {
	if m.bad != "" {
		return
	}
	led := m.peer.Ledger()
	gas := m.goAways()
	closed := m.closed()
	if m.drainAt < 0 {
		if len(gas) > 0 {
			m.badf("GOAWAY %v without Drain", gas[0])
		}
		if closed {
			m.badf("connection closed without Drain")
		}
		for _, id := range m.sent {
			if !m.wasHandled(id) {
				m.badf("no handler ran for stream %d although the server was not draining", id)
			}
		}
		return
	}
	// (1) first GOAWAY + PING
	if len(gas) == 0 {
		if !closed {
			m.badf("Drain was called but no GOAWAY is on the wire")
		}
		return
	}
	g1 := gas[0]
	if g1.LastStreamID != 1<<31-1 || g1.ErrCode != http2.ErrCodeNo {
		m.badf("first GOAWAY of a graceful drain is %v, want last-stream-id 2^31-1 and NO_ERROR", g1)
		return
	}
	in := led.FramesOf(h2peer.In, 0, true)
	for i, f := range in {
		if f == g1 {
			if i+1 >= len(in) || in[i+1].Type != http2.FramePing || in[i+1].IsAck() {
				var next any = "nothing"
				if i+1 < len(in) {
					next = in[i+1]
				}
				m.badf("first GOAWAY is not directly followed by a PING (next frame from the server: %v)", next)
				return
			}
			if in[i+1].PingData != drainPingData {
				m.classes["drain_ping_data_changed"] = true
			}
		}
	}
	elapsed := m.now() - m.drainAt
	wantFinal := (m.acked && m.ackSettled) || elapsed >= drainTimeout
	mayFinal := m.acked || elapsed >= drainTimeout
	if len(gas) > 2 {
		m.badf("%d GOAWAY frames for one drain: %v", len(gas), gas)
		return
	}
	if len(gas) == 2 && !mayFinal {
		m.badf("final GOAWAY %v written %d ns after Drain although the PING was not acknowledged and 5 s have not passed", gas[1], elapsed)
		return
	}
	if len(gas) == 1 {
		if wantFinal && !closed {
			m.badf("no final GOAWAY although the drain PING was acknowledged (%v) / %d ns passed since Drain", m.acked, elapsed)
		}
		if closed {
			m.badf("connection closed after the first GOAWAY without a final GOAWAY")
		}
		// between the GOAWAYs every stream is still accepted
		for _, id := range m.sent {
			if !m.wasHandled(id) {
				m.badf("no handler ran for stream %d although the final GOAWAY has not been sent", id)
			}
		}
		return
	}
	g2 := gas[1]
	if !m.acked && elapsed >= drainTimeout {
		m.classes["final_goaway_by_5s_timer"] = true
	}
	if g2.ErrCode != http2.ErrCodeNo {
		m.badf("final GOAWAY %v is not NO_ERROR", g2)
	}
	// (2)
	var maxHandled, maxSentBefore, maxSent uint32
	for _, id := range m.sent {
		maxSent = max(maxSent, id)
		if m.wasHandled(id) {
			maxHandled = max(maxHandled, id)
		}
		if st, ok := led.Stream(id); ok && st.OpenSeq < g2.Seq {
			maxSentBefore = max(maxSentBefore, id)
		}
	}
	if g2.LastStreamID < maxHandled {
		m.badf("final GOAWAY id %d is below stream %d for which the handler ran", g2.LastStreamID, maxHandled)
	}
	if g2.LastStreamID > maxSent {
		m.badf("final GOAWAY id %d exceeds the highest stream id the client sent (%d)", g2.LastStreamID, maxSent)
	}
	// (4) and the "accepted" side of (2): streams the peer wrote at a quiescent
	// point with both GOAWAYs already on the wire must not be handled; streams
	// written before the final GOAWAY was on the wire at a quiescent point and
	// with id <= its id must have been handled.
	for _, id := range m.sent {
		switch {
		case id > g2.LastStreamID && m.wasHandled(id):
			m.badf("handler ran for stream %d, above the final GOAWAY id %d", id, g2.LastStreamID)
		case id <= g2.LastStreamID && !m.wasHandled(id):
			m.badf("stream %d <= final GOAWAY id %d was never handed to a handler", id, g2.LastStreamID)
		case m.sentAt[id] >= 2 && m.wasHandled(id):
			m.badf("handler ran for stream %d, opened after the final GOAWAY was on the wire", id)
		}
		if m.sentAt[id] == 1 && m.wasHandled(id) {
			m.nt = true
			m.classes["stream_raced_between_goaways_handled"] = true
		}
		if m.sentAt[id] >= 2 {
			m.classes["stream_after_final_goaway_ignored"] = true
		}
	}
	// (5)
	open := m.unfinished()
	if len(open) > 0 && closed {
		m.badf("connection closed while handled stream(s) %v are unfinished", open)
	}
	if len(open) == 0 {
		if m.completeAt < 0 {
			m.completeAt = m.now()
		}
		// http2Server lingers up to 1 s before closing its end (it waits for the
		// client to close first, grpc-go issue 5358); "closes after the last
		// stream" is therefore asserted as "closed no later than 1 s after".
		if closed {
			m.classes["closed_after_last_stream"] = true
			if m.now() == m.completeAt {
				m.classes["closed_immediately"] = true
			}
		} else if m.now()-m.completeAt >= int64(time.Second) {
			m.badf("all handled streams finished and the final GOAWAY (%d) was sent %d ns ago, but the connection is still open", g2.LastStreamID, m.now()-m.completeAt)
		}
	}
	if len(open) > 0 {
		m.classes["draining_with_open_streams"] = true
	}
}

// verifyServed checks (3) for a finished stream: trailers with grpc-status 0 on the wire.
func (m *drainModel) verifyServed(id uint32, wantMsg bool) {
	st, ok := m.peer.Ledger().Stream(id)
	if !ok {
		m.badf("stream %d unknown to the ledger", id)
		return
	}
	if !st.InEnd || !st.InEndOnHeaders {
		m.badf("handled stream %d was finished by the handler but no trailers reached the wire (InEnd=%v)", id, st.InEnd)
		return
	}
	okStatus := false
	for _, f := range m.peer.Ledger().FramesOf(h2peer.In, id, false) {
		if f.Type == http2.FrameHeaders && f.EndStream() {
			if v, _ := f.Field("grpc-status"); v == "0" {
				okStatus = true
			}
		}
	}
	if !okStatus {
		m.badf("handled stream %d: trailers without grpc-status 0", id)
	}
	if wantMsg && len(st.InData) != 6 {
		m.badf("handled stream %d: the handler's message did not reach the wire (%d DATA bytes)", id, len(st.InData))
	}
	if len(m.goAways()) == 2 {
		m.classes["stream_served_after_final_goaway"] = true
	}
}

type sOutcome struct {
	bad        string
	classes    map[string]bool
	nt         bool
	steps      int
	harnessErr string
}

func runServer(t *testing.T, p SPlan) (out sOutcome) {
	out.classes = map[string]bool{}
	msg := vk.Bubble(t, func(t *testing.T) {
		start := time.Now()
		now := func() int64 { return int64(time.Since(start)) }
		var mu sync.Mutex
		byID := map[uint32]*transport.ServerStream{}
		var m *drainModel
		rig, err := h2grpc.NewServer(h2peer.Config{ManualPingAck: true}, nil, func(s *transport.ServerStream) {
			st, _ := m.peer.Ledger().StreamIDByPath(s.Method())
			mu.Lock()
			byID[st] = s
			mu.Unlock()
			m.onHandler(st)
		})
		if err != nil {
			out.harnessErr = "setup: " + err.Error()
			return
		}
		// the handler can only run after the peer wrote HEADERS, i.e. after m is set
		m = newDrainModel("conn", rig.Peer, rig.Conn.Closed, now, out.classes)
		defer rig.Close()
		synctest.Wait()
		for _, op := range p.Ops {
			if m.bad != "" {
				break
			}
			out.steps++
			runDrainOp(m, op, func() { rig.ST.Drain("c14") }, func(id uint32) *transport.ServerStream {
				mu.Lock()
				defer mu.Unlock()
				return byID[id]
			})
			if !op.NoWait {
				synctest.Wait()
				if m.acked {
					m.ackSettled = true
				}
				m.check()
			}
		}
		for _, d := range []time.Duration{0, time.Duration(drainTimeout), time.Second} {
			time.Sleep(d)
			synctest.Wait()
			if m.acked {
				m.ackSettled = true
			}
			m.check()
		}
		// Serve everything that is still open to completion, then the connection must go away.
		for _, id := range m.unfinished() {
			if m.bad != "" || m.closed() {
				break
			}
			runDrainOp(m, SOp{K: soFinish, S: 0, Flag: id%4 == 1}, nil, func(id uint32) *transport.ServerStream {
				mu.Lock()
				defer mu.Unlock()
				return byID[id]
			})
		}
		for _, d := range []time.Duration{0, time.Second} {
			time.Sleep(d)
			synctest.Wait()
			m.check()
		}
		if m.bad == "" && m.drainAt >= 0 && !m.closed() {
			m.badf("drained, every stream served, 1 s passed, but the connection is still open")
		}
		if v := m.peer.Ledger().Violations("frame.invalid", "goaway.increasing", "stream.after_end", "stream.after_rst", "stream.idle"); len(v) > 0 {
			m.badf("ledger: %s", v[0])
		}
		out.bad, out.nt = m.bad, m.nt
	})
	if msg != "" && out.harnessErr == "" {
		out.harnessErr = msg
	}
	return out
}

// runDrainOp executes one op against a transport-level server.
func runDrainOp(m *drainModel, op SOp, drain func(), stream func(uint32) *transport.ServerStream) {
	if m.closed() && op.K != soSleep {
		return
	}
	switch op.K {
	case soOpen:
		m.open(fmt.Sprintf("/c14/s%d", len(m.sent)), op.Flag)
	case soFinish, soRST:
		open := m.unfinished()
		if len(open) == 0 {
			return
		}
		id := open[op.S%len(open)]
		m.finished[id] = true
		if op.K == soRST {
			m.peer.WriteRSTStream(id, http2.ErrCodeCancel)
			return
		}
		ss := stream(id)
		if ss == nil {
			m.badf("harness: no ServerStream for handled stream %d", id)
			return
		}
		if op.Flag {
			if err := ss.Write([]byte{0, 0, 0, 0, 1}, mem.BufferSlice{mem.SliceBuffer([]byte{7})}, &transport.WriteOptions{}); err != nil {
				m.badf("handled stream %d: Write failed while the stream must be served to completion: %v", id, err)
			}
		}
		if err := ss.WriteStatus(status.New(codes.OK, "")); err != nil {
			m.badf("handled stream %d: WriteStatus failed while the stream must be served to completion: %v", id, err)
		}
		synctest.Wait()
		m.verifyServed(id, op.Flag)
	case soDrain:
		if m.drainAt < 0 {
			m.drainAt = m.now()
		} else {
			m.classes["drain_called_twice"] = true
		}
		drain()
	case soAck:
		if m.drainAt < 0 {
			return
		}
		// only meaningful once the PING is on the wire
		havePing := false
		for _, f := range m.peer.Ledger().InPings() {
			if f.PingData == drainPingData {
				havePing = true
			}
		}
		if !havePing {
			return
		}
		if op.Flag {
			m.peer.WritePing(true, [8]byte{1, 2, 3})
			m.classes["ack_with_wrong_data"] = true
			return
		}
		if !m.acked && len(m.goAways()) == 1 {
			m.classes["final_goaway_by_ack"] = true
		}
		m.acked = true
		m.peer.WritePing(true, drainPingData)
	case soSleep:
		time.Sleep(time.Duration(op.N & (1<<56 - 1)))
	}
}

var sClassOrder = []string{"stream_raced_between_goaways_handled", "stream_after_final_goaway_ignored", "final_goaway_by_ack", "final_goaway_by_5s_timer",
	"ack_with_wrong_data", "drain_called_twice", "draining_with_open_streams", "closed_after_last_stream", "closed_immediately", "stream_served_after_final_goaway", "drain_ping_data_changed"}

func serverRun(t *testing.T, p SPlan) vk.Result {
	out := runServer(t, p)
	if out.harnessErr != "" {
		panic("VERIF-HARNESS: " + out.harnessErr)
	}
	var cl []string
	for _, c := range sClassOrder {
		if out.classes[c] {
			cl = append(cl, c)
		}
	}
	if out.bad != "" {
		return vk.Bad("%s", out.bad).With(cl...)
	}
	r := vk.OK(out.nt, cl...)
	r.Steps = out.steps
	return r
}
