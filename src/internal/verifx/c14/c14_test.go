package c14_test

import (
	"testing"

	"google.golang.org/grpc/internal/verifkit/vk"
)

func TestVerifC14Client(t *testing.T) {
	vk.Check(t, vk.Unit[CPlan]{ID: "C14", Name: "client", Rule: "grpc-go http2Client vs scripted h2peer server (optionally MAX_CONCURRENT_STREAMS 1..3) in a synctest bubble: 3..20 (100) ops " +
		"{NewStream on its own goroutine 50%, GOAWAY (<=3; last-stream-id = id of the k-th stream on the wire -2/0/+2, 2^31-1, 0, a non-zero even id, above the highest id, previous GOAWAY id -2/0/+2 - illegal ids are legalised in this unit, see client_badid; " +
		"codes NO_ERROR/ENHANCE_YOUR_CALM/INTERNAL) always followed by a PING, peer answers a stream with headers+trailers, application cancel, wait}; a third of the ops are issued without waiting for quiescence " +
		"(real races between the reader handling the GOAWAY and NewStream). non-trivial = a NewStream call was issued between two GOAWAYs, or a GOAWAY id fell inside the range of stream ids on the wire (lowest <= id < highest)",
		Gen: genCPlan(false), Run: clientRun})
}

func TestVerifC14ClientBadID(t *testing.T) {
	vk.Check(t, vk.Unit[CPlan]{ID: "C14", Name: "client_badid", Rule: "same generator as unit client, but GOAWAY ids that are non-zero even numbers or exceed the previous GOAWAY's id are sent as drawn " +
		"(in unit client they are replaced by the nearest legal id): the statement demands a connection error, i.e. the connection must be closed at the next quiescent point. " +
		"non-trivial = such a GOAWAY was sent on a live connection",
		Gen: genCPlan(true), Run: clientRun})
}

func TestVerifC14Server(t *testing.T) {
	vk.Check(t, vk.Unit[SPlan]{ID: "C14", Name: "server", Rule: "grpc-go http2Server vs scripted h2peer client (drain PING acks withheld unless the plan sends one) in a synctest bubble: 3..20 (100) ops " +
		"{peer opens a stream (1/3 with END_STREAM), handler writes [message+]status OK, ServerTransport.Drain (at least once, sometimes twice), peer acks the drain PING (1/6 with wrong data), " +
		"virtual sleep of {1 ns, 1 s, 2.5 s-1, 2.5 s, 5 s-1, 5 s, 5 s+1, 10 s}, peer RST_STREAM}; opens/drains/acks are issued without waiting for quiescence in a third of the cases. " +
		"non-trivial = a stream the peer opened while exactly one GOAWAY was on the wire was handed to a handler",
		Gen: genSPlan, Run: serverRun})
}

func TestVerifC14GS(t *testing.T) {
	vk.Check(t, vk.Unit[GPlan]{ID: "C14", Name: "gs", Rule: "real grpc.Server (UnknownServiceHandler, handlers block until released) serving 1-2 scripted h2peer clients over a vpipe listener; " +
		"ops as in unit server with GracefulStop instead of Drain, addressed to a generated connection; afterwards every open stream is released and 1 s passes. " +
		"Per-connection drain oracle as in unit server, plus: GracefulStop does not return while a handler runs and returns once every connection is gone. " +
		"non-trivial = a stream the peer opened while exactly one GOAWAY was on the wire was handed to a handler",
		Gen: genGPlan, Run: gsRun})
}

func TestVerifC14CC(t *testing.T) {
	vk.Check(t, vk.Unit[CCPlan]{ID: "C14", Name: "cc", Rule: "real grpc.ClientConn (passthrough, pick_first, dialer handing out vpipe ends, raw codec, retries disabled) against scripted h2peer servers: " +
		"connection i holds requests, sends GOAWAY (one- or two-phase) when its k-th stream (k in 1..5) arrives with last-stream-id = id of its j-th stream (0<=j<=k), answers 1..j, ignores the rest; " +
		"1..5 (12) batches of 1..5 concurrent unary calls tagged with x-call metadata. Half of the plans are refusal sequences: the first 1..3 connections are refusing ones, each drawn from " +
		"{GOAWAY below the k-th stream (k 1..2), RST_STREAM(REFUSED_STREAM)+GOAWAY, MAX_CONCURRENT_STREAMS=0 then GOAWAY(0) at quiescence (NewStream fails before HEADERS), GOAWAY(0) right after the preface, closed right after the preface}, " +
		"1..3 batches of 1..3 calls, so one call meets several refusals in a row; a client stats.Handler counts attempts and created streams per call and a call may fail only after two streams were created for it " +
		"(or if it was pending when a connection was cut without GOAWAY). non-trivial = some call was transparently retried (appeared twice on the wire) or was refused before HEADERS after an earlier attempt had created a stream " +
		"(class never_sent_refusal_after_transparent_retry)",
		Gen: genCCPlan, Run: ccRun})
}
