package c14_test

// C14, client side at transport level: a real http2Client (h2grpc.NewClient)
// against a scripted h2peer server that sends one or more GOAWAY frames with
// generated last-stream-ids while NewStream calls race with them.
//
// Oracle (on the wire, via the h2peer ledger, and on the ClientStream API):
//
//	(W) after the client's ACK of the PING the peer sent right behind a GOAWAY,
//	    no HEADERS opening a new stream appears on the wire (wire order);
//	(K) a stream that is on the wire with id <= N (N = last-stream-id of the
//	    latest GOAWAY) is not finished by the GOAWAY: it stays open, and when the
//	    peer answers it later it completes with the peer's status;
//	(U) a stream with id > N, and every stream NewStream returned that never
//	    reached the wire, is finished with Unprocessed() == true; a failed
//	    NewStream returns *NewStreamError with AllowTransparentRetry == true;
//	(E) a GOAWAY whose id exceeds the previous GOAWAY's id, or is a non-zero
//	    even number, closes the connection.

import (
	"context"
	"errors"
	"fmt"
	"sync"
	"testing"
	"testing/synctest"

	"golang.org/x/net/http2"
	"google.golang.org/grpc/codes"
	"google.golang.org/grpc/internal/transport"
	"google.golang.org/grpc/internal/verifkit/h2peer"
	"google.golang.org/grpc/internal/verifkit/h2peer/h2grpc"
	"google.golang.org/grpc/internal/verifkit/vk"
	"pgregory.net/rapid"
)

const (
	coOpen    = "open"    // NewStream on its own goroutine
	coGoAway  = "goaway"  // peer: GOAWAY(id by IDK/S/D) followed by a PING
	coRespond = "respond" // peer answers the S-th answerable stream with headers + trailers(OK)
	coCancel  = "cancel"  // application cancels the S-th live stream
	coWait    = "wait"
	// coGraceful: the client drains the transport itself (GracefulClose, what the channel does when the
	// subchannel is shut down or its address list is replaced while RPCs are in flight). No GOAWAY is
	// involved; streams already created must be unaffected, also by a GOAWAY the server sends afterwards.
	// NewStream is not called on the transport afterwards (the channel never does).
	coGraceful = "graceful"
)

// GOAWAY id kinds.
const (
	idMax    = "max"    // 2^31-1
	idStream = "stream" // id of the S-th stream on the wire, plus D (D in {-2,0,+2}: between / exact / just above)
	idZero   = "zero"
	idEven   = "even"  // id of the S-th stream + 1 (non-zero even)
	idAbove  = "above" // highest id on the wire + 2*D (D>=1)
	idPrev   = "prev"  // previous GOAWAY id + D (D in {-2,0,+2}); max when there is none
)

// COp is one step.
type COp struct {
	K      string `json:"k"`
	S      int    `json:"s,omitempty"`
	IDK    string `json:"idk,omitempty"`
	D      int    `json:"d,omitempty"`
	Code   uint32 `json:"code,omitempty"`
	NoWait bool   `json:"nowait,omitempty"`
}

// CPlan is a serialisable case.
type CPlan struct {
	MaxConc uint32 `json:"max_conc"` // peer's MAX_CONCURRENT_STREAMS, 0 = not sent
	// BadIDs: GOAWAYs with a non-zero even id or an id above the previous
	// GOAWAY's are sent as drawn. When false such an id is replaced by the
	// nearest legal one (id-1, resp. the previous GOAWAY's id) before sending.
	BadIDs bool  `json:"bad_ids"`
	Ops    []COp `json:"ops"`
}

const sigDeferred = "c14.goaway_connection_error_not_enforced"

func genCPlan(bad bool) func(rt *rapid.T) CPlan {
	return func(rt *rapid.T) CPlan { return genCPlan1(rt, bad) }
}

func genCPlan1(rt *rapid.T, bad bool) CPlan {
	p := CPlan{BadIDs: bad}
	if rapid.IntRange(0, 3).Draw(rt, "limited") == 0 {
		p.MaxConc = uint32(rapid.IntRange(1, 3).Draw(rt, "max_conc"))
	}
	n := rapid.IntRange(5, vk.Pick(20, 100)).Draw(rt, "nops")
	gpos := rapid.IntRange(2, n-1).Draw(rt, "first_goaway_at") // a GOAWAY at this position at the latest
	goaways := 0
	graceful := false
	for i := 0; i < n; i++ {
		var op COp
		w := rapid.IntRange(0, 99).Draw(rt, "w")
		switch {
		case (w < 40 || i < 2) && !(i == gpos && goaways == 0):
			op.K = coOpen
		case (w < 58 || (goaways == 0 && i == gpos) || (goaways > 0 && w < 68)) && goaways < 3:
			op.K = coGoAway
			op.S = rapid.IntRange(0, 15).Draw(rt, "s")
			kinds := []string{idStream, idStream, idStream, idStream, idMax, idMax, idZero, idEven, idAbove, idPrev, idPrev}
			if goaways == 0 {
				kinds = []string{idStream, idStream, idStream, idStream, idMax, idMax, idMax, idZero, idEven, idAbove}
			}
			if bad {
				// mostly: a legal first GOAWAY that keeps streams alive, then an illegal one
				kinds = []string{idAbove, idAbove, idPrev, idPrev, idEven, idEven, idMax}
				if goaways == 0 {
					kinds = []string{idMax, idMax, idStream, idEven, idEven}
				}
			}
			op.IDK = rapid.SampledFrom(kinds).Draw(rt, "idk")
			switch op.IDK {
			case idStream, idPrev:
				op.D = rapid.SampledFrom([]int{0, 0, 0, -2, 2}).Draw(rt, "d")
				if bad && op.IDK == idPrev {
					op.D = 2
				}
			case idAbove:
				op.D = rapid.IntRange(1, 3).Draw(rt, "d")
			}
			op.Code = uint32(rapid.SampledFrom([]http2.ErrCode{http2.ErrCodeNo, http2.ErrCodeNo, http2.ErrCodeEnhanceYourCalm, http2.ErrCodeInternal}).Draw(rt, "code"))
			goaways++
		case w < 80:
			op.K, op.S = coRespond, rapid.IntRange(0, 15).Draw(rt, "s")
		case w < 88:
			op.K, op.S = coCancel, rapid.IntRange(0, 15).Draw(rt, "s")
		case w < 92:
			op.K = coWait
		case w < 96 && !graceful && i >= 2:
			op.K = coGraceful
			graceful = true
		default:
			op.K = coOpen
		}
		op.NoWait = rapid.IntRange(0, 2).Draw(rt, "nowait") == 0
		p.Ops = append(p.Ops, op)
	}
	return p
}

type cStream struct {
	idx  int
	path string
	done chan struct{} // NewStream returned

	mu        sync.Mutex
	s         *transport.ClientStream
	err       error
	cancelled bool
	responded bool
	// issuedAfterGoAways is the number of GOAWAYs that had been fully
	// processed (quiescence reached) when NewStream was called.
	issuedAfterGoAways int
	issuedAfterWritten int // number of GOAWAYs written (processed or not) when NewStream was called
}

func (c *cStream) get() (*transport.ClientStream, error, bool) {
	select {
	case <-c.done:
	default:
		return nil, nil, false
	}
	c.mu.Lock()
	defer c.mu.Unlock()
	return c.s, c.err, true
}

type cGoAway struct {
	id      uint32
	proof   [8]byte
	settled bool // quiescence was reached after it
}

type cOutcome struct {
	sig        string
	bad        string
	classes    map[string]bool
	nt         bool
	steps      int
	harnessErr string
}

func isDone(s *transport.ClientStream) bool {
	select {
	case <-s.Done():
		return true
	default:
		return false
	}
}

func runClient(t *testing.T, p CPlan) (out cOutcome) {
	out.classes = map[string]bool{}
	class := func(c string) { out.classes[c] = true }
	msg := vk.Bubble(t, func(t *testing.T) {
		cfg := h2peer.Config{}
		if p.MaxConc > 0 {
			cfg.Settings = []http2.Setting{{ID: http2.SettingMaxConcurrentStreams, Val: p.MaxConc}}
			class("max_concurrent_streams_limited")
		}
		rig, err := h2grpc.NewClient(cfg, transport.ConnectOptions{})
		if err != nil {
			out.harnessErr = "setup: " + err.Error()
			return
		}
		peer, led := rig.Peer, rig.Peer.Ledger()
		ctx, cancel := context.WithCancel(context.Background())
		var streams []*cStream
		var goaways []cGoAway
		settledGoAways := 0
		clientDraining := false
		expectConnError := ""
		bad := func(format string, a ...any) {
			if out.bad == "" {
				out.bad = fmt.Sprintf(format, a...)
			}
		}
		synctest.Wait()

		wireID := func(c *cStream) uint32 {
			id, _ := led.StreamIDByPath(c.path)
			return id
		}
		highestWire := func() uint32 {
			var h uint32
			for _, id := range led.StreamIDs() {
				h = max(h, id)
			}
			return h
		}
		// limit returns the effective last-stream-id and whether any (valid) GOAWAY was sent.
		limit := func() (uint32, bool) {
			if len(goaways) == 0 {
				return 0, false
			}
			return goaways[len(goaways)-1].id, true
		}

		// check evaluates (K), (U), (E) at a quiescent point.
		check := func(final bool) {
			if out.bad != "" {
				return
			}
			closed := rig.Conn.Closed()
			if expectConnError != "" {
				if !closed {
					bad("%s, but the connection is still open (the client acknowledged a later PING: %v)", expectConnError, proofAcked(led, goaways[len(goaways)-1].proof))
					out.sig = sigDeferred
				}
				// every stream is finished by the connection error; nothing else to assert
				for _, c := range streams {
					if s, _, ok := c.get(); ok && s != nil && !isDone(s) {
						bad("%s, but stream %s is still not finished", expectConnError, c.path)
					}
				}
				return
			}
			N, drained := limit()
			live := 0
			for _, c := range streams {
				s, err, returned := c.get()
				if !returned {
					// still blocked in NewStream: only legitimate while waiting for stream quota with no GOAWAY processed
					if drained && goaways[len(goaways)-1].settled {
						bad("NewStream(%s) is still blocked although a GOAWAY was processed", c.path)
					}
					continue
				}
				id := wireID(c)
				if err != nil {
					var nse *transport.NewStreamError
					if !errors.As(err, &nse) {
						bad("NewStream(%s) failed with %T %v, not *NewStreamError", c.path, err, err)
					} else if !nse.AllowTransparentRetry {
						bad("NewStream(%s) failed with %v but AllowTransparentRetry is false (nothing was sent)", c.path, nse.Err)
					}
					if id != 0 {
						bad("NewStream(%s) failed (%v) but HEADERS for it are on the wire (stream %d)", c.path, err, id)
					}
					class("newstream_failed_retryable")
					continue
				}
				c.mu.Lock()
				cancelled, responded := c.cancelled, c.responded
				c.mu.Unlock()
				if cancelled {
					continue
				}
				if !drained {
					if !responded && !closed {
						if isDone(s) {
							bad("stream %s (id %d) finished although nothing happened to it (no GOAWAY, no answer)", c.path, id)
						}
						live++
					}
					continue
				}
				switch {
				case responded && id != 0:
					// answered while it was at or below every GOAWAY id sent so far (the answer is ahead of any later GOAWAY on the wire)
					if !isDone(s) {
						bad("stream %s (id %d) was answered by the peer but did not finish", c.path, id)
					} else if code := s.Status().Code(); code != codes.OK {
						bad("stream %s (id %d, GOAWAY id %d) was answered with OK before any GOAWAY excluded it but finished with %v: %v (unprocessed=%v)", c.path, id, N, code, s.Status().Message(), s.Unprocessed())
					} else if s.Unprocessed() {
						// Only reachable when the peer contradicts itself (GOAWAY id below a stream it has
						// already answered): handleGoAway flags the stream because loopy has not yet removed
						// it from activeStreams. Unprocessed() is consulted on failures only; statistic.
						class("completed_ok_stream_flagged_unprocessed_by_contradictory_goaway")
					}
					class("answered_stream_completed_ok_despite_goaway")
				case id == 0:
					// never reached the wire
					if !isDone(s) || !s.Unprocessed() {
						bad("stream %s never reached the wire after GOAWAY(%d) but done=%v unprocessed=%v", c.path, N, isDone(s), s.Unprocessed())
					}
					class("created_but_never_on_wire")
				case id > N:
					if !isDone(s) || !s.Unprocessed() {
						bad("stream %s (id %d) > GOAWAY id %d but done=%v unprocessed=%v", c.path, id, N, isDone(s), s.Unprocessed())
					} else if code := s.Status().Code(); code != codes.Unavailable {
						bad("stream %s (id %d) > GOAWAY id %d finished with code %v, want Unavailable", c.path, id, N, code)
					}
					class("stream_above_goaway_id_unprocessed")
				default: // id <= N, not answered yet
					if isDone(s) {
						bad("stream %s (id %d) <= GOAWAY id %d was finished by the GOAWAY: status %v unprocessed=%v", c.path, id, N, s.Status(), s.Unprocessed())
					}
					live++
					class("stream_below_goaway_id_survives")
				}
			}
			if drained && goaways[len(goaways)-1].settled {
				if live == 0 && closed {
					class("transport_closed_itself_when_drained_and_empty")
				}
				if live > 0 && closed {
					bad("connection closed while %d stream(s) with id <= GOAWAY id %d were still open (no connection error expected)", live, N)
				}
			}
		}

		for _, op := range p.Ops {
			if out.bad != "" {
				break
			}
			out.steps++
			switch op.K {
			case coGraceful:
				if rig.Conn.Closed() || clientDraining {
					break
				}
				clientDraining = true
				class("client_graceful_close")
				if len(goaways) == 0 {
					class("client_graceful_close_before_any_goaway")
				}
				rig.CT.GracefulClose()
			case coOpen:
				if clientDraining {
					break // outside the callers' behaviour: the channel never starts a stream on a transport it has drained
				}
				c := &cStream{idx: len(streams), path: fmt.Sprintf("/c14/m%d", len(streams)), done: make(chan struct{}), issuedAfterGoAways: settledGoAways}
				streams = append(streams, c)
				if len(goaways) > 0 {
					class("newstream_after_goaway_written")
				}
				c.issuedAfterWritten = len(goaways)
				go func() {
					s, err := rig.CT.NewStream(ctx, &transport.CallHdr{Host: "c14", Method: c.path}, nil)
					c.mu.Lock()
					c.s, c.err = s, err
					c.mu.Unlock()
					close(c.done)
				}()
			case coGoAway:
				if rig.Conn.Closed() {
					break
				}
				ids := led.StreamIDs()
				var id uint32
				switch op.IDK {
				case idMax:
					id = 1<<31 - 1
				case idZero:
					id = 0
				case idStream, idEven:
					if len(ids) == 0 {
						id = 0
						if op.IDK == idEven {
							id = 2
						}
					} else {
						v := int64(ids[op.S%len(ids)])
						if op.IDK == idEven {
							v++
						} else {
							v += int64(op.D)
						}
						id = uint32(max(v, 0))
					}
				case idAbove:
					id = highestWire() + uint32(2*max(op.D, 1))
					if id%2 == 0 {
						id++
					}
				case idPrev:
					if len(goaways) == 0 {
						id = 1<<31 - 1
					} else {
						v := int64(goaways[len(goaways)-1].id) + int64(op.D)
						id = uint32(min(max(v, 0), 1<<31-1))
					}
				}
				// model
				prevN, had := limit()
				if !p.BadIDs {
					if id > 0 && id%2 == 0 {
						id--
					}
					if had && id > prevN {
						id = prevN
					}
				}
				switch {
				case id > 0 && id%2 == 0:
					if expectConnError == "" {
						expectConnError = fmt.Sprintf("GOAWAY with non-zero even last-stream-id %d is a connection error", id)
					}
					class("goaway_even_id")
				case had && id > prevN:
					if expectConnError == "" {
						expectConnError = fmt.Sprintf("GOAWAY id %d exceeds the previous GOAWAY id %d: connection error", id, prevN)
					}
					class("goaway_id_increased")
				default:
					if had {
						class("second_goaway_valid")
						if id < prevN {
							class("second_goaway_lower_id")
						}
						for _, c := range streams {
							if c.issuedAfterWritten >= 1 {
								out.nt = true
								class("newstream_issued_between_goaways")
								if wireID(c) != 0 {
									class("stream_created_between_goaways_reached_wire")
								}
							}
						}
					}
					if h := highestWire(); id < h && id > 0 {
						lo := uint32(0)
						for _, x := range ids {
							if lo == 0 || x < lo {
								lo = x
							}
						}
						if id >= lo {
							out.nt = true
							class("goaway_id_inside_open_id_range")
						}
					}
					if id == 0 {
						class("goaway_id_zero")
					}
					if id == 1<<31-1 {
						class("goaway_id_maxint")
					}
				}
				var proof [8]byte
				proof[0], proof[1] = 0xc1, byte(len(goaways)+1)
				goaways = append(goaways, cGoAway{id: id, proof: proof})
				if clientDraining {
					class("goaway_after_client_graceful_close")
				}
				peer.WriteGoAway(id, http2.ErrCode(op.Code), []byte("c14"))
				peer.WritePing(false, proof)
			case coRespond:
				if rig.Conn.Closed() || expectConnError != "" {
					break
				}
				N, drained := limit()
				var cand []*cStream
				for _, c := range streams {
					s, err, ok := c.get()
					if !ok || err != nil || s == nil {
						continue
					}
					c.mu.Lock()
					skip := c.cancelled || c.responded
					c.mu.Unlock()
					id := wireID(c)
					if skip || id == 0 || (drained && id > N) {
						continue
					}
					cand = append(cand, c)
				}
				if len(cand) == 0 {
					break
				}
				c := cand[op.S%len(cand)]
				id := wireID(c)
				c.mu.Lock()
				c.responded = true
				c.mu.Unlock()
				peer.WriteHeaders(h2peer.Headers{StreamID: id, Fields: h2peer.ResponseHeaders()})
				peer.WriteHeaders(h2peer.Headers{StreamID: id, Fields: h2peer.Trailers(0, ""), EndStream: true})
			case coCancel:
				var cand []*cStream
				for _, c := range streams {
					if s, err, ok := c.get(); ok && err == nil && s != nil && !c.cancelled && !c.responded {
						cand = append(cand, c)
					}
				}
				if len(cand) == 0 {
					break
				}
				c := cand[op.S%len(cand)]
				c.mu.Lock()
				c.cancelled = true
				c.mu.Unlock()
				c.s.Close(errors.New("c14: cancelled by the application"))
			}
			if !op.NoWait {
				synctest.Wait()
				for i := range goaways {
					goaways[i].settled = true
				}
				settledGoAways = len(goaways)
				check(false)
			}
		}
		synctest.Wait()
		for i := range goaways {
			goaways[i].settled = true
		}
		check(true)

		// (W) wire order: no new stream after the ACK of a proof PING.
		frames := led.FramesOf(h2peer.In, 0, true)
		for gi, g := range goaways {
			ackSeq := -1
			for _, f := range frames {
				if f.Type == http2.FramePing && f.IsAck() && f.PingData == g.proof {
					ackSeq = f.Seq
					break
				}
			}
			if ackSeq < 0 {
				if !rig.Conn.Closed() {
					bad("the client never acknowledged the PING sent behind GOAWAY #%d", gi+1)
				}
				continue
			}
			for _, f := range frames {
				if f.Type == http2.FrameHeaders && f.Seq > ackSeq {
					bad("HEADERS for new stream %d (%v) written after the client acknowledged the PING that followed GOAWAY #%d (id %d)", f.StreamID, fieldOf(f, ":path"), gi+1, g.id)
					break
				}
			}
		}
		if v := led.Violations("frame.invalid", "stream.id", "stream.idle"); len(v) > 0 {
			bad("ledger: %s", v[0])
		}
		if len(goaways) == 0 {
			class("no_goaway")
		}
		if len(goaways) >= 2 {
			class("two_or_more_goaways")
		}
		if expectConnError != "" {
			class("connection_error_expected")
		}
		// teardown
		cancel()
		rig.Close()
		for _, c := range streams {
			<-c.done
		}
	})
	if msg != "" && out.harnessErr == "" {
		out.harnessErr = msg
	}
	return out
}

func proofAcked(led *h2peer.Ledger, proof [8]byte) bool {
	for _, f := range led.FramesOf(h2peer.In, 0, true) {
		if f.Type == http2.FramePing && f.IsAck() && f.PingData == proof {
			return true
		}
	}
	return false
}

func fieldOf(f *h2peer.Frame, name string) string {
	v, _ := f.Field(name)
	return v
}

var cClassOrder = []string{"no_goaway", "two_or_more_goaways", "goaway_id_inside_open_id_range", "newstream_issued_between_goaways", "stream_created_between_goaways_reached_wire", "goaway_id_zero", "goaway_id_maxint",
	"goaway_even_id", "goaway_id_increased", "second_goaway_valid", "second_goaway_lower_id", "connection_error_expected", "newstream_after_goaway_written",
	"newstream_failed_retryable", "created_but_never_on_wire", "stream_above_goaway_id_unprocessed", "stream_below_goaway_id_survives",
	"answered_stream_completed_ok_despite_goaway", "completed_ok_stream_flagged_unprocessed_by_contradictory_goaway", "transport_closed_itself_when_drained_and_empty", "max_concurrent_streams_limited",
	"client_graceful_close", "client_graceful_close_before_any_goaway", "goaway_after_client_graceful_close"}

func clientRun(t *testing.T, p CPlan) vk.Result {
	out := runClient(t, p)
	if out.harnessErr != "" {
		panic("VERIF-HARNESS: " + out.harnessErr)
	}
	var cl []string
	for _, c := range cClassOrder {
		if out.classes[c] {
			cl = append(cl, c)
		}
	}
	if out.bad != "" {
		r := vk.Bad("%s", out.bad).With(cl...)
		r.Sig = out.sig
		return r
	}
	nt := out.nt
	if p.BadIDs {
		nt = out.classes["connection_error_expected"]
	}
	r := vk.OK(nt, cl...)
	r.Steps = out.steps
	return r
}
