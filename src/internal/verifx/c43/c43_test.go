package c43_test

// C43: xDS watchers see the latest valid resource and correct errors
// (callback histories vs a reference cache model).

import (
	"sort"
	"testing"

	"google.golang.org/grpc/internal/verifkit/vk"
	"google.golang.org/grpc/internal/verifkit/xdsrig"
	"pgregory.net/rapid"
)

func gen(rt *rapid.T) xdsrig.Plan {
	c := xdsrig.GenCfg{
		MaxServers: 1, MinOps: 4, MaxOps: vk.Pick(30, 150),
		WWatch: 24, WUnwatch: 6, WResp: 34, WBreak: 6, WGrant: 10, WRelease: 8, WAdvance: 6, WRestart: 4, WViv: 7,
		UnknownPct: 0, HoldPct: 10, BadPct: 30, RefusePct: 25, IgnoreDel: true,
	}
	p := xdsrig.Gen(rt, c)
	if rapid.IntRange(0, 9).Draw(rt, "prefix") < 8 {
		pre := []xdsrig.Op{
			{K: "watch", T: rapid.IntRange(0, 1).Draw(rt, "pt"), N: xdsrig.GenName(rt)},
			{K: "grant", Accept: true},
		}
		p.Ops = append(pre, p.Ops...)
	}
	return p
}

func run(t *testing.T, p xdsrig.Plan) vk.Result {
	p.Servers = 1
	rep := xdsrig.Execute(t, p, xdsrig.AspWatch)
	res := vk.Result{Steps: rep.Steps}
	for c := range rep.Classes {
		res.Classes = append(res.Classes, c)
	}
	sort.Strings(res.Classes)
	if rep.OffAspect != "" {
		res.Classes = append(res.Classes, "stopped_offaspect_divergence")
		return res
	}
	res.NonTrivial = rep.Stats.ValidInvalidValid >= 1
	if rep.Violation != "" {
		return vk.Bad("%s", rep.Violation).With(res.Classes...)
	}
	return res
}

func TestVerifC43Watchers(t *testing.T) {
	vk.Check(t, vk.Unit[xdsrig.Plan]{
		ID: "C43", Name: "watchers",
		Rule: "one management server (with or without ignore_resource_deletion); op sequences of watch/unwatch (4 names x 2 types, one requiring all resources in SotW responses), responses mixing valid / rejected (varying reason) / undecodable / missing resources and repeated identical contents, stream failures before/after a response, refused re-creations, watch-expiry advances (T/2, T); the complete per-watcher callback history of every event is compared with a reference cache model. non-trivial = some resource with >= 2 watchers went valid -> rejected -> valid",
		Gen:  gen, Run: run,
	})
}
