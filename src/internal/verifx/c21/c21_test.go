package c21_test

// C21: effective message size limits are the minimum of all configured limits.
//
// Real client + real server over bufconn in a bubble. Limits come from the
// service config JSON (method / service / default scope), dial options
// (WithDefaultCallOptions), per-call options and server options; messages are
// sized around the effective limit of one of the four stages (client send,
// server receive, server send, client receive), with and without compression
// (a harness run-length compressor whose output size the oracle computes
// itself). The oracle is a reference model of the statement plus a wire log.
//
// RPC shapes: unary through cc.Invoke, bidi, server-streaming, client-streaming
// and a unary method driven through the stream API (what Invoke does
// internally). Wherever the application holds a stream (client: every shape but
// Invoke; server: every streaming handler) the plan chooses per message between
// the ordinary SendMsg(msg) and the PreparedMsg path (pm.Encode(stream, msg);
// SendMsg(pm)). The oracle does not know about the path: the statement's limit
// applies to the encoded (post-compression) size whichever way it was produced.

import (
	"bytes"
	"context"
	"encoding/json"
	"errors"
	"fmt"
	"io"
	"math"
	"sync"
	"testing"
	"testing/synctest"
	"time"

	"google.golang.org/grpc"
	"google.golang.org/grpc/codes"
	"google.golang.org/grpc/encoding"
	"google.golang.org/grpc/internal/verifkit/e2e"
	"google.golang.org/grpc/internal/verifkit/vk"
	"google.golang.org/grpc/status"
	"pgregory.net/rapid"
)

// ---------------------------------------------------------------- harness compressor (RLE)

const rleName = "verifrle21"

type rleCompressor struct{}

func (rleCompressor) Name() string { return rleName }

type rleWriter struct {
	w   io.Writer
	buf bytes.Buffer
}

func (z *rleWriter) Write(p []byte) (int, error) { return z.buf.Write(p) }
func (z *rleWriter) Close() error {
	_, err := z.w.Write(rleEncode(z.buf.Bytes()))
	return err
}

func (rleCompressor) Compress(w io.Writer) (io.WriteCloser, error) { return &rleWriter{w: w}, nil }
func (rleCompressor) Decompress(r io.Reader) (io.Reader, error) {
	b, err := io.ReadAll(r)
	if err != nil {
		return nil, err
	}
	if len(b)%2 != 0 {
		return nil, errors.New("rle: odd length")
	}
	var out []byte
	for i := 0; i < len(b); i += 2 {
		out = append(out, bytes.Repeat([]byte{b[i+1]}, int(b[i]))...)
	}
	return bytes.NewReader(out), nil
}

func rleEncode(b []byte) []byte {
	var out []byte
	for i := 0; i < len(b); {
		j := i
		for j < len(b) && b[j] == b[i] && j-i < 255 {
			j++
		}
		out = append(out, byte(j-i), b[i])
		i = j
	}
	return out
}

func init() { encoding.RegisterCompressor(rleCompressor{}) }

// ---------------------------------------------------------------- plan

const (
	scopeExact = iota
	scopeService
	scopeDefault
	scopeOtherMethod
	scopeOtherService
	numScopes
)

type scEntry struct {
	Scope int    `json:"scope"`
	Req   *int64 `json:"req"`
	Resp  *int64 `json:"resp"`
}

const (
	patZeros = iota // constant bytes: RLE shrinks to 2*ceil(n/255)
	patAlt          // alternating bytes: RLE doubles the size
)

type msgSpec struct {
	Pat int `json:"pat"`
	Len int `json:"len"`
	// Prep: send through (&grpc.PreparedMsg{}).Encode(stream, msg) + SendMsg(pm)
	// instead of SendMsg(msg). Only honoured where the sender holds a stream.
	Prep bool `json:"prep,omitempty"`
}

// RPC shapes (plan.Shape, meaningful when plan.Stream is set).
const (
	shapeBidi        = iota // /Stream, client and server streaming
	shapeSStream            // /ServerStream: one request, 0-3 responses
	shapeCStream            // /ClientStream: 1-3 requests, one response
	shapeUnaryStream        // /Unary (unary handler) driven through cc.NewStream
	numShapes
)

type plan struct {
	HasSC    bool      `json:"has_sc"`
	SC       []scEntry `json:"sc"`
	DialSend *int      `json:"dial_send"`
	DialRecv *int      `json:"dial_recv"`
	CallSend *int      `json:"call_send"`
	CallRecv *int      `json:"call_recv"`
	SrvSend  *int      `json:"srv_send"`
	SrvRecv  *int      `json:"srv_recv"`
	Compress bool      `json:"compress"`
	Stream   bool      `json:"stream"` // client uses cc.NewStream (false: cc.Invoke on /Unary)
	Shape    int       `json:"shape,omitempty"`
	Reqs     []msgSpec `json:"reqs"`
	Resps    []msgSpec `json:"resps"`
}

// ---------------------------------------------------------------- reference model

const (
	defClientRecv = 4 << 20
	defClientSend = math.MaxInt32
	defServerRecv = 4 << 20
	defServerSend = math.MaxInt32
)

func (p plan) shape() int {
	if p.Shape < 0 || p.Shape >= numShapes {
		return shapeBidi
	}
	return p.Shape
}

// cStreams / sStreams: the RPC's cardinality (the StreamDesc on both sides).
func (p plan) cStreams() bool {
	return p.Stream && (p.shape() == shapeBidi || p.shape() == shapeCStream)
}
func (p plan) sStreams() bool {
	return p.Stream && (p.shape() == shapeBidi || p.shape() == shapeSStream)
}

// streamHandler: the server side is a streaming handler (holds a
// grpc.ServerStream); otherwise it is the unary handler.
func (p plan) streamHandler() bool { return p.Stream && p.shape() != shapeUnaryStream }

func shapeName(p plan) string {
	if !p.Stream {
		return "unary"
	}
	return [...]string{"stream", "sstream", "cstream", "unary_via_stream"}[p.shape()]
}

// methodOf returns the full method and its last path element.
func methodOf(p plan) (full, name string) {
	if !p.Stream {
		return e2e.UnaryMethod, "Unary"
	}
	switch p.shape() {
	case shapeSStream:
		return e2e.SStreamMethod, "ServerStream"
	case shapeCStream:
		return e2e.CStreamMethod, "ClientStream"
	case shapeUnaryStream:
		return e2e.UnaryMethod, "Unary"
	}
	return e2e.StreamMethod, "Stream"
}

// scLimits: the selected method config is the most specific matching entry
// (exact method, then service, then default); its fields are the limits.
func scLimits(p plan) (req, resp *int64) {
	if !p.HasSC {
		return nil, nil
	}
	for _, want := range []int{scopeExact, scopeService, scopeDefault} {
		for _, e := range p.SC {
			if e.Scope == want {
				return e.Req, e.Resp
			}
		}
	}
	return nil, nil
}

// effClient: "the smaller of the service-config limit and the dial/call option
// limit (or the default when neither is set)". A per-call option overrides the
// dial default option (it is the same option applied later).
func effClient(sc *int64, dial, call *int, def int) (limit int, sources int) {
	opt := dial
	if call != nil {
		opt = call
	}
	if dial != nil {
		sources++
	}
	if call != nil {
		sources++
	}
	if sc != nil {
		sources++
	}
	switch {
	case sc == nil && opt == nil:
		return def, sources
	case sc == nil:
		return *opt, sources
	}
	s := math.MaxInt
	if *sc < int64(math.MaxInt) {
		s = int(*sc)
	}
	if opt == nil || s < *opt {
		return s, sources
	}
	return *opt, sources
}

type limits struct {
	cSend, sRecv, sSend, cRecv int
	cSendSources, cRecvSources int
}

func effective(p plan) limits {
	req, resp := scLimits(p)
	var l limits
	l.cSend, l.cSendSources = effClient(req, p.DialSend, p.CallSend, defClientSend)
	l.cRecv, l.cRecvSources = effClient(resp, p.DialRecv, p.CallRecv, defClientRecv)
	l.sRecv, l.sSend = defServerRecv, defServerSend
	if p.SrvRecv != nil {
		l.sRecv = *p.SrvRecv
	}
	if p.SrvSend != nil {
		l.sSend = *p.SrvSend
	}
	return l
}

func payload(m msgSpec, seed byte) []byte {
	b := make([]byte, m.Len)
	for i := range b {
		if m.Pat == patZeros {
			b[i] = seed
		} else {
			b[i] = seed + byte(i&1)*7 + byte(i&2)
		}
	}
	return b
}

// wireLen: payload length on the wire (post-compression; empty messages are
// never compressed).
func wireLen(p plan, m msgSpec) int {
	if !p.Compress || m.Len == 0 {
		return m.Len
	}
	if m.Pat == patZeros {
		return 2 * ((m.Len + 254) / 255)
	}
	// alternating pattern has no two equal neighbours: every byte is its own run
	return 2 * m.Len
}

type expect struct {
	// reqsSeen: number of requests the handler must receive intact.
	reqsSeen int
	// handlerRecvErr: the handler's next RecvMsg after reqsSeen must fail (not EOF).
	handlerRecvErr bool
	// handlerRuns: unary handler is invoked.
	handlerRuns bool
	// respsSent: responses that must appear on the wire; respsSeen: delivered to the client.
	respsSent, respsSeen int
	// reqsOnWire: requests that must appear on the wire.
	reqsOnWire int
	// code: final client status.
	code codes.Code
	// stage that fails: "", "client_send", "server_recv", "server_send", "client_recv"
	stage string
}

func model(p plan) expect {
	l := effective(p)
	e := expect{code: codes.OK, handlerRuns: true}
	for i, m := range p.Reqs {
		w := wireLen(p, m)
		if w > l.cSend {
			e.stage, e.code = "client_send", codes.ResourceExhausted
			e.reqsSeen, e.reqsOnWire = i, i
			e.handlerRecvErr = true
			e.handlerRuns = p.streamHandler() && i > 0 // the stream may not even be created when nothing was sent... see judge
			return e
		}
		if w > l.sRecv || m.Len > l.sRecv {
			e.stage, e.code = "server_recv", codes.ResourceExhausted
			e.reqsSeen, e.reqsOnWire = i, i+1
			e.handlerRecvErr = true
			e.handlerRuns = p.streamHandler()
			return e
		}
	}
	e.reqsSeen, e.reqsOnWire = len(p.Reqs), len(p.Reqs)
	for j, m := range p.Resps {
		w := wireLen(p, m)
		if w > l.sSend {
			e.stage, e.code = "server_send", codes.ResourceExhausted
			e.respsSent, e.respsSeen = j, j
			return e
		}
		if w > l.cRecv || m.Len > l.cRecv {
			e.stage, e.code = "client_recv", codes.ResourceExhausted
			e.respsSent, e.respsSeen = j+1, j
			return e
		}
	}
	e.respsSent, e.respsSeen = len(p.Resps), len(p.Resps)
	return e
}

// ---------------------------------------------------------------- generator

func genLimit(rt *rapid.T, label string) int {
	switch rapid.IntRange(0, 9).Draw(rt, label+"_kind") {
	case 0:
		return rapid.SampledFrom([]int{0, 1, 2, 5, 254, 255, 256, 510, 511, 4096}).Draw(rt, label)
	case 1:
		return rapid.SampledFrom([]int{math.MaxInt32, math.MaxInt, 1 << 30, 8 << 20}).Draw(rt, label)
	default:
		return rapid.IntRange(0, 4096).Draw(rt, label)
	}
}

func genOpt(rt *rapid.T, label string, pct int) *int {
	if rapid.IntRange(0, 99).Draw(rt, label+"_set") >= pct {
		return nil
	}
	v := genLimit(rt, label)
	return &v
}

func genSC64(rt *rapid.T, label string, pct int) *int64 {
	if rapid.IntRange(0, 99).Draw(rt, label+"_set") >= pct {
		return nil
	}
	var v int64
	if rapid.IntRange(0, 19).Draw(rt, label+"_huge") == 0 {
		v = rapid.SampledFrom([]int64{math.MaxInt64, 1 << 40, math.MaxInt32 + 1}).Draw(rt, label)
	} else {
		v = int64(genLimit(rt, label))
	}
	return &v
}

// sizeFor picks a message (pattern, length) whose relevant size lands at
// target for the given stage kind (send: wire length; recv: max of wire and
// decompressed length).
func sizeFor(rt *rapid.T, p plan, target int, label string) msgSpec {
	if target < 0 {
		target = 0
	}
	if target > 5<<20 || (target > 1<<20 && rapid.IntRange(0, 3).Draw(rt, label+"_big") > 0) {
		target = rapid.IntRange(0, 3000).Draw(rt, label+"_small")
	}
	if !p.Compress {
		return msgSpec{Pat: rapid.IntRange(0, 1).Draw(rt, label+"_pat"), Len: target}
	}
	if rapid.Bool().Draw(rt, label+"_alt") {
		// alternating: wire = 2n dominates
		return msgSpec{Pat: patAlt, Len: (target + rapid.IntRange(0, 1).Draw(rt, label+"_round")) / 2}
	}
	// zeros: decompressed length dominates (receive stages); tiny on the wire
	return msgSpec{Pat: patZeros, Len: target}
}

// genMsgs: lims[0] is the sender's limit for this direction. canPrep: the
// sender holds a stream, so each message may go through the PreparedMsg path;
// prepared messages aim at the send limit more often (when it is reachable).
func genMsgs(rt *rapid.T, p plan, n int, lims []int, canPrep bool, label string) []msgSpec {
	var out []msgSpec
	for i := 0; i < n; i++ {
		prep := canPrep && rapid.Bool().Draw(rt, label+"_prep")
		ls := lims
		if prep && lims[0] <= 1<<20 {
			ls = append(append([]int(nil), lims...), lims[0], lims[0], lims[0])
		}
		l := rapid.SampledFrom(ls).Draw(rt, label+"_lim")
		var d int
		switch rapid.IntRange(0, 9).Draw(rt, label+"_dkind") {
		case 0, 1:
			d = -1
		case 2, 3, 4:
			d = 0
		case 5, 6:
			d = 1
		case 7:
			d = 2
		case 8:
			d = -rapid.IntRange(0, 64).Draw(rt, label+"_below")
		default:
			d = -l // empty message
		}
		m := sizeFor(rt, p, l+d, label)
		m.Prep = prep
		out = append(out, m)
	}
	return out
}

func genPlan(rt *rapid.T) plan {
	p := plan{Compress: rapid.IntRange(0, 2).Draw(rt, "compress") == 0}
	// shapes: Invoke 4, bidi 6, server-streaming 3, client-streaming 3, unary via NewStream 2 (of 18)
	if sh := rapid.SampledFrom([]int{0, 0, 0, 0, 0, 0, 1, 1, 1, 2, 2, 2, 3, 3, -1, -1, -1, -1}).Draw(rt, "shape"); sh >= 0 {
		p.Stream, p.Shape = true, sh
	}
	p.HasSC = rapid.IntRange(0, 3).Draw(rt, "has_sc") > 0
	if p.HasSC {
		used := map[int]bool{}
		n := rapid.IntRange(1, 3).Draw(rt, "nsc")
		for i := 0; i < n; i++ {
			sc := rapid.SampledFrom([]int{scopeExact, scopeExact, scopeService, scopeDefault, scopeOtherMethod, scopeOtherService}).Draw(rt, "scope")
			if used[sc] {
				continue
			}
			used[sc] = true
			p.SC = append(p.SC, scEntry{Scope: sc, Req: genSC64(rt, "sc_req", 75), Resp: genSC64(rt, "sc_resp", 75)})
		}
	}
	p.DialSend, p.DialRecv = genOpt(rt, "dial_send", 50), genOpt(rt, "dial_recv", 50)
	p.CallSend, p.CallRecv = genOpt(rt, "call_send", 40), genOpt(rt, "call_recv", 40)
	// a streaming handler can send prepared responses: give it a send limit more often
	p.SrvSend, p.SrvRecv = genOpt(rt, "srv_send", map[bool]int{false: 50, true: 70}[p.streamHandler()]), genOpt(rt, "srv_recv", 50)
	l := effective(p)
	nreq, nresp := 1, 1
	if p.cStreams() {
		nreq = rapid.IntRange(1, 3).Draw(rt, "nreq")
	}
	if p.sStreams() {
		nresp = rapid.IntRange(0, 3).Draw(rt, "nresp")
	}
	p.Reqs = genMsgs(rt, p, nreq, []int{l.cSend, l.cSend, l.sRecv}, p.Stream, "req")
	p.Resps = genMsgs(rt, p, nresp, []int{l.sSend, l.cRecv, l.cRecv}, p.streamHandler(), "resp")
	return p
}

// ---------------------------------------------------------------- executor

func scJSON(p plan) string {
	type name struct {
		Service string `json:"service,omitempty"`
		Method  string `json:"method,omitempty"`
	}
	type mc struct {
		Name []name `json:"name"`
		Req  *int64 `json:"maxRequestMessageBytes,omitempty"`
		Resp *int64 `json:"maxResponseMessageBytes,omitempty"`
	}
	_, mname := methodOf(p)
	var mcs []mc
	for _, e := range p.SC {
		var n name
		switch e.Scope {
		case scopeExact:
			n = name{e2e.DefaultService, mname}
		case scopeService:
			n = name{Service: e2e.DefaultService}
		case scopeDefault:
			n = name{}
		case scopeOtherMethod:
			n = name{e2e.DefaultService, "SomethingElse"}
		case scopeOtherService:
			n = name{Service: "other.Service"}
		}
		mcs = append(mcs, mc{Name: []name{n}, Req: e.Req, Resp: e.Resp})
	}
	b, _ := json.Marshal(map[string]any{"methodConfig": mcs})
	return string(b)
}

type srvLog struct {
	mu       sync.Mutex
	calls    int
	reqs     [][]byte
	recvErr  error // first non-EOF RecvMsg error in the handler
	sawEOF   bool
	sendErrs []error
}

// encodeError marks a failure of PreparedMsg.Encode (as opposed to SendMsg).
type encodeError struct{ err error }

func (e encodeError) Error() string { return "PreparedMsg.Encode: " + e.err.Error() }

// sendVia sends one raw message on a client or server stream, either the
// ordinary way or through the PreparedMsg API, the way its users do it:
// Encode against the stream, then SendMsg(pm).
func sendVia(st grpc.Stream, b []byte, prep bool) error {
	if !prep {
		return e2e.SendBytes(st, b)
	}
	pm := &grpc.PreparedMsg{}
	if err := pm.Encode(st, &b); err != nil {
		return encodeError{err}
	}
	return st.SendMsg(pm)
}

func run(t *testing.T, p plan) vk.Result {
	var res vk.Result
	msg := vk.Bubble(t, func(t *testing.T) { res = runInBubble(p) })
	if msg != "" && res.Violation == "" {
		return vk.Bad("harness/bubble: %s", msg).With(res.Classes...)
	}
	return res
}

func runInBubble(p plan) vk.Result {
	want := model(p)
	lim := effective(p)
	out := classify(p, lim, want)
	log := &srvLog{}
	respPayloads := make([][]byte, len(p.Resps))
	for j, m := range p.Resps {
		respPayloads[j] = payload(m, byte(0x40+j))
	}
	reqPayloads := make([][]byte, len(p.Reqs))
	for i, m := range p.Reqs {
		reqPayloads[i] = payload(m, byte(0x10+i))
	}
	opts := e2e.Options{
		Tap: &e2e.Tap{},
		Unary: func(ctx context.Context, req []byte) ([]byte, error) {
			log.mu.Lock()
			log.calls++
			log.reqs = append(log.reqs, req)
			log.mu.Unlock()
			return respPayloads[0], nil
		},
		Stream: func(st grpc.ServerStream) error {
			log.mu.Lock()
			log.calls++
			log.mu.Unlock()
			for {
				b, err := e2e.RecvBytes(st)
				if err == io.EOF {
					log.mu.Lock()
					log.sawEOF = true
					log.mu.Unlock()
					break
				}
				if err != nil {
					log.mu.Lock()
					log.recvErr = err
					log.mu.Unlock()
					return err
				}
				log.mu.Lock()
				log.reqs = append(log.reqs, b)
				log.mu.Unlock()
				if !p.cStreams() {
					break // a server-streaming handler receives its one request with one RecvMsg
				}
			}
			for j, rp := range respPayloads {
				if err := sendVia(st, rp, p.Resps[j].Prep); err != nil {
					log.mu.Lock()
					log.sendErrs = append(log.sendErrs, err)
					log.mu.Unlock()
					return err
				}
			}
			return nil
		},
	}
	tap := opts.Tap
	if p.SrvRecv != nil {
		opts.ServerOpts = append(opts.ServerOpts, grpc.MaxRecvMsgSize(*p.SrvRecv))
	}
	if p.SrvSend != nil {
		opts.ServerOpts = append(opts.ServerOpts, grpc.MaxSendMsgSize(*p.SrvSend))
	}
	if p.HasSC {
		opts.DialOpts = append(opts.DialOpts, grpc.WithDefaultServiceConfig(scJSON(p)))
	}
	var dco []grpc.CallOption
	if p.DialSend != nil {
		dco = append(dco, grpc.MaxCallSendMsgSize(*p.DialSend))
	}
	if p.DialRecv != nil {
		dco = append(dco, grpc.MaxCallRecvMsgSize(*p.DialRecv))
	}
	if len(dco) > 0 {
		opts.DialOpts = append(opts.DialOpts, grpc.WithDefaultCallOptions(dco...))
	}
	pair, err := e2e.Start(opts)
	if err != nil {
		return vk.Bad("harness: start: %v (sc %s)", err, scJSON(p)).With(out.Classes...)
	}
	defer pair.Close()

	var co []grpc.CallOption
	if p.CallSend != nil {
		co = append(co, grpc.MaxCallSendMsgSize(*p.CallSend))
	}
	if p.CallRecv != nil {
		co = append(co, grpc.MaxCallRecvMsgSize(*p.CallRecv))
	}
	if p.Compress {
		co = append(co, grpc.UseCompressor(rleName))
	}
	ctx, cancel := context.WithTimeout(context.Background(), 60*time.Second)
	defer cancel()

	bad := func(f string, a ...any) vk.Result {
		v := vk.Bad("%s [limits cSend=%d sRecv=%d sSend=%d cRecv=%d; expected failing stage %q]", fmt.Sprintf(f, a...), lim.cSend, lim.sRecv, lim.sSend, lim.cRecv, want.stage)
		v.Classes = out.Classes
		return v
	}

	var finalErr error
	var gotResps [][]byte
	var sendErr error // error returned by the client's SendMsg (stream)
	sendFailedAt := -1
	if !p.Stream {
		var resp []byte
		resp, finalErr = pair.Unary(ctx, e2e.UnaryMethod, reqPayloads[0], co...)
		if finalErr == nil {
			gotResps = append(gotResps, resp)
		}
	} else {
		method, _ := methodOf(p)
		cs, err := pair.NewStream(ctx, method, p.cStreams(), p.sStreams(), co...)
		if err != nil {
			return bad("NewStream failed: %v", err)
		}
		for i, rp := range reqPayloads {
			if err := sendVia(cs, rp, p.Reqs[i].Prep); err != nil {
				if err != io.EOF {
					sendErr, sendFailedAt = err, i
				}
				break
			}
		}
		if sendErr == nil {
			_ = cs.CloseSend()
			for {
				b, err := e2e.RecvBytes(cs)
				if err == io.EOF {
					break
				}
				if err != nil {
					finalErr = err
					break
				}
				gotResps = append(gotResps, b)
				if !p.sStreams() {
					break // one RecvMsg returns the response and the final status
				}
			}
		} else {
			finalErr = sendErr
		}
	}
	// let the server side finish before reading its log
	cancel()
	pair.Close()
	synctest.Wait()

	log.mu.Lock()
	defer log.mu.Unlock()

	// ---- PreparedMsg.Encode never fails for these messages (it only encodes and compresses)
	var ee encodeError
	if errors.As(sendErr, &ee) {
		return bad("client: %v (request %d)", ee, sendFailedAt)
	}
	for _, e := range log.sendErrs {
		if errors.As(e, &ee) {
			return bad("server handler: %v", ee)
		}
	}
	// ---- final status
	if got := status.Code(finalErr); got != want.code {
		return bad("client status = %v (%v), want %v", got, finalErr, want.code)
	}
	if want.stage == "client_send" && p.Stream && (sendErr == nil || sendFailedAt != want.reqsSeen) {
		return bad("client SendMsg of request %d should have failed with ResourceExhausted; SendMsg error=%v at %d", want.reqsSeen, sendErr, sendFailedAt)
	}
	// ---- what the handler saw
	if !p.streamHandler() {
		wantCalls := 0
		if want.stage == "" || want.stage == "server_send" || want.stage == "client_recv" {
			wantCalls = 1
		}
		if log.calls != wantCalls {
			return bad("unary handler ran %d times, want %d", log.calls, wantCalls)
		}
	}
	// When the client aborts the RPC because a later request is over its send
	// limit, earlier requests may be dropped with the stream (RST_STREAM):
	// only a prefix is guaranteed. Otherwise the count is exact.
	clientAborts := want.stage == "client_send" || (want.stage == "server_recv" && laterClientSendFail(p, lim, want.reqsSeen))
	if len(log.reqs) > want.reqsSeen || (!clientAborts && len(log.reqs) != want.reqsSeen) {
		return bad("handler received %d requests, want %d", len(log.reqs), want.reqsSeen)
	}
	for i, b := range log.reqs {
		if !bytes.Equal(b, reqPayloads[i]) {
			return bad("request %d not delivered intact (len %d vs %d)", i, len(b), len(reqPayloads[i]))
		}
	}
	if p.streamHandler() && log.calls == 1 {
		if want.handlerRecvErr {
			if log.sawEOF {
				return bad("handler saw a clean EOF after %d requests although request %d can never be delivered", len(log.reqs), want.reqsSeen)
			}
			if want.stage == "server_recv" && status.Code(log.recvErr) != codes.ResourceExhausted && !clientAborts {
				return bad("handler RecvMsg error = %v, want ResourceExhausted", log.recvErr)
			}
		} else if (p.cStreams() && !log.sawEOF) || log.recvErr != nil {
			return bad("handler did not see EOF after all requests (recvErr=%v)", log.recvErr)
		}
		if want.stage == "server_send" {
			if len(log.sendErrs) != 1 || status.Code(log.sendErrs[0]) != codes.ResourceExhausted {
				return bad("handler SendMsg errors = %v, want one ResourceExhausted", log.sendErrs)
			}
		} else if len(log.sendErrs) != 0 && want.stage != "client_recv" {
			return bad("handler SendMsg failed unexpectedly: %v", log.sendErrs)
		}
	}
	// ---- what the client saw
	wantSeen := want.respsSeen
	if !p.sStreams() && want.code != codes.OK {
		wantSeen = 0
	}
	if len(gotResps) != wantSeen {
		return bad("client received %d responses, want %d", len(gotResps), wantSeen)
	}
	for j, b := range gotResps {
		if !bytes.Equal(b, respPayloads[j]) {
			return bad("response %d not delivered intact (len %d vs %d)", j, len(b), len(respPayloads[j]))
		}
	}
	// ---- wire log: a message over the send limit is never transmitted
	c2s, s2c := tap.Bytes(0)
	cf, err1 := e2e.DecodeWire(c2s, true)
	sf, err2 := e2e.DecodeWire(s2c, false)
	if err1 != nil || err2 != nil {
		return bad("wire log does not decode: %v / %v", err1, err2)
	}
	ids := e2e.StreamIDs(cf)
	if len(ids) > 1 {
		return bad("harness: %d streams on the wire", len(ids))
	}
	var reqMsgs, respMsgs []e2e.GRPCMessage
	if len(ids) == 1 {
		reqMsgs, _ = e2e.MessagesOf(cf, ids[0])
		respMsgs, _ = e2e.MessagesOf(sf, ids[0])
	}
	if want.stage == "client_send" {
		if len(reqMsgs) > want.reqsOnWire {
			return bad("wire shows %d request messages, but request %d exceeds the client's send limit and must never be transmitted", len(reqMsgs), want.reqsSeen)
		}
	} else if len(reqMsgs) < want.reqsOnWire && want.stage == "" {
		return bad("wire shows %d request messages, want %d", len(reqMsgs), want.reqsOnWire)
	}
	for i, m := range reqMsgs {
		if i < len(p.Reqs) && len(m.Payload) != wireLen(p, p.Reqs[i]) {
			return bad("harness: request %d has %d payload bytes on the wire, model says %d", i, len(m.Payload), wireLen(p, p.Reqs[i]))
		}
	}
	if want.stage == "client_recv" {
		// The client rejects the oversized response on its 5-byte length prefix and
		// resets the stream, so that message need not be complete on the wire.
		if len(respMsgs) < want.respsSeen || len(respMsgs) > len(p.Resps) {
			return bad("wire shows %d complete response messages, want %d..%d", len(respMsgs), want.respsSeen, len(p.Resps))
		}
	} else if want.stage == "server_send" || want.stage == "" {
		if len(respMsgs) != want.respsSent {
			return bad("wire shows %d response messages, want %d (a message over the server's send limit must never be transmitted)", len(respMsgs), want.respsSent)
		}
	} else if len(respMsgs) != 0 {
		return bad("wire shows %d response messages although the request phase failed", len(respMsgs))
	}
	for j, m := range respMsgs {
		if len(m.Payload) != wireLen(p, p.Resps[j]) {
			return bad("harness: response %d has %d payload bytes on the wire, model says %d", j, len(m.Payload), wireLen(p, p.Resps[j]))
		}
	}
	return out
}

// laterClientSendFail: some request after index i is over the client's send
// limit, so the client itself aborts the stream while the server is failing.
func laterClientSendFail(p plan, l limits, i int) bool {
	for k := i + 1; k < len(p.Reqs); k++ {
		if wireLen(p, p.Reqs[k]) > l.cSend {
			return true
		}
	}
	return false
}

func near(a, b int) bool { d := a - b; return d >= -1 && d <= 1 }

func classify(p plan, l limits, want expect) vk.Result {
	out := vk.Result{}
	seen := map[string]bool{}
	cls := func(c string) { // each class at most once per case: histogram shares are shares of cases
		if !seen[c] {
			seen[c] = true
			out.Classes = append(out.Classes, c)
		}
	}
	if want.stage == "" {
		cls("all_delivered")
	} else {
		cls("fails_at_" + want.stage)
	}
	cls(shapeName(p))
	if p.Compress {
		cls("compressed")
	}
	cls(fmt.Sprintf("csend_sources_%d", l.cSendSources))
	cls(fmt.Sprintf("crecv_sources_%d", l.cRecvSources))
	req, resp := scLimits(p)
	if req != nil && (p.DialSend != nil || p.CallSend != nil) {
		cls("csend_sc_and_option")
	}
	if resp != nil && (p.DialRecv != nil || p.CallRecv != nil) {
		cls("crecv_sc_and_option")
	}
	if p.HasSC {
		for _, e := range p.SC {
			cls(fmt.Sprintf("sc_scope_%d", e.Scope))
		}
	}
	// attempted: the model's stage sequence reaches the SendMsg of this message
	// (everything up to and including the first failing message of a phase;
	// responses only after the whole request phase succeeded).
	reqFail := want.stage == "client_send" || want.stage == "server_recv"
	for i, m := range p.Reqs {
		w := wireLen(p, m)
		if m.Prep && p.Stream {
			cls("req_prepared")
			if !reqFail || i <= want.reqsSeen {
				if near(w, l.cSend) {
					cls("prepared_msg_at_send_limit")
					cls("prepared_req_at_client_send_limit")
					out.NonTrivial = true
				}
				if w > l.cSend {
					cls("prepared_msg_over_send_limit")
				}
				if p.Compress && w != m.Len && (w > l.cSend) != (m.Len > l.cSend) {
					cls("prepared_compressed_straddles_send_limit")
				}
			}
		}
		if near(w, l.cSend) {
			cls("req_at_client_send_limit")
			if l.cSendSources >= 2 {
				out.NonTrivial = true
			}
		}
		if near(w, l.sRecv) || near(m.Len, l.sRecv) {
			cls("req_at_server_recv_limit")
		}
		if p.Compress && m.Len > 0 && w < m.Len && near(m.Len, l.sRecv) {
			cls("req_decompressed_at_limit")
		}
	}
	for j, m := range p.Resps {
		w := wireLen(p, m)
		if m.Prep && p.streamHandler() {
			cls("resp_prepared")
			if !reqFail && (want.stage == "" || j <= want.respsSeen) {
				if near(w, l.sSend) {
					cls("prepared_msg_at_send_limit")
					cls("prepared_resp_at_server_send_limit")
					out.NonTrivial = true
				}
				if w > l.sSend {
					cls("prepared_msg_over_send_limit")
				}
				if p.Compress && w != m.Len && (w > l.sSend) != (m.Len > l.sSend) {
					cls("prepared_compressed_straddles_send_limit")
				}
			}
		}
		if near(w, l.cRecv) || near(m.Len, l.cRecv) {
			cls("resp_at_client_recv_limit")
			if l.cRecvSources >= 2 {
				out.NonTrivial = true
			}
		}
		if near(w, l.sSend) {
			cls("resp_at_server_send_limit")
		}
		if p.Compress && m.Len > 0 && w < m.Len && near(m.Len, l.cRecv) {
			cls("resp_decompressed_at_limit")
		}
	}
	return out
}

func TestVerifC21(t *testing.T) {
	vk.Check(t, vk.Unit[plan]{
		ID: "C21", Name: "limits",
		Rule: "one RPC per client/server pair: unary via Invoke, bidi, server-streaming, client-streaming or a unary method driven through NewStream (1-3 requests where the client streams, 0-3 responses where the server streams); where the sender holds a stream each message goes through SendMsg(msg) or PreparedMsg.Encode+SendMsg(pm) (50%); limits from: service config JSON (0-3 method configs of scope exact/service/default/other, each maxRequestMessageBytes/maxResponseMessageBytes present 75%, values 0..4096, specials, > MaxInt), dial default call options (50%), per-call options (40%), server MaxRecvMsgSize/MaxSendMsgSize (50%); 1/3 with a harness RLE compressor (constant payload shrinks, alternating payload doubles); message sizes at effective limit -1/0/+1/+2, below, empty. non-trivial = a message whose relevant size is within 1 of the effective client send/receive limit while >= 2 of {service config, dial option, call option} are set for that limit, or a PreparedMsg whose encoded size is within 1 of its sender's effective send limit is attempted (class prepared_msg_at_send_limit)",
		Gen:  genPlan, Run: run,
	})
}
