package c33_test

// C33: gracefulswitch.Balancer — switching is graceful and isolates the old
// policy. Black-box on the exported API with stub children (stubs) and a
// recording ClientConn (fakecc), one synctest bubble per case so that the
// asynchronous Close of a swapped-out child settles at synctest.Wait().
//
// Oracle: a reference model of {current, pending} derived from the property
// statement. After every operation the exact sequence of states forwarded to
// the parent ClientConn (state + picker identity) must equal the model's, a
// superseded/closed child must have had Close() exactly once, all SubConns it
// created must have had Shutdown() called, and it must not have been called
// again.

import (
	"encoding/json"
	"errors"
	"fmt"
	"testing"
	"testing/synctest"

	"google.golang.org/grpc/balancer"
	"google.golang.org/grpc/connectivity"
	"google.golang.org/grpc/internal/balancer/gracefulswitch"
	"google.golang.org/grpc/internal/verifkit/fakecc"
	"google.golang.org/grpc/internal/verifkit/stubs"
	"google.golang.org/grpc/internal/verifkit/vk"
	"google.golang.org/grpc/resolver"
	"pgregory.net/rapid"
)

const (
	opSwitch = iota
	opUpdate
	opReport
	opNewSC
	opShutSC
	opDeliver
	opResolverError
	opExitIdle
	opClose
	// in-flight child->parent calls (unit "inflight", see c33_inflight_test.go)
	opAsync      // a child starts a parent-facing call on its own goroutine; the parent holds it open
	opRelease    // the parent lets the k-th held call return
	opReportHeld // a child that has a held call reports a state
)

type op struct {
	K int `json:"k"`
	A int `json:"a"`
	B int `json:"b"`
	C int `json:"c"`
}

type plan struct {
	Ops []op `json:"ops"`
	// ReleaseFirst: calls still held open when the op list ends are released
	// before (true) or after (false) the final gsb.Close.
	ReleaseFirst bool `json:"release_first,omitempty"`
}

var connStates = []connectivity.State{connectivity.Ready, connectivity.Connecting, connectivity.TransientFailure, connectivity.Idle}

func genPlan(rt *rapid.T) plan {
	// fakecc.Uniform/Weighted give near-uniform draws (rapid's own integer
	// generators over-sample small values, which starves some operation kinds).
	n := 1 + fakecc.Uniform(rt, "n", vk.Pick(20, 150))
	if n < 12 && fakecc.Uniform(rt, "short", 8) > 0 {
		n = 12 + n%9 // most cases are long enough for two graceful switches
	}
	var p plan
	kinds := []int{opReport, opSwitch, opDeliver, opNewSC, opUpdate, opShutSC, opResolverError, opExitIdle, opClose}
	for i := 0; i < n; i++ {
		k := kinds[fakecc.Weighted(rt, "kind", 46, 28, 8, 6, 4, 2, 2, 2, 1)]
		o := op{K: k}
		switch k {
		case opSwitch:
			o.A = fakecc.Uniform(rt, "name", 4)
			o.B = []int{-1, -1, -1, 0, 1, 2, 3}[fakecc.Uniform(rt, "inline", 7)]
			o.C = fakecc.Uniform(rt, "viaCfg", 2)
		case opUpdate:
			o.B = []int{-1, -1, 0, 1, 2, 3}[fakecc.Uniform(rt, "inline", 6)]
		case opReport:
			o.A = fakecc.Uniform(rt, "child", 100)
			// state selector, interpreted relative to the role of the selected
			// child (see stateFor).
			o.B = fakecc.Uniform(rt, "state", 100)
		case opNewSC:
			o.A = fakecc.Uniform(rt, "child", 100)
		case opShutSC:
			o.A = fakecc.Uniform(rt, "child", 100)
			o.B = fakecc.Uniform(rt, "sc", 8)
		case opDeliver:
			o.A = fakecc.Uniform(rt, "sc", 16)
			o.B = fakecc.Uniform(rt, "ev", 4)
		}
		p.Ops = append(p.Ops, o)
	}
	return p
}

const (
	roleCurrent = iota
	rolePending
	roleGone // superseded or closed
)

type mChild struct {
	c        *stubs.Child
	role     int
	last     connectivity.State
	picker   *stubs.Picker // nil until the first report
	scs      []*fakecc.SubConn
	reported bool
	// created: every SubConn the parent created for an in-flight (held)
	// NewSubConn call of this child, whatever became of the call.
	created []*fakecc.SubConn
	// orphans: SubConns of in-flight NewSubConn calls that returned after the
	// child had been closed.
	orphans []*fakecc.SubConn
}

type fwd struct {
	state  connectivity.State
	picker *stubs.Picker // nil = the built-in "no SubConn available" picker
	tfErr  bool          // state TF with an error picker made by gsb itself
}

type model struct {
	current, pending *mChild
	closed           bool
	byChild          map[*stubs.Child]*mChild
	all              []*mChild
	expect           []fwd
	// statistics
	holds, swapByPending, swapByCurrent, pendingReplaced, goneReports, inlineReports, droppedSC int
	gracefulPendings                                                                           map[*mChild]bool
	// in-flight calls
	held []*heldCall
	inflightStats
}

// retire marks mc closed (by a swap / replacement when bySwitch, else by
// gsb.Close) and notes which of its parent-facing calls are held open.
func (m *model) retire(mc *mChild, bySwitch bool) {
	mc.role = roleGone
	m.noteClosedWhileHeld(mc, bySwitch)
}

func (m *model) swap() {
	old := m.current
	m.current = m.pending
	m.current.role = roleCurrent
	m.pending = nil
	m.retire(old, true)
}

// built is called from the stub Build hook: the new child takes its role.
func (m *model) built(c *stubs.Child) *mChild {
	mc := &mChild{c: c, last: connectivity.Connecting}
	m.byChild[c] = mc
	m.all = append(m.all, mc)
	if m.current == nil {
		mc.role = roleCurrent
		m.current = mc
	} else {
		if m.pending != nil {
			m.retire(m.pending, true)
			m.pendingReplaced++
		}
		mc.role = rolePending
		m.pending = mc
	}
	return mc
}

// report applies "child mc reports state s with picker p" to the model.
func (m *model) report(mc *mChild, s connectivity.State, p *stubs.Picker) {
	mc.last, mc.picker, mc.reported = s, p, true
	if m.closed || mc.role == roleGone {
		m.goneReports++
		return
	}
	if mc == m.current {
		if s != connectivity.Ready && m.pending != nil {
			m.expect = append(m.expect, fwd{state: m.pending.last, picker: m.pending.picker})
			m.swapByCurrent++
			m.swap()
			return
		}
		m.expect = append(m.expect, fwd{state: s, picker: p})
		return
	}
	// pending
	if m.current.last == connectivity.Ready {
		m.gracefulPendings[mc] = true
	}
	if s == connectivity.Connecting && m.current.last == connectivity.Ready {
		m.holds++
		return
	}
	m.expect = append(m.expect, fwd{state: s, picker: p})
	m.swapByPending++
	m.swap()
}

// stateFor maps a state selector 0..99 to a state, biased by the child's role
// so that graceful situations (current READY, pending CONNECTING) are common:
// current: READY 60 CONNECTING 15 TF 15 IDLE 10; pending: CONNECTING 45 READY
// 30 TF 15 IDLE 10; superseded: 25 each.
func stateFor(mc *mChild, b int) connectivity.State {
	var cut [3]int // READY, CONNECTING, TF upper bounds
	switch mc.role {
	case roleCurrent:
		cut = [3]int{70, 80, 92}
	case rolePending:
		cut = [3]int{45, 80, 92}
	default:
		cut = [3]int{25, 50, 75}
	}
	switch {
	case b < cut[0]:
		return connectivity.Ready
	case b < cut[1]:
		return connectivity.Connecting
	case b < cut[2]:
		return connectivity.TransientFailure
	}
	return connectivity.Idle
}

func (m *model) latest() *mChild {
	if m.pending != nil {
		return m.pending
	}
	return m.current
}

func (m *model) selectChild(a int) *mChild {
	if len(m.all) == 0 {
		return nil
	}
	switch {
	case a < 32 && m.current != nil:
		return m.current
	case a < 85 && m.pending != nil:
		return m.pending
	case a < 85 && m.current != nil:
		return m.current
	}
	return m.all[a%len(m.all)]
}

func run(t *testing.T, p plan) vk.Result { return runMode(t, p, false) }

func runMode(t *testing.T, p plan, inflight bool) vk.Result {
	var res vk.Result
	msg := vk.Bubble(t, func(t *testing.T) { res = runInBubble(p, inflight) })
	if msg != "" && res.Violation == "" {
		return vk.Bad("bubble did not drain cleanly (goroutine leak / panic): %s", msg)
	}
	return res
}

func runInBubble(p plan, inflightUnit bool) (res vk.Result) {
	hub := stubs.NewHub()
	defer hub.Release()
	cc := fakecc.New(hub.Key())
	gsb := gracefulswitch.NewBalancer(cc, hub.BuildOptions())
	m := &model{byChild: map[*stubs.Child]*mChild{}, gracefulPendings: map[*mChild]bool{}}
	fl := newFlight(m, cc)

	inlineBuild, inlineUpdate := -1, -1
	doReport := func(mc *mChild, s connectivity.State) {
		pk := mc.c.NewPicker(s)
		m.report(mc, s, pk)
		mc.c.ReportPicker(pk)
	}
	hub.OnBuild = func(c *stubs.Child) {
		mc := m.built(c)
		if inlineBuild >= 0 {
			m.inlineReports++
			doReport(mc, connStates[inlineBuild])
		}
	}
	hub.OnUpdate = func(c *stubs.Child, _ balancer.ClientConnState) error {
		if inlineUpdate >= 0 {
			m.inlineReports++
			doReport(m.byChild[c], connStates[inlineUpdate])
		}
		return nil
	}
	hub.OnSubConnState = func(_ *stubs.Child, sc balancer.SubConn, s balancer.SubConnState) {
		if s.ConnectivityState == connectivity.Idle {
			sc.Connect()
		}
	}

	closeGSB := func() {
		m.closed = true
		if m.current != nil {
			m.retire(m.current, false)
		}
		if m.pending != nil {
			m.retire(m.pending, false)
		}
		m.current, m.pending = nil, nil
		gsb.Close()
	}
	closedByPlan := false
	defer func() {
		// Always leave the bubble clean, whatever the verdict. Calls still
		// held open are released before or after the final Close (plan).
		if p.ReleaseFirst {
			if v := fl.releaseAll("final(release before Close)"); v != "" && res.Violation == "" {
				res = vk.Bad("%s", v)
			}
		}
		if !m.closed {
			closeGSB()
		}
		synctest.Wait()
		if v := fl.releaseAll("final(release after Close)"); v != "" && res.Violation == "" {
			res = vk.Bad("%s", v)
		}
		if res.Violation == "" {
			if v := checkQuiescent(m, hub, cc, "final"); v != "" {
				res = vk.Bad("%s", v)
			}
		}
		for _, sc := range cc.SubConns() {
			for len(sc.Enabled()) > 0 {
				en := sc.Enabled()
				sc.Deliver(en[len(en)-1], nil)
			}
		}
		res.Classes = append(res.Classes, classes(m, closedByPlan)...)
		res.Classes = append(res.Classes, m.inflightClasses()...)
		res.NonTrivial = len(m.gracefulPendings) >= 2
		if inflightUnit {
			res.NonTrivial = m.closedBySwitchWhileHeld > 0
		}
	}()

	nAddr := 0
	for i, o := range p.Ops {
		m.expect = nil
		before := cc.NumStates()
		hubBefore := len(hub.Log())
		inlineBuild, inlineUpdate = -1, -1
		desc := fmt.Sprintf("op %d %+v", i, o)
		switch o.K {
		case opSwitch:
			name := stubs.Names[o.A]
			inlineBuild = o.B
			nChildren := len(m.all)
			wasClosed := m.closed
			if o.C == 0 {
				err := gsb.SwitchTo(stubs.Builder(name))
				if wasClosed != (err != nil) {
					return vk.Bad("%s: SwitchTo returned err=%v, balancer closed=%v", desc, err, wasClosed)
				}
				if !wasClosed && len(m.all) != nChildren+1 {
					return vk.Bad("%s: SwitchTo built %d children, want 1", desc, len(m.all)-nChildren)
				}
			} else {
				js, _ := json.Marshal([]map[string]any{{name: map[string]any{"n": i}}})
				cfg, err := gracefulswitch.ParseConfig(js)
				if err != nil {
					return vk.Bad("%s: ParseConfig: %v", desc, err)
				}
				lat := m.latest()
				wantBuild := !wasClosed && (lat == nil || lat.c.Name != name)
				err = gsb.UpdateClientConnState(balancer.ClientConnState{BalancerConfig: cfg})
				if wasClosed != (err != nil) {
					return vk.Bad("%s: UpdateClientConnState(cfg) returned err=%v, balancer closed=%v", desc, err, wasClosed)
				}
				if built := len(m.all) - nChildren; (built == 1) != wantBuild || built > 1 {
					return vk.Bad("%s: UpdateClientConnState(cfg %s) built %d children, want build=%v (latest=%v)", desc, name, built, wantBuild, lat)
				}
				if !wasClosed {
					if v := onlyCall(hub, hubBefore, m.latest().c, stubs.CUpdateClientConnState); v != "" {
						return vk.Bad("%s: %s", desc, v)
					}
					ccs, _ := m.latest().c.LastUpdate()
					if _, ok := ccs.BalancerConfig.(*stubs.Config); !ok {
						return vk.Bad("%s: child received BalancerConfig %T, want the unwrapped child config", desc, ccs.BalancerConfig)
					}
				}
			}
		case opUpdate:
			inlineUpdate = o.B
			lat := m.latest()
			err := gsb.UpdateClientConnState(balancer.ClientConnState{ResolverState: resolver.State{Endpoints: []resolver.Endpoint{{Addresses: []resolver.Address{{Addr: "a"}}}}}})
			if (lat == nil) != (err != nil) {
				return vk.Bad("%s: UpdateClientConnState err=%v with latest=%v", desc, err, lat)
			}
			if lat != nil {
				if v := onlyCall(hub, hubBefore, lat.c, stubs.CUpdateClientConnState); v != "" {
					return vk.Bad("%s: %s", desc, v)
				}
			}
		case opReport:
			mc := m.selectChild(o.A)
			if mc == nil {
				continue
			}
			doReport(mc, stateFor(mc, o.B))
		case opNewSC:
			mc := m.selectChild(o.A)
			if mc == nil {
				continue
			}
			nAddr++
			wantOK := !m.closed && mc.role != roleGone
			nSC := len(cc.SubConns())
			sc, err := mc.c.NewSubConn(resolver.Address{Addr: fmt.Sprintf("10.0.0.%d:80", nAddr)})
			if wantOK != (err == nil) {
				return vk.Bad("%s: NewSubConn by %v (role %d) err=%v", desc, mc.c, mc.role, err)
			}
			if err == nil {
				fsc, ok := sc.(*fakecc.SubConn)
				if !ok {
					return vk.Bad("%s: NewSubConn returned %T", desc, sc)
				}
				mc.scs = append(mc.scs, fsc)
				sc.Connect()
			} else {
				for _, s := range cc.SubConns()[nSC:] {
					if !s.ShutdownCalled() {
						return vk.Bad("%s: rejected NewSubConn of a superseded child leaked %v", desc, s)
					}
				}
			}
		case opShutSC:
			mc := m.selectChild(o.A)
			if mc == nil || len(mc.scs) == 0 {
				continue
			}
			mc.scs[o.B%len(mc.scs)].Shutdown()
		case opDeliver:
			d := cc.Deliverable()
			if len(d) == 0 {
				continue
			}
			sc := d[o.A%len(d)]
			en := sc.Enabled()
			st := en[o.B%len(en)]
			owner := ownerOf(m, sc)
			if owner == nil {
				return vk.Bad("%s: harness: SubConn %v has no owner", desc, sc)
			}
			wantFwd := !m.closed && owner.role != roleGone
			n0 := owner.c.Count(stubs.CSubConnState)
			sc.Deliver(st, errors.New("connection refused"))
			got := owner.c.Count(stubs.CSubConnState) - n0
			if wantFwd && got != 1 {
				return vk.Bad("%s: %v update for %v of live %v (role %d) forwarded %d times, want 1", desc, st, sc, owner.c, owner.role, got)
			}
			if !wantFwd {
				m.droppedSC++
				if got != 0 {
					return vk.Bad("%s: %v update for %v reached superseded/closed %v", desc, st, sc, owner.c)
				}
			}
		case opResolverError:
			if m.closed {
				continue
			}
			lat := m.latest()
			gsb.ResolverError(errors.New("resolver broke"))
			if lat == nil {
				m.expect = append(m.expect, fwd{state: connectivity.TransientFailure, tfErr: true})
			} else if v := onlyCall(hub, hubBefore, lat.c, stubs.CResolverError); v != "" {
				return vk.Bad("%s: %s", desc, v)
			}
		case opExitIdle:
			if m.closed {
				continue
			}
			lat := m.latest()
			gsb.ExitIdle()
			if lat != nil {
				if v := onlyCall(hub, hubBefore, lat.c, stubs.CExitIdle); v != "" {
					return vk.Bad("%s: %s", desc, v)
				}
			}
		case opClose:
			if m.closed {
				continue
			}
			closedByPlan = true
			closeGSB()
		case opAsync:
			nAddr++
			if v := fl.start(o, fmt.Sprintf("10.1.0.%d:80", nAddr), desc); v != "" {
				return vk.Bad("%s", v)
			}
		case opRelease:
			if len(m.held) == 0 {
				continue
			}
			if v := fl.release(m.held[o.A%len(m.held)], desc); v != "" {
				return vk.Bad("%s", v)
			}
		case opReportHeld:
			if len(m.held) == 0 {
				continue
			}
			h := m.held[o.A%len(m.held)]
			if h.reached && (m.closed || h.mc.role == roleGone) {
				m.reportsClosedWhileHeld++
			}
			doReport(h.mc, stateFor(h.mc, o.B))
		}
		synctest.Wait()
		res.Steps++
		// 1. forwarded states == model's, exactly.
		got := cc.States()[before:]
		if len(got) != len(m.expect) {
			return vk.Bad("%s: parent ClientConn received %d state updates %v, model expects %d %v", desc, len(got), fmtStates(got), len(m.expect), fmtFwd(m.expect))
		}
		for j, g := range got {
			e := m.expect[j]
			if g.ConnectivityState != e.state {
				return vk.Bad("%s: forwarded update %d is %v, model expects %v (got %v want %v)", desc, j, g.ConnectivityState, e.state, fmtStates(got), fmtFwd(m.expect))
			}
			sp, isStub := g.Picker.(*stubs.Picker)
			switch {
			case e.picker != nil:
				if !isStub || sp != e.picker {
					return vk.Bad("%s: forwarded update %d carries picker %v, model expects %v", desc, j, g.Picker, e.picker)
				}
			default:
				if isStub {
					return vk.Bad("%s: forwarded update %d carries stub picker %v, model expects a built-in picker", desc, j, sp)
				}
				_, err := g.Picker.Pick(balancer.PickInfo{})
				if e.tfErr && (err == nil || errors.Is(err, balancer.ErrNoSubConnAvailable)) {
					return vk.Bad("%s: TF picker returned err=%v", desc, err)
				}
				if !e.tfErr && !errors.Is(err, balancer.ErrNoSubConnAvailable) {
					return vk.Bad("%s: cached initial picker of a never-reporting pending child returned err=%v, want ErrNoSubConnAvailable", desc, err)
				}
			}
		}
		// 2. quiescent invariants.
		if v := checkQuiescent(m, hub, cc, desc); v != "" {
			return vk.Bad("%s", v)
		}
	}
	return res
}

func ownerOf(m *model, sc *fakecc.SubConn) *mChild {
	for _, mc := range m.all {
		for _, s := range mc.scs {
			if s == sc {
				return mc
			}
		}
		for _, s := range mc.created {
			if s == sc {
				return mc
			}
		}
	}
	return nil
}

// onlyCall checks that since hub log position from, exactly one call of kind k
// reached child c and no other child received k.
func onlyCall(hub *stubs.Hub, from int, c *stubs.Child, k stubs.CallKind) string {
	n := 0
	for _, call := range hub.Log()[from:] {
		if call.Kind != k {
			continue
		}
		if call.Child != c {
			return fmt.Sprintf("%v was delivered to %v, want only the latest child %v", k, call.Child, c)
		}
		n++
	}
	if n != 1 {
		return fmt.Sprintf("%v delivered %d times to the latest child %v, want 1", k, n, c)
	}
	return ""
}

func checkQuiescent(m *model, hub *stubs.Hub, cc *fakecc.CC, desc string) string {
	if len(hub.Children()) != len(m.all) {
		return fmt.Sprintf("%s: %d children built, model knows %d", desc, len(hub.Children()), len(m.all))
	}
	for _, mc := range m.all {
		n := mc.c.CloseCount()
		if mc.role == roleGone {
			if n != 1 {
				return fmt.Sprintf("%s: superseded/closed %v has Close() count %d, want 1", desc, mc.c, n)
			}
			for _, sc := range mc.scs {
				if !sc.ShutdownCalled() {
					return fmt.Sprintf("%s: %v created by closed %v was not shut down", desc, sc, mc.c)
				}
			}
			for _, sc := range mc.orphans {
				if !sc.ShutdownCalled() {
					return fmt.Sprintf("%s: %v, whose creation by %v was in flight while that child was closed, was not shut down (leak)", desc, sc, mc.c)
				}
			}
		} else if n != 0 {
			return fmt.Sprintf("%s: live %v (role %d) was closed", desc, mc.c, mc.role)
		}
	}
	for _, call := range hub.Log() {
		if call.AfterClose {
			return fmt.Sprintf("%s: %v called on %v after its Close()", desc, call.Kind, call.Child)
		}
	}
	return ""
}

func classes(m *model, closedByPlan bool) []string {
	var out []string
	add := func(n int, s string) {
		if n > 0 {
			out = append(out, s)
		}
	}
	add(m.holds, "hold_pending_connecting_while_current_ready")
	add(m.swapByPending, "swap_by_pending_report")
	add(m.swapByCurrent, "swap_by_current_leaving_ready")
	add(m.pendingReplaced, "pending_replaced_by_new_switch")
	add(m.goneReports, "report_from_superseded_or_closed")
	add(m.inlineReports, "inline_report_in_build_or_update")
	add(m.droppedSC, "subconn_update_for_superseded_dropped")
	if closedByPlan {
		out = append(out, "closed_by_plan")
	}
	switch n := len(m.gracefulPendings); {
	case n >= 4:
		out = append(out, "graceful_switches>=4")
	case n >= 2:
		out = append(out, "graceful_switches_2-3")
	}
	for _, mc := range m.all {
		if mc.role == roleGone && !mc.reported && len(m.all) > 1 {
			out = append(out, "child_superseded_without_ever_reporting")
			break
		}
	}
	return out
}

func fmtStates(s []balancer.State) string {
	out := "["
	for i, x := range s {
		if i > 0 {
			out += " "
		}
		out += fmt.Sprintf("%v/%v", x.ConnectivityState, x.Picker)
	}
	return out + "]"
}

func fmtFwd(s []fwd) string {
	out := "["
	for i, x := range s {
		if i > 0 {
			out += " "
		}
		if x.picker != nil {
			out += fmt.Sprintf("%v/%v", x.state, x.picker)
		} else {
			out += fmt.Sprintf("%v/builtin", x.state)
		}
	}
	return out + "]"
}

func TestVerifC33Switch(t *testing.T) {
	vk.Check(t, vk.Unit[plan]{
		ID: "C33", Name: "switch",
		Rule: "op lists (<=20 quick / <=150 thorough) over gracefulswitch.Balancer with stub children: SwitchTo / UpdateClientConnState with a gracefulswitch config (4 child types, optional inline report from Build), plain resolver updates (optional inline report), child reports (32% current / 53% pending (current if none) / 15% any incl. superseded children; state biased by role: current READY 70%, pending READY 45% CONNECTING 35%), children creating/shutting SubConns, SubConn state deliveries from the fake addrConn automaton, ResolverError, ExitIdle, Close (ops continue after Close). non-trivial = at least 2 different pending children reported a state while the current child's last state was READY",
		Gen:  genPlan, Run: run,
	})
}
