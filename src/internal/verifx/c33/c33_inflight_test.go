package c33_test

// C33, unit "inflight": child->parent calls that are IN FLIGHT inside the parent
// ClientConn while the graceful switch balancer is driven on.
//
// A stub child starts a parent-facing call on its own goroutine (opAsync):
// NewSubConn first of all, also UpdateAddresses / ResolveNow through the
// ClientConn gracefulswitch handed to it, and Connect / Shutdown on one of its
// SubConns (gracefulswitch does not wrap SubConns, so those two go straight to
// the parent's SubConn). The fake parent (fakecc.CC.Gate) holds that call open
// on a channel — a durable block, so synctest.Wait() still reports quiescence —
// while the driver executes further plan ops (SwitchTo, reports that swap the
// child out, gsb.Close, …). opRelease lets the call return; whatever is still
// held when the op list ends is released around the final gsb.Close.
//
// Only calls a child makes from its OWN goroutine are held (calls made from
// inside a balancer method may run under gsb's currentMu), the gate is outside
// every fakecc lock, and balancerWrapper.UpdateState is never held: it runs
// entirely under gsb.mu, so it is atomic with respect to every other gsb
// operation (holding it would only block the driver on a mutex); its in-flight
// dimension is "a child reports while / after one of its calls is held"
// (opReportHeld, opReport).
//
// Oracle additions (from the statement; all oracles of unit "switch" stay):
//   - a child that is still current or pending when its held call returns gets
//     exactly the serial outcome (NewSubConn: a usable SubConn, nil error);
//   - a child that was closed by then: NewSubConn returns an error or a SubConn
//     that is already shut down; every SubConn the parent created for the call
//     has been shut down at quiescence after the release (exactly once when it
//     was never handed to the child) and stays accounted for until the end,
//     also across the final gsb.Close;
//   - state reports of a closed child with a held call are not forwarded (the
//     forwarded-sequence oracle of the model);
//   - every released call returns (no hang), the bubble drains.

import (
	"fmt"
	"sync"
	"testing"
	"testing/synctest"

	"google.golang.org/grpc/balancer"
	"google.golang.org/grpc/internal/verifkit/fakecc"
	"google.golang.org/grpc/internal/verifkit/vk"
	"google.golang.org/grpc/resolver"
	"pgregory.net/rapid"
)

// kinds of in-flight calls
const (
	ckNewSCPost = iota // NewSubConn, held after the parent created the SubConn
	ckNewSCPre         // NewSubConn, held before the parent creates the SubConn
	ckUpdateAddresses
	ckResolveNow
	ckConnect
	ckShutdown
)

var ckNames = []string{"NewSubConn(held after creation)", "NewSubConn(held before creation)", "UpdateAddresses", "ResolveNow", "SubConn.Connect", "SubConn.Shutdown"}

const maxHeld = 3

type heldCall struct {
	mc      *mChild
	ck      int
	fk      fakecc.Kind
	target  *fakecc.SubConn // SubConn the call operates on (UpdateAddresses/Connect/Shutdown)
	release chan struct{}
	done    chan struct{}

	// written by the child's goroutine under flight.mu
	reached bool            // the call is (was) blocked at the parent's gate
	created *fakecc.SubConn // NewSubConn: what the parent created for this call
	rsc     balancer.SubConn
	err     error

	closedBySwitch bool // the child was closed by a swap/replacement while the call was held
}

type inflightStats struct {
	asyncCalls, asyncReached, asyncRejectedEarly                 int
	closedBySwitchWhileHeld, closedBySwitchWhileHeldNewSC        int
	closedByGSBCloseWhileHeld                                    int
	releasedLive, releasedClosed, lateRejects, lateShutdownGiven int
	reportsClosedWhileHeld                                       int
	heldAtEnd                                                    int
}

func (m *model) noteClosedWhileHeld(mc *mChild, bySwitch bool) {
	for _, h := range m.held {
		if h.mc != mc || !h.reached {
			continue
		}
		if bySwitch {
			h.closedBySwitch = true
			m.closedBySwitchWhileHeld++
			if h.fk == fakecc.KNewSubConn {
				m.closedBySwitchWhileHeldNewSC++
			}
		} else {
			m.closedByGSBCloseWhileHeld++
		}
	}
}

func (m *model) inflightClasses() []string {
	var out []string
	add := func(n int, s string) {
		if n > 0 {
			out = append(out, s)
		}
	}
	add(m.asyncCalls, "inflight_call_started")
	add(m.asyncReached, "inflight_call_held_in_parent")
	add(m.asyncRejectedEarly, "async_call_of_closed_child_never_reached_parent")
	add(m.closedBySwitchWhileHeld, "child_closed_during_inflight_call")
	add(m.closedBySwitchWhileHeldNewSC, "child_closed_during_inflight_newsubconn")
	add(m.closedByGSBCloseWhileHeld, "gsb_closed_during_inflight_call")
	add(m.releasedLive, "inflight_call_returned_to_live_child")
	add(m.releasedClosed, "inflight_call_returned_to_closed_child")
	add(m.lateRejects, "inflight_newsubconn_of_closed_child_rejected_late")
	add(m.lateShutdownGiven, "inflight_newsubconn_of_closed_child_returned_shutdown_subconn")
	add(m.reportsClosedWhileHeld, "report_from_closed_child_with_inflight_call")
	add(m.heldAtEnd, "inflight_call_held_across_final_close")
	return out
}

// flight runs the in-flight calls of one case.
type flight struct {
	m  *model
	cc *fakecc.CC

	mu     sync.Mutex
	active *heldCall // the held call whose goroutine the driver is letting run right now
}

func newFlight(m *model, cc *fakecc.CC) *flight {
	f := &flight{m: m, cc: cc}
	cc.Gate = f.gate
	return f
}

// gate is the parent's hook. Only the goroutine of the call the driver just
// started or released runs between arming (f.active) and the driver's next
// synctest.Wait(), so a matching call is that goroutine's call; everything
// else (serial calls, the close goroutine's Shutdowns) passes straight through.
func (f *flight) gate(k fakecc.Kind, sc *fakecc.SubConn, post bool) {
	f.mu.Lock()
	h := f.active
	if h == nil || h.fk != k {
		f.mu.Unlock()
		return
	}
	if k == fakecc.KNewSubConn {
		if post && h.created == nil {
			h.created = sc
			h.mc.created = append(h.mc.created, sc)
		}
		if h.reached || post != (h.ck == ckNewSCPost) {
			f.mu.Unlock()
			return
		}
	} else if h.reached || (h.target != nil && sc != h.target) {
		f.mu.Unlock()
		return
	}
	h.reached = true
	f.mu.Unlock()
	<-h.release
}

func (f *flight) arm(h *heldCall) {
	f.mu.Lock()
	f.active = h
	f.mu.Unlock()
}

func isDone(h *heldCall) bool {
	select {
	case <-h.done:
		return true
	default:
		return false
	}
}

func (m *model) selectAsyncChild(a int) *mChild {
	if len(m.all) == 0 {
		return nil
	}
	switch {
	case a < 45 && m.current != nil && m.pending != nil:
		return m.current
	case a < 88 && m.pending != nil:
		return m.pending
	case a < 88 && m.current != nil:
		return m.current
	}
	return m.all[a%len(m.all)]
}

// start launches the call on the child's own goroutine and lets it run until
// it is blocked at the parent's gate (or has returned without reaching it).
func (f *flight) start(o op, addr, desc string) string {
	m := f.m
	if len(m.held) >= maxHeld {
		return ""
	}
	mc := m.selectAsyncChild(o.A)
	if mc == nil {
		return ""
	}
	ck := o.B
	if ck < 0 || ck > ckShutdown {
		ck = ckNewSCPost
	}
	h := &heldCall{mc: mc, ck: ck, release: make(chan struct{}), done: make(chan struct{})}
	if ck == ckUpdateAddresses || ck == ckConnect || ck == ckShutdown {
		if len(mc.scs) == 0 {
			h.ck = ckNewSCPost
		} else {
			h.target = mc.scs[o.C%len(mc.scs)]
		}
	}
	h.fk = [...]fakecc.Kind{fakecc.KNewSubConn, fakecc.KNewSubConn, fakecc.KUpdateAddresses, fakecc.KResolveNow, fakecc.KConnect, fakecc.KShutdown}[h.ck]
	liveAtStart := !m.closed && mc.role != roleGone
	nSC := len(f.cc.SubConns())
	m.asyncCalls++
	f.arm(h)
	go func() {
		defer close(h.done)
		switch h.ck {
		case ckNewSCPost, ckNewSCPre:
			sc, err := mc.c.NewSubConn(resolver.Address{Addr: addr})
			f.mu.Lock()
			h.rsc, h.err = sc, err
			f.mu.Unlock()
		case ckUpdateAddresses:
			mc.c.CC.UpdateAddresses(h.target, []resolver.Address{{Addr: addr}})
		case ckResolveNow:
			mc.c.CC.ResolveNow(resolver.ResolveNowOptions{})
		case ckConnect:
			h.target.Connect()
		case ckShutdown:
			h.target.Shutdown()
		}
	}()
	synctest.Wait()
	f.arm(nil)
	if h.reached {
		m.asyncReached++
		m.held = append(m.held, h)
		return ""
	}
	// The call did not reach the parent's gate: then it must be over, and it
	// is judged like a serial call.
	if !isDone(h) {
		return fmt.Sprintf("%s: %s started by %v neither reached the parent ClientConn nor returned", desc, ckNames[h.ck], mc.c)
	}
	if h.fk != fakecc.KNewSubConn {
		return "" // filtered by the wrapper (closed / not the latest child): nothing the statement speaks about
	}
	if liveAtStart {
		return fmt.Sprintf("%s: NewSubConn by live %v (role %d) returned (%v, %v) without reaching the parent ClientConn", desc, mc.c, mc.role, h.rsc, h.err)
	}
	m.asyncRejectedEarly++
	if h.err == nil {
		return fmt.Sprintf("%s: NewSubConn by superseded/closed %v returned (%v, nil)", desc, mc.c, h.rsc)
	}
	for _, s := range f.cc.SubConns()[nSC:] {
		if !s.ShutdownCalled() {
			return fmt.Sprintf("%s: rejected NewSubConn of superseded/closed %v leaked %v", desc, mc.c, s)
		}
	}
	return ""
}

// release lets a held call return to the child and judges the outcome by the
// child's role at that moment.
func (f *flight) release(h *heldCall, desc string) string {
	m := f.m
	for i, x := range m.held {
		if x == h {
			m.held = append(m.held[:i:i], m.held[i+1:]...)
			break
		}
	}
	mc := h.mc
	live := !m.closed && mc.role != roleGone
	f.arm(h)
	close(h.release)
	synctest.Wait()
	f.arm(nil)
	what := fmt.Sprintf("%s: in-flight %s by %v (role %d, live=%v, closed by a switch while held=%v)", desc, ckNames[h.ck], mc.c, mc.role, live, h.closedBySwitch)
	if !isDone(h) {
		return what + " did not return after the parent ClientConn returned"
	}
	if live {
		m.releasedLive++
	} else {
		m.releasedClosed++
	}
	if h.fk != fakecc.KNewSubConn {
		return ""
	}
	if live {
		// exactly like the serial call
		if h.err != nil {
			return fmt.Sprintf("%s failed: %v", what, h.err)
		}
		fsc, ok := h.rsc.(*fakecc.SubConn)
		if !ok {
			return fmt.Sprintf("%s returned %T", what, h.rsc)
		}
		if fsc.ShutdownCalled() {
			return fmt.Sprintf("%s returned %v, which has been shut down", what, fsc)
		}
		mc.scs = append(mc.scs, fsc)
		fsc.Connect()
		return ""
	}
	// The child was closed by the time the call returned.
	handedOut := false
	if h.err == nil {
		fsc, ok := h.rsc.(*fakecc.SubConn)
		if !ok {
			return fmt.Sprintf("%s returned %T", what, h.rsc)
		}
		if !fsc.ShutdownCalled() {
			return fmt.Sprintf("%s returned live %v with a nil error: the closed policy holds a SubConn that was not shut down", what, fsc)
		}
		m.lateShutdownGiven++
		mc.scs = append(mc.scs, fsc)
		handedOut = true
	} else {
		m.lateRejects++
	}
	if c := h.created; c != nil {
		mc.orphans = append(mc.orphans, c)
		if !c.ShutdownCalled() {
			return fmt.Sprintf("%s: %v created for it was not shut down (leak)", what, c)
		}
		if n := c.Shutdowns(); n != 1 && !handedOut {
			return fmt.Sprintf("%s: %v created for it was shut down %d times, want exactly once", what, c, n)
		}
	}
	return ""
}

// releaseAll releases everything still held (end of the case). It always
// releases every call (goroutines must end) and returns the first complaint.
func (f *flight) releaseAll(desc string) string {
	first := ""
	for len(f.m.held) > 0 {
		f.m.heldAtEnd++
		if v := f.release(f.m.held[0], desc); v != "" && first == "" {
			first = v
		}
	}
	return first
}

func genInflightPlan(rt *rapid.T) plan {
	n := 1 + fakecc.Uniform(rt, "n", vk.Pick(20, 150))
	if n < 12 && fakecc.Uniform(rt, "short", 8) > 0 {
		n = 12 + n%9
	}
	p := plan{ReleaseFirst: fakecc.Uniform(rt, "releaseFirst", 2) == 1}
	kinds := []int{opReport, opSwitch, opAsync, opRelease, opReportHeld, opDeliver, opNewSC, opUpdate, opShutSC, opResolverError, opExitIdle, opClose}
	for i := 0; i < n; i++ {
		k := kinds[fakecc.Weighted(rt, "kind", 34, 24, 14, 8, 5, 5, 3, 2, 1, 1, 1, 2)]
		o := op{K: k}
		switch k {
		case opSwitch:
			o.A = fakecc.Uniform(rt, "name", 4)
			o.B = []int{-1, -1, -1, 0, 1, 2, 3}[fakecc.Uniform(rt, "inline", 7)]
			o.C = fakecc.Uniform(rt, "viaCfg", 2)
		case opUpdate:
			o.B = []int{-1, -1, 0, 1, 2, 3}[fakecc.Uniform(rt, "inline", 6)]
		case opReport:
			o.A = fakecc.Uniform(rt, "child", 100)
			o.B = fakecc.Uniform(rt, "state", 100)
		case opNewSC:
			o.A = fakecc.Uniform(rt, "child", 100)
		case opShutSC:
			o.A = fakecc.Uniform(rt, "child", 100)
			o.B = fakecc.Uniform(rt, "sc", 8)
		case opDeliver:
			o.A = fakecc.Uniform(rt, "sc", 16)
			o.B = fakecc.Uniform(rt, "ev", 4)
		case opAsync:
			o.A = fakecc.Uniform(rt, "child", 100)
			o.B = []int{ckNewSCPost, ckNewSCPre, ckUpdateAddresses, ckResolveNow, ckConnect, ckShutdown}[fakecc.Weighted(rt, "call", 46, 26, 8, 6, 7, 7)]
			o.C = fakecc.Uniform(rt, "sc", 8)
		case opRelease:
			o.A = fakecc.Uniform(rt, "held", maxHeld)
		case opReportHeld:
			o.A = fakecc.Uniform(rt, "held", maxHeld)
			o.B = fakecc.Uniform(rt, "state", 100)
		}
		p.Ops = append(p.Ops, o)
	}
	return p
}

func TestVerifC33Inflight(t *testing.T) {
	vk.Check(t, vk.Unit[plan]{
		ID: "C33", Name: "inflight",
		Rule: "op lists as in unit switch plus in-flight child->parent calls: a stub child starts a parent-facing call on its own goroutine (14% of ops: NewSubConn held after 46% / before 26% the parent created the SubConn, UpdateAddresses 8%, ResolveNow 6%, SubConn.Connect 7% / Shutdown 7%; issuing child: the current one 45% when a pending exists, else the latest 43%, any incl. closed 12%; at most 3 held at once), the fake parent ClientConn holds the call open at a gate while further ops run (switches, reports that swap the child out, Close, ...), release ops (8%) let the k-th held call return, reports by a child with a held call (5%); calls still held at the end are released before/after the final gsb.Close (coin). non-trivial = a child was closed by a swap or by replacement of the pending while one of its parent-facing calls was held open inside the parent (class child_closed_during_inflight_call)",
		Gen:  genInflightPlan,
		Run:  func(t *testing.T, p plan) vk.Result { return runMode(t, p, true) },
	})
}
