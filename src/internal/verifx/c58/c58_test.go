package c58_test

// C58: security-requiring per-RPC credentials never go over weak connections.
//
// Real ClientConn + real Server over bufconn in a synctest bubble. Transport
// credentials: insecure, local (connection address forged as TCP loopback /
// unix socket), TLS (repo testdata certificates), custom credentials reporting
// each SecurityLevel and one whose AuthInfo has no CommonAuthInfo. Per-RPC
// credentials at dial level (DialOption or credentials.Bundle) and call level,
// each requiring transport security or not. The server records the headers of
// every stream that reaches it (InTapHandle).

import (
	"context"
	"crypto/tls"
	"crypto/x509"
	"fmt"
	"io"
	"net"
	"os"
	"path/filepath"
	"sort"
	"strings"
	"sync"
	"testing"
	"testing/synctest"
	"time"

	"google.golang.org/grpc"
	"google.golang.org/grpc/codes"
	"google.golang.org/grpc/credentials"
	"google.golang.org/grpc/credentials/insecure"
	"google.golang.org/grpc/credentials/local"
	"google.golang.org/grpc/internal/verifkit/e2elife"
	"google.golang.org/grpc/internal/verifkit/vk"
	"google.golang.org/grpc/metadata"
	"google.golang.org/grpc/tap"
	"pgregory.net/rapid"
)

type credSpec struct {
	Present bool   `json:"present"`
	Require bool   `json:"require,omitempty"`
	Val     string `json:"val,omitempty"` // metadata value (printable ASCII)
	Bin     []byte `json:"bin,omitempty"` // value of an additional "-bin" entry (nil = none)
}

type rpcSpec struct {
	Call  credSpec `json:"call"`
	Unary bool     `json:"unary,omitempty"`
}

type plan struct {
	Transport string    `json:"transport"` // insecure | local_tcp | local_uds | tls | custom_invalid | custom_none | custom_integrity | custom_privacy | custom_nocommon
	Dial      credSpec  `json:"dial"`
	DialVia   string    `json:"dial_via,omitempty"` // option | bundle
	RPCs      []rpcSpec `json:"rpcs"`
}

var transports = []string{"insecure", "local_tcp", "local_uds", "tls", "custom_invalid", "custom_none", "custom_integrity", "custom_privacy", "custom_nocommon"}

// knownWeak is the reference (DESIGN §5 reading of C58): the negotiated level
// is known and below PrivacyAndIntegrity.
func knownWeak(tr string) bool {
	switch tr {
	case "insecure", "local_tcp", "custom_none", "custom_integrity":
		return true
	}
	return false
}

func genCred(rt *rapid.T, label string) credSpec {
	c := credSpec{Present: rapid.IntRange(0, 3).Draw(rt, label+"_present") > 0}
	if !c.Present {
		return c
	}
	c.Require = rapid.Bool().Draw(rt, label+"_require")
	c.Val = rapid.StringOfN(rapid.RuneFrom(printableASCII), 0, 12, -1).Draw(rt, label+"_val")
	if rapid.IntRange(0, 2).Draw(rt, label+"_hasbin") == 0 {
		c.Bin = rapid.SliceOfN(rapid.Byte(), 0, 8).Draw(rt, label+"_bin")
		if c.Bin == nil {
			c.Bin = []byte{}
		}
	}
	return c
}

func genPlan(rt *rapid.T) plan {
	p := plan{Transport: rapid.SampledFrom(transports).Draw(rt, "transport")}
	p.Dial = genCred(rt, "dial")
	p.DialVia = rapid.SampledFrom([]string{"option", "option", "bundle"}).Draw(rt, "dial_via")
	for i, n := 0, rapid.IntRange(1, 4).Draw(rt, "nrpcs"); i < n; i++ {
		p.RPCs = append(p.RPCs, rpcSpec{Call: genCred(rt, "call"), Unary: rapid.Bool().Draw(rt, "unary")})
	}
	return p
}

// ---------------------------------------------------------------------------
// credentials

type perRPC struct {
	spec  credSpec
	where string // dial | call
}

func (c perRPC) keys() (string, string) {
	sec := "open"
	if c.spec.Require {
		sec = "sec"
	}
	return "vf-" + sec + "-" + c.where, "vf-" + sec + "-" + c.where + "-bin"
}

func (c perRPC) GetRequestMetadata(context.Context, ...string) (map[string]string, error) {
	k, kb := c.keys()
	m := map[string]string{k: c.spec.Val}
	if c.spec.Bin != nil {
		m[kb] = string(c.spec.Bin)
	}
	return m, nil
}
func (c perRPC) RequireTransportSecurity() bool { return c.spec.Require }

type commonInfo struct{ credentials.CommonAuthInfo }

func (commonInfo) AuthType() string { return "vfcustom" }

type bareInfo struct{}

func (bareInfo) AuthType() string { return "vfcustom-bare" }

type customTC struct {
	level    credentials.SecurityLevel
	noCommon bool
}

func (c customTC) ai() credentials.AuthInfo {
	if c.noCommon {
		return bareInfo{}
	}
	return commonInfo{credentials.CommonAuthInfo{SecurityLevel: c.level}}
}
func (c customTC) ClientHandshake(_ context.Context, _ string, conn net.Conn) (net.Conn, credentials.AuthInfo, error) {
	return conn, c.ai(), nil
}
func (c customTC) ServerHandshake(conn net.Conn) (net.Conn, credentials.AuthInfo, error) {
	return conn, c.ai(), nil
}
func (c customTC) Info() credentials.ProtocolInfo {
	return credentials.ProtocolInfo{SecurityProtocol: "vfcustom"}
}
func (c customTC) Clone() credentials.TransportCredentials { return c }
func (c customTC) OverrideServerName(string) error         { return nil }

type bundle struct {
	tc credentials.TransportCredentials
	pr credentials.PerRPCCredentials
}

func (b bundle) TransportCredentials() credentials.TransportCredentials { return b.tc }
func (b bundle) PerRPCCredentials() credentials.PerRPCCredentials       { return b.pr }
func (b bundle) NewWithMode(string) (credentials.Bundle, error)         { return b, nil }

type fakeAddr struct{ network, s string }

func (a fakeAddr) Network() string { return a.network }
func (a fakeAddr) String() string  { return a.s }

type addrConn struct {
	net.Conn
	remote net.Addr
}

func (c addrConn) RemoteAddr() net.Addr { return c.remote }

type addrListener struct {
	net.Listener
	remote net.Addr
}

func (l addrListener) Accept() (net.Conn, error) {
	c, err := l.Listener.Accept()
	if err != nil {
		return nil, err
	}
	return addrConn{c, l.remote}, nil
}

var certTime = time.Date(2026, 1, 1, 0, 0, 0, 0, time.UTC)

func repoFile(rel string) string {
	root := os.Getenv("VERIF_REPO")
	if root == "" {
		root = "/repo"
	}
	return filepath.Join(root, rel)
}

func tlsCreds() (client, server credentials.TransportCredentials, err error) {
	cert, err := tls.LoadX509KeyPair(repoFile("testdata/x509/server1_cert.pem"), repoFile("testdata/x509/server1_key.pem"))
	if err != nil {
		return nil, nil, err
	}
	ca, err := os.ReadFile(repoFile("testdata/x509/server_ca_cert.pem"))
	if err != nil {
		return nil, nil, err
	}
	pool := x509.NewCertPool()
	if !pool.AppendCertsFromPEM(ca) {
		return nil, nil, fmt.Errorf("no CA certificate")
	}
	now := func() time.Time { return certTime } // the bubble's clock starts in the year 2000
	server = credentials.NewTLS(&tls.Config{Certificates: []tls.Certificate{cert}, Time: now})
	client = credentials.NewTLS(&tls.Config{RootCAs: pool, ServerName: "x.test.example.com", Time: now})
	return client, server, nil
}

func transportCreds(tr string) (client, server credentials.TransportCredentials, remote net.Addr, err error) {
	switch tr {
	case "insecure":
		return insecure.NewCredentials(), insecure.NewCredentials(), nil, nil
	case "local_tcp":
		return local.NewCredentials(), local.NewCredentials(), fakeAddr{"tcp", "127.0.0.1:4711"}, nil
	case "local_uds":
		return local.NewCredentials(), local.NewCredentials(), fakeAddr{"unix", "/tmp/vf.sock"}, nil
	case "tls":
		c, s, err := tlsCreds()
		return c, s, nil, err
	case "custom_invalid":
		return customTC{level: credentials.InvalidSecurityLevel}, customTC{level: credentials.InvalidSecurityLevel}, nil, nil
	case "custom_none":
		return customTC{level: credentials.NoSecurity}, customTC{level: credentials.NoSecurity}, nil, nil
	case "custom_integrity":
		return customTC{level: credentials.IntegrityOnly}, customTC{level: credentials.IntegrityOnly}, nil, nil
	case "custom_privacy":
		return customTC{level: credentials.PrivacyAndIntegrity}, customTC{level: credentials.PrivacyAndIntegrity}, nil, nil
	case "custom_nocommon":
		return customTC{noCommon: true}, customTC{noCommon: true}, nil, nil
	}
	return nil, nil, nil, fmt.Errorf("unknown transport %q", tr)
}

// ---------------------------------------------------------------------------

func handler(ss grpc.ServerStream) error {
	for {
		var b []byte
		if err := ss.RecvMsg(&b); err != nil {
			break
		}
	}
	out := []byte{9}
	return ss.SendMsg(&out)
}

type seen struct {
	mu   sync.Mutex
	hdrs []metadata.MD
}

func run(t *testing.T, p plan) vk.Result {
	var res vk.Result
	msg := vk.Bubble(t, func(t *testing.T) { res = runInBubble(p) })
	if msg != "" && res.Violation == "" {
		return vk.Bad("bubble did not drain: %s", msg).With(res.Classes...)
	}
	return res
}

func expectMD(c perRPC) map[string]string {
	m, _ := c.GetRequestMetadata(context.Background())
	return m
}

func runInBubble(p plan) vk.Result {
	weak := knownWeak(p.Transport)
	classes := []string{"tr_" + p.Transport}
	cliTC, srvTC, remote, err := transportCreds(p.Transport)
	if err != nil {
		return vk.Result{Violation: "VERIF-HARNESS creds: " + err.Error()}
	}
	sn := &seen{}
	tapFn := func(ctx context.Context, info *tap.Info) (context.Context, error) {
		sn.mu.Lock()
		sn.hdrs = append(sn.hdrs, info.Header.Copy())
		sn.mu.Unlock()
		return ctx, nil
	}
	// server (own Serve call: the listener may have to forge the peer address)
	srv := grpc.NewServer(grpc.ForceServerCodec(e2elife.RawCodec{}), grpc.Creds(srvTC), grpc.InTapHandle(tapFn))
	srv.RegisterService(e2elife.ServiceDesc(handler), nil)
	es := e2elife.NewListener()
	var lis net.Listener = es
	if remote != nil {
		lis = addrListener{es, remote}
	}
	go srv.Serve(lis)
	dialer := func(ctx context.Context, _ string) (net.Conn, error) {
		c, err := es.DialContext(ctx)
		if err != nil || remote == nil {
			return c, err
		}
		return addrConn{c, remote}, nil
	}
	dopts := []grpc.DialOption{grpc.WithContextDialer(dialer), grpc.WithDefaultCallOptions(grpc.ForceCodec(e2elife.RawCodec{}))}
	if p.Transport == "tls" {
		dopts = append(dopts, grpc.WithAuthority("x.test.example.com")) // a name the testdata server certificate is valid for
	}
	dialCred := perRPC{p.Dial, "dial"}
	switch {
	case p.Dial.Present && p.DialVia == "bundle":
		dopts = append(dopts, grpc.WithCredentialsBundle(bundle{cliTC, dialCred}))
		classes = append(classes, "dial_bundle")
	case p.Dial.Present:
		dopts = append(dopts, grpc.WithTransportCredentials(cliTC), grpc.WithPerRPCCredentials(dialCred))
		classes = append(classes, "dial_option")
	default:
		dopts = append(dopts, grpc.WithTransportCredentials(cliTC))
	}
	dialSec := p.Dial.Present && p.Dial.Require
	nontrivial := dialSec && weak
	finish := func(cc *grpc.ClientConn, v string) vk.Result {
		if cc != nil {
			cc.Close()
		}
		srv.Stop()
		es.Close()
		synctest.Wait()
		r := vk.Result{Violation: v, NonTrivial: nontrivial || v != "", Classes: classes, Steps: len(p.RPCs)}
		return r
	}
	cc, err := grpc.NewClient("passthrough:///"+e2elife.UniqueName("c58"), dopts...)
	if err != nil {
		// only legal for security-requiring dial credentials on a weak transport
		if !(dialSec && weak) {
			return finish(nil, fmt.Sprintf("NewClient failed although no security-requiring dial credential meets a weak transport: %v", err))
		}
		classes = append(classes, "newclient_rejected")
		return finish(nil, "")
	}
	if dialSec {
		classes = append(classes, "dial_requires")
	}

	for i, r := range p.RPCs {
		id := fmt.Sprintf("r%d", i)
		ctx, cancel := context.WithTimeout(e2elife.WithID(context.Background(), id), 3*time.Second)
		var opts []grpc.CallOption
		callCred := perRPC{r.Call, "call"}
		if r.Call.Present {
			opts = append(opts, grpc.PerRPCCredentials(callCred))
		}
		callSec := r.Call.Present && r.Call.Require
		if callSec && weak {
			nontrivial = true
			classes = append(classes, "call_requires_on_weak")
		}
		var rerr error
		done := false
		var mu sync.Mutex
		go func() {
			var err error
			if r.Unary {
				req, resp := []byte{1}, []byte{}
				err = cc.Invoke(ctx, e2elife.Method, &req, &resp, opts...)
			} else {
				var cs grpc.ClientStream
				cs, err = cc.NewStream(ctx, e2elife.BidiDesc, e2elife.Method, opts...)
				if err == nil {
					m := []byte{1}
					if e := cs.SendMsg(&m); e != nil && e != io.EOF {
						err = e
					} else {
						cs.CloseSend()
						for err == nil {
							var b []byte
							err = cs.RecvMsg(&b)
						}
						if err == io.EOF {
							err = nil
						}
					}
				}
			}
			mu.Lock()
			rerr, done = err, true
			mu.Unlock()
		}()
		synctest.Wait()
		mu.Lock()
		d, e := done, rerr
		mu.Unlock()
		cancel()
		if !d {
			return finish(cc, fmt.Sprintf("rpc %d has not completed at quiescence", i))
		}
		if e != nil {
			if m := e2elife.CheckRPCError(e); m != "" {
				return finish(cc, fmt.Sprintf("rpc %d: C24 harvest: %s", i, m))
			}
		}
		code, emsg := e2elife.StatusOf(e)
		// headers that reached the server for this rpc
		var mine []metadata.MD
		sn.mu.Lock()
		for _, h := range sn.hdrs {
			if v := h.Get(e2elife.IDKey); len(v) > 0 && v[0] == id {
				mine = append(mine, h)
			}
			// core safety: no security-requiring credential metadata on a known-weak connection
			if weak {
				for k := range h {
					if strings.HasPrefix(k, "vf-sec-") {
						sn.mu.Unlock()
						return finish(cc, fmt.Sprintf("security-requiring credential metadata %q reached the server over transport %s (known level below PrivacyAndIntegrity)", k, p.Transport))
					}
				}
			}
		}
		sn.mu.Unlock()
		mustFail := weak && (dialSec || callSec)
		if mustFail {
			if code == codes.OK {
				return finish(cc, fmt.Sprintf("rpc %d succeeded although a security-requiring credential (dial=%v call=%v) meets weak transport %s", i, dialSec, callSec, p.Transport))
			}
			if len(mine) > 0 {
				return finish(cc, fmt.Sprintf("rpc %d must fail before anything is written, but its headers reached the server (transport %s)", i, p.Transport))
			}
			classes = append(classes, "rejected_"+code.String())
			continue
		}
		if code != codes.OK {
			return finish(cc, fmt.Sprintf("rpc %d failed with (%v,%q) although the transport %s satisfies every credential (dial=%+v call=%+v)", i, code, emsg, p.Transport, p.Dial, r.Call))
		}
		if len(mine) != 1 {
			return finish(cc, fmt.Sprintf("rpc %d: %d header sets reached the server, want 1", i, len(mine)))
		}
		// delivered unchanged: exactly the expected credential entries
		want := map[string]string{}
		if p.Dial.Present {
			for k, v := range expectMD(dialCred) {
				want[k] = v
			}
		}
		if r.Call.Present {
			for k, v := range expectMD(callCred) {
				want[k] = v
			}
		}
		got := map[string][]string{}
		for k, v := range mine[0] {
			if strings.HasPrefix(k, "vf-sec-") || strings.HasPrefix(k, "vf-open-") {
				got[k] = v
			}
		}
		var keys []string
		for k := range want {
			keys = append(keys, k)
		}
		sort.Strings(keys)
		for _, k := range keys {
			if v := got[k]; len(v) != 1 || v[0] != want[k] {
				return finish(cc, fmt.Sprintf("rpc %d: credential metadata %q = %q at the server, want [%q] (transport %s)", i, k, v, want[k], p.Transport))
			}
		}
		if len(got) != len(want) {
			return finish(cc, fmt.Sprintf("rpc %d: server saw credential metadata %v, want exactly %v", i, got, want))
		}
		if len(want) > 0 {
			classes = append(classes, "delivered")
		}
		if (dialSec || callSec) && !weak {
			classes = append(classes, "requires_on_strong_delivered")
		}
	}
	return finish(cc, "")
}

var printableASCII = func() []rune {
	var r []rune
	for c := rune(0x20); c <= 0x7e; c++ {
		r = append(r, c)
	}
	return r
}()

func TestVerifC58Random(t *testing.T) {
	vk.Check(t, vk.Unit[plan]{
		ID: "C58", Name: "random",
		Rule: "transport credentials from 9 kinds (insecure, local/TCP-loopback, local/unix, TLS, custom with each of the 4 SecurityLevel values, custom without CommonAuthInfo) x dial-level per-RPC credential (absent / DialOption / Bundle; requiring or not) x 1-4 RPCs each with an optional call-level credential (requiring or not), unary or streaming, generated ASCII and -bin metadata values. non-trivial = a security-requiring credential meets a connection whose level is known and below PrivacyAndIntegrity",
		Gen:  genPlan, Run: run,
	})
}

func TestVerifC58Cross(t *testing.T) {
	var plans []plan
	creds := []credSpec{{}, {Present: true, Val: "open value"}, {Present: true, Require: true, Val: "secret value", Bin: []byte{0, 1, 254, 255}}}
	for _, tr := range transports {
		for _, via := range []string{"option", "bundle"} {
			for _, d := range creds {
				if !d.Present && via == "bundle" {
					continue
				}
				for _, c := range creds {
					plans = append(plans, plan{Transport: tr, Dial: d, DialVia: via, RPCs: []rpcSpec{{Call: c, Unary: true}, {}, {Call: c}}})
				}
			}
		}
	}
	vk.Enumerate(t, vk.Unit[plan]{
		ID: "C58", Name: "cross",
		Rule: "full cross product: 9 transports x dial credential {absent, non-requiring, requiring} x {DialOption, Bundle} x call credential {absent, non-requiring, requiring}; three RPCs each (unary with the call credential, plain, streaming with the call credential)",
		Run:  run,
	}, plans)
}
