package c24_test

// C24, unit `retry`: the error SHAPE of RPCs that are ended (or carried on) by
// the retry layer of the client (gRFC A6: stream.go shouldRetry / retryLocked /
// withRetry, the replay buffer, commit, server pushback, throttling, the
// backoff wait).
//
// A real grpc.ClientConn with a generated service config (retryPolicy, optional
// retryThrottling, optional method timeout) talks to scripted HTTP/2 servers
// (h2peer over vpipe, one peer per connection the channel dials). The script is
// per RPC and per attempt: what the server does (trailers-only status with any
// grpc-retry-pushback-ms value(s), headers / headers+message then a status,
// hang, RST_STREAM incl. REFUSED_STREAM, GOAWAY below the stream, connection
// kill), when (on HEADERS, after the n-th request message, on END_STREAM) and
// after which virtual delay. The application side is generated as well: RPC
// shape, messages with sizes around MaxRetryRPCBufferSize, Header() calls,
// wait-for-ready, deadline (context or service config) / cancel placed before,
// inside or after attempts and backoff waits, dial failures before the RPC.
//
// Oracle (the statement, nothing more): every non-nil error returned by Invoke,
// NewStream, SendMsg, RecvMsg, CloseSend and Header is a status error with one
// of the 16 non-OK codes (e2elife.CheckRPCError); io.EOF (the identical value)
// is accepted from SendMsg and RecvMsg only. Which code is never asserted.

import (
	"context"
	"encoding/binary"
	"errors"
	"fmt"
	"io"
	"math"
	"net"
	"strconv"
	"strings"
	"sync"
	"testing"
	"testing/synctest"
	"time"

	"golang.org/x/net/http2"
	"golang.org/x/net/http2/hpack"
	"google.golang.org/grpc"
	"google.golang.org/grpc/credentials/insecure"
	"google.golang.org/grpc/internal/verifkit/e2elife"
	"google.golang.org/grpc/internal/verifkit/h2peer"
	"google.golang.org/grpc/internal/verifkit/vk"
	"google.golang.org/grpc/internal/verifkit/vpipe"
	rrig "google.golang.org/grpc/internal/verifx/retryrig"
	"google.golang.org/grpc/status"
	"pgregory.net/rapid"
)

// ---- plan -------------------------------------------------------------------

// server trigger points
const (
	rtOnHdr = "hdr" // on the request HEADERS
	rtOnMsg = "msg" // once AfterN complete request messages have arrived (or END_STREAM)
	rtOnEnd = "end" // on the client's END_STREAM
)

// how the server ends an attempt
const (
	rtStatus = "status" // trailers (trailers-only when Pre == 0) with Code and Pushback
	rtHang   = "hang"   // never answers
	rtRefuse = "refuse" // RST_STREAM(REFUSED_STREAM)            (Pre == 0 only)
	rtRST    = "rst"    // RST_STREAM(Code as http2 error code)
	rtGoAway = "goaway" // GOAWAY with last-stream-id below this stream (Pre == 0 only)
	rtKill   = "kill"   // close the connection
)

type rtAttempt struct {
	When    string `json:"when"`
	AfterN  int    `json:"after_n,omitempty"`
	DelayNs int64  `json:"delay_ns,omitempty"`
	// Pre: 0 nothing, 1 response headers, 2 response headers + one message,
	// sent before End happens.
	Pre      int      `json:"pre,omitempty"`
	End      string   `json:"end"`
	Code     uint32   `json:"code,omitempty"`
	Pushback []string `json:"pushback,omitempty"` // grpc-retry-pushback-ms values in the trailers
}

type rtRPC struct {
	Shape  string       `json:"shape"` // unary (Invoke) | client | bidi | server (streams)
	Policy *rrig.Policy `json:"policy,omitempty"`
	WFR    bool         `json:"wfr,omitempty"`
	Msgs   []int        `json:"msgs"`
	// BufLimit: MaxRetryRPCBufferSize call option; 0 = default (256 KiB).
	BufLimit  int  `json:"buf_limit,omitempty"`
	CloseSend bool `json:"close_send,omitempty"`
	// HeaderAt: call Header() before the k-th SendMsg (k == len(Msgs): after
	// the sends, k == len(Msgs)+1: after CloseSend); -1 = never.
	HeaderAt int `json:"header_at"`
	// TimeoutNs: context deadline (0 = none); SCTimeoutNs: method config timeout (0 = none).
	TimeoutNs   int64 `json:"timeout_ns,omitempty"`
	SCTimeoutNs int64 `json:"sc_timeout_ns,omitempty"`
	// CancelAtNs > 0: cancel the context that long after the RPC started.
	CancelAtNs int64 `json:"cancel_at_ns,omitempty"`
	// CancelAfterAttempt >= 0: cancel CancelOffsetNs after the server acted on
	// that attempt (0-based) of this RPC.
	CancelAfterAttempt int   `json:"cancel_after_attempt"`
	CancelOffsetNs     int64 `json:"cancel_offset_ns,omitempty"`
	// DialFails > 0: before the RPC all connections are closed and the next
	// DialFails dial attempts fail.
	DialFails int `json:"dial_fails,omitempty"`
	// PreCancel: the context is already cancelled when the RPC starts.
	PreCancel bool        `json:"pre_cancel,omitempty"`
	Script    []rtAttempt `json:"script"`
	// Settle: wait for quiescence between application operations.
	Settle bool `json:"settle"`
}

type rtPlan struct {
	Throttle        *rrig.Throttle `json:"throttle,omitempty"`
	MaxCallAttempts int            `json:"max_call_attempts,omitempty"`
	DisableRetry    bool           `json:"disable_retry,omitempty"`
	RPCs            []rtRPC        `json:"rpcs"`
}

const rtDefaultBuf = 256 << 10

// a safety cancel far beyond anything a plan schedules (virtual time)
const rtSafetyNs = int64(20000 * time.Hour)

func rtCap(p rtPlan) int {
	if p.MaxCallAttempts < 2 {
		return 5
	}
	return p.MaxCallAttempts
}

func rtMaxAtt(p rtPlan, r rtRPC) int {
	if r.Policy == nil || p.DisableRetry {
		return 1
	}
	return min(r.Policy.MaxAttempts, rtCap(p))
}

func rtMethod(i int) string { return "/vf.R/m" + strconv.Itoa(i) }

func rtServiceConfig(p rtPlan) string {
	var mcs []string
	for i, r := range p.RPCs {
		if r.Policy == nil && r.SCTimeoutNs == 0 {
			continue
		}
		mc := fmt.Sprintf(`{"name":[{"service":"vf.R","method":"m%d"}]`, i)
		if r.SCTimeoutNs > 0 {
			mc += fmt.Sprintf(`,"timeout":%q`, rrig.DurJSON(r.SCTimeoutNs))
		}
		if r.Policy != nil {
			var cs []string
			for _, c := range r.Policy.Codes {
				cs = append(cs, strconv.Itoa(int(c)))
			}
			mc += fmt.Sprintf(`,"retryPolicy":{"maxAttempts":%d,"initialBackoff":%q,"maxBackoff":%q,"backoffMultiplier":%s,"retryableStatusCodes":[%s]}`,
				r.Policy.MaxAttempts, rrig.DurJSON(r.Policy.InitialNs), rrig.DurJSON(r.Policy.MaxNs), strconv.FormatFloat(r.Policy.Mult, 'g', -1, 64), strings.Join(cs, ","))
		}
		mcs = append(mcs, mc+"}")
	}
	sc := `{"methodConfig":[` + strings.Join(mcs, ",") + `]`
	if p.Throttle != nil {
		sc += fmt.Sprintf(`,"retryThrottling":{"maxTokens":%s,"tokenRatio":%s}`, p.Throttle.Max, p.Throttle.Ratio)
	}
	return sc + "}"
}

// rtNominal is the un-jittered policy backoff before retry number k+1 (k
// retries since the last pushback).
func rtNominal(pol *rrig.Policy, k int) int64 {
	v := float64(pol.InitialNs) * math.Pow(pol.Mult, float64(k))
	v = math.Min(v, float64(pol.MaxNs))
	if v > float64(int64(1)<<60) {
		return int64(1) << 60
	}
	return int64(v)
}

// rtPushbackKind: "" (no usable value: absent), "valid", "abort" (a single
// negative / unparsable value, or several values).
func rtPushbackKind(pb []string) (kind string, ms int64) {
	switch len(pb) {
	case 0:
		return "", 0
	case 1:
		// reference reading of gRFC A6: a non-negative decimal integer
		v, err := strconv.ParseInt(pb[0], 10, 64)
		if err != nil || v < 0 {
			return "abort", 0
		}
		return "valid", v
	}
	return "abort", 0
}

func rtInCodes(pol *rrig.Policy, c uint32) bool {
	if pol == nil {
		return false
	}
	for _, x := range pol.Codes {
		if x == c {
			return true
		}
	}
	return false
}

// ---- generator --------------------------------------------------------------

var rtCodeSets = [][]uint32{{14}, {14}, {14, 8}, {14, 1, 2, 13}, {4, 14}, {1, 14}, {10}, {1, 2, 3, 4, 5, 6, 7, 8, 9, 10, 11, 12, 13, 14, 15, 16}}
var rtBackoffLadder = []int64{1, 1000, int64(time.Millisecond), 50 * int64(time.Millisecond), int64(time.Second), int64(time.Minute), int64(time.Hour), 10 * int64(time.Hour)}
var rtDelays = []int64{0, 0, 0, 1, int64(time.Millisecond), int64(time.Second), int64(time.Minute)}
var rtValidPushback = []string{"0", "1", "50", "2000", "3600000", "9223372036855", "99999999999999"}
var rtAbortPushback = []string{"-1", "-50", "abc", "", "1.5", "5ms", " 5", "99999999999999999999", "0x10", "+-3"}

func rtGenPolicy(rt *rapid.T) *rrig.Policy {
	pol := &rrig.Policy{MaxAttempts: rapid.IntRange(2, 5).Draw(rt, "max_attempts")}
	pol.Codes = rapid.SampledFrom(rtCodeSets).Draw(rt, "codes")
	pol.InitialNs = rapid.SampledFrom(rtBackoffLadder).Draw(rt, "initial")
	if rapid.IntRange(0, 3).Draw(rt, "max_ge") > 0 {
		pol.MaxNs = pol.InitialNs * rapid.SampledFrom([]int64{1, 2, 10, 1000}).Draw(rt, "max_x")
	} else {
		pol.MaxNs = rapid.SampledFrom(rtBackoffLadder).Draw(rt, "max")
	}
	pol.Mult = rapid.SampledFrom([]float64{1, 2, 2, 1.5, 0.5, 10, 1000}).Draw(rt, "mult")
	return pol
}

func rtGenWhen(rt *rapid.T, a *rtAttempt, r *rtRPC) {
	a.When = rapid.SampledFrom([]string{rtOnHdr, rtOnHdr, rtOnEnd, rtOnEnd, rtOnMsg}).Draw(rt, "when")
	if a.When == rtOnEnd && !r.CloseSend {
		// the client never half-closes: the trigger would not be reached
		a.When = rtOnMsg
	}
	if a.When == rtOnMsg {
		a.AfterN = rapid.IntRange(0, len(r.Msgs)).Draw(rt, "after_n")
	}
	a.DelayNs = rapid.SampledFrom(rtDelays).Draw(rt, "delay")
}

// rtGenFail: an attempt that ends trailers-only with a retryable code.
func rtGenFail(rt *rapid.T, r *rtRPC) rtAttempt {
	a := rtAttempt{End: rtStatus}
	rtGenWhen(rt, &a, r)
	if r.Policy != nil {
		a.Code = r.Policy.Codes[rapid.IntRange(0, len(r.Policy.Codes)-1).Draw(rt, "code_idx")]
	} else {
		a.Code = 14
	}
	if rapid.IntRange(0, 5).Draw(rt, "with_pb") == 0 {
		a.Pushback = []string{rapid.SampledFrom(rtValidPushback[:4]).Draw(rt, "pb")}
	}
	return a
}

func rtGenAny(rt *rapid.T, r *rtRPC) rtAttempt {
	a := rtAttempt{}
	rtGenWhen(rt, &a, r)
	a.End = rapid.SampledFrom([]string{rtStatus, rtStatus, rtStatus, rtStatus, rtHang, rtRefuse, rtRST, rtGoAway, rtKill}).Draw(rt, "end")
	switch a.End {
	case rtStatus:
		a.Pre = rapid.SampledFrom([]int{0, 0, 0, 1, 2}).Draw(rt, "pre")
		if r.Policy != nil && rapid.IntRange(0, 2).Draw(rt, "code_in") > 0 {
			a.Code = r.Policy.Codes[rapid.IntRange(0, len(r.Policy.Codes)-1).Draw(rt, "code_idx")]
		} else {
			a.Code = uint32(rapid.IntRange(0, 16).Draw(rt, "code"))
		}
		switch rapid.IntRange(0, 7).Draw(rt, "pb_kind") {
		case 0, 1:
			a.Pushback = []string{rapid.SampledFrom(rtValidPushback).Draw(rt, "pb")}
		case 2:
			a.Pushback = []string{rapid.SampledFrom(rtAbortPushback).Draw(rt, "pb_bad")}
		case 3:
			a.Pushback = []string{strconv.Itoa(rapid.IntRange(0, 9).Draw(rt, "pb_a")), strconv.Itoa(rapid.IntRange(0, 9).Draw(rt, "pb_b"))}
		}
	case rtHang, rtKill:
		a.Pre = rapid.SampledFrom([]int{0, 0, 1, 2}).Draw(rt, "pre")
	case rtRST:
		a.Pre = rapid.SampledFrom([]int{0, 0, 1, 2}).Draw(rt, "pre")
		a.Code = rapid.SampledFrom([]uint32{uint32(http2.ErrCodeNo), uint32(http2.ErrCodeInternal), uint32(http2.ErrCodeCancel), uint32(http2.ErrCodeEnhanceYourCalm), uint32(http2.ErrCodeInadequateSecurity), uint32(http2.ErrCodeProtocol)}).Draw(rt, "rst_code")
	}
	return a
}

// rtTimeline returns the nominal (un-jittered, settled) time at which the
// server acts on attempt k when the attempts 0..k of the script are retried in
// turn, and the nominal wait that follows it.
func rtTimeline(r *rtRPC, k int) (actAt, wait int64) {
	t := int64(0)
	since := 0
	for i := 0; i <= k && i < len(r.Script); i++ {
		a := r.Script[i]
		t += a.DelayNs
		kind, ms := rtPushbackKind(a.Pushback)
		var w int64
		if kind == "valid" {
			if ms > math.MaxInt64/int64(time.Millisecond)/4 {
				ms = math.MaxInt64 / int64(time.Millisecond) / 4
			}
			w = ms * int64(time.Millisecond)
			since = 0
		} else if r.Policy != nil {
			w = rtNominal(r.Policy, since)
			since++
		}
		if i == k {
			return t, w
		}
		t += w
	}
	return t, 0
}

func rtGenRPC(rt *rapid.T, p *rtPlan, idx int) rtRPC {
	r := rtRPC{HeaderAt: -1, CancelAfterAttempt: -1}
	r.Shape = rapid.SampledFrom([]string{"unary", "unary", "unary", "client", "client", "bidi", "bidi", "bidi", "server"}).Draw(rt, "shape")
	if rapid.IntRange(0, 11).Draw(rt, "has_policy") > 0 {
		r.Policy = rtGenPolicy(rt)
	}
	r.WFR = rapid.IntRange(0, 3).Draw(rt, "wfr") == 0
	r.Settle = rapid.IntRange(0, 4).Draw(rt, "settle") > 0
	if rapid.IntRange(0, 9).Draw(rt, "small_buf") < 3 {
		r.BufLimit = rapid.SampledFrom([]int{1, 5, 6, 16, 64, 100, 300}).Draw(rt, "buf_limit")
	}
	nm := 1
	if r.Shape == "client" || r.Shape == "bidi" {
		nm = rapid.IntRange(0, 4).Draw(rt, "nmsgs")
		r.CloseSend = rapid.IntRange(0, 5).Draw(rt, "close_send") > 0
	} else {
		r.CloseSend = true
	}
	goal := rapid.SampledFrom([]string{
		"exhausted", "exhausted", "exhausted",
		"throttled", "throttled", "throttled",
		"abort", "abort", "abort",
		"overflow", "overflow", "overflow",
		"backoff_cancel", "backoff_cancel", "backoff_cancel",
		"backoff_deadline", "backoff_deadline", "backoff_deadline",
		"pushback_deadline", "pushback_deadline",
		"free", "free", "free", "free",
		"pick", "pick"}).Draw(rt, "goal")
	if goal == "throttled" && (p.Throttle == nil || idx == 0 && rapid.Bool().Draw(rt, "thr_alt")) {
		goal = "exhausted"
	}
	if goal != "free" && goal != "pick" && r.Policy == nil {
		r.Policy = rtGenPolicy(rt)
	}
	if goal == "overflow" {
		if r.BufLimit == 0 {
			r.BufLimit = rapid.SampledFrom([]int{1, 5, 6, 16, 64, 100, 300}).Draw(rt, "buf_limit2")
		}
		if nm == 0 {
			nm = 1
		}
	}
	// message sizes around the buffer limit (a message costs 5 + size bytes)
	cum := 0
	for j := 0; j < nm; j++ {
		var sz int
		if r.BufLimit > 0 {
			left := r.BufLimit - cum - 5
			sz = rapid.SampledFrom([]int{0, 0, 1, left, left, left + 1, left - 1, left / 2, left / 2, left / 4, r.BufLimit}).Draw(rt, "msg")
			if goal == "overflow" && j == nm-1 && cum+5+sz <= r.BufLimit {
				sz = left + rapid.IntRange(1, 3).Draw(rt, "over")
			}
		} else {
			sz = rapid.SampledFrom([]int{0, 1, 10, 100, 1000}).Draw(rt, "msg")
		}
		sz = max(0, min(sz, 3000))
		r.Msgs = append(r.Msgs, sz)
		cum += 5 + sz
	}
	if r.Shape != "unary" && rapid.IntRange(0, 6).Draw(rt, "header") == 0 {
		r.HeaderAt = rapid.IntRange(0, len(r.Msgs)+1).Draw(rt, "header_at")
	}
	maxAtt := rtMaxAtt(*p, r)
	nFailBefore := func() int { return rapid.IntRange(0, max(0, maxAtt-2)).Draw(rt, "fails_before") }
	switch goal {
	case "exhausted", "throttled":
		for i := 0; i < maxAtt; i++ {
			r.Script = append(r.Script, rtGenFail(rt, &r))
		}
	case "abort":
		for i, n := 0, nFailBefore(); i < n; i++ {
			r.Script = append(r.Script, rtGenFail(rt, &r))
		}
		a := rtGenFail(rt, &r)
		if rapid.IntRange(0, 3).Draw(rt, "pb_multi") == 0 {
			a.Pushback = []string{strconv.Itoa(rapid.IntRange(0, 9).Draw(rt, "pb_a")), strconv.Itoa(rapid.IntRange(0, 9).Draw(rt, "pb_b"))}
		} else {
			a.Pushback = []string{rapid.SampledFrom(rtAbortPushback).Draw(rt, "pb_bad")}
		}
		r.Script = append(r.Script, a)
	case "overflow":
		a := rtGenFail(rt, &r)
		if a.When == rtOnHdr && a.DelayNs == 0 {
			a.When = rtOnEnd
		}
		if a.When == rtOnMsg {
			a.AfterN = len(r.Msgs)
		}
		r.Script = append(r.Script, a)
	case "backoff_cancel", "backoff_deadline", "pushback_deadline":
		n := nFailBefore()
		for i := 0; i < n; i++ {
			r.Script = append(r.Script, rtGenFail(rt, &r))
		}
		a := rtGenFail(rt, &r)
		a.Pushback = nil
		if goal == "pushback_deadline" || rtNominal(r.Policy, n) < 1000 {
			a.Pushback = []string{rapid.SampledFrom(rtValidPushback[1:]).Draw(rt, "pb_wait")}
		}
		r.Script = append(r.Script, a)
		actAt, wait := rtTimeline(&r, n)
		// a point strictly inside the wait for every jitter value (0.8 .. 1.2)
		off := int64(float64(wait) * rapid.Float64Range(0.02, 0.75).Draw(rt, "frac"))
		if len(a.Pushback) > 0 && rapid.IntRange(0, 7).Draw(rt, "exact") == 0 {
			// a pushback wait is exact: the context ends at the very instant the
			// wait does
			off = wait
		}
		if goal == "backoff_cancel" {
			r.CancelAfterAttempt, r.CancelOffsetNs = n, off
		} else if rapid.IntRange(0, 4).Draw(rt, "via_sc") == 0 {
			r.SCTimeoutNs = max(1, actAt+off)
		} else {
			r.TimeoutNs = max(1, actAt+off)
		}
	case "pick":
		r.DialFails = rapid.IntRange(1, 3).Draw(rt, "dial_fails")
		r.WFR = rapid.IntRange(0, 4).Draw(rt, "wfr_pick") == 0
		for i, n := 0, rapid.IntRange(0, 2).Draw(rt, "nscript"); i < n; i++ {
			r.Script = append(r.Script, rtGenAny(rt, &r))
		}
	case "free":
		for i, n := 0, rapid.IntRange(0, 5).Draw(rt, "nscript"); i < n; i++ {
			if rapid.Bool().Draw(rt, "fail") {
				r.Script = append(r.Script, rtGenFail(rt, &r))
			} else {
				r.Script = append(r.Script, rtGenAny(rt, &r))
			}
		}
	}
	if goal != "free" && rapid.IntRange(0, 3).Draw(rt, "tail") == 0 {
		r.Script = append(r.Script, rtGenAny(rt, &r))
	}
	// a deadline / cancel for the goals that did not place one
	if r.TimeoutNs == 0 && r.SCTimeoutNs == 0 && r.CancelAfterAttempt < 0 {
		total, _ := rtTimeline(&r, len(r.Script))
		switch rapid.IntRange(0, 9).Draw(rt, "ctx_kind") {
		case 0, 1, 2, 3: // none
		case 4, 5: // comfortably after everything the script can take
			r.TimeoutNs = total + total/2 + int64(time.Hour)
		case 6: // anywhere
			r.TimeoutNs = max(1, int64(float64(total+int64(time.Second))*rapid.Float64Range(0, 1.5).Draw(rt, "ctx_frac")))
		case 7:
			r.SCTimeoutNs = max(1, int64(float64(total+int64(time.Second))*rapid.Float64Range(0, 1.5).Draw(rt, "ctx_frac")))
		case 8:
			r.CancelAtNs = max(1, int64(float64(total+int64(time.Second))*rapid.Float64Range(0, 1.5).Draw(rt, "ctx_frac")))
		case 9:
			if rapid.IntRange(0, 3).Draw(rt, "pre_cancel") == 0 {
				r.PreCancel = true
			} else {
				r.TimeoutNs = rapid.SampledFrom([]int64{1, 1000, int64(time.Millisecond), int64(time.Second)}).Draw(rt, "ctx_small")
			}
		}
	}
	return r
}

func rtGenPlan(rt *rapid.T) rtPlan {
	var p rtPlan
	p.MaxCallAttempts = rapid.SampledFrom([]int{0, 0, 0, 0, 2, 3, 7}).Draw(rt, "cap")
	p.DisableRetry = rapid.IntRange(0, 29).Draw(rt, "disable_retry") == 0
	if rapid.IntRange(0, 2).Draw(rt, "has_throttle") == 0 {
		p.Throttle = &rrig.Throttle{
			Max:   rapid.SampledFrom([]string{"1", "2", "2", "3", "4", "6", "10", "2.5"}).Draw(rt, "thr_max"),
			Ratio: rapid.SampledFrom([]string{"0.1", "0.5", "1", "2"}).Draw(rt, "thr_ratio"),
		}
	}
	n := rapid.IntRange(1, 3).Draw(rt, "nrpc")
	for i := 0; i < n; i++ {
		p.RPCs = append(p.RPCs, rtGenRPC(rt, &p, i))
	}
	return p
}

// ---- scripted server ----------------------------------------------------------

type rtLog struct {
	conn     int
	streamID uint32
	arrive   time.Time
	script   rtAttempt
	dflt     bool
	fired    bool // trigger reached
	acted    bool
	actT     time.Time
}

type rtServer struct {
	mu       sync.Mutex
	plan     rtPlan
	peers    []*h2peer.Peer
	dialFail int
	logs     map[int][]*rtLog
	byKey    map[[2]uint32]*rtLog
	rpcOf    map[[2]uint32]int
	stop     chan struct{}
	onAct    func(rpc, attempt int)
}

func (s *rtServer) dial(context.Context, string) (net.Conn, error) {
	s.mu.Lock()
	if s.dialFail > 0 {
		s.dialFail--
		s.mu.Unlock()
		return nil, fmt.Errorf("vf: scripted dial failure")
	}
	idx := len(s.peers)
	s.peers = append(s.peers, nil)
	s.mu.Unlock()
	c, sv := vpipe.New()
	var p *h2peer.Peer
	ready := make(chan struct{})
	p = h2peer.New(sv, h2peer.Config{Role: h2peer.ServerRole,
		Settings:       []http2.Setting{{ID: http2.SettingInitialWindowSize, Val: 1 << 24}},
		ConnWindowBump: 1 << 28,
		OnFrame: func(f *h2peer.Frame) {
			<-ready
			s.onFrame(idx, p, f)
		}})
	s.mu.Lock()
	s.peers[idx] = p
	s.mu.Unlock()
	close(ready)
	return c, nil
}

// killAll closes every connection (the peers' ends).
func (s *rtServer) killAll() {
	s.mu.Lock()
	peers := append([]*h2peer.Peer(nil), s.peers...)
	s.mu.Unlock()
	for _, p := range peers {
		if p != nil {
			p.Close()
		}
	}
}

func rtField(fs []hpack.HeaderField, name string) []string {
	var out []string
	for _, f := range fs {
		if f.Name == name {
			out = append(out, f.Value)
		}
	}
	return out
}

// rtCountMsgs: number of complete length-prefixed messages in b.
func rtCountMsgs(b []byte) int {
	n := 0
	for len(b) >= 5 {
		l := int(binary.BigEndian.Uint32(b[1:5]))
		if len(b) < 5+l {
			break
		}
		b = b[5+l:]
		n++
	}
	return n
}

func (s *rtServer) onFrame(conn int, p *h2peer.Peer, f *h2peer.Frame) {
	if f.Dir != h2peer.In || f.StreamID == 0 {
		return
	}
	key := [2]uint32{uint32(conn), f.StreamID}
	if f.Type == http2.FrameHeaders && f.BlockComplete && f.Fields != nil {
		path := rtField(f.Fields, ":path")
		if len(path) != 1 {
			return
		}
		var i int
		if _, err := fmt.Sscanf(path[0], "/vf.R/m%d", &i); err != nil || i < 0 || i >= len(s.plan.RPCs) {
			return
		}
		rpc := s.plan.RPCs[i]
		s.mu.Lock()
		if _, dup := s.byKey[key]; dup {
			s.mu.Unlock()
			return
		}
		a := len(s.logs[i])
		l := &rtLog{conn: conn, streamID: f.StreamID, arrive: time.Now()}
		if a < len(rpc.Script) {
			l.script = rpc.Script[a]
		} else {
			// default: one response and OK once the client is done
			l.dflt = true
			l.script = rtAttempt{When: rtOnEnd, Pre: 2, End: rtStatus}
			if !rpc.CloseSend {
				l.script.When, l.script.AfterN = rtOnMsg, len(rpc.Msgs)
			}
		}
		s.logs[i] = append(s.logs[i], l)
		s.byKey[key] = l
		s.rpcOf[key] = i
		s.mu.Unlock()
	}
	s.mu.Lock()
	l := s.byKey[key]
	i := s.rpcOf[key]
	s.mu.Unlock()
	if l == nil || (f.Type != http2.FrameHeaders && f.Type != http2.FrameData) {
		return
	}
	trig := false
	switch l.script.When {
	case rtOnHdr:
		trig = true
	case rtOnEnd:
		trig = f.EndStream()
	case rtOnMsg:
		trig = f.EndStream()
		if st, ok := p.Ledger().Stream(f.StreamID); ok && rtCountMsgs(st.InData) >= l.script.AfterN {
			trig = true
		}
	}
	if !trig {
		return
	}
	s.mu.Lock()
	if l.fired {
		s.mu.Unlock()
		return
	}
	l.fired = true
	att := 0
	for k, x := range s.logs[i] {
		if x == l {
			att = k
		}
	}
	s.mu.Unlock()
	if l.script.DelayNs <= 0 {
		s.act(p, l, i, att)
		return
	}
	go func() {
		t := time.NewTimer(time.Duration(l.script.DelayNs))
		defer t.Stop()
		select {
		case <-t.C:
			s.act(p, l, i, att)
		case <-s.stop:
		}
	}()
}

func rtFrame(b []byte) []byte {
	out := make([]byte, 5+len(b))
	binary.BigEndian.PutUint32(out[1:5], uint32(len(b)))
	copy(out[5:], b)
	return out
}

func (s *rtServer) act(p *h2peer.Peer, l *rtLog, rpc, att int) {
	id := l.streamID
	sc := l.script
	if st, ok := p.Ledger().Stream(id); ok && st.InRST {
		// the client has reset the stream meanwhile: a server would not answer
		return
	}
	if sc.End != rtHang || sc.Pre > 0 {
		s.mu.Lock()
		l.acted = true
		l.actT = time.Now()
		s.mu.Unlock()
	}
	if sc.Pre >= 1 {
		p.WriteHeaders(h2peer.Headers{StreamID: id, Fields: h2peer.ResponseHeaders(hpack.HeaderField{Name: "vf-h", Value: strconv.Itoa(att)})})
	}
	if sc.Pre >= 2 {
		p.WriteData(id, rtFrame([]byte(fmt.Sprintf("resp-%d-%d", rpc, att))), false, -1)
	}
	switch sc.End {
	case rtStatus:
		var extra []hpack.HeaderField
		for _, v := range sc.Pushback {
			extra = append(extra, hpack.HeaderField{Name: "grpc-retry-pushback-ms", Value: v})
		}
		msg := fmt.Sprintf("scripted %d/%d", rpc, att)
		if sc.Pre == 0 {
			p.WriteHeaders(h2peer.Headers{StreamID: id, Fields: h2peer.TrailersOnly(int(sc.Code), msg, extra...), EndStream: true})
		} else {
			p.WriteHeaders(h2peer.Headers{StreamID: id, Fields: h2peer.Trailers(int(sc.Code), msg, extra...), EndStream: true})
		}
	case rtHang:
	case rtRefuse:
		p.WriteRSTStream(id, http2.ErrCodeRefusedStream)
	case rtRST:
		p.WriteRSTStream(id, http2.ErrCode(sc.Code))
	case rtGoAway:
		last := uint32(0)
		if id >= 2 {
			last = id - 2
		}
		p.WriteGoAway(last, http2.ErrCodeNo, []byte("below"))
	case rtKill:
		p.Close()
	}
	s.mu.Lock()
	onAct := s.onAct
	s.mu.Unlock()
	if onAct != nil && sc.End != rtHang {
		onAct(rpc, att)
	}
}

// ---- execution --------------------------------------------------------------

type rtOp struct {
	op  string // invoke | newstream | header | send | closesend | recv | recv_again
	err error
	at  time.Time
}

type rtResult struct {
	start    time.Time
	ops      []rtOp
	sentOK   []int // sizes of the messages whose SendMsg returned nil
	final    error
	finalOp  string
	end      time.Time
	cancelAt time.Time // when the harness cancelled (zero: it did not)
	atts     []rtLog
}

func rtExec(p rtPlan) (results []*rtResult, rigErr string) {
	srv := &rtServer{plan: p, logs: map[int][]*rtLog{}, byKey: map[[2]uint32]*rtLog{}, rpcOf: map[[2]uint32]int{}, stop: make(chan struct{})}
	opts := []grpc.DialOption{
		grpc.WithTransportCredentials(insecure.NewCredentials()),
		grpc.WithContextDialer(srv.dial),
		grpc.WithDefaultServiceConfig(rtServiceConfig(p)),
		grpc.WithDisableServiceConfig(),
		grpc.WithIdleTimeout(0),
		grpc.WithDefaultCallOptions(grpc.ForceCodec(rrig.RawCodec())),
	}
	if p.MaxCallAttempts != 0 {
		opts = append(opts, grpc.WithMaxCallAttempts(p.MaxCallAttempts))
	}
	if p.DisableRetry {
		opts = append(opts, grpc.WithDisableRetry())
	}
	cc, err := grpc.NewClient("passthrough:///vf", opts...)
	if err != nil {
		return nil, "NewClient (service config " + rtServiceConfig(p) + "): " + err.Error()
	}
	for i, r := range p.RPCs {
		res := &rtResult{}
		results = append(results, res)
		if r.DialFails > 0 {
			srv.mu.Lock()
			srv.dialFail = r.DialFails
			srv.mu.Unlock()
			srv.killAll()
			synctest.Wait()
		}
		base, cancel := context.WithCancel(context.Background())
		ctx := base
		var cancelT context.CancelFunc = func() {}
		if r.TimeoutNs > 0 {
			ctx, cancelT = context.WithTimeout(base, time.Duration(r.TimeoutNs))
		}
		done := make(chan struct{})
		var cmu sync.Mutex
		fire := func() {
			cmu.Lock()
			if res.cancelAt.IsZero() {
				res.cancelAt = time.Now()
			}
			cmu.Unlock()
			cancel()
		}
		after := func(d int64) {
			go func() {
				t := time.NewTimer(time.Duration(d))
				defer t.Stop()
				select {
				case <-t.C:
					fire()
				case <-done:
				}
			}()
		}
		res.start = time.Now()
		if r.PreCancel {
			fire()
		}
		after(rtSafetyNs)
		if r.CancelAtNs > 0 {
			after(r.CancelAtNs)
		}
		srv.mu.Lock()
		if r.CancelAfterAttempt >= 0 {
			rpcIdx, want, off := i, r.CancelAfterAttempt, r.CancelOffsetNs
			srv.onAct = func(rpc, att int) {
				if rpc == rpcIdx && att == want {
					after(off)
				}
			}
		} else {
			srv.onAct = nil
		}
		srv.mu.Unlock()
		rtRunRPC(cc, ctx, i, r, res)
		close(done)
		cmu.Lock()
		ca := res.cancelAt
		cmu.Unlock()
		res.cancelAt = ca
		cancelT()
		cancel()
		synctest.Wait()
		srv.mu.Lock()
		srv.onAct = nil
		for _, l := range srv.logs[i] {
			res.atts = append(res.atts, *l)
		}
		srv.mu.Unlock()
	}
	cc.Close()
	close(srv.stop)
	srv.killAll()
	srv.mu.Lock()
	peers := append([]*h2peer.Peer(nil), srv.peers...)
	srv.mu.Unlock()
	for _, pr := range peers {
		if pr != nil {
			pr.Wait()
		}
	}
	synctest.Wait()
	return results, ""
}

func rtRunRPC(cc *grpc.ClientConn, ctx context.Context, i int, r rtRPC, res *rtResult) {
	rec := func(op string, err error) {
		res.ops = append(res.ops, rtOp{op, err, time.Now()})
	}
	fin := func(op string, err error) {
		res.final, res.finalOp, res.end = err, op, time.Now()
	}
	settle := func() {
		if r.Settle {
			synctest.Wait()
		}
	}
	var copts []grpc.CallOption
	if r.BufLimit > 0 {
		copts = append(copts, grpc.MaxRetryRPCBufferSize(r.BufLimit))
	}
	if r.WFR {
		copts = append(copts, grpc.WaitForReady(true))
	}
	if r.Shape == "unary" {
		req := rrig.Msg(i, 0, r.Msgs[0])
		var resp []byte
		err := cc.Invoke(ctx, rtMethod(i), &req, &resp, copts...)
		rec("invoke", err)
		fin("invoke", err)
		return
	}
	desc := &grpc.StreamDesc{ClientStreams: r.Shape != "server", ServerStreams: r.Shape != "client"}
	cs, err := cc.NewStream(ctx, desc, rtMethod(i), copts...)
	rec("newstream", err)
	if err != nil {
		fin("newstream", err)
		return
	}
	settle()
	header := func(k int) {
		if r.HeaderAt == k {
			_, err := cs.Header()
			rec("header", err)
			settle()
		}
	}
	sendFailed := false
	for j, sz := range r.Msgs {
		header(j)
		m := rrig.Msg(i, j, sz)
		err := cs.SendMsg(&m)
		rec("send", err)
		if err != nil {
			sendFailed = true
			if err != io.EOF {
				// "On error, SendMsg aborts the stream": the status was returned directly
				fin("send", err)
			}
			break
		}
		res.sentOK = append(res.sentOK, sz)
		settle()
	}
	if !sendFailed {
		header(len(r.Msgs))
		if r.CloseSend {
			rec("closesend", cs.CloseSend())
			settle()
			header(len(r.Msgs) + 1)
		}
	}
	for k := 0; k < 4; k++ {
		var resp []byte
		err := cs.RecvMsg(&resp)
		rec("recv", err)
		if err != nil {
			if res.finalOp == "" {
				fin("recv", err)
			}
			break
		}
		if r.Shape == "client" {
			// the stream wrapper has consumed the trailers: nil = completed OK
			if res.finalOp == "" {
				fin("recv", nil)
			}
			break
		}
	}
	if res.finalOp == "" {
		fin("recv", nil) // 4 responses without an end: only possible by a harness fault
	}
	// the stream has ended: what the APIs return from now on must still be
	// well-formed
	var sink []byte
	rec("recv_again", cs.RecvMsg(&sink))
	_ = cs.Trailer()
}

// ---- verdict ------------------------------------------------------------------

var rtReasons = map[string]bool{"exhausted": true, "throttled": true, "pushback_abort": true, "overflow_commit": true,
	"backoff_cancel": true, "backoff_deadline": true}

// rtClassify names why RPC i ended, from what the scripted server and the
// harness clock saw (measurement only; the verdict never depends on it).
func rtClassify(p rtPlan, i int, res *rtResult) (reason string, extra []string) {
	r := p.RPCs[i]
	if res.final == nil || res.final == io.EOF {
		if len(res.atts) > 1 {
			return "ok_after_retry", nil
		}
		return "ok", nil
	}
	deadline := int64(0)
	if r.TimeoutNs > 0 {
		deadline = r.TimeoutNs
	}
	if r.SCTimeoutNs > 0 && (deadline == 0 || r.SCTimeoutNs < deadline) {
		deadline = r.SCTimeoutNs
	}
	endNs := res.end.Sub(res.start).Nanoseconds()
	byCancel := !res.cancelAt.IsZero() && !res.cancelAt.After(res.end)
	byDeadline := deadline > 0 && endNs >= deadline
	ctxEnded := byCancel || byDeadline
	if len(res.atts) == 0 {
		if ctxEnded {
			return "no_attempt_ctx", nil
		}
		return "no_attempt", nil
	}
	L := res.atts[len(res.atts)-1]
	if !L.acted || L.actT.After(res.end) {
		if ctxEnded {
			return "ctx_in_attempt", nil
		}
		return "other", nil
	}
	sc := L.script
	if p.DisableRetry || !rtRetryableEnd(r, L, res) {
		return "not_retryable", nil
	}
	pbKind, _ := rtPushbackKind(sc.Pushback)
	if pbKind == "abort" {
		return "pushback_abort", nil
	}
	sum := 0
	for _, sz := range res.sentOK {
		sum += 5 + sz
	}
	if r.Shape == "unary" {
		sum = 5 + r.Msgs[0]
	}
	limit := r.BufLimit
	if limit == 0 {
		limit = rtDefaultBuf
	}
	if sum > limit {
		return "overflow_commit", nil
	}
	nonTransparent := len(res.atts)
	if f := res.atts[0].script; len(res.atts) > 1 && (f.End == rtRefuse || f.End == rtGoAway) {
		nonTransparent--
	}
	// attempts may have failed at the pick (channel in TRANSIENT_FAILURE after
	// dial failures of this or an earlier RPC), unseen by the server
	fuzzy := r.DialFails > 0 || res.atts[0].arrive.After(res.start)
	if nonTransparent >= rtMaxAtt(p, r) {
		return "exhausted", nil
	}
	if fuzzy && !ctxEnded {
		return "pick_exhausted_or_throttled", nil
	}
	if ctxEnded {
		if byCancel {
			return "backoff_cancel", nil
		}
		if pbKind == "valid" {
			extra = append(extra, "backoff_deadline_pushback")
		}
		return "backoff_deadline", extra
	}
	if p.Throttle != nil {
		return "throttled", nil
	}
	return "unexplained_no_retry", nil
}

func rtDescribe(p rtPlan, i int, res *rtResult) string {
	var b strings.Builder
	r := p.RPCs[i]
	fmt.Fprintf(&b, "rpc %d (%s, policy %+v, cap %d, throttle %v, buf %d, msgs %v, close %v, header@%d, wfr %v, dialfails %d, settle %v, timeout %d/%d, cancel %d/%d+%d fired@%v): ops", i, r.Shape, r.Policy, p.MaxCallAttempts, p.Throttle, r.BufLimit, r.Msgs, r.CloseSend, r.HeaderAt, r.WFR, r.DialFails, r.Settle, r.TimeoutNs, r.SCTimeoutNs, r.CancelAtNs, r.CancelAfterAttempt, r.CancelOffsetNs, res.cancelAt.Sub(res.start))
	for _, o := range res.ops {
		fmt.Fprintf(&b, " %s@%v=%v;", o.op, o.at.Sub(res.start), o.err)
	}
	b.WriteString(" attempts:")
	for k, a := range res.atts {
		fmt.Fprintf(&b, " [#%d conn%d s%d arrive=%v %+v acted=%v@%v]", k, a.conn, a.streamID, a.arrive.Sub(res.start), a.script, a.acted, a.actT.Sub(res.start))
	}
	return b.String()
}

// rtSigExhaustedEOF (genuine defect, notes/C24.md): the "max retries exhausted"
// decoration in shouldRetry wraps whatever error the failed operation returned;
// when that operation is a SendMsg whose transport write failed because the
// attempt had already ended, the error is io.EOF ("look at RecvMsg"), and the
// application gets a *fmt.wrapError around io.EOF: neither io.EOF nor a status.
const rtSigExhaustedEOF = "c24.exhausted_wraps_eof"

// rtWrapsSendEOF is the precise predicate of that shape: the error is not
// io.EOF itself but wraps it, it was returned by SendMsg / RecvMsg / Header of
// an RPC with an active retry policy, and the last attempt the server saw had
// ended without response headers and with a retryable code when the operation
// returned.
func rtWrapsSendEOF(p rtPlan, i int, res *rtResult, o rtOp) bool {
	if o.err == io.EOF || !errors.Is(o.err, io.EOF) {
		return false
	}
	if o.op != "send" && o.op != "recv" && o.op != "header" {
		return false
	}
	r := p.RPCs[i]
	if len(res.atts) == 0 || rtMaxAtt(p, r) < 2 {
		return false
	}
	L := res.atts[len(res.atts)-1]
	return L.acted && !L.actT.After(o.at) && rtRetryableEnd(r, L, res)
}

// rtRetryableEnd: the attempt ended without response headers (a trailers-only
// status, or a stream / connection failure before any header, which the
// client treats alike) with a code of the retry policy. For the non-status
// endings the code is the one the application observed from RecvMsg.
func rtRetryableEnd(r rtRPC, L rtLog, res *rtResult) bool {
	if L.script.Pre != 0 || L.script.End == rtHang {
		return false
	}
	if L.script.End == rtStatus {
		return rtInCodes(r.Policy, L.script.Code)
	}
	for k := len(res.ops) - 1; k >= 0; k-- {
		if o := res.ops[k]; (o.op == "recv" || o.op == "invoke") && o.err != nil && o.err != io.EOF {
			if st, ok := status.FromError(o.err); ok {
				return rtInCodes(r.Policy, uint32(st.Code()))
			}
		}
	}
	return false
}

func rtRun(t *testing.T, p rtPlan) vk.Result { return rtRunMode(t, p, false) }

// rtRunStrict reports the signed shape instead of stepping over it.
func rtRunStrict(t *testing.T, p rtPlan) vk.Result { return rtRunMode(t, p, true) }

func rtRunMode(t *testing.T, p rtPlan, strict bool) vk.Result {
	var results []*rtResult
	var rigErr string
	if msg := vk.Bubble(t, func(*testing.T) { results, rigErr = rtExec(p) }); msg != "" {
		return vk.Bad("rig did not drain: %s", msg)
	}
	if rigErr != "" {
		return vk.Bad("VERIF-HARNESS rig failure: %s", rigErr)
	}
	classes := map[string]bool{}
	out := vk.Result{}
	for i, res := range results {
		r := p.RPCs[i]
		out.Steps += len(res.ops)
		for _, o := range res.ops {
			if o.err == nil {
				continue
			}
			if o.err == io.EOF && (o.op == "send" || o.op == "recv" || o.op == "recv_again") {
				continue
			}
			if m := e2elife.CheckRPCError(o.err); m != "" {
				reason, _ := rtClassify(p, i, res)
				if rtWrapsSendEOF(p, i, res, o) {
					// The defect behind this shape was repaired in /repo (9bff983, known_findings.txt "fixed:"):
					// nothing is stepped over any more, a recurrence is a violation.
					_ = strict
					v := vk.Bad("%s returned %s [ended: %s] :: %s", o.op, m, reason, rtDescribe(p, i, res))
					v.Sig = rtSigExhaustedEOF
					return v
				}
				return vk.Bad("%s returned %s [ended: %s] :: %s", o.op, m, reason, rtDescribe(p, i, res)).With("reason_" + reason)
			}
		}
		reason, extra := rtClassify(p, i, res)
		classes["reason_"+reason] = true
		for _, e := range extra {
			classes[e] = true
		}
		if rtReasons[reason] {
			out.NonTrivial = true
			classes["final_in_"+res.finalOp] = true
		}
		if res.final != nil && res.final != io.EOF {
			classes["failed_in_"+res.finalOp] = true
		}
		classes["shape_"+r.Shape] = true
		classes[fmt.Sprintf("attempts_%d", min(len(res.atts), 6))] = true
		code, _ := e2elife.StatusOf(res.final)
		classes["code_"+code.String()] = true
		for _, a := range res.atts {
			if a.acted {
				classes["srv_"+a.script.End+"_pre"+strconv.Itoa(a.script.Pre)] = true
			}
		}
	}
	for c := range classes {
		out.Classes = append(out.Classes, c)
	}
	return out
}

func TestVerifC24Retry(t *testing.T) {
	vk.Check(t, vk.Unit[rtPlan]{
		ID: "C24", Name: "retry",
		Rule: "1-3 sequential RPCs (Invoke / client-, server-, bidi-streaming; 0-4 messages with sizes around MaxRetryRPCBufferSize; optional Header(); fail-fast or wait-for-ready) on one real ClientConn whose service config has a retryPolicy per method (maxAttempts 2-5, 1-16 retryable codes, backoff 1ns..10h, multiplier 0.5..1000), optional retryThrottling and WithMaxCallAttempts; the servers are scripted h2peers: per attempt a trailers-only status with valid / zero / negative / unparsable / repeated / huge grpc-retry-pushback-ms, a status after headers or a message, hang, RST_STREAM (REFUSED_STREAM and others), GOAWAY below the stream or connection kill, on HEADERS / after the n-th message / on END_STREAM, after a virtual delay; context deadline, method-config timeout or cancel placed before / inside / after attempts and backoff waits (incl. time left < backoff and < pushback) or absent; optional dial failures before the RPC. Oracle: every error of Invoke/NewStream/Header/SendMsg/CloseSend/RecvMsg is a status with a code 1..16 (io.EOF only from SendMsg/RecvMsg). non-trivial = some RPC of the case was ended by the retry layer itself: attempts exhausted, throttled, pushback abort, replay-buffer overflow commit then a retryable failure, context cancelled or deadline reached during the backoff wait (class reason_*)",
		Gen:  rtGenPlan, Run: rtRun,
	})
}

// rtEOFPlans: minimal deterministic inputs of the signed shape
// c24.exhausted_wraps_eof (settled, pushback 1 ms instead of a jittered backoff).
func rtEOFPlans() []rtPlan {
	var plans []rtPlan
	for _, shape := range []string{"client", "bidi"} {
		fail := rtAttempt{When: rtOnHdr, End: rtStatus, Code: 14, Pushback: []string{"1"}}
		plans = append(plans, rtPlan{RPCs: []rtRPC{{
			Shape: shape, Policy: &rrig.Policy{MaxAttempts: 2, InitialNs: int64(time.Millisecond), MaxNs: int64(time.Millisecond), Mult: 1, Codes: []uint32{14}},
			Msgs: []int{1, 1}, CloseSend: true, HeaderAt: -1, CancelAfterAttempt: -1, TimeoutNs: int64(time.Minute),
			Script: []rtAttempt{fail, fail}, Settle: true,
		}}})
	}
	return plans
}

func TestVerifC24RetryEOF(t *testing.T) {
	vk.Enumerate(t, vk.Unit[rtPlan]{
		ID: "C24", Name: "retry_eof",
		Rule: "enumerated (2 plans, client- and bidi-streaming): retryPolicy{maxAttempts 2, [UNAVAILABLE]}; both attempts are answered UNAVAILABLE trailers-only on HEADERS; the application sends two messages, settling in between, so that the second SendMsg runs on the last allowed attempt after that attempt has ended; all non-trivial",
		Run:  func(t *testing.T, p rtPlan) vk.Result { r := rtRunStrict(t, p); r.NonTrivial = true; return r },
	}, rtEOFPlans())
}
