package c24_test

// C24: every RPC error is a status with a legal code.
//
// Dedicated generators: one channel per case with every extension point under
// harness control at once (custom resolver with a ConfigSelector, plan LB
// policy, dial-level and call-level per-RPC credentials, dialer, real server
// with a scripted handler, connection kill). Each RPC of the case has one
// fault: a source and an error value from an error grammar (plain, wrapped,
// context errors, io.EOF / io.ErrUnexpectedEOF, status errors of each code,
// wrapped status errors, and out-of-domain "exotic" values that are only
// recorded). Oracle: e2elife.CheckRPCError on every error returned by
// Invoke / NewStream / SendMsg / RecvMsg (io.EOF allowed only from SendMsg and
// RecvMsg), and the gRFC A54 reference mapping for status errors from pickers,
// config selectors and credentials.

import (
	"context"
	"errors"
	"fmt"
	"io"
	"net"
	"strconv"
	"strings"
	"sync"
	"testing"
	"testing/synctest"
	"time"

	"google.golang.org/grpc"
	"google.golang.org/grpc/balancer"
	"google.golang.org/grpc/codes"
	"google.golang.org/grpc/connectivity"
	"google.golang.org/grpc/credentials/insecure"
	iresolver "google.golang.org/grpc/internal/resolver"
	"google.golang.org/grpc/internal/verifkit/e2elife"
	"google.golang.org/grpc/internal/verifkit/vk"
	"google.golang.org/grpc/metadata"
	"google.golang.org/grpc/resolver"
	"google.golang.org/grpc/status"
	"pgregory.net/rapid"
)

type fault struct {
	Source string `json:"source"` // none | picker | selector | creds_call | creds_dial | dialer | handler | kill
	Kind   string `json:"kind"`   // plain | wrapped | ctx_canceled | ctx_deadline | wrapped_ctx | eof | ueof | status | wrapped_status | code_oob | grpcstatus_nil | grpcstatus_ok
	Code   int    `json:"code,omitempty"`
	When   int    `json:"when,omitempty"` // handler/kill: 0 = at once, 1 = after response headers, 2 = after one response message
	Unary  bool   `json:"unary,omitempty"`
	WFR    bool   `json:"wfr,omitempty"`
	NSend  int    `json:"nsend,omitempty"` // streaming: number of messages the client sends
}

type plan struct {
	RPCs []fault `json:"rpcs"`
}

var domainKinds = []string{"plain", "wrapped", "ctx_canceled", "ctx_deadline", "wrapped_ctx", "eof", "ueof", "status", "status", "status", "wrapped_status"}
var exoticKinds = []string{"code_oob", "grpcstatus_nil", "grpcstatus_ok"}

func genFault(rt *rapid.T) fault {
	f := fault{}
	f.Source = rapid.SampledFrom([]string{"none", "picker", "picker", "selector", "selector", "creds_call", "creds_call", "creds_dial", "dialer", "handler", "handler", "kill"}).Draw(rt, "source")
	if rapid.IntRange(0, 11).Draw(rt, "exotic") == 0 {
		f.Kind = rapid.SampledFrom(exoticKinds).Draw(rt, "kind")
	} else {
		f.Kind = rapid.SampledFrom(domainKinds).Draw(rt, "kind")
	}
	switch f.Kind {
	case "status", "wrapped_status":
		f.Code = rapid.IntRange(1, 16).Draw(rt, "code")
	case "code_oob":
		f.Code = rapid.SampledFrom([]int{17, 99, 1 << 20}).Draw(rt, "code")
	}
	if f.Source == "selector" && f.Kind == "eof" {
		// known finding c24.selector_eof_passthrough (unit selector_eof): excluded
		// by construction so that the search goes on
		f.Kind = "ueof"
	}
	f.When = rapid.IntRange(0, 2).Draw(rt, "when")
	f.Unary = rapid.IntRange(0, 2).Draw(rt, "unary") == 0
	f.WFR = rapid.IntRange(0, 3).Draw(rt, "wfr") == 0
	f.NSend = rapid.IntRange(0, 3).Draw(rt, "nsend")
	return f
}

func genPlan(rt *rapid.T) plan {
	p := plan{}
	for i, n := 0, rapid.IntRange(1, 4).Draw(rt, "nrpcs"); i < n; i++ {
		p.RPCs = append(p.RPCs, genFault(rt))
	}
	return p
}

type nilStatusErr struct{}

func (nilStatusErr) Error() string              { return "e2e: error with nil GRPCStatus" }
func (nilStatusErr) GRPCStatus() *status.Status { return nil }

type okStatusErr struct{}

func (okStatusErr) Error() string              { return "e2e: error with OK GRPCStatus" }
func (okStatusErr) GRPCStatus() *status.Status { return status.New(codes.OK, "") }

func makeErr(f fault) error {
	switch f.Kind {
	case "plain":
		return errors.New("vf plain error")
	case "wrapped":
		return fmt.Errorf("vf wrap: %w", errors.New("inner"))
	case "ctx_canceled":
		return context.Canceled
	case "ctx_deadline":
		return context.DeadlineExceeded
	case "wrapped_ctx":
		return fmt.Errorf("vf wrap: %w", context.DeadlineExceeded)
	case "eof":
		return io.EOF
	case "ueof":
		return io.ErrUnexpectedEOF
	case "status", "code_oob":
		return status.Error(codes.Code(f.Code), "vf status")
	case "wrapped_status":
		return fmt.Errorf("vf wrap: %w", status.Error(codes.Code(f.Code), "vf status"))
	case "grpcstatus_nil":
		return nilStatusErr{}
	case "grpcstatus_ok":
		return okStatusErr{}
	}
	return errors.New("vf unknown kind")
}

func exotic(f fault) bool {
	return f.Kind == "code_oob" || f.Kind == "grpcstatus_nil" || f.Kind == "grpcstatus_ok"
}

// a54 is the reference list of gRFC A54: codes reserved for the data plane.
func a54(c codes.Code) bool {
	switch c {
	case codes.InvalidArgument, codes.NotFound, codes.AlreadyExists, codes.FailedPrecondition, codes.Aborted, codes.OutOfRange, codes.DataLoss:
		return true
	}
	return false
}

// ---------------------------------------------------------------------------

type rig struct {
	mu     sync.Mutex
	faults map[string]fault // by rpc id
	dialQ  []error          // errors for the next dial attempts
	conns  []net.Conn
}

func (g *rig) faultFor(ctx context.Context, source string) (fault, bool) {
	md, _ := metadata.FromOutgoingContext(ctx)
	v := md.Get(e2elife.IDKey)
	if len(v) == 0 {
		return fault{}, false
	}
	g.mu.Lock()
	defer g.mu.Unlock()
	f, ok := g.faults[v[0]]
	return f, ok && f.Source == source
}

type selector struct{ g *rig }

func (s selector) SelectConfig(info iresolver.RPCInfo) (*iresolver.RPCConfig, error) {
	if f, ok := s.g.faultFor(info.Context, "selector"); ok {
		return nil, makeErr(f)
	}
	return &iresolver.RPCConfig{Context: info.Context}, nil
}

type resBuilder struct {
	scheme string
	g      *rig
}

type nopResolver struct{}

func (nopResolver) ResolveNow(resolver.ResolveNowOptions) {}
func (nopResolver) Close()                                {}

func (b resBuilder) Scheme() string { return b.scheme }
func (b resBuilder) Build(_ resolver.Target, cc resolver.ClientConn, _ resolver.BuildOptions) (resolver.Resolver, error) {
	st := resolver.State{
		Addresses:     []resolver.Address{{Addr: "b0"}},
		ServiceConfig: cc.ParseServiceConfig(e2elife.PlanLBServiceConfig),
	}
	cc.UpdateState(iresolver.SetConfigSelector(st, selector{b.g}))
	return nopResolver{}, nil
}

type creds struct {
	g      *rig
	source string
}

func (c creds) GetRequestMetadata(ctx context.Context, _ ...string) (map[string]string, error) {
	if f, ok := c.g.faultFor(ctx, c.source); ok {
		return nil, makeErr(f)
	}
	return map[string]string{"vf-" + c.source: "1"}, nil
}
func (creds) RequireTransportSecurity() bool { return false }

// handler: behaviour chosen by the "vf-h" request metadata "<kind>:<code>:<when>".
func handler(ss grpc.ServerStream) error {
	md, _ := metadata.FromIncomingContext(ss.Context())
	spec := ""
	if v := md.Get("vf-h"); len(v) > 0 {
		spec = v[0]
	}
	parts := strings.Split(spec, ":")
	if len(parts) != 3 {
		// benign: drain the request, answer one message
		for {
			var b []byte
			if err := ss.RecvMsg(&b); err != nil {
				break
			}
		}
		out := []byte{7}
		if err := ss.SendMsg(&out); err != nil {
			return err
		}
		return nil
	}
	code, _ := strconv.Atoi(parts[1])
	when, _ := strconv.Atoi(parts[2])
	if when >= 1 {
		ss.SendHeader(metadata.Pairs("vf-hdr", "1"))
	}
	if when >= 2 {
		out := []byte{7}
		ss.SendMsg(&out)
	}
	if parts[0] == "block" {
		<-ss.Context().Done()
		return status.FromContextError(ss.Context().Err()).Err()
	}
	return makeErr(fault{Kind: parts[0], Code: code})
}

type outcome struct {
	op  string
	err error
}

func run(t *testing.T, p plan) vk.Result {
	var res vk.Result
	msg := vk.Bubble(t, func(t *testing.T) { res = runInBubble(p) })
	if msg != "" && res.Violation == "" {
		return vk.Bad("bubble did not drain: %s", msg).With(res.Classes...)
	}
	return res
}

func runInBubble(p plan) vk.Result {
	g := &rig{faults: map[string]fault{}}
	srv := e2elife.StartServer(handler)
	ctl := e2elife.NewController("c24", []string{"b0"})
	ctl.PickFn = func(c *e2elife.Controller, _ int, info balancer.PickInfo) (balancer.PickResult, error) {
		if f, ok := g.faultFor(info.Ctx, "picker"); ok {
			return balancer.PickResult{}, makeErr(f)
		}
		if c.State(0) != connectivity.Ready {
			// like a typical policy: report the connection problem for fail-fast RPCs
			if c.State(0) == connectivity.TransientFailure {
				return balancer.PickResult{}, errors.New("vf: backend in TRANSIENT_FAILURE")
			}
			return balancer.PickResult{}, balancer.ErrNoSubConnAvailable
		}
		return balancer.PickResult{SubConn: c.SubConn(0)}, nil
	}
	dialer := func(ctx context.Context, _ string) (net.Conn, error) {
		g.mu.Lock()
		if len(g.dialQ) > 0 {
			err := g.dialQ[0]
			g.dialQ = g.dialQ[1:]
			g.mu.Unlock()
			return nil, err
		}
		g.mu.Unlock()
		c, err := srv.Lis.DialContext(ctx)
		if err == nil {
			g.mu.Lock()
			g.conns = append(g.conns, c)
			g.mu.Unlock()
		}
		return c, err
	}
	scheme := "vfcs"
	cc, err := grpc.NewClient(scheme+":///"+ctl.Name,
		grpc.WithResolvers(resBuilder{scheme: scheme, g: g}),
		grpc.WithTransportCredentials(insecure.NewCredentials()),
		grpc.WithContextDialer(dialer),
		grpc.WithDefaultCallOptions(grpc.ForceCodec(e2elife.RawCodec{})),
		grpc.WithPerRPCCredentials(creds{g, "creds_dial"}),
	)
	if err != nil {
		srv.Close()
		ctl.Unregister()
		return vk.Result{Violation: "VERIF-HARNESS NewClient: " + err.Error()}
	}
	var cancels []context.CancelFunc
	teardown := func() {
		for _, c := range cancels {
			c()
		}
		cc.Close()
		srv.Close()
		ctl.Unregister()
		synctest.Wait()
	}
	classes := map[string]bool{}
	result := func(v string, nt bool) vk.Result {
		teardown()
		r := vk.Result{Violation: v, NonTrivial: nt || v != "", Steps: len(p.RPCs)}
		for c := range classes {
			r.Classes = append(r.Classes, c)
		}
		return r
	}
	// the policy publishes a fresh picker after every SubConn state change
	publish := func() {
		synctest.Wait()
		ctl.Publish(connectivity.Ready)
		synctest.Wait()
	}
	cc.Connect()
	publish()

	nontrivial := false
	for i, f := range p.RPCs {
		id := fmt.Sprintf("r%d", i)
		g.mu.Lock()
		g.faults[id] = f
		g.mu.Unlock()
		outside := f.Source == "picker" || f.Source == "selector" || f.Source == "creds_call" || f.Source == "creds_dial" || f.Source == "dialer"
		classes["src_"+f.Source] = true
		classes["kind_"+f.Kind] = true
		if f.Source == "dialer" {
			// drop the connection and let the next dial attempts fail with the error
			g.mu.Lock()
			g.dialQ = []error{makeErr(f)}
			conns := g.conns
			g.conns = nil
			g.mu.Unlock()
			for _, c := range conns {
				c.Close()
			}
			publish()
			publish()
		}
		base := e2elife.WithID(context.Background(), id)
		switch f.Source {
		case "handler":
			base = metadata.AppendToOutgoingContext(base, "vf-h", fmt.Sprintf("%s:%d:%d", f.Kind, f.Code, f.When))
		case "kill":
			base = metadata.AppendToOutgoingContext(base, "vf-h", fmt.Sprintf("block:0:%d", f.When))
		}
		ctx, cancel := context.WithTimeout(base, 5*time.Second)
		cancels = append(cancels, cancel)
		var opts []grpc.CallOption
		if f.WFR {
			opts = append(opts, grpc.WaitForReady(true))
		}
		opts = append(opts, grpc.PerRPCCredentials(creds{g, "creds_call"}))

		var mu sync.Mutex
		var outs []outcome
		done := false
		rec := func(op string, err error) {
			mu.Lock()
			outs = append(outs, outcome{op, err})
			mu.Unlock()
		}
		go func() {
			defer func() { mu.Lock(); done = true; mu.Unlock() }()
			if f.Unary {
				req, resp := []byte{1}, []byte{}
				rec("invoke", cc.Invoke(ctx, e2elife.Method, &req, &resp, opts...))
				return
			}
			cs, err := cc.NewStream(ctx, e2elife.BidiDesc, e2elife.Method, opts...)
			rec("newstream", err)
			if err != nil {
				return
			}
			for j := 0; j < f.NSend; j++ {
				m := []byte{byte(j)}
				err := cs.SendMsg(&m)
				rec("send", err)
				if err != nil {
					break
				}
			}
			cs.CloseSend()
			for {
				var b []byte
				err := cs.RecvMsg(&b)
				rec("recv", err)
				if err != nil {
					return
				}
			}
		}()
		synctest.Wait()
		if f.Source == "kill" {
			g.mu.Lock()
			conns := g.conns
			g.conns = nil
			g.mu.Unlock()
			for _, c := range conns {
				c.Close()
			}
			publish()
		}
		mu.Lock()
		d := done
		mu.Unlock()
		if !d {
			time.Sleep(6 * time.Second) // past the 5s deadline: queued wait-for-ready RPCs end
			synctest.Wait()
		}
		mu.Lock()
		d = done
		got := append([]outcome(nil), outs...)
		mu.Unlock()
		if !d {
			return result(fmt.Sprintf("rpc %d (%+v) has not terminated 1s after its deadline", i, f), true)
		}
		// --- oracle
		var final error
		for _, o := range got {
			if o.err == nil {
				continue
			}
			final = o.err
			if o.err == io.EOF && (o.op == "send" || o.op == "recv") {
				continue
			}
			if m := e2elife.CheckRPCError(o.err); m != "" {
				if exotic(f) {
					classes["exotic_passthrough_"+f.Source+"_"+f.Kind] = true
					continue
				}
				v := fmt.Sprintf("rpc %d fault %+v: %s returned %s", i, f, o.op, m)
				r := result(v, true)
				if o.err == io.EOF && f.Kind == "eof" && f.Source == "selector" {
					r.Sig = "c24.selector_eof_passthrough"
				}
				return r
			}
		}
		code, _ := e2elife.StatusOf(final)
		classes["code_"+code.String()] = true
		if final != nil && final != io.EOF && outside {
			nontrivial = true
		}
		statusKind := f.Kind == "status" || f.Kind == "wrapped_status"
		if statusKind && (f.Source == "picker" || f.Source == "selector" || f.Source == "creds_call" || f.Source == "creds_dial") {
			want := codes.Code(f.Code)
			if a54(want) {
				classes["a54_reserved_from_"+f.Source] = true
				if code != codes.Internal {
					return result(fmt.Sprintf("rpc %d: %s returned a status error with reserved code %v; the RPC ended with %v, want INTERNAL (gRFC A54)", i, f.Source, want, code), true)
				}
			} else if code == want {
				classes["code_preserved"] = true
			} else {
				classes["code_changed_"+f.Source] = true
			}
		}
		if f.Source == "none" && code != codes.OK {
			return result(fmt.Sprintf("rpc %d without fault ended with %v: %v", i, code, final), true)
		}
		if f.Source != "none" && f.Source != "kill" && code == codes.OK && !exotic(f) && !(f.Source == "handler") {
			return result(fmt.Sprintf("rpc %d with fault %+v ended OK", i, f), true)
		}
		cancel()
		if f.Source == "dialer" {
			// recover: wait out the reconnect backoff and republish
			time.Sleep(3 * time.Second)
			publish()
			publish()
		}
		publish()
	}
	return result("", nontrivial)
}

// The one failing shape found so far, as its own enumerated unit carrying the
// signature c24.selector_eof_passthrough: a ConfigSelector that returns io.EOF
// makes Invoke / NewStream return the bare io.EOF (newClientStream passes the
// selector's error through toRPCErr, which keeps io.EOF).
func TestVerifC24SelectorEOF(t *testing.T) {
	var plans []plan
	for _, unary := range []bool{true, false} {
		for _, wfr := range []bool{false, true} {
			plans = append(plans, plan{RPCs: []fault{{Source: "selector", Kind: "eof", Unary: unary, WFR: wfr, NSend: 1}}})
		}
	}
	vk.Enumerate(t, vk.Unit[plan]{
		ID: "C24", Name: "selector_eof",
		Rule: "enumerated: ConfigSelector returns io.EOF for a unary / streaming, fail-fast / wait-for-ready RPC (4 plans); all non-trivial",
		Run:  run,
	}, plans)
}

func TestVerifC24Errors(t *testing.T) {
	vk.Check(t, vk.Unit[plan]{
		ID: "C24", Name: "errors",
		Rule: "1-4 RPCs (Invoke or streaming, fail-fast or wait-for-ready) on one channel whose resolver+ConfigSelector, LB picker, dial/call per-RPC credentials, dialer and server handler are harness code; each RPC has one fault source in {none, picker, selector, creds_call, creds_dial, dialer, handler (at once / after headers / after a message), connection kill} and an error value from {plain, wrapped, context.Canceled, context.DeadlineExceeded, wrapped ctx error, io.EOF, io.ErrUnexpectedEOF, status of each code 1-16, wrapped status; out-of-domain exotic values (undefined codes, GRPCStatus()==nil / OK) are recorded only}. non-trivial = the RPC failed with an error that originated outside the transport (picker/selector/creds/dialer)",
		Gen:  genPlan, Run: run,
	})
}
