package c12_test

// Script interpreter and oracle shared by the two C12 units (real http2Server
// and real grpc.Server). The client side is an h2peer in client role; all
// bytes are produced by the independent encoder in wire_test.go and written
// with Peer.WriteRaw.

import (
	"encoding/binary"
	"fmt"
	"os"
	"sort"
	"strings"
	"sync"
	"testing/synctest"
	"time"

	"golang.org/x/net/http2"
	"google.golang.org/grpc/internal/verifkit/h2peer"
)

// reqState is the harness' knowledge about one request it sent.
type reqState struct {
	seq  int
	id   uint32
	path string
	cls  classification

	idIllegal bool   // stream id definitely illegal (even, or <= an id the server has definitely accepted before)
	idUnsure  string // id shapes the statement does not decide (e.g. below the id of a stream that was only rejected by the HTTP/2 layer)
	oversize  bool
	mutated   bool
	sentAt    time.Time
	es        bool // END_STREAM sent by the client
	dataBytes int  // flow-controlled DATA bytes sent on the stream

	handled       int
	finishStarted bool // the server application started to finish the stream
	touched       bool // the client sent something that may make the server end the stream on its own (RST, hostile frame)
	expectRefused bool
	refusedSeen   bool

	app any // unit specific: *transport.ServerStream or the handler's command channel
}

func (r *reqState) illegalReasons() []string {
	out := append([]string(nil), r.cls.illegal...)
	if r.idIllegal {
		out = append(out, "stream_id")
	}
	return out
}

// definitelyLive: the server certainly still counts the stream as active.
func (r *reqState) definitelyLive(now time.Time) bool {
	if r.handled == 0 || r.finishStarted || r.touched {
		return false
	}
	if r.cls.hasTO && !now.Before(r.sentAt.Add(r.cls.timeout)) {
		return false
	}
	return true
}

type exec struct {
	plan Plan
	peer *h2peer.Peer
	w    *wire

	mu          sync.Mutex
	reqs        []*reqState
	byPath      map[string][]*reqState
	byID        map[uint32][]*reqState
	maxUsed     uint32 // highest id put on the wire
	maxAccepted uint32 // highest id of a request that the server has definitely accepted as a new stream
	idExact     bool   // no request so far whose effect on the server's id bookkeeping is undecided
	tainted     bool   // raw bytes / mutated frames were sent: header and stream state unknown from here on
	fatalSent   bool   // a frame that must be answered with a connection error was sent
	pings       int
	violations  []string
	classes     map[string]bool
	handlerRuns int
	legalRuns   int
	illegalSent int
	atLimit     int
	maxLiveSeen int

	finish func(r *reqState, variant int, code int64) // unit specific
	alive  func() bool
}

func newExec(p Plan, peer *h2peer.Peer) *exec {
	return &exec{plan: p, peer: peer, w: newWire(), byPath: map[string][]*reqState{}, byID: map[uint32][]*reqState{}, idExact: true, classes: map[string]bool{}}
}

func (e *exec) class(c string) { e.classes[c] = true }

func (e *exec) bad(format string, a ...any) {
	if len(e.violations) < 6 {
		e.violations = append(e.violations, fmt.Sprintf(format, a...))
	}
	if os.Getenv("VERIF_C12_DEBUG") != "" {
		fmt.Printf("C12DEBUG violation: %s\n", fmt.Sprintf(format, a...))
		for _, r := range e.reqs {
			fmt.Printf("C12DEBUG   req #%d id=%d handled=%d fin=%v touched=%v to=%v illegal=%v unsure=%v\n", r.seq, r.id, r.handled, r.finishStarted, r.touched, r.cls.hasTO, r.illegalReasons(), r.cls.unsure)
		}
		for _, f := range e.peer.Ledger().FramesOf(h2peer.In, 0, true) {
			fmt.Printf("C12DEBUG   in: %v\n", f)
		}
		fmt.Printf("C12DEBUG   peer read err: %v; ledger violations: %v\n", e.peer.ReadErr(), e.peer.Ledger().Violations())
	}
}

func (e *exec) liveCountLocked(now time.Time) int {
	n := 0
	for _, r := range e.reqs {
		if r.definitelyLive(now) {
			n++
		}
	}
	return n
}

// onHandle is called by the unit's handler for every stream that reaches
// application code. It returns the request the invocation belongs to.
func (e *exec) onHandle(method string, app any) *reqState {
	now := time.Now()
	e.mu.Lock()
	defer e.mu.Unlock()
	e.handlerRuns++
	if e.tainted {
		return nil
	}
	cands := e.byPath[method]
	if len(cands) == 0 {
		e.bad("handler invoked with method %q although no request carried that :path", method)
		return nil
	}
	// :path values are unique per request except for requests without a
	// :path; with several candidates prefer the attribution that is not a violation.
	r := cands[0]
	found := false
	for _, c := range cands {
		if c.handled == 0 && len(c.illegalReasons()) == 0 {
			r, found = c, true
			break
		}
	}
	for _, c := range cands {
		if !found && c.handled == 0 {
			r, found = c, true
		}
	}
	othersLive := e.liveCountLocked(now)
	r.handled++
	r.app = app
	if r.handled > 1 {
		e.bad("handler invoked %d times for request #%d (stream %d, %s)", r.handled, r.seq, r.id, r.path)
	}
	if why := r.illegalReasons(); len(why) > 0 {
		e.bad("handler invoked for illegal request #%d (stream %d, %s): %s; headers %v", r.seq, r.id, r.path, strings.Join(why, ","), r.cls.describe())
	} else if len(r.cls.unsure) == 0 && r.idUnsure == "" {
		e.legalRuns++
	}
	if uint64(othersLive)+1 > uint64(e.plan.MaxStreams) {
		e.bad("handler invoked for request #%d (stream %d) while %d other streams were definitely still active: %d > MaxConcurrentStreams %d", r.seq, r.id, othersLive, othersLive+1, e.plan.MaxStreams)
	}
	if othersLive+1 > e.maxLiveSeen {
		e.maxLiveSeen = othersLive + 1
	}
	if uint64(othersLive)+1 == uint64(e.plan.MaxStreams) {
		e.atLimit++
	}
	return r
}

func (c classification) describe() string {
	return fmt.Sprintf("{illegal:%v unsure:%v}", c.illegal, c.unsure)
}

// resolve picks a stream id for data/rst/wu/frame steps and returns the
// requests that use that id.
func (e *exec) resolve(mode string, k int) (uint32, []*reqState) {
	e.mu.Lock()
	defer e.mu.Unlock()
	if k < 0 {
		k = -k
	}
	now := time.Now()
	switch mode {
	case mConn, mZero:
		return 0, nil
	case mEven:
		return 2 * uint32(1+k%40), e.byID[2*uint32(1+k%40)]
	case mLive:
		var live []*reqState
		for _, r := range e.reqs {
			if r.definitelyLive(now) {
				live = append(live, r)
			}
		}
		if len(live) > 0 {
			r := live[k%len(live)]
			return r.id, e.byID[r.id]
		}
		fallthrough
	case mDone:
		if mode == mDone {
			var done []*reqState
			for _, r := range e.reqs {
				if r.finishStarted {
					done = append(done, r)
				}
			}
			if len(done) > 0 {
				r := done[k%len(done)]
				return r.id, e.byID[r.id]
			}
		}
		fallthrough
	case mSent:
		if len(e.reqs) > 0 {
			r := e.reqs[k%len(e.reqs)]
			return r.id, e.byID[r.id]
		}
	}
	id := e.maxUsed + 2
	if id%2 == 0 {
		id++
	}
	if id > 1<<31-1 {
		id = 1<<31 - 1
	}
	return id, e.byID[id]
}

func (e *exec) touch(rs []*reqState) {
	e.mu.Lock()
	for _, r := range rs {
		r.touched = true
	}
	e.mu.Unlock()
}

// settle waits for quiescence and evaluates the pending REFUSED_STREAM expectations.
func (e *exec) settle() {
	synctest.Wait()
	e.mu.Lock()
	defer e.mu.Unlock()
	for _, r := range e.reqs {
		if !r.expectRefused || r.refusedSeen {
			continue
		}
		var got []string
		for _, f := range e.peer.Ledger().FramesOf(h2peer.In, r.id, false) {
			if f.Type == http2.FrameRSTStream {
				got = append(got, f.ErrCode.String())
				if f.ErrCode == http2.ErrCodeRefusedStream {
					r.refusedSeen = true
				}
			} else {
				got = append(got, f.Type.String())
			}
		}
		if !r.refusedSeen {
			r.expectRefused = false // report once
			e.bad("request #%d (stream %d, fully legal) was sent while %d >= MaxConcurrentStreams=%d streams were definitely active, but the server did not answer RST_STREAM(REFUSED_STREAM); frames on that stream: %v; handler runs for it: %d",
				r.seq, r.id, e.plan.MaxStreams, e.plan.MaxStreams, got, r.handled)
		} else {
			e.class("limit:refused_stream_observed")
		}
	}
}

func (e *exec) nextID(r *Req) uint32 {
	k := r.K
	if k < 0 {
		k = -k
	}
	next := e.maxUsed + 2
	if e.maxUsed == 0 {
		next = 1
	}
	if next%2 == 0 {
		next++
	}
	switch r.ID {
	case "gap":
		return next + 2*uint32(k)
	case "even":
		if k%2 == 0 {
			return e.maxUsed + 2 - e.maxUsed%2 // the next even id above everything used
		}
		return 2 * uint32(1+k)
	case "dec":
		if e.maxAccepted >= 3 {
			d := 2 * uint32(1+k%3)
			if d >= e.maxAccepted {
				d = 2
			}
			return e.maxAccepted - d
		}
		return next
	case "rep":
		if len(e.reqs) > 0 {
			return e.reqs[k%len(e.reqs)].id
		}
		return next
	case "huge":
		return 1<<31 - 1 - 2*uint32(k%3)
	case "zero":
		return 0
	}
	return next
}

// doReq encodes and sends one request.
func (e *exec) doReq(st Step) {
	r := st.R
	cls := classify(r.H)
	e.mu.Lock()
	id := e.nextID(r)
	if id > 1<<31-1 {
		id = 1<<31 - 1 // the id space is exhausted (31 bits on the wire): only repeated ids are left
	}
	rs := &reqState{seq: len(e.reqs), id: id, path: cls.path, cls: cls, sentAt: time.Now(), es: r.ES, mutated: len(st.Mut) > 0}
	limit := 16 << 20
	if e.plan.MaxHdr > 0 {
		limit = e.plan.MaxHdr
	}
	rs.oversize = cls.size > limit*9/10
	fatal := false
	switch {
	case rs.mutated:
		// raw mutation: nothing is known about what the server will see.
	case id == 0:
		fatal = true
		rs.idIllegal = true
	case cls.h2bad || rs.oversize:
		// The HTTP/2 layer rejects the block (or answers with a connection error); the id does not enter the
		// server's id bookkeeping for certain.
		e.idExact = false
		if cls.size > 2*limit {
			fatal = true
		}
		if id%2 == 0 || id <= e.maxAccepted {
			rs.idIllegal = true
		}
	case id%2 == 0 || id <= e.maxAccepted:
		rs.idIllegal = true
		fatal = true
	default:
		if id < e.maxUsed && !e.idExact {
			rs.idUnsure = "id_below_a_stream_rejected_by_the_http2_layer"
		}
		e.maxAccepted = id
	}
	if id > e.maxUsed {
		e.maxUsed = id
	}
	// The same id used by an earlier request: whatever this HEADERS frame does, it may end that stream.
	for _, o := range e.byID[id] {
		o.touched = true
	}
	now := time.Now()
	live := e.liveCountLocked(now)
	clean := !rs.mutated && !rs.idIllegal && rs.idUnsure == "" && len(cls.illegal) == 0 && len(cls.unsure) == 0 && !cls.h2bad && !rs.oversize && e.idExact
	if clean && !e.tainted && !e.fatalSent && e.alive() && uint64(live) >= uint64(e.plan.MaxStreams) {
		if st.NW {
			e.class("limit:over_limit_request_not_checked_(no_wait)")
		} else {
			rs.expectRefused = true
			e.class("limit:over_limit_request")
		}
	}
	if !e.tainted && e.alive() && !rs.mutated {
		if why := rs.illegalReasons(); len(why) > 0 {
			e.illegalSent++
			for _, w := range why {
				e.class("illegal:" + w)
			}
		}
		for _, u := range cls.unsure {
			e.class("unsure:" + u)
		}
		if rs.idUnsure != "" {
			e.class("unsure:" + rs.idUnsure)
		}
		if rs.oversize {
			e.class("unsure:oversize_header_list")
		}
		for _, s := range r.Shape {
			e.class("shape:" + s)
		}
		if r.ID != "next" {
			e.class("id:" + r.ID)
		}
	}
	e.reqs = append(e.reqs, rs)
	e.byPath[rs.path] = append(e.byPath[rs.path], rs)
	e.byID[id] = append(e.byID[id], rs)
	if rs.mutated {
		e.tainted = true
	}
	if fatal {
		e.fatalSent = true
	}
	e.mu.Unlock()
	if fatal || rs.mutated {
		e.settle()
	}
	b := e.w.headers(id, e.w.block(r.H), r.ES, r.Frags, r.Pad, r.Prio)
	if rs.mutated {
		b = applyMuts(b, st.Mut)
		e.class("mut:" + st.Mut[0].K)
	}
	e.peer.WriteRaw(b)
}

func (e *exec) markFatal(taint bool) {
	e.settle()
	e.mu.Lock()
	e.fatalSent = true
	if taint {
		e.tainted = true
	}
	e.mu.Unlock()
}

func (e *exec) doStep(st Step) {
	mutated := len(st.Mut) > 0
	send := func(b []byte) {
		if mutated {
			b = applyMuts(b, st.Mut)
			e.class("mut:" + st.Mut[0].K)
		}
		e.peer.WriteRaw(b)
	}
	if mutated && st.K != kReq && st.K != kFinish && st.K != kSleep {
		e.markFatal(true)
	} else if st.Fatal {
		e.markFatal(false)
		e.class("fatal:" + st.K + "." + st.Var)
	}
	switch st.K {
	case kReq:
		e.doReq(st)
	case kFinish:
		e.mu.Lock()
		var live []*reqState
		now := time.Now()
		for _, r := range e.reqs {
			if r.definitelyLive(now) {
				live = append(live, r)
			}
		}
		var r *reqState
		if len(live) > 0 {
			r = live[st.S%len(live)]
			r.finishStarted = true
		}
		e.mu.Unlock()
		if r != nil {
			e.class("app:finish")
			e.finish(r, st.F, st.V)
		}
	case kSleep:
		time.Sleep(time.Duration(st.N) * time.Millisecond)
	case kRST:
		id, rs := e.resolve(st.M, st.S)
		if id == 0 {
			return
		}
		e.touch(rs)
		e.class("frame:rst_stream")
		send(frame(ftRST, 0, id, binary.BigEndian.AppendUint32(nil, uint32(st.V))))
	case kData:
		id, rs := e.resolve(st.M, st.S)
		if st.M == mZero {
			send(frame(ftData, 0, 0, []byte("zero")))
			return
		}
		payload := grpcMsg(st.N)
		if st.Var == "empty" {
			payload = nil
		}
		e.mu.Lock()
		for _, r := range rs {
			flow := len(payload)
			if st.Pad > 0 {
				flow += st.Pad
			}
			rep := max(1, st.F)
			flow *= rep
			if r.es || r.dataBytes+flow > 65535 || (rep > 1 && st.ES) {
				r.touched = true // DATA after END_STREAM / beyond the stream window: the server resets the stream
				e.class("frame:data_hostile")
			} else {
				e.class("frame:data_ok")
			}
			r.dataBytes += flow
			if st.ES {
				r.es = true
			}
		}
		e.mu.Unlock()
		b := dataFrames(id, payload, st.ES, st.Pad, 16384)
		for i := 1; i < st.F; i++ { // F >= 2: the same frame(s) again (e.g. END_STREAM twice)
			b = append(b, dataFrames(id, payload, st.ES, st.Pad, 16384)...)
			e.class("frame:data_repeated")
		}
		if st.M == mDone {
			e.class("frame:data_on_finished_stream")
		}
		send(b)
	case kWU:
		id, rs := e.resolve(st.M, st.S)
		if st.N == 0 || st.N >= 1<<30 {
			e.touch(rs)
		}
		e.class("frame:window_update")
		send(frame(ftWindowUpdate, 0, id, binary.BigEndian.AppendUint32(nil, uint32(st.N))))
	case kSettings:
		var payload []byte
		for i := 0; i+1 < len(st.SS); i += 2 {
			payload = binary.BigEndian.AppendUint16(payload, uint16(st.SS[i]))
			payload = binary.BigEndian.AppendUint32(payload, uint32(st.SS[i+1]))
		}
		e.class("frame:settings")
		send(frame(ftSettings, 0, 0, payload))
	case kPing:
		e.mu.Lock()
		e.pings += max(1, st.N)
		if e.pings > 2 && st.V == 0 {
			e.fatalSent = true // the keepalive enforcement policy may answer with GOAWAY(ENHANCE_YOUR_CALM)
		}
		e.mu.Unlock()
		var b []byte
		for i := 0; i < max(1, st.N); i++ {
			b = append(b, frame(ftPing, byte(st.V), 0, fill(8, i))...)
		}
		e.class("frame:ping")
		send(b)
	case kFrame:
		id, rs := e.resolve(st.M, st.S)
		if st.F == ftContinuation || st.F == ftHeaders || st.F == ftRST || st.F == ftWindowUpdate || st.F == ftData {
			e.touch(rs)
		}
		e.class("frame:" + st.Var)
		send(frameLen(byte(st.F), byte(st.V), id, st.B, st.N-1))
	case kRaw:
		e.markFatal(true)
		e.class("raw:" + st.Var)
		send(st.B)
	}
}

func (e *exec) run() {
	for _, st := range e.plan.Script {
		e.doStep(st)
		if !st.NW {
			e.settle()
		}
	}
	e.settle()
}

func sortedClasses(m map[string]bool) []string {
	var out []string
	for c := range m {
		out = append(out, c)
	}
	sort.Strings(out)
	return out
}

func settingsOf(pairs []int64) []http2.Setting {
	var ss []http2.Setting
	for i := 0; i+1 < len(pairs); i += 2 {
		ss = append(ss, http2.Setting{ID: http2.SettingID(pairs[i]), Val: uint32(pairs[i+1])})
	}
	return ss
}
