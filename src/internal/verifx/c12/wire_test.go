package c12_test

// C12 — a misbehaving client cannot crash the server or reach a handler
// illegally.
//
// This file: serialisable plan, byte-level HTTP/2 encoder (own frame headers +
// own hpack encoder, independent of grpc-go and of the h2peer writer), raw byte
// mutation and the reference classification of a request header list.

import (
	"bytes"
	"encoding/base64"
	"regexp"
	"strings"
	"time"

	"golang.org/x/net/http2/hpack"
)

// Step kinds.
const (
	kReq      = "req"      // open a stream: HEADERS (+CONTINUATION) with the request header list R
	kData     = "data"     // DATA on a selected stream
	kRST      = "rst"      // RST_STREAM on a selected stream
	kFinish   = "finish"   // the server application finishes the S-th live handled stream (F: 0 status only, 1 header+status, 2 header+message+status; V = status code)
	kSleep    = "sleep"    // advance virtual time by N ms
	kWU       = "wu"       // WINDOW_UPDATE
	kSettings = "settings" // SETTINGS
	kPing     = "ping"     // N PINGs
	kFrame    = "frame"    // arbitrary frame type F, flags V, payload B
	kRaw      = "raw"      // literal bytes
)

// Stream selector modes.
const (
	mLive = "live" // S-th stream that is definitely live (handler ran, nothing ended it)
	mSent = "sent" // the stream of the S-th request sent so far
	mDone = "done" // S-th stream whose handler was told to finish (trailers possibly still queued behind flow control); fallback: sent
	mIdle = "idle" // odd id above everything used so far
	mEven = "even"
	mZero = "zero"
	mConn = "conn"
)

// HF is one header field.
type HF struct {
	N string `json:"n"`
	V string `json:"v"`
}

// Mut is one raw byte mutation.
type Mut struct {
	K   string `json:"k"`
	Off int    `json:"off"`
	Len int    `json:"len,omitempty"`
	X   int    `json:"x,omitempty"`
}

// Req is one request (HEADERS frame opening a stream).
type Req struct {
	// ID selects the stream id: next | gap | even | dec | rep | huge | zero.
	ID    string `json:"id"`
	K     int    `json:"k,omitempty"`
	H     []HF   `json:"h"`
	ES    bool   `json:"es,omitempty"`
	Frags []int  `json:"frags,omitempty"`
	Pad   int    `json:"pad,omitempty"`
	Prio  bool   `json:"prio,omitempty"`
	// Shape lists the generator's defect labels (class histogram only; the
	// executor classifies the header list itself).
	Shape []string `json:"shape,omitempty"`
}

// Step is one step of the client script.
type Step struct {
	K   string `json:"k"`
	Var string `json:"var,omitempty"`
	R   *Req   `json:"r,omitempty"`
	M   string `json:"m,omitempty"`
	S   int    `json:"s,omitempty"`
	N   int    `json:"n,omitempty"`
	V   int64  `json:"v,omitempty"`
	F   int    `json:"f,omitempty"`
	B   []byte `json:"b,omitempty"`
	ES  bool   `json:"es,omitempty"`
	Pad int    `json:"pad,omitempty"`
	SS  []int64 `json:"ss,omitempty"`
	// Fatal: the step is expected to be answered with a connection error.
	Fatal bool  `json:"fatal,omitempty"`
	Mut   []Mut `json:"mut,omitempty"`
	NW    bool  `json:"nw,omitempty"`
}

// Plan is a serialisable C12 case.
type Plan struct {
	MaxStreams uint32  `json:"max_streams"`
	MaxHdr     int     `json:"max_hdr,omitempty"`    // server MaxHeaderListSize (0 = default 16 MiB)
	ReadSizes  []int   `json:"read_sizes,omitempty"` // segmentation of the server's reads
	PeerSS     []int64 `json:"peer_ss,omitempty"`    // client preface SETTINGS id,val pairs
	Script     []Step  `json:"script"`
}

// ---- byte-level encoder ----

type wire struct {
	henc *hpack.Encoder
	hbuf bytes.Buffer
}

func newWire() *wire {
	w := &wire{}
	w.henc = hpack.NewEncoder(&w.hbuf)
	return w
}

func (w *wire) block(h []HF) []byte {
	w.hbuf.Reset()
	for _, f := range h {
		w.henc.WriteField(hpack.HeaderField{Name: f.N, Value: f.V})
	}
	return append([]byte(nil), w.hbuf.Bytes()...)
}

func frameLen(typ, flags byte, sid uint32, payload []byte, declared int) []byte {
	if declared < 0 {
		declared = len(payload)
	}
	b := make([]byte, 0, 9+len(payload))
	b = append(b, byte(declared>>16), byte(declared>>8), byte(declared), typ, flags,
		byte(sid>>24), byte(sid>>16), byte(sid>>8), byte(sid))
	return append(b, payload...)
}

func frame(typ, flags byte, sid uint32, payload []byte) []byte {
	return frameLen(typ, flags, sid, payload, -1)
}

const (
	ftData         = 0x0
	ftHeaders      = 0x1
	ftPriority     = 0x2
	ftRST          = 0x3
	ftSettings     = 0x4
	ftPushPromise  = 0x5
	ftPing         = 0x6
	ftGoAway       = 0x7
	ftWindowUpdate = 0x8
	ftContinuation = 0x9

	flEndStream  = 0x1
	flAck        = 0x1
	flEndHeaders = 0x4
	flPadded     = 0x8
	flPriority   = 0x20
)

func padWrap(payload []byte, pad int) ([]byte, bool) {
	switch {
	case pad == 0:
		return payload, false
	case pad < 0:
		return append([]byte{byte(min(255, len(payload)+1+(-pad)))}, payload...), true
	default:
		n := min(pad-1, 255)
		out := append([]byte{byte(n)}, payload...)
		return append(out, make([]byte, n)...), true
	}
}

func (w *wire) headers(sid uint32, block []byte, es bool, frags []int, pad int, prio bool) []byte {
	var parts [][]byte
	rest := block
	if len(frags) == 0 {
		frags = []int{16384 - 300}
	}
	for i := 0; ; i++ {
		sz := min(max(frags[min(i, len(frags)-1)], 1), 16384-300)
		if sz >= len(rest) {
			parts = append(parts, rest)
			break
		}
		parts = append(parts, rest[:sz])
		rest = rest[sz:]
	}
	var out []byte
	for i, frag := range parts {
		var fl byte
		if i == len(parts)-1 {
			fl |= flEndHeaders
		}
		if i == 0 {
			if es {
				fl |= flEndStream
			}
			payload := frag
			if prio {
				fl |= flPriority
				payload = append([]byte{0, 0, 0, 0, 16}, payload...)
			}
			payload, padded := padWrap(payload, pad)
			if padded {
				fl |= flPadded
			}
			out = append(out, frame(ftHeaders, fl, sid, payload)...)
		} else {
			out = append(out, frame(ftContinuation, fl, sid, frag)...)
		}
	}
	return out
}

func dataFrames(sid uint32, payload []byte, es bool, pad int, maxFrame int) []byte {
	var out []byte
	if maxFrame < 1 {
		maxFrame = 16384
	}
	if pad > 0 && maxFrame <= 16384 {
		maxFrame = min(maxFrame, 16384-256)
	}
	for first := true; first || len(payload) > 0; first = false {
		n := min(len(payload), maxFrame)
		chunk := payload[:n]
		payload = payload[n:]
		var fl byte
		if es && len(payload) == 0 {
			fl |= flEndStream
		}
		p := chunk
		if pad != 0 && len(payload) == 0 {
			var padded bool
			p, padded = padWrap(chunk, pad)
			if padded {
				fl |= flPadded
			}
		}
		out = append(out, frame(ftData, fl, sid, p)...)
	}
	return out
}

func fill(n int, seed int) []byte {
	b := make([]byte, n)
	x := uint32(seed*2654435761) | 1
	for i := range b {
		x = x*1664525 + 1013904223
		b[i] = byte(x >> 24)
	}
	return b
}

func grpcMsg(n int) []byte {
	return append([]byte{0, byte(n >> 24), byte(n >> 16), byte(n >> 8), byte(n)}, fill(n, n)...)
}

func applyMuts(b []byte, muts []Mut) []byte {
	for _, m := range muts {
		if len(b) == 0 {
			return b
		}
		off := ((m.Off % len(b)) + len(b)) % len(b)
		switch m.K {
		case "flip":
			b = append([]byte(nil), b...)
			b[off] ^= 1 << (uint(m.X) % 8)
		case "set":
			b = append([]byte(nil), b...)
			b[off] = byte(m.X)
		case "trunc":
			b = b[:off]
		case "drop":
			n := min(max(1, m.Len), len(b)-off)
			b = append(append([]byte(nil), b[:off]...), b[off+n:]...)
		case "ins":
			n := min(max(1, m.Len), 64)
			b = append(append(append([]byte(nil), b[:off]...), bytes.Repeat([]byte{byte(m.X)}, n)...), b[off:]...)
		case "dup":
			n := min(max(1, m.Len), len(b)-off)
			seg := append([]byte(nil), b[off:off+n]...)
			at := ((m.X % (len(b) + 1)) + len(b) + 1) % (len(b) + 1)
			b = append(append(append([]byte(nil), b[:at]...), seg...), b[at:]...)
		}
	}
	return b
}

// ---- reference classification of a request header list ----
//
// The property statement names six reasons for which a handler must never
// run: illegal stream id (decided by the executor from the id history),
// non-POST method, invalid content-type, malformed grpc-timeout, duplicate
// :authority, undecodable binary metadata. classify decides the five
// header-level reasons from the header list alone, using only the gRPC
// over HTTP/2 protocol text (no grpc-go code). Shapes the statement does
// not speak about are reported as "unsure" (labelled, never asserted).

type classification struct {
	illegal []string // statement-level reasons
	unsure  []string
	h2bad   bool          // malformed at the HTTP/2 level (RFC 9113 8.2/8.3): the framer layer rejects the block before gRPC sees it
	size    int           // header list size as defined by SETTINGS_MAX_HEADER_LIST_SIZE
	timeout time.Duration // valid grpc-timeout (last one), 0 = none
	hasTO   bool
	path    string
}

var timeoutRE = regexp.MustCompile(`^[0-9]{1,8}[HMSmun]$`)

func validContentType(v string) bool {
	return v == "application/grpc" || strings.HasPrefix(v, "application/grpc+") || strings.HasPrefix(v, "application/grpc;")
}

func decodableBin(v string) bool {
	if _, err := base64.StdEncoding.DecodeString(v); err == nil {
		return true
	}
	_, err := base64.RawStdEncoding.DecodeString(v)
	return err == nil
}

func parseTimeout(v string) time.Duration {
	var n int64
	for _, c := range v[:len(v)-1] {
		n = n*10 + int64(c-'0')
	}
	unit := map[byte]time.Duration{'H': time.Hour, 'M': time.Minute, 'S': time.Second, 'm': time.Millisecond, 'u': time.Microsecond, 'n': time.Nanosecond}[v[len(v)-1]]
	if n > 0 && int64(unit) > (1<<63-1)/n {
		return 1<<63 - 1
	}
	return time.Duration(n) * unit
}

func validFieldValue(v string) bool {
	for i := 0; i < len(v); i++ {
		c := v[i]
		if c == 0 || c == '\r' || c == '\n' || (c < 0x20 && c != '\t') || c == 0x7f {
			return false
		}
	}
	return true
}

func validFieldName(n string) bool {
	if n == "" {
		return false
	}
	for i := 0; i < len(n); i++ {
		c := n[i]
		ok := c >= 'a' && c <= 'z' || c >= '0' && c <= '9' || strings.IndexByte("!#$%&'*+-.^_`|~", c) >= 0
		if !ok {
			return false
		}
	}
	return true
}

func classify(h []HF) classification {
	var c classification
	count := map[string]int{}
	var methods, cts, timeouts []string
	sawRegular := false
	for _, f := range h {
		c.size += len(f.N) + len(f.V) + 32
		count[f.N]++
		if !validFieldValue(f.V) {
			c.h2bad = true
		}
		if strings.HasPrefix(f.N, ":") {
			if sawRegular {
				c.h2bad = true // pseudo header after a regular one
			}
			switch f.N {
			case ":method", ":path", ":scheme", ":authority", ":protocol":
			default:
				c.h2bad = true // unknown / response pseudo header in a request
			}
			if count[f.N] > 1 {
				c.h2bad = true // duplicate pseudo header
			}
		} else {
			sawRegular = true
			if !validFieldName(f.N) {
				c.h2bad = true
			}
		}
		switch f.N {
		case ":method":
			methods = append(methods, f.V)
		case ":path":
			if c.path == "" {
				c.path = f.V
			}
		case "content-type":
			cts = append(cts, f.V)
		case "grpc-timeout":
			timeouts = append(timeouts, f.V)
		case "connection":
			c.unsure = append(c.unsure, "connection_header")
		default:
			if strings.HasSuffix(f.N, "-bin") && !strings.HasPrefix(f.N, ":") && !decodableBin(f.V) {
				c.illegal = append(c.illegal, "undecodable_bin")
			}
		}
	}
	// method
	switch {
	case len(methods) == 0:
		c.illegal = append(c.illegal, "method_missing")
	case len(methods) == 1 && methods[0] != "POST":
		c.illegal = append(c.illegal, "method_not_post")
	case len(methods) > 1:
		for _, m := range methods {
			if m != "POST" {
				c.illegal = append(c.illegal, "method_not_post")
				break
			}
		}
	}
	// content-type
	valid, invalid := 0, 0
	for _, v := range cts {
		if validContentType(v) {
			valid++
		} else {
			invalid++
		}
	}
	switch {
	case valid == 0:
		if invalid == 0 {
			c.illegal = append(c.illegal, "content_type_missing")
		} else {
			c.illegal = append(c.illegal, "content_type_invalid")
		}
	case invalid > 0:
		c.unsure = append(c.unsure, "content_type_mixed")
	}
	// grpc-timeout
	for _, v := range timeouts {
		if !timeoutRE.MatchString(v) {
			c.illegal = append(c.illegal, "timeout_malformed")
			break
		}
	}
	if len(timeouts) > 0 && timeoutRE.MatchString(timeouts[len(timeouts)-1]) {
		c.hasTO, c.timeout = true, parseTimeout(timeouts[len(timeouts)-1])
		for _, v := range timeouts { // any of several valid values may be the one in force: keep the smallest
			if timeoutRE.MatchString(v) {
				if d := parseTimeout(v); d < c.timeout {
					c.timeout = d
				}
			}
		}
	}
	// :authority / host
	switch {
	case count[":authority"] > 1:
		c.illegal = append(c.illegal, "authority_duplicate")
	case count[":authority"] == 0 && count["host"] > 1:
		c.illegal = append(c.illegal, "authority_duplicate_host")
	case count["host"] > 1:
		c.unsure = append(c.unsure, "host_duplicate_besides_authority")
	}
	if c.path == "" {
		c.unsure = append(c.unsure, "path_missing")
	}
	if c.h2bad {
		c.unsure = append(c.unsure, "http2_malformed")
	}
	return c
}
