package c12_test

import (
	"context"
	"fmt"
	"os"
	"strings"
	"sync"
	"testing"
	"testing/synctest"

	"google.golang.org/grpc"
	"google.golang.org/grpc/codes"
	"google.golang.org/grpc/internal/transport"
	"google.golang.org/grpc/internal/verifkit/h2peer"
	"google.golang.org/grpc/internal/verifkit/h2peer/h2grpc"
	"google.golang.org/grpc/internal/verifkit/vk"
	"google.golang.org/grpc/internal/verifkit/vpipe"
	"google.golang.org/grpc/mem"
	"google.golang.org/grpc/metadata"
	"google.golang.org/grpc/status"
)

type outcome struct {
	violations  []string
	classes     map[string]bool
	nontriv     bool
	setupErr    error
	steps       int
	harnessFail string
}

func (e *exec) outcome(out *outcome) {
	e.mu.Lock()
	defer e.mu.Unlock()
	out.violations = e.violations
	out.classes = e.classes
	out.nontriv = e.illegalSent > 0 && e.legalRuns > 0
	if e.legalRuns > 0 {
		e.classes["handler:ran_for_a_legal_request"] = true
	}
	if e.illegalSent > 0 {
		e.classes["illegal:any"] = true
	}
	if e.atLimit > 0 {
		e.classes["limit:handler_ran_at_exactly_max_streams"] = true
	}
	if e.tainted {
		e.classes["phase:raw_bytes_sent"] = true
	}
	if e.fatalSent {
		e.classes["phase:connection_fatal_frame_sent"] = true
	}
	out.steps = len(e.plan.Script)
}

// ---- unit 1: real http2Server ----

func runTransport(t *testing.T, p Plan) outcome {
	var out outcome
	msg := vk.Bubble(t, func(t *testing.T) {
		var e *exec
		sc := &transport.ServerConfig{MaxStreams: p.MaxStreams}
		if p.MaxHdr > 0 {
			v := uint32(p.MaxHdr)
			sc.MaxHeaderListSize = &v
		}
		var early []*transport.ServerStream
		var emu sync.Mutex
		rig, err := h2grpc.NewServerWith(h2peer.Config{Settings: settingsOf(p.PeerSS)}, sc, func(s *transport.ServerStream) {
			emu.Lock()
			ex := e
			if ex == nil {
				early = append(early, s)
			}
			emu.Unlock()
			if ex != nil {
				ex.onHandle(s.Method(), s)
			}
		}, h2grpc.ServerOptions{Pipe: func(g, _ *vpipe.Conn) {
			if len(p.ReadSizes) > 0 {
				g.SetReadSizes(p.ReadSizes...)
			}
		}})
		if err != nil {
			out.setupErr = err
			return
		}
		ex := newExec(p, rig.Peer)
		ex.alive = func() bool { return !rig.Conn.Closed() && !rig.PeerConn.Closed() }
		ex.finish = func(r *reqState, variant int, code int64) {
			s, _ := r.app.(*transport.ServerStream)
			if s == nil {
				return
			}
			if variant >= 1 {
				s.SendHeader(metadata.Pairs("x-h", "v"))
			}
			if variant >= 2 {
				msg := []byte("hello")
				s.Write([]byte{0, 0, 0, 0, byte(len(msg))}, mem.BufferSlice{mem.SliceBuffer(msg)}, &transport.WriteOptions{})
			}
			s.WriteStatus(status.New(codes.Code(code), "done"))
		}
		emu.Lock()
		e = ex
		emu.Unlock()
		synctest.Wait()
		ex.run()
		ex.outcome(&out)
		if len(early) > 0 {
			out.violations = append(out.violations, "handler invoked before the client sent any request")
		}
		rig.Close()
	})
	if msg != "" {
		if strings.Contains(msg, "panic") {
			out.violations = append(out.violations, "panic: "+msg)
		} else {
			out.harnessFail = msg
		}
	}
	return out
}

// ---- unit 2: real grpc.Server ----

type rawCodec struct{}

func (rawCodec) Marshal(v any) ([]byte, error) {
	b, ok := v.(*[]byte)
	if !ok {
		return nil, fmt.Errorf("rawCodec: %T", v)
	}
	return *b, nil
}

func (rawCodec) Unmarshal(data []byte, v any) error {
	b, ok := v.(*[]byte)
	if !ok {
		return fmt.Errorf("rawCodec: %T", v)
	}
	*b = append((*b)[:0], data...)
	return nil
}

func (rawCodec) Name() string { return "vfraw" }

type appCmd struct {
	variant int
	code    int64
}

func runServer(t *testing.T, p Plan) outcome {
	var out outcome
	msg := vk.Bubble(t, func(t *testing.T) {
		var e *exec
		var emu sync.Mutex
		handler := func(_ any, ss grpc.ServerStream) error {
			method, _ := grpc.Method(ss.Context())
			emu.Lock()
			ex := e
			emu.Unlock()
			gate := make(chan appCmd, 1)
			var r *reqState
			if ex != nil {
				r = ex.onHandle(method, gate)
			}
			if r == nil {
				return status.Error(codes.Unknown, "harness: unidentified request")
			}
			select {
			case c := <-gate:
				if c.variant >= 1 {
					ss.SendHeader(metadata.Pairs("x-h", "v"))
				}
				if c.variant >= 2 {
					m := []byte("hello")
					ss.SendMsg(&m)
				}
				if c.code != 0 {
					return status.Error(codes.Code(c.code), "done")
				}
				return nil
			case <-ss.Context().Done():
				return status.FromContextError(ss.Context().Err()).Err()
			}
		}
		opts := []grpc.ServerOption{grpc.UnknownServiceHandler(handler), grpc.ForceServerCodec(rawCodec{}), grpc.MaxConcurrentStreams(p.MaxStreams)}
		if p.MaxHdr > 0 {
			opts = append(opts, grpc.MaxHeaderListSize(uint32(p.MaxHdr)))
		}
		srv := grpc.NewServer(opts...)
		lis := vpipe.Listen(nil)
		lis.OnDial = func(_ int, _, s *vpipe.Conn) {
			if len(p.ReadSizes) > 0 {
				s.SetReadSizes(p.ReadSizes...)
			}
		}
		served := make(chan struct{})
		go func() { defer close(served); srv.Serve(lis) }()
		c, err := lis.DialContext(context.Background())
		if err != nil {
			out.setupErr = err
			srv.Stop()
			<-served
			return
		}
		pc := c.(*vpipe.Conn)
		peer := h2peer.New(pc, h2peer.Config{Role: h2peer.ClientRole, Settings: settingsOf(p.PeerSS)})
		ex := newExec(p, peer)
		ex.alive = func() bool { return !pc.Closed() && !pc.Peer().Closed() }
		ex.finish = func(r *reqState, variant int, code int64) {
			if gate, ok := r.app.(chan appCmd); ok {
				gate <- appCmd{variant, code}
			}
		}
		emu.Lock()
		e = ex
		emu.Unlock()
		synctest.Wait()
		ex.run()
		ex.outcome(&out)
		peer.Close()
		srv.Stop()
		<-served
		peer.Wait()
	})
	if msg != "" {
		if strings.Contains(msg, "panic") {
			out.violations = append(out.violations, "panic: "+msg)
		} else {
			out.harnessFail = msg
		}
	}
	return out
}

func toResult(out outcome) vk.Result {
	if out.harnessFail != "" {
		panic("VERIF-HARNESS: bubble did not drain: " + out.harnessFail)
	}
	if out.setupErr != nil {
		return vk.OK(false, "setup_failed")
	}
	cl := sortedClasses(out.classes)
	if len(out.violations) > 0 {
		return vk.Bad("%d violation(s): %s", len(out.violations), strings.Join(out.violations[:min(3, len(out.violations))], " || ")).With(cl...)
	}
	res := vk.OK(out.nontriv, cl...)
	res.Steps = out.steps
	return res
}

const ruleCommon = "script of 10..N steps: ~55% requests (HEADERS from an independent byte-level encoder) - plain legal, legal with variations (content-type variants, valid grpc-timeout incl. 0 and 8 digits, valid -bin, host instead of :authority, permuted regular / pseudo header order, metadata), " +
	"statement-level illegal (:method in {GET,PUT,post,'',CONNECT,...} or missing; content-type invalid/missing; grpc-timeout malformed (C07 counter-grammar) alone or next to a valid one; duplicate :authority, duplicate host without :authority; undecodable base64 in -bin), " +
	"unclassified (connection header, valid+invalid content-type, duplicate host besides :authority, missing :path/:scheme) and HTTP/2-malformed blocks (upper-case / invalid names, control bytes, pseudo after regular, unknown / duplicate pseudo), header lists above MaxHeaderListSize; " +
	"stream ids: next, gaps, even, decreasing, repeated, 2^31-1, 0; END_STREAM, CONTINUATION splits, padding/priority flags; bursts beyond MaxConcurrentStreams in {1,2,5,100}; application finishes (status / header+status / header+message+status), client RST_STREAM and DATA (ok, after END_STREAM, beyond the window, unknown/even streams) racing with requests, virtual-time sleeps (grpc-timeout expiry), WINDOW_UPDATE, SETTINGS, PING, unknown frames, PRIORITY, GOAWAY; " +
	"the last 5..40% of a script may also contain connection-fatal frames (illegal ids, DATA on stream 0, invalid SETTINGS, PING floods, orphan CONTINUATION, oversize frames, garbage, HTTP/1, a second preface) and raw byte mutations (after which only the crash oracle applies); 35% of the steps are sent without waiting for quiescence. " +
	"non-trivial = at least one statement-level illegal request was sent on a live, untainted connection and the handler ran for at least one fully legal request of the same connection"

func TestVerifC12Transport(t *testing.T) {
	vk.Check(t, vk.Unit[Plan]{ID: "C12", Name: "transport", Rule: "real http2Server (transport.NewServerTransport + HandleStreams over vpipe) vs scripted client; " + ruleCommon,
		Gen: genPlan(vk.Pick(40, 80)), Run: func(t *testing.T, p Plan) vk.Result { return toResult(runTransport(t, p)) }})
}

func TestVerifC12Server(t *testing.T) {
	vk.Check(t, vk.Unit[Plan]{ID: "C12", Name: "server", Rule: "real grpc.Server (Serve on a vpipe listener, UnknownServiceHandler as invocation log, MaxConcurrentStreams option) vs scripted client; " + ruleCommon,
		Gen: genPlan(vk.Pick(40, 80)), Run: func(t *testing.T, p Plan) vk.Result { return toResult(runServer(t, p)) }})
}

// ---- native fuzz target: literal client bytes after the preface ----

func fuzzPlan(data []byte) (Plan, bool) {
	if len(data) < 3 || len(data) > 1<<16 {
		return Plan{}, false
	}
	p := Plan{MaxStreams: []uint32{1, 2, 5, 100}[data[0]&3]}
	chunks := 1 + int(data[0]>>2&3)
	switch data[1] & 3 {
	case 1:
		p.ReadSizes = []int{1}
	case 2:
		p.ReadSizes = []int{7, 3}
	}
	if data[1]&4 != 0 {
		p.MaxHdr = 600
	}
	body := data[2:]
	for i := 0; i < chunks; i++ {
		lo, hi := len(body)*i/chunks, len(body)*(i+1)/chunks
		if hi > lo {
			p.Script = append(p.Script, Step{K: kRaw, Var: "fuzz", Fatal: true, B: body[lo:hi]})
		}
	}
	return p, true
}

func fuzzSeeds() [][]byte {
	w := newWire()
	req := func(id uint32, path string, es bool, extra ...HF) []byte {
		h := append([]HF{{":method", "POST"}, {":scheme", "http"}, {":path", path}, {":authority", "vf"}, {"content-type", "application/grpc"}, {"te", "trailers"}}, extra...)
		return w.headers(id, w.block(h), es, nil, 0, false)
	}
	var seeds [][]byte
	add := func(h0, h1 byte, parts ...[]byte) {
		b := []byte{h0, h1}
		for _, p := range parts {
			b = append(b, p...)
		}
		seeds = append(seeds, b)
	}
	add(0, 0, req(1, "/vf/a", false), dataFrames(1, grpcMsg(10), true, 0, 16384), req(3, "/vf/b", true))
	add(1, 0, req(1, "/vf/a", false), req(3, "/vf/b", false), req(5, "/vf/c", false), frame(ftRST, 0, 1, []byte{0, 0, 0, 8}), req(7, "/vf/d", true))
	add(2, 1, req(1, "/vf/a", false, HF{"grpc-timeout", "1S"}), req(3, "/vf/b", false, HF{"grpc-timeout", "bad"}), req(5, "/vf/c", false, HF{"x-bin", "!!"}), req(2, "/vf/even", false), req(3, "/vf/rep", false))
	add(3, 4, req(1, "/vf/big", false, HF{"x-big", strings.Repeat("b", 900)}), req(3, "/vf/ok", true))
	add(0, 0, w.headers(1, w.block([]HF{{":method", "GET"}, {":path", "/x"}, {"content-type", "text/html"}, {"connection", "close"}, {"host", "a"}, {"host", "b"}}), true, []int{3, 5}, 7, true))
	add(0, 0, frame(ftPing, 0, 0, make([]byte, 8)), frame(ftPing, 0, 0, make([]byte, 8)), frame(ftPing, 0, 0, make([]byte, 8)), frame(ftPing, 0, 0, make([]byte, 8)), frame(ftSettings, 0, 0, []byte{0, 4, 0, 0, 0, 0}), frame(ftWindowUpdate, 0, 0, []byte{0, 0, 0, 0}))
	add(0, 0, frame(ftData, 0, 1, []byte("idle")), frame(ftContinuation, flEndHeaders, 1, []byte{0x82}), frame(ftGoAway, 0, 0, make([]byte, 8)), frame(0x42, 0xff, 3, []byte("unknown")), frame(ftPriority, 0, 1, []byte{0, 0, 0, 0, 1}), frame(ftPushPromise, flEndHeaders, 1, []byte{0, 0, 0, 2, 0x82}))
	return seeds
}

var fuzzUnit = vk.Unit[Plan]{ID: "C12", Name: "fuzz_transport",
	Rule: "native go fuzzing over the literal bytes the client writes after preface + SETTINGS against a real http2Server (MaxStreams 1/2/5/100, optional 1-byte read segmentation and 600-byte MaxHeaderListSize, 1..4 write chunks); crash oracle only (header state of raw bytes is unknown to the harness)",
	Run:  func(t *testing.T, p Plan) vk.Result { return toResult(runTransport(t, p)) }}

func FuzzVerifC12(f *testing.F) { vk.Fuzz(f, fuzzUnit, fuzzSeeds(), fuzzPlan) }

// TestVerifC12FuzzReplay re-executes a replay file written by the fuzz target.
func TestVerifC12FuzzReplay(t *testing.T) {
	if os.Getenv("VERIF_REPLAY") == "" {
		t.Skip("replay only")
	}
	u := fuzzUnit
	u.Gen = genPlan(10)
	vk.Check(t, u)
}
