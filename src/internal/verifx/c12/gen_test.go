package c12_test

import (
	"fmt"
	"strings"

	"google.golang.org/grpc/internal/verifkit/vk"
	"pgregory.net/rapid"
)

// rapid's integer generators and SampledFrom are biased towards small values
// (geometric bit length); grammar choices must be uniform, so they are built
// from unbiased coin flips. Everything still shrinks towards alternative 0.
func uni(rt *rapid.T, label string, n int) int {
	if n <= 1 {
		return 0
	}
	bitsN := 6
	for v := n - 1; v > 0; v >>= 1 {
		bitsN++
	}
	bs := rapid.SliceOfN(rapid.Bool(), bitsN, bitsN).Draw(rt, label)
	x := 0
	for _, b := range bs {
		x <<= 1
		if b {
			x |= 1
		}
	}
	return x % n
}

func pick[T any](rt *rapid.T, label string, vs ...T) T { return vs[uni(rt, label, len(vs))] }
func intn(rt *rapid.T, label string, lo, hi int) int  { return lo + uni(rt, label, hi-lo+1) }
func chance(rt *rapid.T, label string, pct int) bool  { return uni(rt, label, 100) < pct }

var (
	badMethods  = []string{"GET", "PUT", "post", "Post", "", "POST ", " POST", "CONNECT", "OPTIONS", "HEAD", "DELETE", "POSTX", "P"}
	badCTs      = []string{"text/html", "application/json", "application/grpcweb", "application/grpc-web", "", "application/grp", "Application/grpc", "application/GRPC", "application/grpc ", " application/grpc", "application/grpc/proto", "application/grpc_proto", "grpc"}
	goodCTs     = []string{"application/grpc", "application/grpc+proto", "application/grpc+vfraw", "application/grpc;charset=utf-8", "application/grpc+", "application/grpc;"}
	badTimeouts = []string{"", "S", "1", "5", "1s", "1h", "1 S", " 1S", "1S ", "-1S", "+1S", "1.5S", "0x1S", "123456789S", "1234567890", "1SS", "S1", "١S", "1µ", "999999999999999999999H", "1e3m", "1_0S"}
	okTimeouts  = []string{"1S", "10S", "100m", "1H", "99999999H", "99999999n", "5M", "20m", "1m", "1u", "1n", "0S", "0n", "00000001S"}
	badBins     = []string{"!!!!", "a", "ab=c", "====", "A===", "YWJj=", "YW Jj", "YWJj\t", "*", "YQ=", "YWJjZA=", "-_-_"}
	okBins      = []string{"YWJj", "YQ", "YQ==", "", "AAAA", "/+/+", "YWJjZA", "YWJjZA=="}
)

type defect func(rt *rapid.T, h []HF) []HF

func setField(h []HF, name, val string) []HF {
	out := append([]HF(nil), h...)
	for i := range out {
		if out[i].N == name {
			out[i].V = val
			return out
		}
	}
	return append(out, HF{name, val})
}

func dropField(h []HF, name string) []HF {
	var out []HF
	for _, f := range h {
		if f.N != name {
			out = append(out, f)
		}
	}
	return out
}

func insertAfterPseudo(h []HF, f HF) []HF {
	i := 0
	for i < len(h) && strings.HasPrefix(h[i].N, ":") {
		i++
	}
	out := append([]HF(nil), h[:i]...)
	out = append(out, f)
	return append(out, h[i:]...)
}

func insertPseudo(h []HF, f HF, at int) []HF {
	n := 0
	for n < len(h) && strings.HasPrefix(h[n].N, ":") {
		n++
	}
	at = at % (n + 1)
	out := append([]HF(nil), h[:at]...)
	out = append(out, f)
	return append(out, h[at:]...)
}

// defects the statement classifies as illegal.
var illegalDefects = map[string]defect{
	"method_bad":     func(rt *rapid.T, h []HF) []HF { return setField(h, ":method", pick(rt, "bm", badMethods...)) },
	"method_missing": func(rt *rapid.T, h []HF) []HF { return dropField(h, ":method") },
	"ct_bad":         func(rt *rapid.T, h []HF) []HF { return setField(h, "content-type", pick(rt, "bct", badCTs...)) },
	"ct_missing":     func(rt *rapid.T, h []HF) []HF { return dropField(h, "content-type") },
	"ct_two_bad": func(rt *rapid.T, h []HF) []HF {
		return append(setField(h, "content-type", pick(rt, "bct", badCTs...)), HF{"content-type", pick(rt, "bct2", badCTs...)})
	},
	"timeout_bad": func(rt *rapid.T, h []HF) []HF { return append(h, HF{"grpc-timeout", pick(rt, "bt", badTimeouts...)}) },
	"timeout_bad_then_ok": func(rt *rapid.T, h []HF) []HF {
		return append(h, HF{"grpc-timeout", pick(rt, "bt", badTimeouts...)}, HF{"grpc-timeout", pick(rt, "ot", okTimeouts...)})
	},
	"timeout_ok_then_bad": func(rt *rapid.T, h []HF) []HF {
		return append(h, HF{"grpc-timeout", pick(rt, "ot", okTimeouts...)}, HF{"grpc-timeout", pick(rt, "bt", badTimeouts...)})
	},
	"authority_dup": func(rt *rapid.T, h []HF) []HF {
		return insertPseudo(h, HF{":authority", pick(rt, "a2", "vf", "other", "")}, intn(rt, "at", 0, 5))
	},
	"host_dup_no_authority": func(rt *rapid.T, h []HF) []HF {
		return append(dropField(h, ":authority"), HF{"host", "a"}, HF{"host", pick(rt, "h2", "a", "b")})
	},
	"bin_bad": func(rt *rapid.T, h []HF) []HF {
		return append(h, HF{pick(rt, "bk", "x-data-bin", "grpc-status-details-bin", "grpc-trace-bin", "a-bin", "-bin"), pick(rt, "bb", badBins...)})
	},
	"bin_ok_and_bad": func(rt *rapid.T, h []HF) []HF {
		return append(h, HF{"x-a-bin", pick(rt, "ob", okBins...)}, HF{"x-b-bin", pick(rt, "bb", badBins...)})
	},
}

// benign variations (legal requests) and shapes the statement does not classify.
var neutralDefects = map[string]defect{
	"ct_variant":  func(rt *rapid.T, h []HF) []HF { return setField(h, "content-type", pick(rt, "gct", goodCTs...)) },
	"timeout_ok":  func(rt *rapid.T, h []HF) []HF { return append(h, HF{"grpc-timeout", pick(rt, "ot", okTimeouts...)}) },
	"timeout_two_ok": func(rt *rapid.T, h []HF) []HF {
		return append(h, HF{"grpc-timeout", pick(rt, "ot", okTimeouts...)}, HF{"grpc-timeout", pick(rt, "ot2", okTimeouts...)})
	},
	"bin_ok":      func(rt *rapid.T, h []HF) []HF { return append(h, HF{"x-data-bin", pick(rt, "ob", okBins...)}) },
	"host_only":   func(rt *rapid.T, h []HF) []HF { return append(dropField(h, ":authority"), HF{"host", "vf"}) },
	"host_and_authority": func(rt *rapid.T, h []HF) []HF { return append(h, HF{"host", "other"}) },
	"no_authority": func(rt *rapid.T, h []HF) []HF { return dropField(h, ":authority") },
	"no_te":       func(rt *rapid.T, h []HF) []HF { return dropField(h, "te") },
	"te_other":    func(rt *rapid.T, h []HF) []HF { return setField(h, "te", pick(rt, "te", "gzip", "", "trailers, deflate")) },
	"metadata": func(rt *rapid.T, h []HF) []HF {
		return append(h, HF{pick(rt, "mk", "x-a", "user-agent", "grpc-encoding", "grpc-accept-encoding", "grpc-message-type", "x-b"), pick(rt, "mv", "v", "", "identity", "gzip", "bogus", strings.Repeat("z", 200))})
	},
	"permute_regular": func(rt *rapid.T, h []HF) []HF {
		n := 0
		for n < len(h) && strings.HasPrefix(h[n].N, ":") {
			n++
		}
		reg := rapid.Permutation(append([]HF(nil), h[n:]...)).Draw(rt, "perm")
		return append(append([]HF(nil), h[:n]...), reg...)
	},
	"permute_pseudo": func(rt *rapid.T, h []HF) []HF {
		n := 0
		for n < len(h) && strings.HasPrefix(h[n].N, ":") {
			n++
		}
		ps := rapid.Permutation(append([]HF(nil), h[:n]...)).Draw(rt, "perm")
		return append(ps, h[n:]...)
	},
	// not classified by the statement:
	"connection_header": func(rt *rapid.T, h []HF) []HF { return append(h, HF{"connection", pick(rt, "cv", "keep-alive", "close", "")}) },
	"ct_mixed": func(rt *rapid.T, h []HF) []HF {
		if chance(rt, "first", 50) {
			return insertAfterPseudo(h, HF{"content-type", pick(rt, "bct", badCTs...)})
		}
		return append(h, HF{"content-type", pick(rt, "bct", badCTs...)})
	},
	"host_dup_with_authority": func(rt *rapid.T, h []HF) []HF { return append(h, HF{"host", "a"}, HF{"host", "b"}) },
	"path_missing":            func(rt *rapid.T, h []HF) []HF { return dropField(h, ":path") },
	"scheme_missing":          func(rt *rapid.T, h []HF) []HF { return dropField(h, ":scheme") },
	// malformed at the HTTP/2 level:
	"h2_uppercase_name": func(rt *rapid.T, h []HF) []HF { return append(h, HF{pick(rt, "un", "X-Upper", "Content-Type", "Grpc-Timeout"), "v"}) },
	"h2_bad_value":      func(rt *rapid.T, h []HF) []HF { return append(h, HF{"x-v", pick(rt, "bv", "a\x00b", "a\nb", "a\rb", "\x7f", "\x01")}) },
	"h2_bad_name":       func(rt *rapid.T, h []HF) []HF { return append(h, HF{pick(rt, "bn", "x v", "x\x00", "", "x-é", "x:y", "x(y)"), "v"}) },
	"h2_pseudo_after_regular": func(rt *rapid.T, h []HF) []HF {
		i := intn(rt, "which", 0, 3)
		if i >= len(h) || !strings.HasPrefix(h[i].N, ":") {
			i = 0
		}
		out := append([]HF(nil), h[:i]...)
		out = append(out, h[i+1:]...)
		return append(out, h[i])
	},
	"h2_unknown_pseudo": func(rt *rapid.T, h []HF) []HF { return insertPseudo(h, HF{pick(rt, "up", ":foo", ":", ":status", ":Method"), "x"}, intn(rt, "at", 0, 5)) },
	"h2_dup_pseudo": func(rt *rapid.T, h []HF) []HF {
		return insertPseudo(h, HF{pick(rt, "dp", ":method", ":path", ":scheme"), pick(rt, "dv", "POST", "GET", "/vf/dup", "http")}, intn(rt, "at", 0, 5))
	},
}

func keysOf(m map[string]defect) []string {
	var ks []string
	for k := range m {
		ks = append(ks, k)
	}
	// deterministic order
	for i := range ks {
		for j := i + 1; j < len(ks); j++ {
			if ks[j] < ks[i] {
				ks[i], ks[j] = ks[j], ks[i]
			}
		}
	}
	return ks
}

var (
	illegalKeys = keysOf(illegalDefects)
	neutralKeys = keysOf(neutralDefects)
)

func genReq(rt *rapid.T, seq int, maxHdr int, fatalOK bool) *Req {
	r := &Req{ID: "next"}
	h := []HF{{":method", "POST"}, {":scheme", "http"}, {":path", fmt.Sprintf("/vf/r%d", seq)}, {":authority", "vf"}, {"content-type", "application/grpc"}, {"te", "trailers"}}
	// header-level shape
	w := uni(rt, "shape", 100)
	switch {
	case w < 38: // plain legal
	case w < 55: // legal with benign variations
		for i, n := 0, intn(rt, "nvar", 1, 3); i < n; i++ {
			k := neutralKeys[uni(rt, "nk", len(neutralKeys))]
			if strings.HasPrefix(k, "h2_") || k == "connection_header" || k == "ct_mixed" || k == "host_dup_with_authority" || k == "path_missing" {
				k = "metadata"
			}
			h = neutralDefects[k](rt, h)
			r.Shape = append(r.Shape, k)
		}
	case w < 85: // one (sometimes two) statement-level illegal defects, sometimes mixed with neutral ones
		for i, n := 0, 1+uni(rt, "nill", 4)/3; i < n; i++ {
			k := illegalKeys[uni(rt, "ik", len(illegalKeys))]
			h = illegalDefects[k](rt, h)
			r.Shape = append(r.Shape, k)
		}
		if chance(rt, "plusneutral", 30) {
			k := neutralKeys[uni(rt, "nk", len(neutralKeys))]
			h = neutralDefects[k](rt, h)
			r.Shape = append(r.Shape, k)
		}
	default: // unclassified / HTTP/2-malformed shapes
		k := neutralKeys[uni(rt, "nk2", len(neutralKeys))]
		h = neutralDefects[k](rt, h)
		r.Shape = append(r.Shape, k)
	}
	if maxHdr > 0 && chance(rt, "oversize", 8) {
		// 3x the limit is rejected per stream (Truncated); the framer treats a fragment larger than twice the remaining budget as a connection error.
		n := maxHdr + maxHdr/4
		if fatalOK && chance(rt, "way_over", 30) {
			n = 3 * maxHdr
		}
		h = append(h, HF{"x-big", strings.Repeat("b", n)})
		r.Shape = append(r.Shape, "oversize")
	}
	r.H = h
	// stream id
	iw := uni(rt, "idw", 100)
	switch {
	case !fatalOK || iw < 60:
		r.ID = "next"
		if iw%7 == 0 {
			r.ID, r.K = "gap", intn(rt, "gap", 1, 5)
		}
	case iw < 68:
		r.ID, r.K = "even", intn(rt, "k", 0, 60)
	case iw < 78:
		r.ID, r.K = "dec", intn(rt, "k", 0, 5)
	case iw < 88:
		r.ID, r.K = "rep", intn(rt, "k", 0, 30)
	case iw < 93:
		r.ID, r.K = "huge", intn(rt, "k", 0, 2)
	case iw < 96:
		r.ID = "zero"
	default:
		r.ID, r.K = "gap", intn(rt, "gap", 1, 1000)
	}
	r.ES = chance(rt, "es", 30)
	if chance(rt, "frags", 15) {
		r.Frags = []int{intn(rt, "f0", 1, 30), intn(rt, "f1", 1, 200)}
	}
	if chance(rt, "padprio", 10) {
		r.Pad, r.Prio = intn(rt, "pad", 0, 100), chance(rt, "prio", 50)
	}
	return r
}

func genMuts(rt *rapid.T) []Mut {
	var ms []Mut
	for i, n := 0, intn(rt, "nmut", 1, 3); i < n; i++ {
		ms = append(ms, Mut{K: pick(rt, "mutk", "flip", "flip", "set", "trunc", "drop", "ins", "dup"), Off: intn(rt, "mutoff", 0, 4000), Len: intn(rt, "mutlen", 1, 40), X: intn(rt, "mutx", 0, 255)})
	}
	return ms
}

func genPlan(maxSteps int) func(rt *rapid.T) Plan {
	return func(rt *rapid.T) Plan {
		p := Plan{MaxStreams: pick(rt, "maxstreams", uint32(1), 2, 5, 100)}
		if chance(rt, "maxhdr", 20) {
			p.MaxHdr = pick(rt, "mh", 1024, 4096, 600)
		}
		if chance(rt, "seg", 30) {
			p.ReadSizes = pick(rt, "rs", []int{1}, []int{2, 7}, []int{9}, []int{5, 1, 100}, []int{16384, 3})
		}
		if chance(rt, "peerss", 20) {
			p.PeerSS = []int64{pick(rt, "pid", int64(4), 1, 3, 5, 6, 2), pick(rt, "pval", int64(65535), 0, 1, 1<<20, 16384, 100)}
			if p.PeerSS[0] == 5 {
				p.PeerSS[1] = 16384
			}
			if p.PeerSS[0] == 2 {
				p.PeerSS[1] = 0
			}
		}
		// Starved server: the client grants (almost) no stream window, so whatever the handlers write stays queued
		// and finished streams stay registered.
		starved := chance(rt, "starved", 20)
		if starved {
			p.PeerSS = []int64{4, pick(rt, "tiny_iws", int64(0), 0, 1, 10)}
		}
		n := intn(rt, "nsteps", 10, maxSteps)
		fatalFrom := n * intn(rt, "fatal_from_pct", 60, 95) / 100
		seq := 0
		for i := 0; i < n; i++ {
			fatalOK := i >= fatalFrom
			var st Step
			w := uni(rt, "w", 100)
			switch {
			case w < 50 || seq == 0:
				st = Step{K: kReq, R: genReq(rt, seq, p.MaxHdr, fatalOK)}
				seq++
			case w < 60:
				st = Step{K: kFinish, S: intn(rt, "s", 0, 7), F: intn(rt, "fv", 0, 2), V: pick(rt, "code", int64(0), 0, 2, 14)}
				if starved {
					st.F = 2
				}
			case w < 68:
				st = Step{K: kRST, M: pick(rt, "rm", mLive, mLive, mSent, mSent, mIdle), S: intn(rt, "s", 0, 30), V: pick(rt, "rc", int64(8), 0, 2, 5, 7, 0xffffffff)}
			case w < 78:
				st = Step{K: kData, M: pick(rt, "dm", mLive, mLive, mLive, mSent, mSent, mIdle, mEven), S: intn(rt, "s", 0, 30), N: pick(rt, "dn", 0, 5, 100, 5000, 16379, 40000, 70000), ES: chance(rt, "es", 40)}
				if chance(rt, "dpad", 15) {
					st.Pad = intn(rt, "pad", 1, 256)
				}
				if chance(rt, "ddone", 25) { // DATA (often empty, END_STREAM, repeated) on a stream the application already finished
					st.M, st.ES, st.F, st.N = mDone, chance(rt, "es2", 85), pick(rt, "rep", 2, 1, 3), pick(rt, "dn2", 0, 0, 5)
					if chance(rt, "empty", 60) {
						st.Var = "empty"
					}
				}
				if fatalOK && chance(rt, "dfatal", 15) {
					st.Var, st.M, st.Fatal = "stream_zero", mZero, true
				}
			case w < 82:
				st = Step{K: kSleep, N: pick(rt, "sleep", 1, 1, 10, 100, 1000, 20)}
			case w < 85:
				st = Step{K: kWU, M: pick(rt, "wm", mConn, mLive, mSent, mIdle), S: intn(rt, "s", 0, 30), N: pick(rt, "inc", 1, 1000, 65535, 1<<31-1, 0)}
				if st.N == 0 && st.M == mConn {
					st.Fatal = true
					if !fatalOK {
						st.N = 1
						st.Fatal = false
					}
				}
			case w < 88:
				st = Step{K: kSettings, SS: []int64{pick(rt, "sid", int64(4), 1, 3, 6, 9), pick(rt, "sval", int64(65535), 0, 1, 100, 1<<20, 1<<31-1)}}
				if fatalOK && chance(rt, "sbad", 30) {
					st.Var, st.SS, st.Fatal = "invalid", pick(rt, "sb", []int64{4, 1 << 31}, []int64{2, 2}, []int64{5, 1}), true
				}
			case w < 91:
				st = Step{K: kPing, N: pick(rt, "np", 1, 1, 2, 3), V: int64(pick(rt, "pa", 0, 0, 1))}
				if fatalOK && chance(rt, "pflood", 40) {
					st.Var, st.N, st.Fatal = "flood", intn(rt, "flood", 4, 50), true
				}
			case w < 95:
				st = Step{K: kFrame, Var: "unknown_type", F: intn(rt, "ft", 0x0a, 0xff), V: int64(intn(rt, "fl", 0, 255)), M: pick(rt, "fm", mConn, mLive, mIdle), S: intn(rt, "s", 0, 30), B: rapid.SliceOfN(rapid.Byte(), 0, 30).Draw(rt, "fb")}
				if st.F == 0x10 { // PRIORITY_UPDATE (RFC 9218) is known to the framer: off stream 0 / short payload = connection error
					if fatalOK {
						st.Var, st.Fatal = "priority_update", true
					} else {
						st.F = 0x11
					}
				}
				switch uni(rt, "fk", 6) {
				case 0:
					st.Var, st.F, st.V, st.B, st.Fatal = "priority", ftPriority, 0, []byte{0, 0, 0, 0, 3}, false
					if st.M == mConn {
						st.M = mIdle
					}
				case 1:
					st.Var, st.F, st.V, st.M, st.Fatal = "goaway", ftGoAway, 0, mConn, false
					st.B = []byte{0, 0, 0, byte(intn(rt, "gl", 0, 9)), 0, 0, 0, byte(intn(rt, "gc", 0, 13))}
				case 2:
					if fatalOK {
						st.Var, st.F, st.Fatal = "continuation_orphan", ftContinuation, true
					}
				case 3:
					if fatalOK {
						st.Var, st.F, st.N, st.Fatal = "frame_too_large", pick(rt, "tl", ftData, ftHeaders, ftPing), 1+pick(rt, "decl", 16385, 1<<20), true
					}
				}
			case !fatalOK:
				st = Step{K: kReq, R: genReq(rt, seq, p.MaxHdr, false)}
				seq++
			case w < 98:
				st = Step{K: kRaw, Fatal: true, Var: pick(rt, "rv", "garbage", "http1", "preface_again", "zeros")}
				switch st.Var {
				case "garbage":
					st.B = rapid.SliceOfN(rapid.Byte(), 1, 200).Draw(rt, "raw")
				case "http1":
					st.B = []byte("GET / HTTP/1.1\r\nHost: x\r\n\r\n")
				case "preface_again":
					st.B = []byte("PRI * HTTP/2.0\r\n\r\nSM\r\n\r\n")
				default:
					st.B = make([]byte, intn(rt, "nz", 1, 64))
				}
			default:
				st = Step{K: kReq, R: genReq(rt, seq, p.MaxHdr, true)}
				seq++
			}
			if fatalOK && st.K != kSleep && st.K != kFinish && chance(rt, "mut", 20) {
				st.Mut = genMuts(rt)
			}
			st.NW = chance(rt, "nw", 35)
			p.Script = append(p.Script, st)
		}
		return p
	}
}

var _ = vk.Tier
