package c40_test

// C40: outlier_detection_experimental vs a gRFC A50 reference model, two-sided
// (enforcement percentages 0 / 100), in a synctest bubble (interval timer and
// ejection times are virtual).
//
// The policy is driven through its registered builder with a recording
// ClientConn (fakecc) and a stub child (stubs) that keeps one SubConn per
// endpoint, registers a health listener on it when READY (ejection is
// signalled to the child through the health listener) and reports a picker
// that returns whatever SubConn the harness selects. Calls are simulated by
// Pick on the picker the policy forwarded to the parent + Done(err).
//
// Oracle (reference model written from A50 and the property statement): after
// every timer firing the set of endpoints the child sees as ejected must equal
// the model's set, up to the arbitrary choice of *which* candidates are
// ejected when max_ejection_percent binds (the statement fixes the number, the
// iteration order is unspecified). Borderline numeric cases (success rate
// within 1e-9 of the threshold, failure percentage exactly at the threshold,
// ejection time elapsed exactly at a firing) are treated as "either outcome"
// and the model adopts what was observed.

import (
	"errors"
	"fmt"
	"math"
	"sort"
	"sync"
	"testing"
	"testing/synctest"
	"time"

	"google.golang.org/grpc/balancer"
	"google.golang.org/grpc/connectivity"
	iserviceconfig "google.golang.org/grpc/internal/serviceconfig"
	"google.golang.org/grpc/internal/verifkit/fakecc"
	"google.golang.org/grpc/internal/verifkit/stubs"
	"google.golang.org/grpc/internal/verifkit/vk"
	"google.golang.org/grpc/internal/xds/balancer/outlierdetection"
	"google.golang.org/grpc/resolver"
	"pgregory.net/rapid"
)

const interval = 10 * time.Second

type srP struct {
	Stdev    int `json:"stdev"`
	Enf      int `json:"enf"`
	MinHosts int `json:"min_hosts"`
	ReqVol   int `json:"req_vol"`
}

type fpP struct {
	Threshold int `json:"threshold"`
	Enf       int `json:"enf"`
	MinHosts  int `json:"min_hosts"`
	ReqVol    int `json:"req_vol"`
}

type cfgP struct {
	SR     *srP `json:"sr,omitempty"`
	FP     *fpP `json:"fp,omitempty"`
	MaxPct int  `json:"max_pct"`
	BaseMs int  `json:"base_ms"`
	MaxMs  int  `json:"max_ms"`
}

const (
	stInterval = iota // simulate calls, then let one interval pass
	stConfig
	stResolver
	stShortAdvance
	stRecreate // the child re-creates the SubConn of one endpoint
)

type step struct {
	K     int      `json:"k"`
	Calls [][2]int `json:"calls,omitempty"` // per current endpoint (sorted by id): successes, failures
	Cfg   *cfgP    `json:"cfg,omitempty"`
	Eps   []int    `json:"eps,omitempty"`
	A     int      `json:"a,omitempty"`
}

type plan struct {
	Init    cfgP   `json:"init"`
	InitEps []int  `json:"init_eps"`
	Steps   []step `json:"steps"`
}

func genCfg(rt *rapid.T) cfgP {
	c := cfgP{
		MaxPct: []int{100, 50, 34, 10, 0, 67, 25}[fakecc.Weighted(rt, "maxpct", 25, 25, 15, 10, 5, 10, 10)],
		BaseMs: []int{7000, 13000, 27000, 1000}[fakecc.Uniform(rt, "base", 4)],
		MaxMs:  []int{33000, 101000, 3000, 300000}[fakecc.Uniform(rt, "maxej", 4)],
	}
	alg := fakecc.Weighted(rt, "alg", 40, 38, 8, 14) // fp, sr, none, both
	if alg == 0 || alg == 3 {
		c.FP = &fpP{Threshold: []int{50, 85, 0, 30, 99, 100}[fakecc.Weighted(rt, "thr", 40, 20, 10, 15, 10, 5)],
			Enf: []int{100, 0}[fakecc.Weighted(rt, "enf", 85, 15)], MinHosts: fakecc.Uniform(rt, "mh", 2), ReqVol: 1 + fakecc.Uniform(rt, "rv", 8)}
	}
	if alg == 1 || alg == 3 {
		c.SR = &srP{Stdev: []int{1900, 1000, 500, 0, 3000}[fakecc.Weighted(rt, "stdev", 25, 30, 25, 10, 10)],
			Enf: []int{100, 0}[fakecc.Weighted(rt, "enf", 85, 15)], MinHosts: fakecc.Uniform(rt, "mh", 5), ReqVol: 1 + fakecc.Uniform(rt, "rv", 8)}
	}
	return c
}

func genEps(rt *rapid.T, cur []int) []int {
	switch m := fakecc.Weighted(rt, "epmut", 40, 30, 30); {
	case len(cur) == 0 || m == 2:
		var out []int
		for x := 0; x < 8; x++ {
			if fakecc.Uniform(rt, "in", 8) < 5 {
				out = append(out, x)
			}
		}
		if len(out) == 0 {
			out = []int{fakecc.Uniform(rt, "one", 8)}
		}
		return out
	case m == 0 && len(cur) > 1: // remove one or two
		out := append([]int(nil), cur...)
		for k := 0; k < 1+fakecc.Uniform(rt, "two", 2) && len(out) > 1; k++ {
			at := fakecc.Uniform(rt, "del", len(out))
			out = append(out[:at], out[at+1:]...)
		}
		return out
	default: // add one or two (possibly re-adding a removed one)
		set := map[int]bool{}
		for _, x := range cur {
			set[x] = true
		}
		for k := 0; k < 1+fakecc.Uniform(rt, "two", 2); k++ {
			set[fakecc.Uniform(rt, "add", 8)] = true
		}
		var out []int
		for x := range set {
			out = append(out, x)
		}
		sort.Ints(out)
		return out
	}
}

func genPlan(rt *rapid.T) plan {
	p := plan{Init: genCfg(rt)}
	if p.Init.SR == nil && p.Init.FP == nil { // start with an active config most of the time
		p.Init = genCfg(rt)
	}
	p.InitEps = genEps(rt, nil)
	cur := p.InitEps
	n := 5 + fakecc.Uniform(rt, "n", vk.Pick(16, 36))
	for i := 0; i < n; i++ {
		var s step
		switch fakecc.Weighted(rt, "kind", 60, 10, 18, 6, 6) {
		case 0:
			s.K = stInterval
			// per-interval traffic profile: most endpoints good, some bad, some silent
			for range cur {
				var c [2]int
				switch fakecc.Weighted(rt, "quality", 50, 30, 10, 10) {
				case 0:
					c = [2]int{4 + fakecc.Uniform(rt, "s", 8), fakecc.Uniform(rt, "f", 2)}
				case 1:
					c = [2]int{fakecc.Uniform(rt, "s", 3), 4 + fakecc.Uniform(rt, "f", 8)}
				case 2:
					c = [2]int{fakecc.Uniform(rt, "s", 6), fakecc.Uniform(rt, "f", 6)}
				}
				s.Calls = append(s.Calls, c)
			}
		case 1:
			s.K = stConfig
			c := genCfg(rt)
			s.Cfg = &c
		case 2:
			s.K = stResolver
			cur = genEps(rt, cur)
			s.Eps = cur
		case 3:
			s.K = stShortAdvance
		default:
			s.K = stRecreate
			s.A = fakecc.Uniform(rt, "slot", 8)
		}
		p.Steps = append(p.Steps, s)
	}
	return p
}

// ---------------------------------------------------------------- model

type mEndpoint struct {
	multAlt   int // multiplier if an endpoint failing both criteria in one interval is ejected twice (A50 is silent)
	mult      int
	ejected   bool
	ejectedAt time.Duration
	s, f      int // active bucket
}

type model struct {
	cfg        cfgP
	eps        map[int]*mEndpoint
	now        time.Duration
	timerOn    bool
	timerStart time.Duration
	nextFire   time.Duration
	// leak: endpoints removed by a resolver update while ejected (anticipated
	// defect: the implementation's ejected-count is not decremented for them).
	leak int
	// statistics
	extra, dblMult                                                                                           int
	ejections, unejections, blocked, removedEjected, readded, noopUnejects, fires, uncertain, recreatedEjected int
	setChangeWhileEjected                                                                                     bool
}

func (m *model) noop() bool { return m.cfg.SR == nil && m.cfg.FP == nil }

func (m *model) sortedIDs() []int {
	var out []int
	for id := range m.eps {
		out = append(out, id)
	}
	sort.Ints(out)
	return out
}

func (m *model) numEjected() int {
	n := 0
	for _, e := range m.eps {
		if e.ejected {
			n++
		}
	}
	return n
}

// applyConfig models UpdateClientConnState(cfg, endpoints).
func (m *model) applyConfig(cfg cfgP, eps []int) {
	m.cfg = cfg
	anyEjected := m.numEjected() > 0
	want := map[int]bool{}
	changed := false
	for _, id := range eps {
		want[id] = true
		if m.eps[id] == nil {
			changed = len(m.eps) > 0 || changed
			m.eps[id] = &mEndpoint{}
		}
	}
	for id, e := range m.eps {
		if !want[id] {
			changed = true
			if e.ejected {
				m.removedEjected++
				m.leak++
			}
			delete(m.eps, id)
		}
	}
	if changed && anyEjected {
		m.setChangeWhileEjected = true
	}
	if m.noop() {
		m.timerOn = false
		m.timerStart = -1
		for _, e := range m.eps {
			if e.ejected {
				e.ejected = false
				m.noopUnejects++
			}
			e.mult, e.multAlt = 0, 0
		}
		return
	}
	if !m.timerOn || m.timerStart < 0 {
		m.timerStart = m.now
		for _, e := range m.eps {
			e.s, e.f = 0, 0
		}
	}
	m.timerOn = true
	m.nextFire = m.timerStart + interval
	if m.nextFire < m.now {
		m.nextFire = m.now
	}
}

// fireResult is what the model predicts for one timer firing.
type fireResult struct {
	candidates map[int]bool // fail the criterion (and have the volume): may be ejected
	uncertain  map[int]bool // numerically borderline: either outcome
	capacity   int          // how many new ejections max_ejection_percent admits
	enforce    bool
	unejected  map[int]bool // must be un-ejected by this firing
	unejectAny map[int]bool // borderline elapsed time: either
	alg        string
	dbl        map[int]bool // fail both criteria (both enforced): the implementation may eject them twice
}

// fire advances the model over one timer firing at time t. bias is added to
// the ejected count used by the max_ejection_percent check (0 in the model of
// the statement; the anticipated defect behaves like bias = leak).
func (m *model) predict(bias int) fireResult {
	r := fireResult{candidates: map[int]bool{}, uncertain: map[int]bool{}, unejected: map[int]bool{}, unejectAny: map[int]bool{}}
	ids := m.sortedIDs()
	total := len(ids)
	r.dbl = map[int]bool{}
	srC, fpC := map[int]bool{}, map[int]bool{}
	if sr := m.cfg.SR; sr != nil {
		r.alg = "sr"
		var cand []int
		for _, id := range ids {
			if e := m.eps[id]; e.s+e.f >= sr.ReqVol {
				cand = append(cand, id)
			}
		}
		if len(cand) >= sr.MinHosts && len(cand) > 0 {
			var sum float64
			for _, id := range cand {
				e := m.eps[id]
				sum += float64(e.s) / float64(e.s+e.f)
			}
			mean := sum / float64(len(cand))
			var sq float64
			for _, id := range cand {
				e := m.eps[id]
				d := float64(e.s)/float64(e.s+e.f) - mean
				sq += d * d
			}
			stdev := math.Sqrt(sq / float64(len(cand)))
			thr := mean - stdev*float64(sr.Stdev)/1000
			for _, id := range cand {
				e := m.eps[id]
				rate := float64(e.s) / float64(e.s+e.f)
				switch {
				case sr.Enf != 100:
				case math.Abs(rate-thr) < 1e-9:
					r.uncertain[id] = true
				case rate < thr:
					srC[id] = true
				}
			}
		}
		r.enforce = r.enforce || sr.Enf == 100
	}
	if fp := m.cfg.FP; fp != nil {
		r.alg += "fp"
		var cand []int
		for _, id := range ids {
			if e := m.eps[id]; e.s+e.f >= fp.ReqVol {
				cand = append(cand, id)
			}
		}
		if len(cand) >= fp.MinHosts {
			for _, id := range cand {
				e := m.eps[id]
				lhs, rhs := e.f*100, fp.Threshold*(e.s+e.f) // exact: f/(s+f)*100 > threshold
				switch {
				case fp.Enf != 100:
				case lhs == rhs && e.s != 0 && e.f != 0:
					// f/(s+f)*100 is computed in floating point; for a proper
					// fraction that is exactly at the threshold the rounding may
					// go either way (0 and 100 percent are exact).
					r.uncertain[id] = true
				case lhs > rhs:
					fpC[id] = true
				}
			}
		}
		r.enforce = r.enforce || fp.Enf == 100
	}
	for id := range srC {
		r.candidates[id] = true
		if fpC[id] {
			r.dbl[id] = true
		}
	}
	for id := range fpC {
		r.candidates[id] = true
	}
	// capacity under "no ejection while ejected share >= max_ejection_percent"
	ej := m.numEjected() + bias
	for total > 0 && float64(ej+r.capacity)/float64(total)*100 < float64(m.cfg.MaxPct) && r.capacity < total {
		r.capacity++
	}
	return r
}

// ---------------------------------------------------------------- execution

type sub struct {
	ep         int
	sc         balancer.SubConn // as seen by the child (the policy's wrapper)
	lastHealth connectivity.State
	healthSeen bool
	registered bool
}

func run(t *testing.T, p plan) vk.Result {
	var res vk.Result
	msg := vk.Bubble(t, func(t *testing.T) { res = runInBubble(p) })
	if msg != "" && res.Violation == "" {
		return vk.Bad("bubble did not drain cleanly: %s", msg)
	}
	return res
}

func addrOf(id int) string { return fmt.Sprintf("10.4.0.%d:443", id) }

func toLB(c cfgP, child string) *outlierdetection.LBConfig {
	lb := &outlierdetection.LBConfig{
		Interval:           iserviceconfig.Duration(interval),
		BaseEjectionTime:   iserviceconfig.Duration(time.Duration(c.BaseMs) * time.Millisecond),
		MaxEjectionTime:    iserviceconfig.Duration(time.Duration(c.MaxMs) * time.Millisecond),
		MaxEjectionPercent: uint32(c.MaxPct),
		ChildPolicy:        &iserviceconfig.BalancerConfig{Name: child, Config: &stubs.Config{Raw: "od"}},
	}
	if c.SR != nil {
		lb.SuccessRateEjection = &outlierdetection.SuccessRateEjection{StdevFactor: uint32(c.SR.Stdev), EnforcementPercentage: uint32(c.SR.Enf), MinimumHosts: uint32(c.SR.MinHosts), RequestVolume: uint32(c.SR.ReqVol)}
	}
	if c.FP != nil {
		lb.FailurePercentageEjection = &outlierdetection.FailurePercentageEjection{Threshold: uint32(c.FP.Threshold), EnforcementPercentage: uint32(c.FP.Enf), MinimumHosts: uint32(c.FP.MinHosts), RequestVolume: uint32(c.FP.ReqVol)}
	}
	return lb
}

func runInBubble(p plan) (res vk.Result) {
	hub := stubs.NewHub()
	defer hub.Release()
	cc := fakecc.New(hub.Key())
	od := balancer.Get(outlierdetection.Name).Build(cc, hub.BuildOptions())
	defer func() {
		od.Close()
		synctest.Wait()
	}()

	var hmu sync.Mutex // guards subs, pickTarget (hooks run on the policy's goroutine)
	subs := map[int]*sub{}
	var pickTarget balancer.SubConn
	var theChild *stubs.Child
	var harnessErr string

	newSub := func(c *stubs.Child, id int) {
		sc, err := c.NewSubConn(resolver.Address{Addr: addrOf(id)})
		if err != nil {
			harnessErr = fmt.Sprintf("NewSubConn: %v", err)
			return
		}
		subs[id] = &sub{ep: id, sc: sc}
		sc.Connect()
	}
	hub.OnUpdate = func(c *stubs.Child, ccs balancer.ClientConnState) error {
		hmu.Lock()
		defer hmu.Unlock()
		first := theChild == nil
		theChild = c
		want := map[int]bool{}
		for _, ep := range ccs.ResolverState.Endpoints {
			var id int
			fmt.Sscanf(ep.Addresses[0].Addr, "10.4.0.%d:443", &id)
			want[id] = true
		}
		for id, s := range subs {
			if !want[id] {
				s.sc.Shutdown()
				delete(subs, id)
			}
		}
		ids := make([]int, 0, len(want))
		for id := range want {
			ids = append(ids, id)
		}
		sort.Ints(ids)
		for _, id := range ids {
			if subs[id] == nil {
				newSub(c, id)
			}
		}
		if first {
			pk := c.NewPicker(connectivity.Ready)
			pk.PickFn = func(balancer.PickInfo) (balancer.PickResult, error) {
				hmu.Lock()
				defer hmu.Unlock()
				return balancer.PickResult{SubConn: pickTarget}, nil
			}
			c.ReportPicker(pk)
		}
		return nil
	}
	hub.OnSubConnState = func(c *stubs.Child, sc balancer.SubConn, s balancer.SubConnState) {
		hmu.Lock()
		var mine *sub
		for _, x := range subs {
			if x.sc == sc {
				mine = x
			}
		}
		hmu.Unlock()
		if mine == nil {
			return
		}
		switch s.ConnectivityState {
		case connectivity.Ready:
			mine.registered = true
			sc.RegisterHealthListener(func(hs balancer.SubConnState) {
				hmu.Lock()
				mine.lastHealth, mine.healthSeen = hs.ConnectivityState, true
				hmu.Unlock()
			})
		case connectivity.Idle:
			sc.Connect()
		}
	}

	healthDelivered := map[*fakecc.SubConn]bool{}
	drive := func() {
		for round := 0; round < 4; round++ {
			for _, sc := range cc.SubConns() {
				if en := sc.Enabled(); len(en) > 0 && en[0] != connectivity.Idle {
					sc.Deliver(en[0], nil) // CONNECTING, then READY; SHUTDOWN for shut-down ones
				}
			}
			synctest.Wait()
			for _, sc := range cc.SubConns() {
				if sc.HealthEnabled() && !healthDelivered[sc] {
					healthDelivered[sc] = true
					sc.DeliverHealth(connectivity.Ready, nil)
				}
			}
			synctest.Wait()
		}
	}

	m := &model{eps: map[int]*mEndpoint{}, timerStart: -1}
	curEps := append([]int(nil), p.InitEps...)
	// Known-shape bookkeeping (the search continues past a recognised shape by
	// mirroring it in the bias of the max_ejection_percent check):
	//   leak: endpoints removed while ejected still counted (fixed in /repo b795dab)
	//   dbl:  an endpoint failing both criteria in one interval is counted twice
	sigHits, dblHits := 0, 0
	leakBias := func() int {
		if sigHits > 0 {
			return m.leak
		}
		return 0
	}
	bias := func() int {
		if dblHits > 0 {
			return leakBias() + m.extra
		}
		return leakBias()
	}

	update := func(cfg cfgP, eps []int) string {
		var res []resolver.Endpoint
		for _, id := range eps {
			res = append(res, resolver.Endpoint{Addresses: []resolver.Address{{Addr: addrOf(id)}}})
		}
		m.applyConfig(cfg, eps)
		if err := od.UpdateClientConnState(balancer.ClientConnState{ResolverState: resolver.State{Endpoints: res}, BalancerConfig: toLB(cfg, stubs.Names[0])}); err != nil {
			return fmt.Sprintf("UpdateClientConnState: %v", err)
		}
		synctest.Wait()
		drive()
		return harnessErr
	}

	// observe returns, per current endpoint, whether the child sees it ejected.
	observe := func() (map[int]bool, string) {
		hmu.Lock()
		defer hmu.Unlock()
		out := map[int]bool{}
		for id := range m.eps {
			s := subs[id]
			if s == nil || !s.registered {
				return nil, fmt.Sprintf("harness: endpoint %d has no READY SubConn with a health listener", id)
			}
			out[id] = !(s.healthSeen && s.lastHealth == connectivity.Ready)
			if out[id] && s.healthSeen && s.lastHealth != connectivity.TransientFailure {
				return nil, fmt.Sprintf("endpoint %d: child's health listener saw %v", id, s.lastHealth)
			}
		}
		return out, ""
	}

	// sleep advances virtual time; it processes every timer firing on the way
	// (model prediction vs observation) and never ends exactly on a firing.
	var sleep func(d time.Duration, desc string) string
	sleep = func(d time.Duration, desc string) string {
		end := m.now + d
		if m.timerOn && (end-m.nextFire)%interval == 0 && end >= m.nextFire {
			end += 300 * time.Millisecond
		}
		for m.timerOn && m.nextFire < end {
			time.Sleep(m.nextFire - m.now + time.Millisecond)
			m.now = m.nextFire + time.Millisecond
			synctest.Wait()
			fireAt := m.nextFire
			m.fires++
			before := map[int]bool{}
			for id, e := range m.eps {
				before[id] = e.ejected
			}
			pred := m.predict(bias())
			obs, herr := observe()
			if herr != "" {
				return desc + ": " + herr
			}
			// --- ejections
			var newly []int
			for _, id := range m.sortedIDs() {
				if obs[id] && !before[id] {
					newly = append(newly, id)
				}
			}
			explain := func(pr fireResult) string {
				if !pr.enforce || m.noop() {
					if len(newly) > 0 {
						return fmt.Sprintf("endpoints %v were ejected although enforcement_percentage is 0 / no algorithm is configured", newly)
					}
					return ""
				}
				for _, id := range newly {
					if !pr.candidates[id] && !pr.uncertain[id] {
						e := m.eps[id]
						return fmt.Sprintf("endpoint %d was ejected but does not fail the %s criterion with the required volume (successes %d, failures %d, cfg %+v)", id, pr.alg, e.s, e.f, m.cfg)
					}
				}
				nc := 0
				for id := range pr.candidates {
					if !before[id] {
						nc++
					}
				}
				if len(newly) > pr.capacity {
					return fmt.Sprintf("%d endpoints %v were ejected although max_ejection_percent=%d admits only %d more (%d of %d already ejected)", len(newly), newly, m.cfg.MaxPct, pr.capacity, m.numEjected(), len(m.eps))
				}
				if want := min(nc, pr.capacity); len(newly) < want {
					return fmt.Sprintf("only %d endpoints %v were ejected; the A50 rules eject %d of the candidates %v (max_ejection_percent=%d, %d of %d ejected before, capacity %d)", len(newly), newly, want, keys(pr.candidates), m.cfg.MaxPct, m.numEjected(), len(m.eps), pr.capacity)
				}
				return ""
			}
			if why := explain(pred); why != "" {
				dblNow := 0
				for id := range pred.dbl {
					if !before[id] {
						dblNow++
					}
				}
				nU := 0
				for id := range pred.candidates {
					if !before[id] {
						nU++
					}
				}
				subset := true
				for _, id := range newly {
					subset = subset && (pred.candidates[id] || pred.uncertain[id])
				}
				switch {
				// double counting: endpoints that fail both criteria are ejected twice, so
				// the count seen by later max_ejection_percent checks (in this firing, in
				// an order-dependent way, and in all later firings) is too high by one per
				// such event. The observation must lie in the range this explains.
				case pred.enforce && subset && m.extra+dblNow > 0 &&
					len(newly) <= m.predict(leakBias()).capacity &&
					len(newly) >= min(nU, m.predict(leakBias()+m.extra+dblNow).capacity):
					dblHits++
					pred = m.predict(bias())
				// anticipated defect: does "ejected count + leaked removals" explain it exactly?
				case m.leak > 0 && sigHits == 0 && explain(m.predict(m.leak+bias())) == "":
					sigHits++
					pred = m.predict(bias())
				default:
					return fmt.Sprintf("%s: timer firing at %v: %s", desc, fireAt, why)
				}
			}
			if len(pred.uncertain) > 0 {
				m.uncertain++
			}
			nc := 0
			for id := range pred.candidates {
				if !before[id] {
					nc++
				}
			}
			if pred.enforce && nc > pred.capacity {
				m.blocked++
			}
			for _, id := range newly {
				e := m.eps[id]
				e.ejected, e.ejectedAt = true, fireAt
				e.mult++
				e.multAlt++
				if pred.dbl[id] {
					e.multAlt++
					m.extra++
				}
				m.ejections++
			}
			// --- multiplier decrease / un-ejection
			for _, id := range m.sortedIDs() {
				e := m.eps[id]
				if !e.ejected {
					if e.mult > 0 {
						e.mult--
					}
					if e.multAlt > 0 {
						e.multAlt--
					}
					if obs[id] {
						return fmt.Sprintf("%s: timer firing at %v: endpoint %d appears ejected to the child but is not ejected in the model", desc, fireAt, id)
					}
					continue
				}
				if contains(newly, id) {
					continue
				}
				ejTime := func(mult int) time.Duration {
					d := time.Duration(m.cfg.BaseMs) * time.Millisecond * time.Duration(mult)
					return min(d, max(time.Duration(m.cfg.BaseMs), time.Duration(m.cfg.MaxMs))*time.Millisecond)
				}
				d := ejTime(e.mult)
				elapsed := fireAt - e.ejectedAt
				switch {
				case elapsed > d && elapsed <= ejTime(e.multAlt):
					// the endpoint was ejected by both algorithms in one interval at
					// some point: A50 does not say whether that raises the
					// multiplier once or twice; accept either.
					m.dblMult++
					if !obs[id] {
						e.ejected = false
						m.unejections++
					}
				case elapsed == d: // boundary: either
					if !obs[id] {
						e.ejected = false
						m.unejections++
					}
				case elapsed > d:
					if obs[id] {
						return fmt.Sprintf("%s: timer firing at %v: endpoint %d still ejected although min(base x multiplier, max(base, max_ejection_time)) = %v has elapsed since %v (multiplier %d)", desc, fireAt, id, d, e.ejectedAt, e.mult)
					}
					e.ejected = false
					m.unejections++
				default:
					if !obs[id] {
						return fmt.Sprintf("%s: timer firing at %v: endpoint %d was un-ejected after %v, before %v elapsed (multiplier %d)", desc, fireAt, id, elapsed, d, e.mult)
					}
				}
			}
			for _, e := range m.eps {
				e.s, e.f = 0, 0
			}
			m.timerStart = fireAt
			m.nextFire = fireAt + interval
		}
		if end > m.now {
			time.Sleep(end - m.now)
			m.now = end
			synctest.Wait()
		}
		return ""
	}

	// between firings the child's view must equal the model's.
	steady := func(desc string) string {
		obs, herr := observe()
		if herr != "" {
			return desc + ": " + herr
		}
		for id, e := range m.eps {
			if obs[id] != e.ejected {
				return fmt.Sprintf("%s: endpoint %d appears ejected=%v to the child, model says ejected=%v (noop config=%v)", desc, id, obs[id], e.ejected, m.noop())
			}
		}
		return ""
	}

	if v := update(p.Init, curEps); v != "" {
		return vk.Bad("init: %s", v)
	}
	if v := sleep(3100*time.Millisecond, "init"); v != "" {
		return vk.Bad("%s", v)
	}
	curCfg := p.Init
	for i, s := range p.Steps {
		desc := fmt.Sprintf("step %d %s", i, fmtStep(s))
		switch s.K {
		case stInterval:
			ids := m.sortedIDs()
			st, ok := cc.LastState()
			if !ok {
				return vk.Bad("%s: no picker was forwarded to the parent", desc)
			}
			for j, id := range ids {
				if j >= len(s.Calls) || m.eps[id].ejected {
					continue // no calls to ejected endpoints (by construction, see notes)
				}
				hmu.Lock()
				pickTarget = subs[id].sc
				hmu.Unlock()
				for k := 0; k < s.Calls[j][0]+s.Calls[j][1]; k++ {
					pr, err := st.Picker.Pick(balancer.PickInfo{})
					if err != nil || pr.Done == nil {
						return vk.Bad("%s: Pick through the forwarded picker failed: %v", desc, err)
					}
					if fsc, _ := pr.SubConn.(*fakecc.SubConn); fsc == nil || fsc.Addrs[0].Addr != addrOf(id) {
						return vk.Bad("%s: forwarded picker returned %v for endpoint %d", desc, pr.SubConn, id)
					}
					var derr error
					if k >= s.Calls[j][0] {
						derr = errors.New("rpc failed")
					}
					pr.Done(balancer.DoneInfo{Err: derr})
				}
				if !m.noop() {
					m.eps[id].s += s.Calls[j][0]
					m.eps[id].f += s.Calls[j][1]
				}
			}
			if v := sleep(interval, desc); v != "" {
				return vk.Bad("%s", v)
			}
		case stConfig:
			curCfg = *s.Cfg
			if v := update(curCfg, curEps); v != "" {
				return vk.Bad("%s: %s", desc, v)
			}
			if v := sleep(700*time.Millisecond, desc); v != "" {
				return vk.Bad("%s", v)
			}
		case stResolver:
			for _, id := range s.Eps {
				if m.eps[id] == nil && contains(curEpsEver(p, i), id) {
					m.readded++
				}
			}
			curEps = append([]int(nil), s.Eps...)
			if v := update(curCfg, curEps); v != "" {
				return vk.Bad("%s: %s", desc, v)
			}
			if v := sleep(700*time.Millisecond, desc); v != "" {
				return vk.Bad("%s", v)
			}
		case stShortAdvance:
			if v := sleep(4*time.Second, desc); v != "" {
				return vk.Bad("%s", v)
			}
		case stRecreate:
			ids := m.sortedIDs()
			id := ids[s.A%len(ids)]
			hmu.Lock()
			old := subs[id]
			old.sc.Shutdown()
			delete(subs, id)
			newSub(theChild, id)
			hmu.Unlock()
			if m.eps[id].ejected {
				m.recreatedEjected++
			}
			synctest.Wait()
			drive()
			if harnessErr != "" {
				return vk.Bad("%s: %s", desc, harnessErr)
			}
		}
		res.Steps++
		if v := steady(desc); v != "" {
			return vk.Bad("%s", v)
		}
	}
	res.NonTrivial = m.ejections >= 1 && m.setChangeWhileEjected
	cl := func(c bool, s string) {
		if c {
			res.Classes = append(res.Classes, s)
		}
	}
	cl(m.ejections > 0, "ejection")
	cl(m.ejections >= 3, "ejections>=3")
	cl(m.unejections > 0, "unejection_by_time")
	cl(m.blocked > 0, "max_ejection_percent_binding")
	cl(m.removedEjected > 0, "ejected_endpoint_removed")
	cl(m.readded > 0, "endpoint_readded")
	cl(m.noopUnejects > 0, "noop_config_unejects")
	cl(m.uncertain > 0, "numerically_borderline_interval")
	cl(m.recreatedEjected > 0, "subconn_recreated_while_ejected")
	cl(m.setChangeWhileEjected, "set_change_while_ejected")
	cl(m.extra > 0, "endpoint_failed_both_criteria")
	cl(m.dblMult > 0, "double_ejection_multiplier_ambiguity")
	cl(m.cfg.SR != nil && m.cfg.FP != nil, "both_algorithms_configured_at_end")
	if dblHits > 0 && sigHits == 0 {
		r := vk.Bad("an endpoint that fails both the success-rate and the failure-percentage criterion in one interval is ejected twice and counted twice: %d such event(s); a max_ejection_percent check then blocked ejections although the ejected share of current endpoints was below the limit (%d firing(s) explained exactly by the inflated count)", m.extra, dblHits)
		r.Sig = "c40.double_ejection_counted_twice"
		r.Classes = append(res.Classes, "known_double_count_shape")
		r.Steps = res.Steps
		return r
	}
	if sigHits > 0 {
		r := vk.Bad("ejected endpoint removed by a resolver update keeps counting as ejected: a later interval ejected fewer endpoints than the A50 rules require, exactly as if the %d removed endpoint(s) were still ejected for the max_ejection_percent check", m.leak)
		r.Sig = "c40.removed_ejected_endpoint_leaks_count"
		r.Classes = append(res.Classes, "known_leak_shape")
		r.Steps = res.Steps
		return r
	}
	return res
}

func curEpsEver(p plan, upto int) []int {
	out := append([]int(nil), p.InitEps...)
	for _, s := range p.Steps[:upto] {
		out = append(out, s.Eps...)
	}
	return out
}

func contains(xs []int, x int) bool {
	for _, y := range xs {
		if y == x {
			return true
		}
	}
	return false
}

func keys(m map[int]bool) []int {
	var out []int
	for k := range m {
		out = append(out, k)
	}
	sort.Ints(out)
	return out
}

func fmtStep(s step) string {
	switch s.K {
	case stInterval:
		return fmt.Sprintf("interval calls=%v", s.Calls)
	case stConfig:
		return fmt.Sprintf("config %+v sr=%+v fp=%+v", *s.Cfg, s.Cfg.SR, s.Cfg.FP)
	case stResolver:
		return fmt.Sprintf("resolver %v", s.Eps)
	case stShortAdvance:
		return "advance 4s"
	}
	return fmt.Sprintf("recreate slot %d", s.A)
}

func TestVerifC40OutlierDetection(t *testing.T) {
	vk.Check(t, vk.Unit[plan]{
		ID: "C40", Name: "od",
		Rule: "histories of 5..20 (quick) / 5..40 (thorough) steps over outlier_detection_experimental with a stub child in a bubble: intervals with per-endpoint success/failure counts (good / bad / mixed / silent profiles; no calls to ejected endpoints), config changes (success-rate and/or failure-percentage or no-op; enforcement 0/100; max_ejection_percent 0..100; base/max ejection times that are not multiples of the 10 s interval), resolver updates removing/adding/re-adding endpoints out of 8, 4 s advances, re-creation of an endpoint's SubConn. non-trivial = >=1 ejection and an endpoint-set change while something is ejected",
		Gen:  genPlan, Run: run,
	})
}
