package c11_test

// Freeze watchdog.
//
// A goroutine that blocks forever on a sync.Mutex is not "durably blocked"
// for testing/synctest: the bubble's clock can then never advance and the
// deadlock detector never fires, so a genuine hang of the client shows up as
// a test process that makes no progress in wall time. The watchdog (a
// goroutine outside the bubble) turns that into a verdict that does NOT
// depend on timing: wall time only triggers an inspection; the verdict is
// taken from a consistent (stop-the-world) goroutine snapshot that shows that
// no goroutine of the bubble is running or runnable while at least one of them
// waits on a mutex/cond/semaphore - a state that can never change again.

import (
	"fmt"
	"os"
	"path/filepath"
	"regexp"
	"runtime"
	"strconv"
	"strings"
	"sync/atomic"
	"time"

	"google.golang.org/grpc/internal/verifkit/vk"
)

var progress atomic.Int64

func bump() { progress.Add(1) }

// sigReplayLock is the known-finding signature of the deadlock between
// clientStream.retryLocked -> replayBufferLocked -> writeQuota.get (holding
// cs.mu, waiting for flow-control credit) and clientStream.finish (deadline /
// cancellation watcher, waiting for cs.mu).
const sigReplayLock = "c11.retry_replay_blocks_in_flow_control_holding_cs_mu"

var goroutineHdr = regexp.MustCompile(`^goroutine (\d+) \[([^\]]*)\]:`)

type frozen struct {
	deadlock bool
	sig      string
	report   string
}

func inspect() frozen {
	buf := make([]byte, 1<<20)
	for {
		n := runtime.Stack(buf, true)
		if n < len(buf) {
			buf = buf[:n]
			break
		}
		buf = make([]byte, 2*len(buf))
	}
	var fr frozen
	var stuck []string
	running, inBubble, nonDurable := 0, 0, 0
	holderInReplay, finishOnMutex := false, false
	for _, blk := range strings.Split(string(buf), "\n\n") {
		m := goroutineHdr.FindStringSubmatch(blk)
		if m == nil || !strings.Contains(m[2], "synctest bubble") {
			continue
		}
		inBubble++
		state := m[2]
		switch {
		case strings.HasPrefix(state, "running"), strings.HasPrefix(state, "runnable"), strings.HasPrefix(state, "syscall"):
			running++
		case !strings.Contains(state, "(durable)"):
			nonDurable++
			stuck = append(stuck, blk)
			if strings.Contains(blk, "(*clientStream).finish") && strings.Contains(state, "Mutex") {
				finishOnMutex = true
			}
		}
		if strings.Contains(blk, "replayBufferLocked") && strings.Contains(blk, "(*writeQuota).get") {
			holderInReplay = true
			stuck = append(stuck, blk)
		}
	}
	fr.deadlock = inBubble > 0 && running == 0 && nonDurable > 0
	if fr.deadlock && holderInReplay && finishOnMutex {
		fr.sig = sigReplayLock
	}
	fr.report = fmt.Sprintf("%d bubble goroutines, %d running/runnable, %d blocked non-durably (mutex/cond) or holding the lock:\n%s", inBubble, running, len(stuck), strings.Join(stuck, "\n\n"))
	return fr
}

// guarded runs f (which executes one plan in a bubble) under the watchdog.
func guarded(unit string, f func()) {
	limit := 45 * time.Second
	if s, err := strconv.Atoi(os.Getenv("VERIF_C11_STALL_S")); err == nil && s > 0 {
		limit = time.Duration(s) * time.Second
	}
	done := make(chan struct{})
	go func() {
		last, since := progress.Load(), time.Now()
		tk := time.NewTicker(time.Second)
		defer tk.Stop()
		for {
			select {
			case <-done:
				return
			case <-tk.C:
			}
			if cur := progress.Load(); cur != last {
				last, since = cur, time.Now()
				continue
			}
			if time.Since(since) < limit {
				continue
			}
			fr := inspect()
			if !fr.deadlock {
				// Slow machine or a busy loop: keep waiting (the driver's timeout makes that INCONCLUSIVE).
				fmt.Printf("VERIF-C11-STALL unit=%s no progress for %v but goroutines are runnable\n", unit, time.Since(since).Round(time.Second))
				since = time.Now()
				continue
			}
			replay := os.Getenv("VERIF_REPLAY")
			if replay == "" {
				replay = filepath.Join(os.Getenv("VERIF_REPLAY_OUT"), fmt.Sprintf("C11-%s-current-%d.json", unit, os.Getpid()))
			}
			msg := "the client is deadlocked: no goroutine of the bubble can run any more and the RPC(s) in flight can never return (deadline not honoured); " + strings.ReplaceAll(fr.report, "\n", " | ")
			if vk.IsKnown("C11", fr.sig) {
				fmt.Printf("VERIF-REPLAY-KNOWN property=C11 unit=%s sig=%s :: %s\n", unit, fr.sig, msg)
				os.Exit(0)
			}
			fmt.Printf("VERIF-VIOLATION property=C11 unit=%s replay=%s sig=%q :: %s\n", unit, replay, fr.sig, msg)
			os.Exit(1)
		}
	}()
	f()
	close(done)
}

// replayMayBlock is the shape excluded by construction from generated plans
// (known finding sigReplayLock): a streaming RPC whose replay buffer can hold
// >= 64 KiB before its last message, so that a retried attempt may block in
// writeQuota.get while clientStream.mu is held.
func replayMayBlock(r RPC) bool {
	return !r.Unary && r.Msgs >= 2 && (r.Msgs-1)*(r.Bytes+5) >= 60000
}
