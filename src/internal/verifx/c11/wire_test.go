package c11_test

// C11 — a misbehaving server can never crash or hang the client transport.
//
// This file: the serialisable plan (script of server-side steps), an
// independent byte-level HTTP/2 encoder (own frame headers + own hpack encoder;
// nothing shared with grpc-go or with the h2peer writer), raw byte mutation, and
// the per-connection script interpreter that turns a Step into bytes which are
// sent with h2peer.Peer.WriteRaw.

import (
	"bytes"
	"encoding/binary"
	"fmt"
	"strconv"

	"golang.org/x/net/http2/hpack"
	"google.golang.org/grpc/internal/verifkit/h2peer"
)

// Step kinds.
const (
	kRPC      = "rpc"      // start the next planned RPC (N = index into Plan.RPCs)
	kSleep    = "sleep"    // advance virtual time by N ms
	kHdr      = "hdr"      // HEADERS (+CONTINUATION) on a selected stream
	kCont     = "cont"     // lone CONTINUATION frame
	kData     = "data"     // DATA frame(s)
	kFull     = "full"     // protocol-correct complete response: headers, N-byte message, trailers(code V)
	kWU       = "wu"       // WINDOW_UPDATE
	kSettings = "settings" // SETTINGS
	kPing     = "ping"     // N PING frames
	kRST      = "rst"      // RST_STREAM
	kGoAway   = "goaway"   // GOAWAY
	kFrame    = "frame"    // arbitrary frame: type F, flags byte V, payload B (unknown types, PRIORITY, PUSH_PROMISE, wrong lengths)
	kRaw      = "raw"      // literal bytes B (truncated frames, garbage, fuzz input)
	kClose    = "close"    // the server closes the connection (F=1: half-close only)
)

// Stream selector modes (Step.M); Step.S is the index within the mode.
const (
	mLive   = "live"   // S-th stream the client opened and neither side has finished (fallback: any, then idle)
	mAny    = "any"    // S-th stream the client ever opened on this connection (fallback: idle)
	mClosed = "closed" // S-th finished stream (fallback: any, then idle)
	mIdle   = "idle"   // an odd id above every id opened so far
	mEven   = "even"   // 2*(1+S)
	mZero   = "zero"   // stream 0
	mHuge   = "huge"   // 2^31-1 - 2*(S%4)
)

// HF is one header field of a generated header block.
type HF struct {
	N string `json:"n"`
	V string `json:"v"`
}

// Mut is one raw byte mutation applied to the encoded bytes of a step.
type Mut struct {
	K   string `json:"k"`             // flip | trunc | dup | ins | set | drop
	Off int    `json:"off"`           // position (modulo length)
	Len int    `json:"len,omitempty"` // length operand
	X   int    `json:"x,omitempty"`   // bit / byte value
}

// Step is one step of the script.
type Step struct {
	K   string `json:"k"`
	Var string `json:"var,omitempty"` // variant label (class histogram)
	Bad bool   `json:"bad,omitempty"` // the step violates HTTP/2 or the gRPC wire protocol by content

	M string `json:"m,omitempty"` // stream selector
	S int    `json:"s,omitempty"`

	N int   `json:"n,omitempty"` // size / count / increment / RPC index
	V int64 `json:"v,omitempty"` // second numeric operand (codes, flag byte, declared length)
	F int   `json:"f,omitempty"` // small variant switch / frame type

	H     []HF   `json:"h,omitempty"`     // header list (hdr)
	B     []byte `json:"b,omitempty"`     // raw header block / payload / bytes
	ES    bool   `json:"es,omitempty"`    // END_STREAM
	Frags []int  `json:"frags,omitempty"` // hdr: fragment sizes (HEADERS, CONTINUATION...)
	NoEH  bool   `json:"noeh,omitempty"`  // hdr: omit END_HEADERS on the last fragment
	Pad   int    `json:"pad,omitempty"`   // hdr/data: 0 = unpadded, k>0 = PADDED with k-1 padding bytes, -1 = pad length byte larger than the payload
	Prio  bool   `json:"prio,omitempty"`  // hdr: PRIORITY flag + 5 bytes

	SS []int64 `json:"ss,omitempty"` // settings: id,val pairs

	Mut []Mut `json:"mut,omitempty"` // raw byte mutations of the encoded step
	NW  bool  `json:"nw,omitempty"`  // do not wait for quiescence after this step
}

// RPC is one planned client call.
type RPC struct {
	DeadlineMs int  `json:"dl"`             // deadline, virtual ms after the call starts
	Msgs       int  `json:"msgs"`           // request messages (>= 0; the last one half-closes)
	Bytes      int  `json:"bytes"`          // payload bytes per request message
	WFR        bool `json:"wfr,omitempty"`  // conn unit: WaitForReady
	Unary      bool `json:"un,omitempty"`   // conn unit: cc.Invoke instead of a bidi stream
	NoClose    bool `json:"noc,omitempty"`  // do not half-close after the last message (streaming)
}

// Plan is a serialisable C11 case.
type Plan struct {
	RPCs      []RPC   `json:"rpcs"`
	Script    []Step  `json:"script"`
	PeerSS    []int64 `json:"peer_ss,omitempty"`    // id,val pairs of the server's preface SETTINGS
	ReadSizes []int   `json:"read_sizes,omitempty"` // segmentation of the client's reads from the connection
	MaxHdr    int     `json:"max_hdr,omitempty"`    // client MaxHeaderListSize (0 = default)
	Static    bool    `json:"static,omitempty"`     // client uses static windows (no BDP estimator)
	KAms      int     `json:"ka_ms,omitempty"`      // client keepalive Time in ms (0 = off); Timeout = KAms/2
	NoPingAck bool    `json:"no_ping_ack,omitempty"`
	// conn unit only:
	MaxConns  int    `json:"max_conns,omitempty"`  // dials that succeed; later dials fail
	Retry     bool   `json:"retry,omitempty"`      // service config with a retry policy on UNAVAILABLE
	BadFirst  []byte `json:"bad_first,omitempty"`  // non-nil: the first connection's preface is these raw bytes instead of SETTINGS
}

// ---- byte-level encoder ----

type wire struct {
	henc *hpack.Encoder
	hbuf bytes.Buffer
}

func newWire() *wire {
	w := &wire{}
	w.henc = hpack.NewEncoder(&w.hbuf)
	return w
}

func (w *wire) block(h []HF) []byte {
	w.hbuf.Reset()
	for _, f := range h {
		w.henc.WriteField(hpack.HeaderField{Name: f.N, Value: f.V})
	}
	return append([]byte(nil), w.hbuf.Bytes()...)
}

// frameLen builds one frame whose header declares `declared` payload bytes
// (declared < 0: len(payload)).
func frameLen(typ, flags byte, sid uint32, payload []byte, declared int) []byte {
	if declared < 0 {
		declared = len(payload)
	}
	b := make([]byte, 0, 9+len(payload))
	b = append(b, byte(declared>>16), byte(declared>>8), byte(declared), typ, flags,
		byte(sid>>24), byte(sid>>16), byte(sid>>8), byte(sid))
	return append(b, payload...)
}

func frame(typ, flags byte, sid uint32, payload []byte) []byte {
	return frameLen(typ, flags, sid, payload, -1)
}

const (
	ftData         = 0x0
	ftHeaders      = 0x1
	ftPriority     = 0x2
	ftRST          = 0x3
	ftSettings     = 0x4
	ftPushPromise  = 0x5
	ftPing         = 0x6
	ftGoAway       = 0x7
	ftWindowUpdate = 0x8
	ftContinuation = 0x9

	flEndStream  = 0x1
	flAck        = 0x1
	flEndHeaders = 0x4
	flPadded     = 0x8
	flPriority   = 0x20
)

// padWrap wraps a payload according to Step.Pad; it returns the new payload
// and whether the PADDED flag must be set.
func padWrap(payload []byte, pad int) ([]byte, bool) {
	switch {
	case pad == 0:
		return payload, false
	case pad < 0:
		// pad length byte claims more padding than there are bytes.
		out := append([]byte{byte(min(255, len(payload)+1+(-pad)))}, payload...)
		return out, true
	default:
		n := min(pad-1, 255)
		out := append([]byte{byte(n)}, payload...)
		return append(out, make([]byte, n)...), true
	}
}

func (w *wire) headers(sid uint32, block []byte, es bool, frags []int, noEH bool, pad int, prio bool) []byte {
	var parts [][]byte
	rest := block
	if len(frags) == 0 {
		frags = []int{16384}
	}
	for i := 0; ; i++ {
		sz := frags[min(i, len(frags)-1)]
		if sz < 1 {
			sz = 1
		}
		if sz > 16384 {
			sz = 16384
		}
		if sz >= len(rest) {
			parts = append(parts, rest)
			break
		}
		parts = append(parts, rest[:sz])
		rest = rest[sz:]
	}
	var out []byte
	for i, frag := range parts {
		last := i == len(parts)-1
		var fl byte
		if last && !noEH {
			fl |= flEndHeaders
		}
		if i == 0 {
			if es {
				fl |= flEndStream
			}
			payload := frag
			if prio {
				fl |= flPriority
				payload = append([]byte{0, 0, 0, 0, 16}, payload...)
			}
			payload, padded := padWrap(payload, pad)
			if padded {
				fl |= flPadded
			}
			out = append(out, frame(ftHeaders, fl, sid, payload)...)
		} else {
			out = append(out, frame(ftContinuation, fl, sid, frag)...)
		}
	}
	return out
}

// data splits payload into DATA frames of at most maxFrame bytes.
func dataFrames(sid uint32, payload []byte, es bool, pad int, maxFrame int) []byte {
	var out []byte
	if maxFrame < 1 {
		maxFrame = 16384
	}
	if pad > 0 && maxFrame <= 16384 {
		maxFrame = min(maxFrame, 16384-256) // room for the pad length byte and the padding of the last frame
	}
	for first := true; first || len(payload) > 0; first = false {
		n := min(len(payload), maxFrame)
		chunk := payload[:n]
		payload = payload[n:]
		var fl byte
		if es && len(payload) == 0 {
			fl |= flEndStream
		}
		p := chunk
		if pad != 0 && len(payload) == 0 { // pad the last frame only
			var padded bool
			p, padded = padWrap(chunk, pad)
			if padded {
				fl |= flPadded
			}
		}
		out = append(out, frame(ftData, fl, sid, p)...)
	}
	return out
}

func fill(n int, seed int) []byte {
	b := make([]byte, n)
	x := uint32(seed*2654435761) | 1
	for i := range b {
		x = x*1664525 + 1013904223
		b[i] = byte(x >> 24)
	}
	return b
}

// grpcMsg builds the DATA payload for a data step variant.
func grpcMsg(variant string, n int) []byte {
	pre := func(flag byte, l uint32) []byte {
		return []byte{flag, byte(l >> 24), byte(l >> 16), byte(l >> 8), byte(l)}
	}
	switch variant {
	case "msg":
		return append(pre(0, uint32(n)), fill(n, n)...)
	case "msg_compressed":
		return append(pre(1, uint32(n)), fill(n, n)...)
	case "msg_flag_garbage":
		return append(pre(0x7f, uint32(n)), fill(n, n)...)
	case "msg_len_huge":
		return append(pre(0, 0xfffffff0), fill(n, n)...)
	case "msg_len_5m":
		return append(pre(0, 5<<20), fill(n, n)...)
	case "msg_len_short":
		return append(pre(0, uint32(n/2)), fill(n, n)...)
	case "msg_len_long":
		return append(pre(0, uint32(n+7)), fill(n, n)...)
	case "prefix_only":
		return pre(0, uint32(n))[:min(5, 1+n%5)]
	case "empty":
		return nil
	default: // "garbage"
		return fill(n, n+1)
	}
}

func applyMuts(b []byte, muts []Mut) []byte {
	for _, m := range muts {
		if len(b) == 0 {
			return b
		}
		off := ((m.Off % len(b)) + len(b)) % len(b)
		switch m.K {
		case "flip":
			b = append([]byte(nil), b...)
			b[off] ^= 1 << (uint(m.X) % 8)
		case "set":
			b = append([]byte(nil), b...)
			b[off] = byte(m.X)
		case "trunc":
			b = b[:off]
		case "drop":
			n := min(max(1, m.Len), len(b)-off)
			b = append(append([]byte(nil), b[:off]...), b[off+n:]...)
		case "ins":
			n := min(max(1, m.Len), 64)
			ins := bytes.Repeat([]byte{byte(m.X)}, n)
			b = append(append(append([]byte(nil), b[:off]...), ins...), b[off:]...)
		case "dup": // splice: copy a segment to another place
			n := min(max(1, m.Len), len(b)-off)
			seg := append([]byte(nil), b[off:off+n]...)
			at := ((m.X % (len(b) + 1)) + len(b) + 1) % (len(b) + 1)
			b = append(append(append([]byte(nil), b[:at]...), seg...), b[at:]...)
		}
	}
	return b
}

// ---- per-connection script interpreter ----

type outStream struct {
	hdrSent bool // a HEADERS frame was sent on the stream
	ended   bool // END_STREAM or RST_STREAM was sent on the stream
}

// connState is the server side of one connection: the h2peer (reader +
// ledger of what the client wrote), the independent encoder and what the
// script has sent so far.
type connState struct {
	peer        *h2peer.Peer
	w           *wire
	out         map[uint32]*outStream
	goAwaySent  bool
	lastGoAway  uint32
	statusSent  map[uint32]bool // numeric grpc-status values sent so far (as uint32, the way the client converts them)
	closedByUs  bool
	wroteBad    bool
	pendingCont bool // the last frame sent was a HEADERS/CONTINUATION without END_HEADERS
}

func newConnState(p *h2peer.Peer) *connState {
	return &connState{peer: p, w: newWire(), out: map[uint32]*outStream{}, statusSent: map[uint32]bool{}}
}

func (c *connState) os(id uint32) *outStream {
	s := c.out[id]
	if s == nil {
		s = &outStream{}
		c.out[id] = s
	}
	return s
}

// resolve turns a stream selector into a stream id and the mode that was
// actually satisfied.
func (c *connState) resolve(mode string, k int) (uint32, string) {
	if k < 0 {
		k = -k
	}
	led := c.peer.Ledger()
	ids := led.StreamIDs()
	var live, closed []uint32
	var maxID uint32
	for _, id := range ids {
		if id > maxID {
			maxID = id
		}
		st, _ := led.Stream(id)
		if st.InRST || c.os(id).ended {
			closed = append(closed, id)
		} else {
			live = append(live, id)
		}
	}
	idle := func() (uint32, string) {
		id := maxID + 2*uint32(1+k%3)
		if id%2 == 0 {
			id++
		}
		return id, mIdle
	}
	switch mode {
	case mZero:
		return 0, mZero
	case mEven:
		return 2 * uint32(1+k%1000), mEven
	case mHuge:
		return 1<<31 - 1 - 2*uint32(k%4), mHuge
	case mIdle:
		return idle()
	case mClosed:
		if len(closed) > 0 {
			return closed[k%len(closed)], mClosed
		}
	case mLive:
		if len(live) > 0 {
			return live[k%len(live)], mLive
		}
	}
	if len(ids) > 0 {
		id := ids[k%len(ids)]
		st, _ := led.Stream(id)
		if st.InRST || c.os(id).ended {
			return id, mClosed
		}
		return id, mLive
	}
	return idle()
}

// encode turns a step into bytes. It returns the bytes, whether the step is
// a protocol violation in the state in which it is sent, and its class label.
func (c *connState) encode(st Step) (b []byte, bad bool, classes []string) {
	bad = st.Bad
	class := st.K
	if st.Var != "" {
		class += "." + st.Var
	}
	var tags []string
	defer func() {
		pre := "ok:"
		if bad {
			pre = "v:"
		}
		classes = append([]string{pre + class}, tags...)
	}()
	streamBad := func(actual string, closedIsBad bool) {
		switch actual {
		case mIdle, mEven, mZero, mHuge:
			bad = true
			tags = append(tags, "at:"+st.K+"_on_"+actual+"_stream")
		case mClosed:
			tags = append(tags, "at:"+st.K+"_on_closed_stream")
			if closedIsBad {
				bad = true
			}
		}
	}
	switch st.K {
	case kHdr:
		id, actual := c.resolve(st.M, st.S)
		streamBad(actual, true)
		o := c.os(id)
		if actual == mLive && o.hdrSent && !st.ES {
			bad = true
			tags = append(tags, "at:hdr_mid_stream")
		}
		block := st.B
		if block == nil {
			block = c.w.block(st.H)
		}
		for _, f := range st.H {
			if f.N == "grpc-status" {
				if v, err := strconv.ParseInt(f.V, 10, 32); err == nil {
					c.statusSent[uint32(v)] = true
				}
			}
		}
		b = c.w.headers(id, block, st.ES, st.Frags, st.NoEH, st.Pad, st.Prio)
		o.hdrSent = true
		if st.ES {
			o.ended = true
		}
		c.pendingCont = st.NoEH
	case kCont:
		id, _ := c.resolve(st.M, st.S)
		var fl byte
		if !st.NoEH {
			fl = flEndHeaders
		}
		if !c.pendingCont {
			bad = true
			tags = append(tags, "at:cont_orphan")
		}
		b = frame(ftContinuation, fl, id, st.B)
		c.pendingCont = st.NoEH
	case kData:
		id, actual := c.resolve(st.M, st.S)
		streamBad(actual, true)
		o := c.os(id)
		if actual == mLive && !o.hdrSent {
			bad = true
			tags = append(tags, "at:data_before_headers")
		}
		payload := grpcMsg(st.Var, st.N)
		maxFrame := 16384
		if st.F == 1 { // one oversize frame
			maxFrame = 1 << 24
			if len(payload) > 16384 {
				bad = true
				tags = append(tags, "x:data_frame_over_16384")
			}
		}
		if len(payload) > 65535 {
			bad = true
			tags = append(tags, "x:data_over_window")
		}
		b = dataFrames(id, payload, st.ES, st.Pad, maxFrame)
		if st.ES {
			o.ended = true // END_STREAM on DATA: the stream ends without trailers
		}
	case kFull:
		id, actual := c.resolve(st.M, st.S)
		streamBad(actual, true)
		o := c.os(id)
		if !o.hdrSent {
			b = append(b, c.w.headers(id, c.w.block([]HF{{":status", "200"}, {"content-type", "application/grpc"}}), false, nil, false, 0, false)...)
		}
		if st.N >= 0 {
			b = append(b, dataFrames(id, grpcMsg("msg", st.N), false, 0, 16384)...)
		}
		tr := []HF{{"grpc-status", strconv.FormatInt(st.V, 10)}}
		if st.V != 0 {
			tr = append(tr, HF{"grpc-message", "scripted status"})
		}
		c.statusSent[uint32(st.V)] = true
		b = append(b, c.w.headers(id, c.w.block(tr), true, nil, false, 0, false)...)
		if st.F == 1 { // like a grpc-go server: RST_STREAM(NO_ERROR) after the trailers
			b = append(b, frame(ftRST, 0, id, []byte{0, 0, 0, 0})...)
		}
		o.hdrSent, o.ended = true, true
	case kWU:
		var id uint32
		if st.M != "conn" {
			var actual string
			id, actual = c.resolve(st.M, st.S)
			streamBad(actual, false)
		}
		payload := binary.BigEndian.AppendUint32(nil, uint32(st.N))
		if st.F > 0 { // wrong payload length
			payload = fill(st.F%9, st.F)
		}
		b = frame(ftWindowUpdate, 0, id, payload)
	case kSettings:
		var payload []byte
		for i := 0; i+1 < len(st.SS); i += 2 {
			payload = binary.BigEndian.AppendUint16(payload, uint16(st.SS[i]))
			payload = binary.BigEndian.AppendUint32(payload, uint32(st.SS[i+1]))
		}
		payload = append(payload, st.B...) // extra bytes: length not a multiple of 6
		var id uint32
		if st.M != "" && st.M != "conn" {
			id, _ = c.resolve(st.M, st.S)
		}
		b = frame(ftSettings, byte(st.V), id, payload)
	case kPing:
		var id uint32
		if st.M != "" && st.M != "conn" {
			id, _ = c.resolve(st.M, st.S)
		}
		for i := 0; i < max(1, st.N); i++ {
			payload := fill(8, st.S+i)
			if st.F > 0 {
				payload = fill(st.F%17, i)
			}
			b = append(b, frame(ftPing, byte(st.V), id, payload)...)
		}
	case kRST:
		id, actual := c.resolve(st.M, st.S)
		streamBad(actual, false)
		payload := binary.BigEndian.AppendUint32(nil, uint32(st.V))
		if st.F > 0 {
			payload = fill(st.F%9, st.F)
		}
		b = frame(ftRST, 0, id, payload)
		c.os(id).ended = true
	case kGoAway:
		var last uint32
		switch st.Var {
		case "all":
			last, _ = c.resolve(mIdle, 0)
			last -= 2 // highest id opened so far (or 2^32-1 -> wraps to a legal huge value when nothing is open)
			if int32(last) < 0 {
				last = 0
			}
		case "max":
			last = 1<<31 - 1
		case "zero":
			last = 0
		case "even":
			last = 2 * uint32(1+st.S%50)
		case "raw":
			last = uint32(st.N)
		default: // "stream": the id of a selected stream
			last, _ = c.resolve(st.M, st.S)
		}
		if c.goAwaySent && last > c.lastGoAway {
			bad = true
			tags = append(tags, "x:goaway_increasing")
		}
		if last != 0 && last%2 == 0 {
			bad = true
		}
		payload := binary.BigEndian.AppendUint32(nil, last)
		payload = binary.BigEndian.AppendUint32(payload, uint32(st.V))
		payload = append(payload, st.B...)
		var id uint32
		if st.F == 1 { // GOAWAY on a stream
			id, _ = c.resolve(mAny, st.S)
		}
		if st.F == 2 { // short payload
			payload = payload[:min(len(payload), 1+st.S%7)]
		}
		b = frame(ftGoAway, 0, id, payload)
		c.goAwaySent, c.lastGoAway = true, last
	case kFrame:
		var id uint32
		if st.M != "" && st.M != "conn" {
			id, _ = c.resolve(st.M, st.S)
		}
		b = frameLen(byte(st.F), byte(st.V), id, st.B, st.N-1) // N=0: declared length = len(B)
	case kRaw:
		b = st.B
	default:
		panic(fmt.Sprintf("VERIF-HARNESS: unknown step kind %q", st.K))
	}
	if len(st.Mut) > 0 {
		b = applyMuts(b, st.Mut)
		bad = true
		tags = append(tags, "mut:"+st.Mut[0].K)
	}
	return b, bad, nil
}
