package c11_test

import (
	"strings"

	"google.golang.org/grpc/internal/verifkit/vk"
	"pgregory.net/rapid"
)

// rapid's integer generators (and SampledFrom) are deliberately biased towards
// small values (geometric bit length): IntRange(0,99) < 4 holds ~30% of the
// time. Choices between grammar alternatives must be uniform, so they are
// built from unbiased coin flips (rapid.Bool); everything still shrinks
// towards 0 = the first alternative.
func uni(rt *rapid.T, label string, n int) int {
	if n <= 1 {
		return 0
	}
	bitsN := 6
	for v := n - 1; v > 0; v >>= 1 {
		bitsN++
	}
	bs := rapid.SliceOfN(rapid.Bool(), bitsN, bitsN).Draw(rt, label)
	x := 0
	for _, b := range bs {
		x <<= 1
		if b {
			x |= 1
		}
	}
	return x % n
}

func pick[T any](rt *rapid.T, label string, vs ...T) T { return vs[uni(rt, label, len(vs))] }
func intn(rt *rapid.T, label string, lo, hi int) int {
	if hi-lo >= 1<<24 {
		return rapid.IntRange(lo, hi).Draw(rt, label)
	}
	return lo + uni(rt, label, hi-lo+1)
}
func chance(rt *rapid.T, label string, pct int) bool { return uni(rt, label, 100) < pct }

var (
	respOK     = []HF{{":status", "200"}, {"content-type", "application/grpc"}}
	badStatus  = []string{"", "abc", "-1", "17", "99", "2147483647", "-2147483648", "4294967296", "99999999999999999999", "1.5", " 2", "2 ", "0x10", "+3", "1e1", "١"}
	badCT      = []string{"text/html", "application/json", "application/grpcweb", "application/grpc-web", "", "application/grp", "Application/Grpc", "application/grpc+", "application/grpc;", "application/grpc+proto;x=y"}
	httpStatus = []string{"404", "500", "503", "429", "302", "401", "204", "100", "101", "199", "600", "0", "-1", "abc", "2000000000000", "", "200 OK"}
	badMsg     = []string{"%", "%zz", "%F", "a%2", "%e2%28%a1", "%00%ff", strings.Repeat("%41", 300), "caf\xc3\xa9", "\xff\xfe"}
	badBin     = []string{"!!!!", "a", "ab=c", "====", "A===", "YWJj=", "YW Jj", "\x01\x02"}
	errCodes   = []int64{0, 1, 2, 3, 5, 7, 8, 0xb, 0xd, 0xe, 0xff, 0x7fffffff, 0xffffffff}
)

func genMode(rt *rapid.T, liveBias int) string {
	w := intn(rt, "modew", 0, 99)
	switch {
	case w < liveBias:
		return mLive
	case w < liveBias+(100-liveBias)*35/100:
		return mClosed
	case w < liveBias+(100-liveBias)*55/100:
		return mAny
	case w < liveBias+(100-liveBias)*75/100:
		return mIdle
	case w < liveBias+(100-liveBias)*87/100:
		return mEven
	case w < liveBias+(100-liveBias)*94/100:
		return mZero
	default:
		return mHuge
	}
}

// genModeNF never selects stream 0 (a HEADERS/DATA/RST frame on stream 0 is a connection error).
func genModeNF(rt *rapid.T, liveBias int, fatalOK bool) string {
	m := genMode(rt, liveBias)
	if !fatalOK && m == mZero {
		return mEven
	}
	return m
}

func genMuts(rt *rapid.T) []Mut {
	n := intn(rt, "nmut", 1, 3)
	var ms []Mut
	for i := 0; i < n; i++ {
		ms = append(ms, Mut{K: pick(rt, "mutk", "flip", "flip", "set", "trunc", "drop", "ins", "dup"), Off: intn(rt, "mutoff", 0, 4000),
			Len: intn(rt, "mutlen", 1, 40), X: intn(rt, "mutx", 0, 255)})
	}
	return ms
}

func genMD(rt *rapid.T) []HF {
	var h []HF
	for i, n := 0, intn(rt, "nmd", 0, 3); i < n; i++ {
		h = append(h, HF{pick(rt, "mdk", "x-a", "x-b-bin", "grpc-encoding", "grpc-accept-encoding", "user-agent", "x-long", "te", "grpc-previous-rpc-attempts", "grpc-retry-pushback-ms"),
			pick(rt, "mdv", "v", "", "YWJj", "identity", "gzip", "bogus", "0", "-5", "100000", strings.Repeat("z", 300))})
	}
	return h
}

// genHdrLegal: protocol-correct header steps.
func genHdrLegal(rt *rapid.T) Step {
	st := Step{K: kHdr, M: mLive, S: intn(rt, "s", 0, 7)}
	switch intn(rt, "hl", 0, 9) {
	case 0, 1, 2, 3:
		st.Var, st.H = "resp", append(append([]HF(nil), respOK...), genMD(rt)...)
	case 4, 5, 6:
		code := pick(rt, "code", "0", "0", "1", "2", "4", "8", "13", "14", "16")
		st.Var, st.ES, st.H = "trailers", true, append([]HF{{"grpc-status", code}, {"grpc-message", pick(rt, "msg", "", "boom", "a%20b", "%E2%82%AC")}}, genMD(rt)...)
	case 7:
		st.Var, st.ES, st.H = "trailers_only", true, append(append([]HF(nil), respOK...), HF{"grpc-status", pick(rt, "code", "0", "5", "14")})
	case 8:
		st.Var, st.H = "resp_padded_prio", respOK
		st.Pad, st.Prio = intn(rt, "pad", 1, 256), chance(rt, "prio", 50)
	default:
		st.Var, st.H = "resp_continuation", append(append([]HF(nil), respOK...), HF{"x-long", strings.Repeat("q", intn(rt, "long", 10, 40000))})
		st.Frags = []int{intn(rt, "f0", 1, 40), intn(rt, "f1", 1, 17000)}
	}
	return st
}

// genHdrBad: header steps that violate HTTP/2 or gRPC by content. With
// fatalOK=false only shapes the client must answer with a stream error (or
// tolerate) are drawn; hpack corruption, missing END_HEADERS and bad padding
// are connection errors.
func genHdrBad(rt *rapid.T, fatalOK bool) Step {
	st := Step{K: kHdr, Bad: true, M: genModeNF(rt, 80, fatalOK), S: intn(rt, "s", 0, 7), ES: chance(rt, "es", 50)}
	trailers := func(extra ...HF) []HF { return append([]HF{{"grpc-status", "0"}}, extra...) }
	hi := 27
	if !fatalOK {
		hi = 20
	}
	switch intn(rt, "hb", 0, hi) {
	case 0, 1:
		st.Var, st.H = "bad_grpc_status", []HF{{"grpc-status", pick(rt, "bs", badStatus...)}}
		if chance(rt, "withresp", 40) {
			st.H = append(append([]HF(nil), respOK...), st.H...)
		}
	case 2:
		st.Var, st.H = "bad_content_type", []HF{{":status", "200"}, {"content-type", pick(rt, "bct", badCT...)}}
	case 3:
		st.Var, st.H = "missing_content_type", []HF{{":status", "200"}}
	case 4:
		st.Var, st.H = "missing_status", []HF{{"content-type", pick(rt, "bct2", "application/grpc", "text/plain")}}
	case 5, 6:
		st.Var, st.H = "http_status", []HF{{":status", pick(rt, "hs", httpStatus...)}, {"content-type", pick(rt, "ct", "text/html", "application/grpc", "")}}
	case 7:
		st.Var, st.ES, st.H = "informational_end_stream", true, []HF{{":status", pick(rt, "hs1", "100", "103", "199")}}
	case 8:
		st.Var, st.H = "dup_status", []HF{{":status", "200"}, {":status", pick(rt, "ds", "200", "500")}, {"content-type", "application/grpc"}}
	case 9:
		st.Var, st.H = "pseudo_after_regular", []HF{{"content-type", "application/grpc"}, {":status", "200"}}
	case 10:
		st.Var, st.H = "unknown_pseudo", []HF{{":status", "200"}, {pick(rt, "up", ":foo", ":", ":path", ":method", ":authority", ":scheme"), "x"}, {"content-type", "application/grpc"}}
	case 11:
		st.Var, st.H = "uppercase_name", []HF{{":status", "200"}, {pick(rt, "un", "Content-Type", "X-Upper", "grpc-Status"), "application/grpc"}}
	case 12:
		st.Var, st.H = "bad_name_or_value_bytes", []HF{{":status", "200"}, {"content-type", "application/grpc"},
			{pick(rt, "bn", "x-v", "x v", "x\x00", "", "x-é"), pick(rt, "bv", "a\x00b", "a\nb", "a\rb", "ok", "\x7f")}}
	case 13:
		st.Var, st.H = "bad_bin_metadata", append(append([]HF(nil), respOK...), HF{pick(rt, "bk", "x-data-bin", "grpc-status-details-bin", "grpc-foo-bin"), pick(rt, "bb", badBin...)})
		if st.ES {
			st.H = append(st.H, HF{"grpc-status", "0"})
		}
	case 14:
		st.Var, st.ES, st.H = "bad_grpc_message", true, trailers(HF{"grpc-message", pick(rt, "bm", badMsg...)})
	case 15:
		st.Var, st.ES, st.H = "bad_status_details", true, []HF{{"grpc-status", pick(rt, "c", "0", "3", "99")}, {"grpc-status-details-bin", pick(rt, "sd", "YWJj", "CAMSBGJvb20", "CP///////////wE", "!!", "")}}
	case 16:
		st.Var, st.ES, st.H = "trailers_without_end_stream", false, trailers()
	case 17:
		st.Var, st.ES, st.H = "end_stream_without_grpc_status", true, pick(rt, "ew", []HF{{"x-a", "b"}}, respOK, []HF{})
	case 18:
		st.Var, st.H = "dup_grpc_status", []HF{{"grpc-status", "0"}, {"grpc-status", pick(rt, "d2", "5", "abc", "0")}}
		st.ES = true
	case 19:
		st.Var, st.H = "huge_header", append(append([]HF(nil), respOK...), HF{"x-long", strings.Repeat("h", intn(rt, "hh", 8000, vk.Pick(70000, 300000)))})
		st.Frags = []int{intn(rt, "f0", 1, 16384), 16384}
		st.Bad = false // legal unless it exceeds the client's MaxHeaderListSize (labelled anyway)
	case 20:
		st.Var = "many_headers"
		st.H = append([]HF(nil), respOK...)
		for i, n := 0, intn(rt, "nh", 50, 600); i < n; i++ {
			st.H = append(st.H, HF{"x-h" + string(rune('a'+i%26)), "v"})
		}
		st.Bad = false
	case 21:
		st.Var, st.B = "random_block", rapid.SliceOfN(rapid.Byte(), 1, 60).Draw(rt, "blk")
	case 22:
		st.Var, st.B = "bad_hpack_index", pick(rt, "bi", []byte{0x80}, []byte{0xff, 0xff, 0xff, 0x7f}, []byte{0xbe}, []byte{0x7f, 0x80, 0x80, 0x80, 0x80, 0x80, 0x80, 0x80, 0x80, 0x01})
	case 23:
		st.Var, st.B = "hpack_table_size_update", pick(rt, "ts", []byte{0x3f, 0xe1, 0xff, 0xff, 0x0f, 0x88}, []byte{0x20, 0x88}, []byte{0x88, 0x3f, 0x01})
	case 24:
		st.Var, st.B = "hpack_truncated_string", pick(rt, "tr", []byte{0x00, 0x05, 'a', 'b'}, []byte{0x40, 0x8a, 0xff}, []byte{0x00, 0x7f, 0xff, 0xff, 0xff, 0x7f, 'x'}, []byte{0x0f})
	case 25:
		st.Var, st.H, st.NoEH = "no_end_headers", respOK, true
	case 26:
		st.Var, st.H, st.Pad = "pad_exceeds_payload", respOK, -intn(rt, "bp", 1, 200)
	default:
		st.Var, st.B = "empty_block", []byte{}
		st.Bad = false
	}
	return st
}

func genData(rt *rapid.T, legal, fatalOK bool) Step {
	st := Step{K: kData, S: intn(rt, "s", 0, 7)}
	if legal {
		st.M, st.Var = mLive, pick(rt, "dv", "msg", "msg", "msg", "empty")
		st.N = pick(rt, "dn", 0, 1, 10, 100, 1000, 16379, 16380, 30000, 60000)
		if chance(rt, "pad", 20) {
			st.Pad = intn(rt, "padn", 1, 256)
		}
		return st
	}
	st.M = genModeNF(rt, 55, fatalOK)
	st.ES = chance(rt, "es", 35)
	dhi := 11
	if !fatalOK {
		dhi = 7
	}
	switch intn(rt, "db", 0, dhi) {
	case 0, 1, 2: // the content is fine, the stream (or its state) is not — or END_STREAM without trailers
		st.Var, st.N = "msg", pick(rt, "dn", 0, 1, 100, 5000, 20000)
		if st.M == mLive {
			st.ES = true
			st.Bad = true
			st.Var = "msg_end_stream_no_trailers"
		}
	case 3:
		st.Var, st.N, st.Bad = "msg_compressed", intn(rt, "n", 0, 3000), true
	case 4:
		st.Var, st.N, st.Bad = pick(rt, "lv", "msg_len_huge", "msg_len_5m", "msg_len_short", "msg_len_long", "msg_flag_garbage"), intn(rt, "n", 2, 3000), true
	case 5:
		st.Var, st.N, st.Bad, st.ES = "prefix_only", intn(rt, "n", 0, 300), true, true
	case 6:
		st.Var, st.N, st.Bad = "garbage", intn(rt, "n", 1, 20000), true
	case 7:
		st.Var, st.N, st.Bad = "msg", pick(rt, "big", 65531, 65536, 70000, 131072, vk.Pick(200000, 1<<20)), true // beyond the 65535-byte windows
	case 8:
		st.Var, st.N, st.F, st.Bad = "msg", pick(rt, "of", 16380, 16385, 20000, 70000), 1, true // one frame > 16384
	case 9:
		st.Var, st.N, st.Pad, st.Bad = "msg", intn(rt, "n", 0, 300), -intn(rt, "bp", 1, 200), true
	case 10:
		st.Var, st.N, st.Pad = "empty", 0, 1 // padded zero-length data: legal but unusual
		st.Bad = st.ES
	default:
		st.Var, st.N, st.Pad, st.Bad = "msg", intn(rt, "n", 0, 300), 256, false
	}
	return st
}

func genWU(rt *rapid.T, fatalOK bool) Step {
	st := Step{K: kWU, S: intn(rt, "s", 0, 7)}
	st.M = pick(rt, "wm", "conn", "conn", mLive, mLive, mClosed, mIdle, mEven, mHuge)
	whi := 7
	if !fatalOK {
		whi = 6
	}
	switch intn(rt, "wv", 0, whi) {
	case 0, 1:
		st.Var, st.N = "ok", pick(rt, "inc", 1, 1000, 65535, 1<<20)
	case 2, 3:
		st.Var, st.N, st.Bad = "zero", 0, true
		if !fatalOK && st.M == "conn" { // WINDOW_UPDATE(0, 0) is a connection error; on a stream it is a stream error
			st.M = mLive
		}
	case 4, 5:
		st.Var, st.N, st.Bad = "overflow", pick(rt, "inc2", 1<<31-1, 1<<31-65535, 1<<31-65536, 1<<30), true
	case 6:
		st.Var, st.N, st.Bad = "reserved_bit", -1, true // 0xffffffff: reserved bit set
	default:
		st.Var, st.F, st.Bad = "bad_length", intn(rt, "wl", 1, 8), true
		if st.F == 4 {
			st.F = 5
		}
	}
	return st
}

func genSettings(rt *rapid.T, fatalOK bool) Step {
	st := Step{K: kSettings}
	v := intn(rt, "sv", 0, 13)
	if !fatalOK && v >= 6 && v <= 11 {
		v = 13
	}
	switch v {
	case 0, 1:
		st.Var, st.SS = "iws", []int64{4, pick(rt, "iws", int64(0), 1, 100, 16384, 65535, 1<<20, 1<<31-1)}
	case 2:
		st.Var, st.SS = "max_concurrent", []int64{3, pick(rt, "mcs", int64(0), 1, 2, 100, 1<<32-1)}
	case 3:
		st.Var, st.SS = "header_table_size", []int64{1, pick(rt, "hts", int64(0), 1, 4096, 65536, 1<<32-1)}
	case 4:
		st.Var, st.SS = "max_header_list", []int64{6, pick(rt, "mhl", int64(0), 10, 100, 8192, 1<<32-1)}
	case 5:
		st.Var, st.SS, st.Bad = "bogus_id", []int64{pick(rt, "bid", int64(0), 7, 8, 9, 0x10, 0xff, 0xffff), int64(intn(rt, "bval", 0, 1<<30))}, false // unknown ids must be ignored
	case 6:
		st.Var, st.SS, st.Bad = "iws_too_large", []int64{4, pick(rt, "iws2", int64(1<<31), 1<<32-1)}, true
	case 7:
		st.Var, st.SS, st.Bad = "enable_push_invalid", []int64{2, pick(rt, "ep", int64(2), 1<<32-1)}, true
	case 8:
		st.Var, st.SS, st.Bad = "max_frame_size_invalid", []int64{5, pick(rt, "mfs", int64(0), 16383, 1<<24, 1<<32-1)}, true
	case 9:
		st.Var, st.SS, st.M, st.S, st.Bad = "on_stream", []int64{4, 65535}, pick(rt, "sm", mLive, mIdle, mEven), intn(rt, "s", 0, 7), true
	case 10:
		st.Var, st.SS, st.B, st.Bad = "bad_length", []int64{4, 65535}, rapid.SliceOfN(rapid.Byte(), 1, 5).Draw(rt, "extra"), true
	case 11:
		st.Var, st.V, st.SS, st.Bad = "ack_with_payload", flAck, []int64{4, 1}, true
	case 12:
		st.Var, st.V = "unsolicited_ack", flAck
	default:
		st.Var = "many"
		for i, n := 0, intn(rt, "ns", 2, 40); i < n; i++ {
			st.SS = append(st.SS, pick(rt, "mid", int64(1), 3, 4, 4, 6), pick(rt, "mval", int64(0), 1, 65535, 1<<20, 1<<31-1))
		}
	}
	return st
}

func genPing(rt *rapid.T, fatalOK bool) Step {
	st := Step{K: kPing, N: 1, S: intn(rt, "s", 0, 255)}
	v := intn(rt, "pv", 0, 6)
	if !fatalOK && (v == 4 || v == 5) {
		v = 1
	}
	switch v {
	case 0:
		st.Var = "ok"
	case 1, 2:
		st.Var, st.N, st.Bad = "flood", intn(rt, "flood", 10, vk.Pick(150, 1000)), true
	case 3:
		st.Var, st.V = "unsolicited_ack", flAck
		st.N = intn(rt, "na", 1, 5)
	case 4:
		st.Var, st.F, st.Bad = "bad_length", pick(rt, "pl", 1, 7, 9, 16), true
	case 5:
		st.Var, st.M, st.Bad = "on_stream", pick(rt, "pm", mLive, mIdle, mEven), true
	default:
		st.Var, st.V, st.N = "ack_flood", flAck, intn(rt, "flood2", 10, 100)
	}
	return st
}

func genRST(rt *rapid.T, fatalOK bool) Step {
	st := Step{K: kRST, S: intn(rt, "s", 0, 7), V: pick(rt, "code", errCodes...)}
	st.M = genModeNF(rt, 55, fatalOK)
	st.Var = "code"
	if fatalOK && chance(rt, "rl", 10) {
		st.Var, st.F, st.Bad = "bad_length", pick(rt, "rlen", 1, 3, 5, 8), true
	}
	return st
}

func genGoAway(rt *rapid.T) Step {
	st := Step{K: kGoAway, S: intn(rt, "s", 0, 7), V: pick(rt, "code", errCodes...)}
	st.Var = pick(rt, "gv", "all", "all", "max", "zero", "even", "stream", "stream", "raw")
	st.M = pick(rt, "gm", mLive, mAny, mClosed, mIdle, mHuge)
	if st.Var == "raw" {
		st.N = pick(rt, "gid", 1, 3, 5, 7, 99, 1<<31-1, -1)
	}
	if chance(rt, "dbg", 40) {
		st.B = []byte(pick(rt, "debug", "too_many_pings", "bye", "\x00\xff", strings.Repeat("d", 2000)))
		if string(st.B) == "too_many_pings" {
			st.V = 0xb
		}
	}
	switch intn(rt, "gf", 0, 11) {
	case 0:
		st.F, st.Bad, st.Var = 1, true, st.Var+"_on_stream"
	case 1:
		st.F, st.Bad, st.Var = 2, true, st.Var+"_short"
	}
	return st
}

func genFrame(rt *rapid.T, fatalOK bool) Step {
	st := Step{K: kFrame, S: intn(rt, "s", 0, 7)}
	st.B = rapid.SliceOfN(rapid.Byte(), 0, 40).Draw(rt, "payload")
	st.V = int64(intn(rt, "flags", 0, 255))
	st.M = pick(rt, "fm", "conn", mLive, mLive, mIdle, mEven)
	fhi := 6
	if !fatalOK {
		fhi = 3
	}
	switch intn(rt, "fv", 0, fhi) {
	case 0, 1:
		st.Var, st.F = "unknown_type", intn(rt, "ft", 0x0a, 0xff)
		if st.F == 0x10 { // PRIORITY_UPDATE (RFC 9218) is parsed by the framer: off stream 0 / short payload = connection error
			if fatalOK {
				st.Var, st.Bad = "priority_update", true
			} else {
				st.F = 0x11
			}
		}
	case 2:
		st.Var, st.F = "priority", ftPriority
		st.B = []byte{0, 0, 0, byte(intn(rt, "dep", 0, 9)), 7}
		if st.M == "conn" {
			st.M = mIdle // PRIORITY on stream 0 is a connection error
		}
		if fatalOK && chance(rt, "pbl", 40) {
			st.B, st.Bad, st.Var = st.B[:intn(rt, "plen", 0, 4)], true, "priority_bad_length"
		}
		st.V = 0
	case 3:
		st.Var, st.F, st.Bad = "push_promise", ftPushPromise, true
		st.V = int64(pick(rt, "ppf", flEndHeaders, flEndHeaders, 0, flEndHeaders|flPadded))
		st.B = append([]byte{0, 0, 0, byte(2 * intn(rt, "promised", 0, 9))}, 0x88)
		if !fatalOK {
			st.V = flEndHeaders
			if st.M == "conn" {
				st.M = mLive
			}
		}
	case 4:
		st.Var, st.F, st.Bad = "frame_too_large", pick(rt, "tl", ftData, ftHeaders, ftSettings, ftPing, 0x42), true
		st.N = 1 + pick(rt, "decl", 16385, 1<<20, 1<<24-1) // declared length only; few bytes follow
	case 5:
		st.Var, st.Bad = "declared_length_lies", true
		st.F = pick(rt, "lt", ftData, ftHeaders, ftRST, ftWindowUpdate, ftPing, ftGoAway)
		st.N = 1 + intn(rt, "decl2", 0, 200)
	default:
		st.Var, st.F, st.Bad = "data_stream_zero", ftData, true
		st.M = "conn"
	}
	return st
}

func genRaw(rt *rapid.T) Step {
	st := Step{K: kRaw, Bad: true}
	switch intn(rt, "rv", 0, 3) {
	case 0:
		st.Var, st.B = "garbage", rapid.SliceOfN(rapid.Byte(), 1, 200).Draw(rt, "raw")
	case 1:
		st.Var, st.B = "http1", []byte("HTTP/1.1 400 Bad Request\r\nContent-Length: 0\r\n\r\n")
	case 2:
		st.Var, st.B = "partial_header", rapid.SliceOfN(rapid.Byte(), 1, 8).Draw(rt, "raw")
	default:
		st.Var, st.B = "zeros", make([]byte, intn(rt, "nz", 1, 64))
	}
	return st
}

type genCfg struct {
	maxRPC, maxSteps int
	conn             bool
}

func genPlan(cfg genCfg) func(rt *rapid.T) Plan {
	return func(rt *rapid.T) Plan {
		var p Plan
		nrpc := intn(rt, "nrpc", 1, cfg.maxRPC)
		for i := 0; i < nrpc; i++ {
			r := RPC{DeadlineMs: pick(rt, "dl", 1, 20, 100, 500, 1500, 4000), Msgs: intn(rt, "msgs", 0, 3),
				Bytes: pick(rt, "rb", 0, 10, 1000, 20000, 70000, vk.Pick(150000, 600000))}
			if cfg.conn {
				r.WFR, r.Unary = chance(rt, "wfr", 40), chance(rt, "unary", 40)
			}
			r.NoClose = chance(rt, "noclose", 10)
			if cfg.conn && replayMayBlock(r) {
				// Known finding c11.retry_replay_blocks_in_flow_control_holding_cs_mu (notes/C11.md): excluded by
				// construction, otherwise the frozen bubble ends the shard. Unary calls keep the large sizes.
				r.Bytes = 20000
			}
			p.RPCs = append(p.RPCs, r)
		}
		// The server's preface SETTINGS. Values that keep the client from ever
		// opening a stream (MAX_CONCURRENT_STREAMS 0, tiny MAX_HEADER_LIST_SIZE) are rare.
		if chance(rt, "ss_mcs", 25) {
			p.PeerSS = append(p.PeerSS, 3, pick(rt, "mcs", int64(1), 2, 100, 1, 2, 0))
		}
		if chance(rt, "ss_iws", 30) {
			p.PeerSS = append(p.PeerSS, 4, pick(rt, "iws", int64(65535), 1<<20, 100, 1, 0, 1<<31-1))
		}
		if chance(rt, "ss_mhl", 8) {
			p.PeerSS = append(p.PeerSS, 6, pick(rt, "mhl", int64(8192), 1<<20, 8192, 100, 0))
		}
		if chance(rt, "ss_hts", 10) {
			p.PeerSS = append(p.PeerSS, 1, pick(rt, "hts", int64(0), 4096, 65536))
		}
		if chance(rt, "seg", 35) {
			p.ReadSizes = pick(rt, "rs", []int{1}, []int{2, 7}, []int{9}, []int{5, 1, 100}, []int{16384, 3})
		}
		if chance(rt, "maxhdr", 15) {
			p.MaxHdr = pick(rt, "mh", 300, 4096, 20000)
		}
		p.Static = chance(rt, "static", 30)
		if chance(rt, "ka", 8) {
			p.KAms = pick(rt, "kams", 20, 200, 1000)
			p.NoPingAck = chance(rt, "nopingack", 30)
		}
		if cfg.conn {
			p.MaxConns = intn(rt, "maxconns", 1, 3)
			p.Retry = chance(rt, "retry", 30)
			if chance(rt, "badfirst", 4) {
				p.BadFirst = pick(rt, "bf", []byte{}, frame(ftPing, 0, 0, make([]byte, 8)), []byte("HTTP/1.1 400 Bad Request\r\n\r\n"), frame(ftSettings, 0, 0, []byte{0, 4, 0x80, 0, 0, 0}), frame(ftSettings, 0, 1, nil))
			}
		}
		n := intn(rt, "nsteps", 10, cfg.maxSteps)
		// Phase 1 (the first 55..90% of the script) draws only shapes that a
		// correct client answers per stream (or ignores), so that the
		// connection survives and later steps hit a transport with history;
		// connection-fatal shapes and raw byte mutations come in phase 2.
		fatalFrom := n * intn(rt, "fatal_from_pct", 55, 90) / 100
		started := 0
		for i := 0; i < n; i++ {
			var st Step
			fatalOK := i >= fatalFrom
			w := intn(rt, "w", 0, 99)
			switch {
			case started == 0 || (w < 12 && started < nrpc):
				st = Step{K: kRPC, N: started}
				started++
			case w < 13:
				st = Step{K: kSleep, N: pick(rt, "sleep", 1, 5, 30, 200, 1000)}
			case w < 22:
				st = genHdrLegal(rt)
			case w < 28:
				st = genData(rt, true, fatalOK)
			case w < 34:
				st = Step{K: kFull, M: mLive, S: intn(rt, "s", 0, 7), N: pick(rt, "fn", -1, 0, 10, 3000), V: pick(rt, "fc", int64(0), 0, 0, 2, 14), F: intn(rt, "frst", 0, 1)}
			case w < 52:
				st = genHdrBad(rt, fatalOK)
			case w < 64:
				st = genData(rt, false, fatalOK)
			case w < 69:
				st = genWU(rt, fatalOK)
			case w < 75:
				st = genSettings(rt, fatalOK)
			case w < 79:
				st = genPing(rt, fatalOK)
			case w < 85:
				st = genRST(rt, fatalOK)
			case w < 88:
				st = genFrame(rt, fatalOK)
			case !fatalOK:
				st = genHdrBad(rt, false)
			case w < 92:
				st = genGoAway(rt)
			case w < 94:
				st = genFrame(rt, true)
			case w < 96:
				st = Step{K: kCont, M: genMode(rt, 60), S: intn(rt, "s", 0, 7), B: rapid.SliceOfN(rapid.Byte(), 0, 20).Draw(rt, "frag"), NoEH: chance(rt, "noeh", 30)}
			case w < 98:
				st = genRaw(rt)
			default:
				st = Step{K: kClose, F: intn(rt, "half", 0, 1)}
			}
			if fatalOK && st.K != kRPC && st.K != kSleep && st.K != kClose && chance(rt, "mut", 25) {
				st.Mut = genMuts(rt)
			}
			st.NW = chance(rt, "nw", 30)
			p.Script = append(p.Script, st)
		}
		return p
	}
}
