package c11_test

// Unit "transport": a real http2Client (internal/transport) against the
// scripted server, inside a synctest bubble. Each planned RPC is a harness
// goroutine that uses the transport the way grpc's clientStream does:
// NewStream(ctx with deadline), a watcher that closes the stream when the
// context ends, Write*, then read messages until an error, then Close.

import (
	"context"
	"errors"
	"fmt"
	"io"
	"os"
	"sort"
	"strings"
	"sync"
	"testing"
	"testing/synctest"
	"time"

	"golang.org/x/net/http2"
	"google.golang.org/grpc/codes"
	"google.golang.org/grpc/internal/transport"
	"google.golang.org/grpc/internal/verifkit/h2peer"
	"google.golang.org/grpc/internal/verifkit/h2peer/h2grpc"
	"google.golang.org/grpc/internal/verifkit/vk"
	"google.golang.org/grpc/internal/verifkit/vpipe"
	"google.golang.org/grpc/keepalive"
	"google.golang.org/grpc/mem"
	"google.golang.org/grpc/status"
)

const maxRecvMsg = 4 << 20

// rpcRec is the observable life of one RPC.
type rpcRec struct {
	idx      int
	started  bool
	start    time.Time
	deadline time.Time

	mu       sync.Mutex
	done     bool
	doneAt   time.Time
	returns  int // how many times the call delivered a final result (must be 1)
	code     codes.Code
	msg      string
	noStatus string // non-empty: the final error carried no status
	statusOf func() *status.Status
	// stAtReturn is ClientStream.Status() at the moment the RPC returned.
	stAtReturn *status.Status
	recvMsgs   int
}

func (r *rpcRec) finish(code codes.Code, msg string) {
	r.mu.Lock()
	r.done, r.doneAt = true, time.Now()
	r.returns++
	r.code, r.msg = code, msg
	r.mu.Unlock()
}

func (r *rpcRec) isDone() bool { r.mu.Lock(); defer r.mu.Unlock(); return r.done }

// errToStatus maps a transport-level error the way grpc's toRPCErr does for
// the documented error kinds; ok=false if the error is of no known kind.
func errToStatus(err error) (codes.Code, string, bool) {
	var ce transport.ConnectionError
	var nse *transport.NewStreamError
	switch {
	case errors.As(err, &nse):
		return errToStatus(nse.Err)
	case err == io.ErrUnexpectedEOF:
		return codes.Internal, err.Error(), true
	case errors.As(err, &ce):
		return codes.Unavailable, ce.Desc, true
	case errors.Is(err, context.DeadlineExceeded):
		return codes.DeadlineExceeded, err.Error(), true
	case errors.Is(err, context.Canceled):
		return codes.Canceled, err.Error(), true
	}
	if st, ok := status.FromError(err); ok {
		return st.Code(), st.Message(), true
	}
	return codes.Unknown, err.Error(), false
}

func transportRPC(ct transport.ClientTransport, r *rpcRec, spec RPC) {
	ctx, cancel := context.WithDeadline(context.Background(), r.deadline)
	defer cancel()
	s, err := ct.NewStream(ctx, &transport.CallHdr{Host: "vf", Method: fmt.Sprintf("/vf/rpc%d", r.idx)}, nil)
	if err != nil {
		c, m, ok := errToStatus(err)
		if !ok {
			r.noStatus = fmt.Sprintf("NewStream error of unknown kind %T: %v", err, err)
		}
		r.finish(c, m)
		return
	}
	r.mu.Lock()
	r.statusOf = s.Status
	r.mu.Unlock()
	// What grpc's clientStream does for streaming RPCs: end the stream when the context ends.
	watcherDone := make(chan struct{})
	go func() {
		defer close(watcherDone)
		select {
		case <-ctx.Done():
			s.Close(transport.ContextErr(ctx.Err()))
		case <-s.Done():
		}
	}()
	for i := 0; i < spec.Msgs; i++ {
		payload := fill(spec.Bytes, r.idx*31+i)
		hdr := []byte{0, byte(len(payload) >> 24), byte(len(payload) >> 16), byte(len(payload) >> 8), byte(len(payload))}
		last := i == spec.Msgs-1 && !spec.NoClose
		if werr := s.Write(hdr, mem.BufferSlice{mem.SliceBuffer(payload)}, &transport.WriteOptions{Last: last}); werr != nil {
			break // like grpc: the status is picked up by the read side
		}
	}
	if spec.Msgs == 0 && !spec.NoClose {
		s.Write(nil, nil, &transport.WriteOptions{Last: true})
	}
	var rerr error
	var hdr [5]byte
	for {
		if rerr = s.ReadMessageHeader(hdr[:]); rerr != nil {
			break
		}
		n := int(hdr[1])<<24 | int(hdr[2])<<16 | int(hdr[3])<<8 | int(hdr[4])
		if n > maxRecvMsg {
			rerr = status.Errorf(codes.ResourceExhausted, "harness: received message larger than max (%d vs. %d)", n, maxRecvMsg)
			break
		}
		bs, e := s.Read(n)
		if e != nil {
			rerr = e
			break
		}
		bs.Free()
		r.mu.Lock()
		r.recvMsgs++
		r.mu.Unlock()
	}
	var c codes.Code
	var m string
	if rerr == io.EOF {
		st := s.Status()
		if st == nil {
			r.noStatus = "read returned io.EOF but ClientStream.Status() is nil"
		} else {
			c, m = st.Code(), st.Message()
		}
		s.Close(nil)
	} else {
		var ok bool
		if c, m, ok = errToStatus(rerr); !ok {
			r.noStatus = fmt.Sprintf("read error of unknown kind %T: %v", rerr, rerr)
		}
		s.Close(rerr)
	}
	<-s.Done()
	<-watcherDone
	r.mu.Lock()
	r.stAtReturn = s.Status()
	r.mu.Unlock()
	r.finish(c, m)
}

// outcome of one executed plan.
type outcome struct {
	violation string
	classes   map[string]bool
	nontriv   bool
	setupErr  error
	steps     int
	nBadAlive int // violating steps written while the connection was alive with an RPC in flight
	nAlive    int // frame steps written while the connection was alive
}

func (o *outcome) class(c string) { o.classes[c] = true }

func sortedClasses(m map[string]bool) []string {
	var out []string
	for c := range m {
		out = append(out, c)
	}
	sort.Strings(out)
	return out
}

// closeReason buckets the error the client transport reported to onClose.
func closeReason(err error) string {
	if err == nil {
		return "goaway_or_graceful"
	}
	e := err.Error()
	for _, k := range []string{"keepalive", "frame too large", "PROTOCOL_ERROR", "FLOW_CONTROL_ERROR", "FRAME_SIZE_ERROR", "COMPRESSION_ERROR", "unexpected EOF", "EOF", "closed pipe",
		"received goaway and there are no active streams", "received goaway with non-zero even-numbered", "exceeds stream id of previous goaway", "no active streams left to process while draining",
		"not a settings frame", "rig closed"} {
		if strings.Contains(e, k) {
			return strings.ReplaceAll(k, " ", "_")
		}
	}
	return "other"
}

func settingsOf(pairs []int64) []http2.Setting {
	var ss []http2.Setting
	for i := 0; i+1 < len(pairs); i += 2 {
		ss = append(ss, http2.Setting{ID: http2.SettingID(pairs[i]), Val: uint32(pairs[i+1])})
	}
	return ss
}

// legalCode implements the "status codes are legal" part of the oracle: 0..16,
// or a value the scripted server itself put into a grpc-status header (grpc-go
// hands unknown numeric codes through unchanged; that is reported as a class).
func legalCode(c codes.Code, sent map[uint32]bool) (ok bool, passthrough bool) {
	if c <= codes.Unauthenticated {
		return true, false
	}
	return sent[uint32(c)], true
}

func runTransport(t *testing.T, p Plan) outcome {
	out := outcome{classes: map[string]bool{}}
	var msg string
	guarded("transport", func() { msg = bubbleTransport(t, p, &out) })
	if out.violation == "" && msg != "" {
		out.violation = "after Close the bubble did not drain (goroutine leak) or a bubble goroutine panicked: " + msg
	} else if msg != "" && !strings.Contains(msg, "deadlock") {
		out.violation += " || " + msg
	}
	return out
}

func bubbleTransport(t *testing.T, p Plan, outp *outcome) string {
	out := outp
	return vk.Bubble(t, func(t *testing.T) {
		opts := transport.ConnectOptions{StaticWindowSize: p.Static}
		if p.MaxHdr > 0 {
			v := uint32(p.MaxHdr)
			opts.MaxHeaderListSize = &v
		}
		if p.KAms > 0 {
			opts.KeepaliveParams = keepalive.ClientParameters{Time: time.Duration(p.KAms) * time.Millisecond, Timeout: time.Duration(p.KAms) * time.Millisecond / 2, PermitWithoutStream: p.KAms%40 == 0}
		}
		rig, err := h2grpc.NewClientWith(h2peer.Config{Settings: settingsOf(p.PeerSS), ManualPingAck: p.NoPingAck}, opts, h2grpc.ClientOptions{
			Pipe: func(g, _ *vpipe.Conn) {
				if len(p.ReadSizes) > 0 {
					g.SetReadSizes(p.ReadSizes...)
				}
			}})
		if err != nil {
			out.setupErr = err
			return
		}
		cs := newConnState(rig.Peer)
		synctest.Wait()
		recs := make([]*rpcRec, len(p.RPCs))
		var wg sync.WaitGroup
		for _, st := range p.Script {
			out.steps++
			bump()
			switch st.K {
			case kRPC:
				if st.N < 0 || st.N >= len(p.RPCs) || recs[st.N] != nil {
					continue
				}
				r := &rpcRec{idx: st.N, started: true, start: time.Now()}
				r.deadline = r.start.Add(time.Duration(p.RPCs[st.N].DeadlineMs) * time.Millisecond)
				recs[st.N] = r
				wg.Add(1)
				go func() { defer wg.Done(); transportRPC(rig.CT, r, p.RPCs[st.N]) }()
				synctest.Wait()
				continue
			case kSleep:
				time.Sleep(time.Duration(st.N) * time.Millisecond)
				synctest.Wait()
				continue
			case kClose:
				if st.F == 1 {
					rig.PeerConn.CloseWrite()
					out.class("fault:half_close")
				} else {
					rig.PeerConn.Close()
					out.class("fault:close")
				}
				synctest.Wait()
				continue
			}
			b, bad, class := cs.encode(st)
			inFlight := 0
			for _, r := range recs {
				if r != nil && !r.isDone() {
					inFlight++
				}
			}
			alive := !rig.Conn.Closed() && !rig.PeerConn.Closed()
			opened := len(rig.Peer.Ledger().StreamIDs()) > 0
			if alive {
				out.nAlive++
			}
			if alive && opened {
				for _, c := range class {
					out.class(c)
				}
				if bad {
					out.nontriv = true
					if inFlight > 0 {
						out.nBadAlive++
						out.class("nt:violation_with_rpc_in_flight")
					}
				}
			}
			rig.Peer.WriteRaw(b)
			if !st.NW {
				synctest.Wait()
			}
		}
		synctest.Wait()
		for _, gi := range rig.CloseInfos() {
			out.class("conn_close:" + closeReason(gi.Err))
		}
		// Let every deadline pass (virtual time) and check termination.
		var maxDL time.Time
		for _, r := range recs {
			if r != nil && r.deadline.After(maxDL) {
				maxDL = r.deadline
			}
		}
		if d := time.Until(maxDL); d > 0 {
			time.Sleep(d)
		}
		synctest.Wait()
		hung := false
		for _, r := range recs {
			if r == nil {
				continue
			}
			r.mu.Lock()
			switch {
			case !r.done:
				out.violation = fmt.Sprintf("RPC %d did not return by its deadline (started %v, deadline +%v, now +%v): hang", r.idx, r.start.Format("05.000"), r.deadline.Sub(r.start), time.Since(r.start))
				hung = true
			case r.doneAt.After(r.deadline):
				out.violation = fmt.Sprintf("RPC %d returned %v after its deadline (deadline +%v)", r.idx, r.doneAt.Sub(r.deadline), r.deadline.Sub(r.start))
			case r.returns != 1:
				out.violation = fmt.Sprintf("RPC %d delivered %d final results", r.idx, r.returns)
			case r.noStatus != "":
				out.violation = fmt.Sprintf("RPC %d ended without a status: %s", r.idx, r.noStatus)
			default:
				ok, pass := legalCode(r.code, cs.statusSent)
				if !ok {
					out.violation = fmt.Sprintf("RPC %d ended with illegal status code %d (%q) that the server never sent", r.idx, uint32(r.code), r.msg)
				}
				if pass {
					out.class("rpc:out_of_range_code_passed_through")
				} else {
					out.class("rpc:" + r.code.String())
				}
				if r.doneAt.Equal(r.deadline) {
					out.class("rpc:returned_exactly_at_deadline")
				}
			}
			r.mu.Unlock()
		}
		if rig.Conn.Closed() {
			out.class("conn:closed_by_client")
		}
		// More hostile frames after every RPC has returned must not change a delivered status.
		if !hung && out.violation == "" {
			for _, r := range recs {
				if r == nil || r.statusOf == nil {
					continue
				}
				if st := r.statusOf(); st != r.stAtReturn {
					out.violation = fmt.Sprintf("RPC %d: the stream status changed after the RPC had returned (was %v, now %v): more than one final status", r.idx, r.stAtReturn, st)
				}
			}
		}
		// Close + connection close: everything must drain.
		rig.Close()
		if !hung {
			wg.Wait()
		}
	})
}

func toResult(out outcome) vk.Result {
	if out.setupErr != nil {
		// The preface itself was unacceptable: no transport, nothing to check.
		r := vk.OK(false, "setup_failed")
		return r
	}
	cl := sortedClasses(out.classes)
	if out.violation != "" {
		return vk.Bad("%s", out.violation).With(cl...)
	}
	res := vk.OK(out.nontriv, cl...)
	res.Steps = out.steps
	return res
}

const ruleCommon = "script of 10..N steps drawn from a grammar over HTTP/2 frames and written by an independent byte-level encoder: protocol-correct responses (headers, messages, trailers, trailers-only, padded/priority/CONTINUATION-split), " +
	"HEADERS with malformed content (bad/duplicate/missing grpc-status, content-type, :status incl. 1xx+END_STREAM and non-numeric, duplicate/late/unknown pseudo headers, upper-case names, control bytes, bad base64 in -bin, bad percent-encoding, bad status details, HEADERS mid-stream, END_STREAM without status, random/ill-indexed/truncated hpack blocks, missing END_HEADERS, padding larger than the payload, huge and many headers), orphan CONTINUATION, " +
	"DATA on unknown/closed/even/zero/huge stream ids, before headers, with END_STREAM, lying or compressed message prefixes, beyond the 65535-byte windows, in one frame > 16384, bad padding; WINDOW_UPDATE 0 / overflow / wrong length; SETTINGS with bogus ids, invalid values, on a stream, wrong length, ACK with payload; PING floods, wrong length, on a stream; RST_STREAM with arbitrary codes and ids; GOAWAY with even / increasing / zero / arbitrary ids, on a stream, short; unknown frame types, PRIORITY, PUSH_PROMISE, frames declaring more bytes than follow, literal garbage, connection close; " +
	"8% of the steps additionally get raw byte mutations (bit flip, set, truncate, drop, insert, splice) of their encoding; 30% of the steps are sent without waiting for quiescence. RPCs (1..k, deadlines 1 ms..4 s virtual, 0..3 request messages of 0..150 KB) are started by script steps. " +
	"non-trivial = at least one violating step was written while the connection was alive and after a stream had been opened (class nt:violation_with_rpc_in_flight counts the cases where an RPC was still in flight at that moment)"

func TestVerifC11Transport(t *testing.T) {
	vk.Check(t, vk.Unit[Plan]{ID: "C11", Name: "transport",
		Rule: "real http2Client (transport.NewHTTP2Client over vpipe) vs scripted server; " + ruleCommon,
		Gen:  genPlan(genCfg{maxRPC: vk.Pick(4, 8), maxSteps: vk.Pick(40, 80)}),
		Run:  func(t *testing.T, p Plan) vk.Result { return toResult(runTransport(t, p)) }})
}

// ---- native fuzz target over the byte script ----

// fuzzPlan decodes fuzz input: byte 0 = number of RPCs and chunking, byte 1 =
// read segmentation / client options, the rest = the literal bytes the server
// writes after its preface SETTINGS, in 1..4 chunks.
func fuzzPlan(data []byte) (Plan, bool) {
	if len(data) < 3 || len(data) > 1<<16 {
		return Plan{}, false
	}
	var p Plan
	nrpc := 1 + int(data[0]&3)
	chunks := 1 + int(data[0]>>2&3)
	for i := 0; i < nrpc; i++ {
		p.RPCs = append(p.RPCs, RPC{DeadlineMs: 100 * (i + 1), Msgs: 1, Bytes: 10 + 1000*i})
		p.Script = append(p.Script, Step{K: kRPC, N: i})
	}
	switch data[1] & 3 {
	case 1:
		p.ReadSizes = []int{1}
	case 2:
		p.ReadSizes = []int{7, 3}
	}
	if data[1]&4 != 0 {
		p.MaxHdr = 256
	}
	p.Static = data[1]&8 != 0
	body := data[2:]
	for i := 0; i < chunks; i++ {
		lo, hi := len(body)*i/chunks, len(body)*(i+1)/chunks
		if hi > lo {
			p.Script = append(p.Script, Step{K: kRaw, Var: "fuzz", Bad: true, B: body[lo:hi]})
		}
	}
	return p, true
}

// fuzzSeeds encodes one script per interesting shape for streams 1,3,5,7.
func fuzzSeeds() [][]byte {
	w := newWire()
	resp := func(id uint32) []byte { return w.headers(id, w.block(respOK), false, nil, false, 0, false) }
	tr := func(id uint32, code string) []byte {
		return w.headers(id, w.block([]HF{{"grpc-status", code}, {"grpc-message", "m"}}), true, nil, false, 0, false)
	}
	msg := func(id uint32, n int) []byte { return dataFrames(id, grpcMsg("msg", n), false, 0, 16384) }
	cat := func(bs ...[]byte) []byte { return append([]byte(nil), concat(bs)...) }
	var seeds [][]byte
	add := func(hdr0, hdr1 byte, body []byte) { seeds = append(seeds, append([]byte{hdr0, hdr1}, body...)) }
	add(0, 0, cat(resp(1), msg(1, 10), tr(1, "0")))
	add(1, 0, cat(resp(1), resp(3), msg(3, 100), tr(3, "0"), msg(1, 5), tr(1, "5")))
	add(2|1<<2, 1, cat(resp(1), msg(1, 20000), tr(1, "0"), tr(3, "14"), w.headers(5, w.block(append(append([]HF(nil), respOK...), HF{"grpc-status", "0"})), true, nil, false, 0, false)))
	add(1, 0, cat(resp(1), tr(1, "0"), msg(1, 10), frame(ftRST, 0, 1, []byte{0, 0, 0, 8}), tr(1, "0")))
	add(1, 0, cat(frame(ftGoAway, 0, 0, []byte{0, 0, 0, 1, 0, 0, 0, 0}), frame(ftGoAway, 0, 0, []byte{0, 0, 0, 3, 0, 0, 0, 0})))
	add(1, 0, cat(frame(ftWindowUpdate, 0, 1, []byte{0, 0, 0, 0}), frame(ftWindowUpdate, 0, 0, []byte{0x7f, 0xff, 0xff, 0xff}), frame(ftSettings, 0, 0, []byte{0, 4, 0, 0, 0, 0}), frame(ftPing, 0, 0, make([]byte, 8))))
	add(1, 2, cat(w.headers(1, w.block([]HF{{":status", "404"}, {"content-type", "text/html"}}), false, nil, false, 0, false), dataFrames(1, []byte("<html>not found</html>"), true, 0, 16384)))
	add(0, 0, cat(w.headers(1, w.block(respOK), false, []int{1, 2}, false, 3, true), frame(0x42, 0xff, 1, []byte("unknown")), frame(ftPushPromise, flEndHeaders, 1, []byte{0, 0, 0, 2, 0x88}), frame(ftPriority, 0, 1, []byte{0, 0, 0, 0, 1})))
	add(0, 4, cat(w.headers(1, w.block(append(append([]HF(nil), respOK...), HF{"x-long", strings.Repeat("x", 600)})), false, nil, false, 0, false)))
	add(0, 0, cat(resp(1), dataFrames(1, grpcMsg("msg_len_huge", 10), true, 0, 16384)))
	add(0, 0, cat(resp(1), dataFrames(1, grpcMsg("msg", 10), false, -5, 16384)))
	add(0, 0, cat(w.headers(1, w.block(respOK), false, nil, true, 0, false), msg(1, 1)))
	add(0, 0, cat(frame(ftContinuation, flEndHeaders, 1, []byte{0x88})))
	add(0, 0, cat(frame(ftData, 0, 0, []byte("zero"))))
	return seeds
}

func concat(bs [][]byte) []byte {
	var out []byte
	for _, b := range bs {
		out = append(out, b...)
	}
	return out
}

var fuzzUnit = vk.Unit[Plan]{ID: "C11", Name: "fuzz_transport",
	Rule: "native go fuzzing over the literal bytes the server writes after its SETTINGS (1..4 RPCs on streams 1,3,5,7; 1..4 write chunks; optional 1-byte read segmentation and small MaxHeaderListSize); seeds are encodings of the grammar's shapes; same oracle as unit transport",
	Run:  func(t *testing.T, p Plan) vk.Result { return toResult(runTransport(t, p)) }}

func FuzzVerifC11(f *testing.F) {
	vk.Fuzz(f, fuzzUnit, fuzzSeeds(), fuzzPlan)
}

// TestVerifC11FuzzReplay only exists so that a replay file written by the fuzz
// target (unit fuzz_transport) can be re-executed with `vcheck replay`.
func TestVerifC11FuzzReplay(t *testing.T) {
	if os.Getenv("VERIF_REPLAY") == "" {
		t.Skip("replay only")
	}
	u := fuzzUnit
	u.Gen = genPlan(genCfg{maxRPC: 1, maxSteps: 10})
	vk.Check(t, u)
}
