package c11_test

// Unit "conn": a real grpc.ClientConn (grpc.NewClient with a context dialer
// that hands out vpipe ends, raw-bytes codec) against the scripted server.
// Every successful dial creates a fresh connection with a fresh h2peer; the
// script always talks to the most recent connection.

import (
	"context"
	"errors"
	"fmt"
	"io"
	"net"
	"os"
	"sync"
	"testing"
	"testing/synctest"
	"time"

	"google.golang.org/grpc"
	"google.golang.org/grpc/codes"
	"google.golang.org/grpc/credentials/insecure"
	"google.golang.org/grpc/internal/verifkit/h2peer"
	"google.golang.org/grpc/internal/verifkit/vk"
	"google.golang.org/grpc/internal/verifkit/vpipe"
	"google.golang.org/grpc/keepalive"
	"google.golang.org/grpc/status"
)

type rawCodec struct{}

func (rawCodec) Marshal(v any) ([]byte, error) {
	b, ok := v.(*[]byte)
	if !ok {
		return nil, fmt.Errorf("rawCodec: %T", v)
	}
	return *b, nil
}

func (rawCodec) Unmarshal(data []byte, v any) error {
	b, ok := v.(*[]byte)
	if !ok {
		return fmt.Errorf("rawCodec: %T", v)
	}
	*b = append((*b)[:0], data...)
	return nil
}

func (rawCodec) Name() string { return "vfraw" }

const retrySC = `{"methodConfig":[{"name":[{}],"retryPolicy":{"maxAttempts":3,"initialBackoff":"0.05s","maxBackoff":"0.2s","backoffMultiplier":2,"retryableStatusCodes":["UNAVAILABLE","INTERNAL"]}}]}`

type connRig struct {
	p Plan

	mu    sync.Mutex
	conns []*connState
	ends  []*vpipe.Conn // client ends
	pends []*vpipe.Conn // peer ends
	dials int
}

func (c *connRig) dial(ctx context.Context, _ string) (net.Conn, error) {
	c.mu.Lock()
	n := c.dials
	c.dials++
	c.mu.Unlock()
	if n >= c.p.MaxConns {
		return nil, errors.New("harness: scripted dial failure")
	}
	g, pe := vpipe.New()
	if len(c.p.ReadSizes) > 0 {
		g.SetReadSizes(c.p.ReadSizes...)
	}
	cfg := h2peer.Config{Role: h2peer.ServerRole, Settings: settingsOf(c.p.PeerSS), ManualPingAck: c.p.NoPingAck}
	if n == 0 && c.p.BadFirst != nil {
		cfg.ManualPreface = true
	}
	peer := h2peer.New(pe, cfg)
	if cfg.ManualPreface {
		peer.WriteRaw(c.p.BadFirst)
	}
	c.mu.Lock()
	c.conns = append(c.conns, newConnState(peer))
	c.ends = append(c.ends, g)
	c.pends = append(c.pends, pe)
	c.mu.Unlock()
	return g, nil
}

func (c *connRig) cur() (*connState, *vpipe.Conn, *vpipe.Conn) {
	c.mu.Lock()
	defer c.mu.Unlock()
	if len(c.conns) == 0 {
		return nil, nil, nil
	}
	i := len(c.conns) - 1
	return c.conns[i], c.ends[i], c.pends[i]
}

func connRPC(cc *grpc.ClientConn, r *rpcRec, spec RPC) {
	ctx, cancel := context.WithDeadline(context.Background(), r.deadline)
	defer cancel()
	method := fmt.Sprintf("/vf/rpc%d", r.idx)
	opts := []grpc.CallOption{grpc.WaitForReady(spec.WFR)}
	var err error
	if spec.Unary {
		req := fill(spec.Bytes, r.idx)
		var resp []byte
		err = cc.Invoke(ctx, method, &req, &resp, opts...)
	} else {
		var cs grpc.ClientStream
		cs, err = cc.NewStream(ctx, &grpc.StreamDesc{ClientStreams: true, ServerStreams: true}, method, opts...)
		if err == nil {
			for i := 0; i < spec.Msgs; i++ {
				req := fill(spec.Bytes, r.idx*31+i)
				if serr := cs.SendMsg(&req); serr != nil {
					break // io.EOF: the status comes from RecvMsg
				}
			}
			if !spec.NoClose {
				cs.CloseSend()
			}
			for {
				var resp []byte
				if err = cs.RecvMsg(&resp); err != nil {
					break
				}
				r.mu.Lock()
				r.recvMsgs++
				r.mu.Unlock()
			}
			if err == io.EOF {
				err = nil
			}
		}
	}
	if err == nil {
		r.finish(codes.OK, "")
		return
	}
	st, ok := status.FromError(err)
	if !ok {
		r.noStatus = fmt.Sprintf("error of type %T without a gRPC status: %v", err, err)
	}
	r.finish(st.Code(), st.Message())
}

func runConn(t *testing.T, p Plan) outcome {
	out := outcome{classes: map[string]bool{}}
	if p.MaxConns < 1 {
		p.MaxConns = 1
	}
	var msg string
	guarded("conn", func() { msg = bubbleConn(t, p, &out) })
	if out.violation == "" && msg != "" {
		out.violation = "after ClientConn.Close and connection close the bubble did not drain (goroutine leak) or a bubble goroutine panicked: " + msg
	}
	return out
}

func bubbleConn(t *testing.T, p Plan, outp *outcome) string {
	out := outp
	return vk.Bubble(t, func(t *testing.T) {
		rig := &connRig{p: p}
		opts := []grpc.DialOption{
			grpc.WithTransportCredentials(insecure.NewCredentials()),
			grpc.WithContextDialer(rig.dial),
			grpc.WithDisableServiceConfig(),
			grpc.WithDefaultCallOptions(grpc.ForceCodec(rawCodec{})),
		}
		if p.Retry {
			opts = append(opts, grpc.WithDefaultServiceConfig(retrySC))
		}
		if p.MaxHdr > 0 {
			opts = append(opts, grpc.WithMaxHeaderListSize(uint32(p.MaxHdr)))
		}
		if p.Static {
			opts = append(opts, grpc.WithStaticStreamWindowSize(65535), grpc.WithStaticConnWindowSize(65535))
		}
		if p.KAms > 0 {
			// grpc raises Time below 10 s to 10 s.
			opts = append(opts, grpc.WithKeepaliveParams(keepalive.ClientParameters{Time: 10 * time.Second, Timeout: time.Duration(p.KAms) * time.Millisecond, PermitWithoutStream: true}))
		}
		cc, err := grpc.NewClient("passthrough:///vf", opts...)
		if err != nil {
			out.setupErr = err
			return
		}
		recs := make([]*rpcRec, len(p.RPCs))
		sent := map[uint32]bool{}
		var wg sync.WaitGroup
		for _, st := range p.Script {
			out.steps++
			bump()
			switch st.K {
			case kRPC:
				if st.N < 0 || st.N >= len(p.RPCs) || recs[st.N] != nil {
					continue
				}
				r := &rpcRec{idx: st.N, started: true, start: time.Now()}
				r.deadline = r.start.Add(time.Duration(p.RPCs[st.N].DeadlineMs) * time.Millisecond)
				recs[st.N] = r
				wg.Add(1)
				go func() { defer wg.Done(); connRPC(cc, r, p.RPCs[st.N]) }()
				synctest.Wait()
				continue
			case kSleep:
				time.Sleep(time.Duration(st.N) * time.Millisecond)
				synctest.Wait()
				continue
			}
			cs, g, pe := rig.cur()
			if cs == nil {
				continue
			}
			if st.K == kClose {
				if st.F == 1 {
					pe.CloseWrite()
					out.class("fault:half_close")
				} else {
					pe.Close()
					out.class("fault:close")
				}
				synctest.Wait()
				continue
			}
			b, bad, class := cs.encode(st)
			for k := range cs.statusSent {
				sent[k] = true
			}
			inFlight := 0
			for _, r := range recs {
				if r != nil && !r.isDone() {
					inFlight++
				}
			}
			alive := !g.Closed() && !pe.Closed()
			opened := len(cs.peer.Ledger().StreamIDs()) > 0
			if alive {
				out.nAlive++
			}
			if alive && opened {
				for _, c := range class {
					out.class(c)
				}
				if bad {
					out.nontriv = true
					if inFlight > 0 {
						out.nBadAlive++
						out.class("nt:violation_with_rpc_in_flight")
					}
				}
			}
			cs.peer.WriteRaw(b)
			if !st.NW {
				synctest.Wait()
			}
		}
		synctest.Wait()
		var maxDL time.Time
		for _, r := range recs {
			if r != nil && r.deadline.After(maxDL) {
				maxDL = r.deadline
			}
		}
		if d := time.Until(maxDL); d > 0 {
			time.Sleep(d)
		}
		synctest.Wait()
		hung := false
		for _, r := range recs {
			if r == nil {
				continue
			}
			r.mu.Lock()
			switch {
			case !r.done:
				out.violation = fmt.Sprintf("RPC %d (%+v) did not return by its deadline (deadline +%v, now +%v): hang", r.idx, p.RPCs[r.idx], r.deadline.Sub(r.start), time.Since(r.start))
				hung = true
			case r.doneAt.After(r.deadline):
				out.violation = fmt.Sprintf("RPC %d (%+v) returned %v after its deadline (deadline +%v), status %v %q", r.idx, p.RPCs[r.idx], r.doneAt.Sub(r.deadline), r.deadline.Sub(r.start), r.code, r.msg)
			case r.returns != 1:
				out.violation = fmt.Sprintf("RPC %d delivered %d final results", r.idx, r.returns)
			case r.noStatus != "":
				out.violation = fmt.Sprintf("RPC %d ended without a status: %s", r.idx, r.noStatus)
			default:
				ok, pass := legalCode(r.code, sent)
				if !ok {
					out.violation = fmt.Sprintf("RPC %d ended with illegal status code %d (%q) that the server never sent", r.idx, uint32(r.code), r.msg)
				}
				if pass {
					out.class("rpc:out_of_range_code_passed_through")
				} else {
					out.class("rpc:" + r.code.String())
				}
				if r.doneAt.Equal(r.deadline) {
					out.class("rpc:returned_exactly_at_deadline")
				}
			}
			r.mu.Unlock()
		}
		rig.mu.Lock()
		nconn, ndial := len(rig.conns), rig.dials
		nstreams := 0
		for _, c := range rig.conns {
			nstreams += len(c.peer.Ledger().StreamIDs())
		}
		rig.mu.Unlock()
		if os.Getenv("VERIF_C11_DEBUG") != "" {
			fmt.Printf("C11DEBUG conns=%d dials=%d streams=%d peerss=%v rs=%v maxhdr=%d static=%v ka=%d badfirst=%v retry=%v rpc0=%+v\n", nconn, ndial, nstreams, p.PeerSS, p.ReadSizes, p.MaxHdr, p.Static, p.KAms, p.BadFirst != nil, p.Retry, p.RPCs[0])
			for _, r := range recs {
				if r != nil {
					fmt.Printf("C11DEBUG rpc %d done=%v code=%v msg=%q at=+%v\n", r.idx, r.done, r.code, r.msg, r.doneAt.Sub(r.start))
				}
			}
		}
		if !out.nontriv {
			switch {
			case nconn == 0:
				out.class("trivial:never_connected")
			case nstreams == 0:
				out.class("trivial:no_stream_ever_opened")
			default:
				out.class("trivial:no_violation_reached_a_live_connection")
			}
		}
		if nconn > 1 {
			out.class("conn:reconnected")
		}
		if ndial > nconn {
			out.class("conn:dial_failed")
		}
		cc.Close()
		rig.mu.Lock()
		conns := append([]*connState(nil), rig.conns...)
		rig.mu.Unlock()
		for _, c := range conns {
			c.peer.Close()
			c.peer.Wait()
		}
		if !hung {
			wg.Wait()
		}
	})
}

func TestVerifC11Conn(t *testing.T) {
	vk.Check(t, vk.Unit[Plan]{ID: "C11", Name: "conn",
		Rule: "real grpc.ClientConn (grpc.NewClient, context dialer handing out vpipe ends, raw codec; unary Invoke and bidi streams, WaitForReady or not, optional retry policy, 1..3 successful dials then dial failures, optional hostile first preface) vs scripted server; " + ruleCommon,
		Gen:  genPlan(genCfg{maxRPC: vk.Pick(4, 8), maxSteps: vk.Pick(40, 80), conn: true}),
		Run:  func(t *testing.T, p Plan) vk.Result { return toResult(runConn(t, p)) }})
}
