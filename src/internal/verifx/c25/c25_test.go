package c25_test

// C25: Server stop semantics and per-connection handler limit.
//
// A real grpc.Server (bufconn) with command-driven handlers and 1-2 real
// ClientConns run inside a synctest bubble. The plan is a list of operations
// (start RPC, finish handler k with a status, cancel client k, GracefulStop,
// Stop); operations marked NoWait are not followed by a quiescence point, so
// the next operation races with them. The oracle is a history invariant over
// the handler entry/exit log and the client results, see run().

import (
	"context"
	"fmt"
	"io"
	"sync"
	"testing"
	"testing/synctest"

	"google.golang.org/grpc"
	"google.golang.org/grpc/codes"
	"google.golang.org/grpc/internal/verifkit/e2elife"
	"google.golang.org/grpc/internal/verifkit/vk"
	"pgregory.net/rapid"
)

type op struct {
	Kind   string `json:"kind"` // start | finish | cancel | gstop | stop
	Client int    `json:"client,omitempty"`
	K      int    `json:"k,omitempty"`    // relative index (mod number of candidates)
	Code   int    `json:"code,omitempty"` // status code for finish
	NoWait bool   `json:"nowait,omitempty"`
}

type plan struct {
	MaxStreams      int  `json:"max_streams"` // 0 = not configured
	Workers         int  `json:"workers"`
	WaitForHandlers bool `json:"wait_for_handlers"`
	Clients         int  `json:"clients"`
	Ops             []op `json:"ops"`
}

func genOp(rt *rapid.T, clients int, allowStop bool) op {
	o := op{}
	n := rapid.IntRange(0, 99).Draw(rt, "opkind")
	switch {
	case n < 45:
		o.Kind = "start"
		o.Client = rapid.IntRange(0, clients-1).Draw(rt, "client")
	case n < 63:
		o.Kind = "finish"
		o.K = rapid.IntRange(0, 7).Draw(rt, "k")
		o.Code = rapid.SampledFrom([]int{0, 0, 2, 5, 8, 10, 13, 14, 16}).Draw(rt, "code")
	case n < 80 || !allowStop:
		o.Kind = "cancel"
		o.K = rapid.IntRange(0, 7).Draw(rt, "k")
	case n < 92:
		o.Kind = "gstop"
	default:
		o.Kind = "stop"
	}
	o.NoWait = rapid.IntRange(0, 3).Draw(rt, "nowait") == 0
	return o
}

func genPlan(rt *rapid.T) plan {
	p := plan{
		MaxStreams:      rapid.SampledFrom([]int{0, 0, 1, 2, 3}).Draw(rt, "max_streams"),
		Workers:         rapid.SampledFrom([]int{0, 0, 1, 2}).Draw(rt, "workers"),
		WaitForHandlers: rapid.IntRange(0, 3).Draw(rt, "wfh") == 0,
		Clients:         rapid.IntRange(1, 2).Draw(rt, "clients"),
	}
	maxPre := vk.Pick(7, 30)
	maxPost := vk.Pick(5, 25)
	// a start-heavy prefix so that handlers are running when the stop arrives
	for i, n := 0, rapid.IntRange(2, 4).Draw(rt, "nwarm"); i < n; i++ {
		p.Ops = append(p.Ops, op{Kind: "start", Client: rapid.IntRange(0, p.Clients-1).Draw(rt, "client"), NoWait: rapid.IntRange(0, 5).Draw(rt, "nowait") == 0})
	}
	for i, n := 0, rapid.IntRange(0, maxPre).Draw(rt, "npre"); i < n; i++ {
		p.Ops = append(p.Ops, genOp(rt, p.Clients, false))
	}
	st := op{Kind: rapid.SampledFrom([]string{"gstop", "gstop", "stop"}).Draw(rt, "stopkind"), NoWait: rapid.IntRange(0, 2).Draw(rt, "nowait") == 0}
	p.Ops = append(p.Ops, st)
	for i, n := 0, rapid.IntRange(0, maxPost).Draw(rt, "npost"); i < n; i++ {
		p.Ops = append(p.Ops, genOp(rt, p.Clients, true))
	}
	return p
}

// ---------------------------------------------------------------------------

type rpc struct {
	id     string
	client int
	cancel context.CancelFunc

	// harness-thread state (main bubble goroutine only)
	quiesced       bool // a quiescence point was reached after the start
	afterStopCall  bool // started after a stop call had reached quiescence
	racingStop     bool // started in the same non-quiesced window as a stop call
	cancelled      bool
	verified       bool // client result matched the handler's status before any hard stop
	finishIssued   bool
	finishQuiesced bool // the finish command reached quiescence before a hard stop was issued
	runningAtStop  bool // handler running (finish not issued) when the hard stop was issued

	mu       sync.Mutex
	streamOK bool
	done     bool
	err      error
	c24      string
}

func (r *rpc) finish(err error) {
	r.mu.Lock()
	r.done, r.err = true, err
	if err != io.EOF {
		if m := e2elife.CheckRPCError(err); m != "" && r.c24 == "" {
			r.c24 = m
		}
	}
	r.mu.Unlock()
}

func (r *rpc) run(ctx context.Context, cc *grpc.ClientConn) {
	cs, err := cc.NewStream(ctx, e2elife.BidiDesc, e2elife.Method)
	if err != nil {
		r.finish(err)
		return
	}
	r.mu.Lock()
	r.streamOK = true
	r.mu.Unlock()
	msg := []byte{1}
	if err := cs.SendMsg(&msg); err != nil && err != io.EOF {
		r.finish(err)
		return
	}
	cs.CloseSend()
	for {
		var b []byte
		if err := cs.RecvMsg(&b); err != nil {
			r.finish(err)
			return
		}
	}
}

func (r *rpc) snapshot() (streamOK, done bool, err error) {
	r.mu.Lock()
	defer r.mu.Unlock()
	return r.streamOK, r.done, r.err
}

type stopper struct {
	mu               sync.Mutex
	returned         bool
	runningAtReturn  int
	handlersAtReturn string
}

func (s *stopper) get() (bool, int, string) {
	s.mu.Lock()
	defer s.mu.Unlock()
	return s.returned, s.runningAtReturn, s.handlersAtReturn
}

func run(t *testing.T, p plan) vk.Result {
	var res vk.Result
	msg := vk.Bubble(t, func(t *testing.T) { res = runInBubble(p) })
	if msg != "" && res.Violation == "" {
		// goroutines left behind after teardown or a deadlock inside the bubble
		return vk.Bad("bubble did not drain: %s", msg).With(res.Classes...)
	}
	return res
}

func runInBubble(p plan) (res vk.Result) {
	hs := e2elife.NewHandlers()
	var sopts []grpc.ServerOption
	if p.MaxStreams > 0 {
		sopts = append(sopts, grpc.MaxConcurrentStreams(uint32(p.MaxStreams)))
	}
	if p.Workers > 0 {
		sopts = append(sopts, grpc.NumStreamWorkers(uint32(p.Workers)))
	}
	if p.WaitForHandlers {
		sopts = append(sopts, grpc.WaitForHandlers(true))
	}
	srv := e2elife.StartServer(hs.Handle, sopts...)
	var ccs []*grpc.ClientConn
	for i := 0; i < p.Clients; i++ {
		cc, err := e2elife.Dial(e2elife.UniqueName("c25"), srv.Dialer())
		if err != nil {
			return vk.Result{Violation: "VERIF-HARNESS dial: " + err.Error()}
		}
		ccs = append(ccs, cc)
	}
	var rpcs []*rpc
	classes := map[string]bool{}
	defer func() {
		for c := range classes {
			res.Classes = append(res.Classes, c)
		}
	}()

	var gstop, hstop *stopper // first GracefulStop / first Stop
	stopCalled := false       // any stop op executed
	stopQuiesced := false     // ... and a quiescence point was reached afterwards
	hardIssued := false
	hardQuiesced := false // a quiescence point was reached after the first hard Stop call
	nontrivial := false
	var pendingSinceQuiesce []*rpc // rpcs started since the last quiescence point

	teardown := func() {
		hs.ReleaseAll()
		for _, r := range rpcs {
			r.cancel()
		}
		for _, cc := range ccs {
			cc.Close()
		}
		srv.Close()
		synctest.Wait()
	}
	bad := func(format string, a ...any) vk.Result {
		teardown()
		return vk.Bad(format, a...)
	}

	anyCancelled := func() bool {
		for _, r := range rpcs {
			if r.cancelled {
				return true
			}
		}
		return false
	}
	hcallOf := func(r *rpc) *e2elife.HCall {
		h := hs.ByID(r.id)
		if len(h) == 0 {
			return nil
		}
		return h[0]
	}

	// invariants evaluated at every quiescence point
	check := func(where string) string {
		hs.Lock()
		defer hs.Unlock()
		if p.MaxStreams > 0 {
			for _, n := range hs.MaxRunning {
				if n > p.MaxStreams {
					return fmt.Sprintf("%s: %d handlers ran concurrently on one connection, MaxConcurrentStreams=%d", where, n, p.MaxStreams)
				}
			}
		}
		byID := map[string][]*e2elife.HCall{}
		for _, h := range hs.Calls {
			byID[h.ID] = append(byID[h.ID], h)
		}
		for _, s := range []struct {
			name string
			st   *stopper
			wait bool
		}{{"GracefulStop", gstop, true}, {"Stop(WaitForHandlers)", hstop, p.WaitForHandlers}} {
			if s.st == nil || !s.wait {
				continue
			}
			if ret, n, which := s.st.get(); ret && n > 0 {
				return fmt.Sprintf("%s: %s returned while %d handler(s) were still running (%s)", where, s.name, n, which)
			}
		}
		for _, r := range rpcs {
			h := byID[r.id]
			if len(h) > 1 {
				return fmt.Sprintf("%s: rpc %s reached %d handlers (no retry policy configured)", where, r.id, len(h))
			}
			_, done, err := r.snapshot()
			if r.c24 != "" {
				return fmt.Sprintf("%s: rpc %s: C24 harvest: %s", where, r.id, r.c24)
			}
			if r.afterStopCall && len(h) > 0 {
				return fmt.Sprintf("%s: rpc %s was issued after the stop call had taken effect but reached a handler", where, r.id)
			}
			if len(h) == 0 {
				if done && err == io.EOF {
					return fmt.Sprintf("%s: rpc %s completed OK without ever reaching a handler", where, r.id)
				}
				continue
			}
			hc := h[0]
			code, m := e2elife.StatusOf(err)
			if !hardIssued {
				// no hard stop so far: an exited handler's status is the client's status
				if hc.Exited && !r.cancelled {
					if !done {
						return fmt.Sprintf("%s: rpc %s: handler returned (%v,%q) but the client call has not completed", where, r.id, hc.ExitCode, hc.ExitMsg)
					}
					if code != hc.ExitCode || m != hc.ExitMsg {
						return fmt.Sprintf("%s: rpc %s: handler returned (%v,%q) but the client got (%v,%q) [graceful=%v]", where, r.id, hc.ExitCode, hc.ExitMsg, code, m, gstop != nil)
					}
					r.verified = true
				}
				if done && !hc.Exited && !r.cancelled {
					return fmt.Sprintf("%s: rpc %s: client completed with (%v,%q) while its handler is still running and nobody stopped or cancelled", where, r.id, code, m)
				}
			}
		}
		return ""
	}

	quiesce := func(where string) string {
		synctest.Wait()
		for _, r := range pendingSinceQuiesce {
			r.quiesced = true
		}
		pendingSinceQuiesce = nil
		if stopCalled {
			stopQuiesced = true
		}
		if hardIssued {
			hardQuiesced = true
		}
		if !hardIssued {
			for _, r := range rpcs {
				if r.finishIssued {
					r.finishQuiesced = true
				}
			}
		}
		return check(where)
	}

	// after a hard Stop has returned and the system is quiescent
	checkAfterHardStop := func(where string) string {
		hs.Lock()
		defer hs.Unlock()
		for _, h := range hs.Calls {
			if !h.CtxDone {
				return fmt.Sprintf("%s: Stop was called but the context of handler for rpc %s is not cancelled", where, h.ID)
			}
		}
		byID := map[string]*e2elife.HCall{}
		for _, h := range hs.Calls {
			byID[h.ID] = h
		}
		for _, r := range rpcs {
			if !r.runningAtStop || byID[r.id] == nil {
				continue
			}
			_, done, err := r.snapshot()
			if !done {
				return fmt.Sprintf("%s: rpc %s had a running handler when Stop was called; the client call has not terminated", where, r.id)
			}
			if code, _ := e2elife.StatusOf(err); code == codes.OK {
				return fmt.Sprintf("%s: rpc %s had a running handler when Stop was called; the client observed OK", where, r.id)
			}
		}
		return ""
	}

	nextID := 0
	for i, o := range p.Ops {
		where := fmt.Sprintf("op %d (%s)", i, o.Kind)
		switch o.Kind {
		case "start":
			r := &rpc{id: fmt.Sprintf("r%d", nextID), client: o.Client % len(ccs)}
			nextID++
			ctx, cancel := context.WithCancel(e2elife.WithID(context.Background(), r.id))
			r.cancel = cancel
			r.afterStopCall = stopQuiesced
			r.racingStop = stopCalled && !stopQuiesced
			if r.racingStop {
				classes["start_racing_stop"] = true
			}
			if r.afterStopCall {
				classes["start_after_stop"] = true
			}
			rpcs = append(rpcs, r)
			pendingSinceQuiesce = append(pendingSinceQuiesce, r)
			go r.run(ctx, ccs[r.client])
		case "finish":
			run := hs.Running()
			var cand []*e2elife.HCall
			for _, h := range run {
				for _, r := range rpcs {
					if r.id == h.ID && !r.finishIssued {
						cand = append(cand, h)
					}
				}
			}
			if len(cand) == 0 {
				continue
			}
			h := cand[o.K%len(cand)]
			for _, r := range rpcs {
				if r.id == h.ID {
					r.finishIssued = true
					if hardIssued && !hardQuiesced && r.runningAtStop {
						// the finish races with the Stop call: either outcome is legal
						r.runningAtStop = false
						classes["finish_racing_stop"] = true
					}
				}
			}
			m := ""
			if o.Code != 0 { // an OK status carries no message on the wire path (handler returns nil)
				m = fmt.Sprintf("st-%s-%d", h.ID, o.Code)
			}
			hs.Do(h, e2elife.Cmd{Kind: e2elife.CmdFinish, Code: codes.Code(o.Code), Msg: m})
		case "cancel":
			var cand []*rpc
			for _, r := range rpcs {
				if _, done, _ := r.snapshot(); !done && !r.cancelled {
					cand = append(cand, r)
				}
			}
			if len(cand) == 0 {
				continue
			}
			r := cand[o.K%len(cand)]
			r.cancelled = true
			if gstop != nil && p.MaxStreams > 0 && !stopQuiesced {
				hs.ObeyCtx() // see the comment at the stop operation
			}
			if h := hcallOf(r); h != nil && !r.finishIssued {
				classes["cancel_with_running_handler"] = true
			}
			r.cancel()
		case "gstop", "stop":
			graceful := o.Kind == "gstop"
			running := 0
			cancelledRunning := 0
			for _, h := range hs.Running() {
				for _, r := range rpcs {
					if r.id == h.ID && !r.finishIssued {
						running++
						if r.cancelled {
							cancelledRunning++
						}
					}
				}
			}
			if running >= 2 {
				nontrivial = true
			}
			if cancelledRunning > 0 {
				classes[o.Kind+"_with_cancelled_running_handler"] = true
			}
			for _, r := range rpcs {
				if !r.quiesced {
					r.racingStop = true
					classes["start_racing_stop"] = true
				}
				if sOK, done, _ := r.snapshot(); r.quiesced && !done && !r.cancelled {
					if hcallOf(r) == nil {
						if sOK {
							classes["sem_blocked_at_stop"] = true
						} else {
							classes["quota_queued_at_stop"] = true
						}
					}
				}
			}
			if !graceful && !hardIssued {
				for _, r := range rpcs {
					if h := hcallOf(r); h != nil && !r.finishIssued {
						r.runningAtStop = true
					}
					if r.finishIssued && !r.finishQuiesced {
						classes["finish_racing_stop"] = true
					}
				}
			}
			if graceful && p.MaxStreams > 0 && anyCancelled() {
				// http2Server.operateHeaders calls the stream handler callback
				// (which blocks in the per-connection handler semaphore when
				// MaxConcurrentStreams handlers are running) while holding
				// maxStreamMu; loopy's GOAWAY handler needs the same mutex. With
				// a cancelled-but-running handler and a newly admitted stream,
				// Drain therefore blocks the connection's writer on a mutex
				// until a handler returns - not a durable blocking point for
				// synctest. In that situation handlers become
				// cancellation-obedient so the state is transient.
				hs.ObeyCtx()
				classes["obey_gstop_with_cancelled"] = true
			}
			if stopCalled {
				// A stop call that is waiting for handlers holds Server.mu
				// (handlersWG.Wait is called with the mutex held), so a second
				// stop call blocks on a mutex until the handlers return. A
				// mutex is not a durable blocking point for synctest, so from
				// the second stop call on the handlers return (OK) as soon as
				// their context is cancelled, like well-behaved handlers do.
				hs.ObeyCtx()
				classes["second_stop_call"] = true
			}
			st := &stopper{}
			if graceful {
				if gstop == nil {
					gstop = st
				}
				classes["gstop"] = true
				if hardIssued {
					classes["gstop_after_stop"] = true
				}
			} else {
				if hstop == nil {
					hstop = st
				}
				hardIssued = true
				classes["stop"] = true
				if gstop != nil {
					classes["stop_after_gstop"] = true
				}
			}
			stopCalled = true
			go func() {
				if graceful {
					srv.Srv.GracefulStop()
				} else {
					srv.Srv.Stop()
				}
				// The handler's Exited flag is set before it returns into grpc,
				// so every handler grpc has seen returning is already marked.
				n, which := 0, ""
				for _, h := range hs.Running() {
					n++
					which += h.ID + " "
				}
				st.mu.Lock()
				st.returned, st.runningAtReturn, st.handlersAtReturn = true, n, which
				st.mu.Unlock()
			}()
		}
		if o.NoWait {
			classes["nowait_"+o.Kind] = true
			continue
		}
		if v := quiesce(where); v != "" {
			return bad("%s", v)
		}
		if hstop != nil {
			if v := checkAfterHardStop(where); v != "" {
				return bad("%s", v)
			}
		}
	}
	if v := quiesce("end of plan"); v != "" {
		return bad("%s", v)
	}

	// Drain: finish every remaining handler with OK (so that a client that
	// wrongly reports the handler's status after a hard stop would report OK),
	// until nothing is running and nothing new arrives.
	for round := 0; round < 4*len(rpcs)+4; round++ {
		run := hs.Running()
		if len(run) == 0 {
			break
		}
		for _, h := range run {
			for _, r := range rpcs {
				if r.id == h.ID && !r.finishIssued {
					r.finishIssued = true
					hs.Do(h, e2elife.Cmd{Kind: e2elife.CmdFinish, Code: codes.OK})
				}
			}
		}
		if v := quiesce(fmt.Sprintf("drain round %d", round)); v != "" {
			return bad("%s", v)
		}
	}
	if n := len(hs.Running()); n != 0 {
		return bad("VERIF-HARNESS drain did not converge: %d handlers still running", n)
	}
	if hstop != nil {
		ret, _, _ := hstop.get()
		if !ret {
			return bad("end: Stop has not returned although every handler has returned")
		}
		if v := checkAfterHardStop("end"); v != "" {
			return bad("%s", v)
		}
	}
	if gstop != nil {
		// documented liveness ("blocks until all the pending RPCs are finished"):
		// every handler has returned and the system is quiescent.
		allDone := true
		for _, r := range rpcs {
			if _, done, _ := r.snapshot(); !done {
				allDone = false
			}
		}
		if ret, _, _ := gstop.get(); !ret && allDone {
			return bad("end: GracefulStop has not returned although every handler has returned and every client call has completed")
		}
	}
	for _, r := range rpcs {
		_, done, err := r.snapshot()
		h := hcallOf(r)
		switch {
		case !done:
			classes["rpc_pending_at_end"] = true
		case h == nil:
			code, _ := e2elife.StatusOf(err)
			classes["nohandler_"+code.String()] = true
		}
	}
	if nontrivial {
		classes["nontrivial"] = true
	}
	teardown()
	return vk.Result{NonTrivial: nontrivial, Steps: len(p.Ops)}
}

func TestVerifC25Stop(t *testing.T) {
	vk.Check(t, vk.Unit[plan]{
		ID: "C25", Name: "stop",
		Rule: "plans: MaxConcurrentStreams in {unset,1,2,3}, 0-2 stream workers, WaitForHandlers on/off, 1-2 client conns; ops = 2-4 starts, then start/finish(status)/client-cancel ops, a GracefulStop or Stop, then more ops incl. further stops; 25% of ops race with the next one (no quiescence in between). non-trivial = a stop issued while >= 2 handlers are running",
		Gen:  genPlan, Run: run,
	})
}
