package c30_test

// C30: connectivity state reporting is consistent and never missed.
//
// A real grpc.ClientConn runs in a synctest bubble with a recording LB policy
// (registered once under a name nothing else uses; the per-case context is
// handed over through a package variable because cases run one at a time).
// The LB policy creates one subchannel per address, each with a unique
// address string so that the plan-driven dialer knows which subchannel is
// dialing. The driver executes plan steps (sleep, Connect, create / shut down /
// connect subchannels, close a connection, server GOAWAY / Stop, register
// WaitForStateChange waiters) and checks at every quiescent point.

import (
	"context"
	"errors"
	"fmt"
	"net"
	"sync"
	"sync/atomic"
	"testing"
	"testing/synctest"
	"time"

	"google.golang.org/grpc"
	grpcbackoff "google.golang.org/grpc/backoff"
	"google.golang.org/grpc/balancer"
	"google.golang.org/grpc/connectivity"
	"google.golang.org/grpc/credentials/insecure"
	"google.golang.org/grpc/internal/verifkit/vk"
	"google.golang.org/grpc/resolver"
	"google.golang.org/grpc/resolver/manual"
	"google.golang.org/grpc/test/bufconn"
	"pgregory.net/rapid"
)

const lbName = "vfc30_recording_lb"

// ---- plan ------------------------------------------------------------------

type step struct {
	Op  string `json:"op"`
	A   int    `json:"a,omitempty"`
	B   int    `json:"b,omitempty"`
	Dur int64  `json:"dur,omitempty"`
}

type plan struct {
	BaseNs        int64    `json:"base_ns"` // backoff: BaseDelay = MaxDelay, multiplier 1, jitter 0
	IdleNs        int64    `json:"idle_ns"` // 0 = idleness disabled
	NAddrs        int      `json:"n_addrs"`
	AutoReconnect bool     `json:"auto_reconnect"` // LB policy calls Connect on every IDLE update
	Outcomes      []string `json:"outcomes"`       // per dial (global order, cycled): ok | fail | hang
	FreeWatchers  int      `json:"free_watchers"`  // goroutines looping GetState / WaitForStateChange
	Steps         []step   `json:"steps"`
}

const (
	opSleep    = "sleep"
	opConnect  = "connect"     // cc.Connect()
	opSCNew    = "sc_new"      // LB creates one more subchannel and connects it
	opSCShut   = "sc_shutdown" // LB shuts down live subchannel A (mod live)
	opSCConn   = "sc_connect"  // LB calls Connect on live subchannel A
	opConnClose = "conn_close" // harness closes open connection A (mod open)
	opGoAway   = "goaway"      // server GracefulStop (GOAWAY); a fresh server takes over
	opSrvStop  = "srv_stop"    // server Stop (hard close); a fresh server takes over
	opWatch    = "watch"       // register a waiter: A = source (-1 current, 0..4 state), B = timeout kind
)

func gen(rt *rapid.T) plan {
	var p plan
	p.BaseNs = rapid.SampledFrom([]int64{50e6, 1e9, 3e9}).Draw(rt, "base")
	p.IdleNs = rapid.SampledFrom([]int64{0, 0, 2e9, 10e9}).Draw(rt, "idle")
	p.NAddrs = rapid.SampledFrom([]int{1, 2, 2, 3}).Draw(rt, "n_addrs")
	p.AutoReconnect = rapid.IntRange(0, 3).Draw(rt, "auto") < 3
	nOut := rapid.IntRange(1, 8).Draw(rt, "n_outcomes")
	for i := 0; i < nOut; i++ {
		p.Outcomes = append(p.Outcomes, rapid.SampledFrom([]string{"ok", "fail", "ok", "fail", "fail", "hang"}).Draw(rt, "outcome"))
	}
	p.FreeWatchers = rapid.SampledFrom([]int{0, 1, 2, 3, 8, 16}).Draw(rt, "free_watchers")
	n := rapid.IntRange(3, vk.Pick(20, 120)).Draw(rt, "n_steps")
	durs := []int64{1, 1e6, p.BaseNs / 2, p.BaseNs - 1, p.BaseNs, p.BaseNs + 1, 2 * p.BaseNs, 1e9 - 1, 1e9, 1e9 + 1}
	if p.IdleNs > 0 {
		durs = append(durs, p.IdleNs/2, p.IdleNs, p.IdleNs+1)
	}
	if rapid.IntRange(0, 9).Draw(rt, "connect_first") > 0 {
		p.Steps = append(p.Steps, step{Op: opConnect})
	}
	for i := 0; i < n; i++ {
		var s step
		switch k := rapid.IntRange(0, 99).Draw(rt, "op"); {
		case k < 32:
			s = step{Op: opSleep, Dur: rapid.SampledFrom(durs).Draw(rt, "dur")}
		case k < 50:
			s = step{Op: opWatch, A: rapid.IntRange(-1, 4).Draw(rt, "src"), B: rapid.IntRange(0, 2).Draw(rt, "timeout")}
		case k < 60:
			s = step{Op: opConnect}
		case k < 70:
			s = step{Op: opConnClose, A: rapid.IntRange(0, 7).Draw(rt, "a")}
		case k < 78:
			s = step{Op: opSCShut, A: rapid.IntRange(0, 7).Draw(rt, "a")}
		case k < 86:
			s = step{Op: opSCConn, A: rapid.IntRange(0, 7).Draw(rt, "a")}
		case k < 91:
			s = step{Op: opSCNew}
		case k < 96:
			s = step{Op: opGoAway}
		default:
			s = step{Op: opSrvStop}
		}
		p.Steps = append(p.Steps, s)
	}
	return p
}

// ---- recording ---------------------------------------------------------------

type scUpd struct {
	st connectivity.State
	at time.Time
}

type scRec struct {
	id       int
	gen      int
	addr     string
	sc       balancer.SubConn
	upds     []scUpd
	connects int
	shutAt   time.Time
	shut     bool
}

type dialRec struct {
	addr       string
	start, end time.Time
	ended, ok  bool
	conn       *liveConn
}

type liveConn struct {
	c      net.Conn
	srvGen int
	dead   bool // closed by the harness, or its server sent GOAWAY / stopped
}

type waiter struct {
	id       int
	src      connectivity.State
	regCur   connectivity.State // model state at registration (quiescent)
	regChg   int                // number of model state changes at registration
	deadline time.Time
	done     bool
	result   bool
	doneAt   time.Time
	free     bool
}

type caseCtx struct {
	mu        sync.Mutex
	p         plan
	lbs       []*recLB
	scs       []*scRec
	dials     []*dialRec
	conns     []*liveConn
	waiters   []*waiter
	cur       connectivity.State   // model: most recently published channel state
	hist      []connectivity.State // model: sequence of distinct states (changes)
	closing   bool
	violation string
	lis       *bufconn.Listener
	srvGen    int
}

func (c *caseCtx) fail(format string, args ...any) {
	if c.violation == "" {
		c.violation = fmt.Sprintf(format, args...)
	}
}

// publish records a channel-level publication in the model (c.mu held).
func (c *caseCtx) publish(s connectivity.State) {
	if c.cur == connectivity.Shutdown || c.cur == s {
		return
	}
	c.cur = s
	c.hist = append(c.hist, s)
}

var current atomic.Pointer[caseCtx]

type lbBuilder struct{}

func (lbBuilder) Name() string { return lbName }
func (lbBuilder) Build(cc balancer.ClientConn, _ balancer.BuildOptions) balancer.Balancer {
	c := current.Load()
	lb := &recLB{cc: cc, c: c}
	c.mu.Lock()
	lb.gen = len(c.lbs)
	c.lbs = append(c.lbs, lb)
	// The channel publishes CONNECTING when it leaves idle, before it builds
	// the resolver and the LB policy.
	c.publish(connectivity.Connecting)
	c.mu.Unlock()
	return lb
}

func init() { balancer.Register(lbBuilder{}) }

type recLB struct {
	cc      balancer.ClientConn
	c       *caseCtx
	gen     int
	started bool
	closed  bool
	mine    []*scRec
}

type pick struct {
	sc  balancer.SubConn
	err error
}

func (p pick) Pick(balancer.PickInfo) (balancer.PickResult, error) {
	if p.err != nil {
		return balancer.PickResult{}, p.err
	}
	return balancer.PickResult{SubConn: p.sc}, nil
}

func (lb *recLB) lastState(r *scRec) connectivity.State {
	if len(r.upds) == 0 {
		return connectivity.Idle
	}
	return r.upds[len(r.upds)-1].st
}

// aggregate and publish (c.mu must NOT be held).
func (lb *recLB) republish() {
	c := lb.c
	c.mu.Lock()
	if lb.closed {
		c.mu.Unlock()
		return
	}
	agg := connectivity.Idle
	var ready balancer.SubConn
	nConn, nTF, nLive := 0, 0, 0
	for _, r := range lb.mine {
		if r.shut {
			continue
		}
		nLive++
		switch lb.lastState(r) {
		case connectivity.Ready:
			if ready == nil {
				ready = r.sc
			}
		case connectivity.Connecting:
			nConn++
		case connectivity.TransientFailure:
			nTF++
		}
	}
	switch {
	case ready != nil:
		agg = connectivity.Ready
	case nConn > 0:
		agg = connectivity.Connecting
	case nTF > 0 && nTF == nLive:
		agg = connectivity.TransientFailure
	case nTF > 0:
		agg = connectivity.Connecting
	}
	c.publish(agg)
	c.mu.Unlock()
	pk := pick{sc: ready}
	if ready == nil {
		pk.err = balancer.ErrNoSubConnAvailable
		if agg == connectivity.TransientFailure {
			pk.err = errors.New("all subchannels failed")
		}
	}
	lb.cc.UpdateState(balancer.State{ConnectivityState: agg, Picker: pk})
}

func (lb *recLB) newSC() *scRec {
	c := lb.c
	c.mu.Lock()
	r := &scRec{id: len(c.scs), gen: lb.gen}
	r.addr = fmt.Sprintf("sc%d", r.id)
	c.scs = append(c.scs, r)
	lb.mine = append(lb.mine, r)
	c.mu.Unlock()
	sc, err := lb.cc.NewSubConn([]resolver.Address{{Addr: r.addr}}, balancer.NewSubConnOptions{StateListener: func(s balancer.SubConnState) { lb.onState(r, s) }})
	if err != nil {
		c.mu.Lock()
		r.shut = true
		c.mu.Unlock()
		return r
	}
	c.mu.Lock()
	r.sc = sc
	c.mu.Unlock()
	return r
}

func (lb *recLB) connect(r *scRec) {
	lb.c.mu.Lock()
	sc := r.sc
	ok := sc != nil && !r.shut && !lb.closed
	if ok {
		r.connects++
	}
	lb.c.mu.Unlock()
	if ok {
		sc.Connect()
	}
}

func (lb *recLB) shutdown(r *scRec) {
	lb.c.mu.Lock()
	sc := r.sc
	ok := sc != nil && !r.shut && !lb.closed
	if ok {
		r.shut = true
		r.shutAt = time.Now()
	}
	lb.c.mu.Unlock()
	if ok {
		sc.Shutdown()
		lb.republish()
	}
}

func (lb *recLB) onState(r *scRec, s balancer.SubConnState) {
	c := lb.c
	c.mu.Lock()
	if lb.closed {
		c.fail("subchannel %d received update %v after its LB policy was closed", r.id, s.ConnectivityState)
	}
	r.upds = append(r.upds, scUpd{st: s.ConnectivityState, at: time.Now()})
	reconnect := s.ConnectivityState == connectivity.Idle && c.p.AutoReconnect && !r.shut
	c.mu.Unlock()
	if reconnect {
		lb.connect(r)
	}
	lb.republish()
}

func (lb *recLB) UpdateClientConnState(s balancer.ClientConnState) error {
	if lb.started {
		return nil
	}
	lb.started = true
	var rs []*scRec
	for i := 0; i < lb.c.p.NAddrs; i++ {
		rs = append(rs, lb.newSC())
	}
	lb.republish()
	for _, r := range rs {
		lb.connect(r)
	}
	return nil
}
func (lb *recLB) ResolverError(error)                                    {}
func (lb *recLB) UpdateSubConnState(balancer.SubConn, balancer.SubConnState) {}
func (lb *recLB) ExitIdle() {
	lb.c.mu.Lock()
	var idle []*scRec
	for _, r := range lb.mine {
		if !r.shut && lb.lastState(r) == connectivity.Idle {
			idle = append(idle, r)
		}
	}
	lb.c.mu.Unlock()
	for _, r := range idle {
		lb.connect(r)
	}
}
func (lb *recLB) Close() {
	c := lb.c
	c.mu.Lock()
	lb.closed = true
	if !c.closing {
		// closed by the channel entering idle mode
		c.publish(connectivity.Idle)
	}
	c.mu.Unlock()
}

// ---- execution -----------------------------------------------------------------

type server struct {
	srv  *grpc.Server
	lis  *bufconn.Listener
	done chan struct{}
}

func startServer() *server {
	s := &server{srv: grpc.NewServer(), lis: bufconn.Listen(1 << 16), done: make(chan struct{})}
	go func() { defer close(s.done); _ = s.srv.Serve(s.lis) }()
	return s
}

func exec(p plan) (c *caseCtx, rigErr string) {
	c = &caseCtx{p: p, cur: connectivity.Idle, hist: []connectivity.State{connectivity.Idle}}
	current.Store(c)
	ctx, cancel := context.WithCancel(context.Background())
	defer cancel()
	var wg sync.WaitGroup
	srvs := []*server{startServer()}

	dialer := func(dctx context.Context, addr string) (net.Conn, error) {
		c.mu.Lock()
		i := len(c.dials)
		o := p.Outcomes[i%len(p.Outcomes)]
		rec := &dialRec{addr: addr, start: time.Now()}
		c.dials = append(c.dials, rec)
		cur := srvs[len(srvs)-1]
		gen := len(srvs) - 1
		c.mu.Unlock()
		finish := func(ok bool, lc *liveConn) {
			c.mu.Lock()
			rec.end, rec.ended, rec.ok, rec.conn = time.Now(), true, ok, lc
			if lc != nil {
				c.conns = append(c.conns, lc)
			}
			c.mu.Unlock()
		}
		switch o {
		case "hang":
			<-dctx.Done()
			finish(false, nil)
			return nil, dctx.Err()
		case "ok":
			nc, err := cur.lis.DialContext(dctx)
			if err != nil {
				finish(false, nil)
				return nil, err
			}
			finish(true, &liveConn{c: nc, srvGen: gen})
			return nc, nil
		default:
			finish(false, nil)
			return nil, errors.New("scripted dial failure")
		}
	}

	r := manual.NewBuilderWithScheme("vfc30")
	r.InitialState(resolver.State{Addresses: []resolver.Address{{Addr: "unused"}}})
	cc, err := grpc.NewClient("vfc30:///x",
		grpc.WithResolvers(r),
		grpc.WithTransportCredentials(insecure.NewCredentials()),
		grpc.WithContextDialer(dialer),
		grpc.WithIdleTimeout(time.Duration(p.IdleNs)),
		grpc.WithDefaultServiceConfig(`{"loadBalancingConfig":[{"`+lbName+`":{}}]}`),
		grpc.WithConnectParams(grpc.ConnectParams{
			Backoff:           grpcbackoff.Config{BaseDelay: time.Duration(p.BaseNs), Multiplier: 1, Jitter: 0, MaxDelay: time.Duration(p.BaseNs)},
			MinConnectTimeout: time.Second,
		}))
	if err != nil {
		return c, "NewClient: " + err.Error()
	}

	// free-running watchers
	for i := 0; i < p.FreeWatchers; i++ {
		w := &waiter{id: -1 - i, free: true, done: true}
		c.mu.Lock()
		c.waiters = append(c.waiters, w)
		c.mu.Unlock()
		wg.Add(1)
		go func() {
			defer wg.Done()
			for ctx.Err() == nil {
				s := cc.GetState()
				c.mu.Lock()
				w.src, w.done = s, false
				c.mu.Unlock()
				ok := cc.WaitForStateChange(ctx, s)
				c.mu.Lock()
				w.done, w.result = true, ok
				c.mu.Unlock()
				if s == connectivity.Shutdown {
					return
				}
			}
		}()
	}

	liveLB := func() *recLB {
		c.mu.Lock()
		defer c.mu.Unlock()
		if len(c.lbs) == 0 {
			return nil
		}
		lb := c.lbs[len(c.lbs)-1]
		if lb.closed {
			return nil
		}
		return lb
	}
	liveSCs := func(lb *recLB) []*scRec {
		c.mu.Lock()
		defer c.mu.Unlock()
		var out []*scRec
		for _, r := range lb.mine {
			if !r.shut && r.sc != nil {
				out = append(out, r)
			}
		}
		return out
	}
	// checkpoint: assertions that hold at every quiescent point
	checkpoint := func(where string) {
		synctest.Wait()
		got := cc.GetState()
		c.mu.Lock()
		defer c.mu.Unlock()
		if got != c.cur {
			c.fail("%s: GetState() = %v but the most recently published channel state is %v (published sequence %v)", where, got, c.cur, c.hist)
		}
		now := time.Now()
		for _, w := range c.waiters {
			if w.done {
				if !w.free && !w.result && now.Before(w.deadline) {
					c.fail("%s: WaitForStateChange(%v) returned false before its context expired", where, w.src)
				}
				continue
			}
			if w.free {
				if w.src != c.cur {
					c.fail("%s: a WaitForStateChange(%v) call is still blocked although the channel state is %v", where, w.src, c.cur)
				}
				continue
			}
			changed := w.regCur != w.src || len(c.hist)-1 > w.regChg
			if changed {
				c.fail("%s: waiter %d WaitForStateChange(%v) registered when the state was %v (change #%d) is still blocked although the published sequence is %v", where, w.id, w.src, w.regCur, w.regChg, c.hist)
			}
			if !now.Before(w.deadline) {
				c.fail("%s: waiter %d is still blocked after its context deadline", where, w.id)
			}
		}
	}

	checkpoint("start")
	for si, s := range p.Steps {
		where := fmt.Sprintf("after step %d (%s)", si, s.Op)
		switch s.Op {
		case opSleep:
			time.Sleep(time.Duration(s.Dur))
		case opConnect:
			cc.Connect()
		case opSCNew:
			if lb := liveLB(); lb != nil {
				r := lb.newSC()
				lb.republish()
				lb.connect(r)
			}
		case opSCShut:
			if lb := liveLB(); lb != nil {
				if l := liveSCs(lb); len(l) > 0 {
					lb.shutdown(l[s.A%len(l)])
				}
			}
		case opSCConn:
			if lb := liveLB(); lb != nil {
				if l := liveSCs(lb); len(l) > 0 {
					lb.connect(l[s.A%len(l)])
				}
			}
		case opConnClose:
			c.mu.Lock()
			var open []*liveConn
			for _, lc := range c.conns {
				if !lc.dead {
					open = append(open, lc)
				}
			}
			var victim *liveConn
			if len(open) > 0 {
				victim = open[s.A%len(open)]
				victim.dead = true
			}
			c.mu.Unlock()
			if victim != nil {
				victim.c.Close()
			}
		case opGoAway, opSrvStop:
			old := srvs[len(srvs)-1]
			c.mu.Lock()
			for _, lc := range c.conns {
				if lc.srvGen == len(srvs)-1 {
					lc.dead = true
				}
			}
			srvs = append(srvs, startServer())
			c.mu.Unlock()
			if s.Op == opGoAway {
				wg.Add(1)
				go func() { defer wg.Done(); old.srv.GracefulStop() }()
			} else {
				old.srv.Stop()
			}
		case opWatch:
			synctest.Wait()
			c.mu.Lock()
			w := &waiter{id: len(c.waiters), regCur: c.cur, regChg: len(c.hist) - 1}
			if s.A < 0 {
				w.src = c.cur
			} else {
				w.src = connectivity.State(s.A)
			}
			d := []time.Duration{time.Millisecond, 700 * time.Millisecond, time.Hour}[s.B%3]
			w.deadline = time.Now().Add(d)
			c.waiters = append(c.waiters, w)
			c.mu.Unlock()
			wg.Add(1)
			go func() {
				defer wg.Done()
				wctx, wcancel := context.WithDeadline(ctx, w.deadline)
				defer wcancel()
				ok := cc.WaitForStateChange(wctx, w.src)
				c.mu.Lock()
				w.done, w.result, w.doneAt = true, ok, time.Now()
				c.mu.Unlock()
			}()
		}
		checkpoint(where)
	}
	finalCheck(c)
	c.mu.Lock()
	c.closing = true
	c.publish(connectivity.Shutdown)
	c.mu.Unlock()
	cc.Close()
	checkpoint("after Close")
	cancel()
	for _, s := range srvs {
		s.srv.Stop()
		<-s.done
		s.lis.Close()
	}
	wg.Wait()
	synctest.Wait()
	// nothing leaves SHUTDOWN
	if got := cc.GetState(); got != connectivity.Shutdown {
		c.mu.Lock()
		c.fail("GetState() = %v after Close", got)
		c.mu.Unlock()
	}
	return c, ""
}

// finalCheck compares, at the last quiescent point before Close, the last
// update each subchannel delivered with what the harness knows happened to it.
func finalCheck(c *caseCtx) {
	synctest.Wait()
	c.mu.Lock()
	defer c.mu.Unlock()
	now := time.Now()
	if len(c.lbs) == 0 {
		return
	}
	lb := c.lbs[len(c.lbs)-1]
	if lb.closed {
		return
	}
	for _, r := range lb.mine {
		if r.sc == nil {
			continue
		}
		last := connectivity.Idle
		if len(r.upds) > 0 {
			last = r.upds[len(r.upds)-1].st
		}
		if r.shut {
			if last != connectivity.Shutdown {
				c.fail("subchannel %d: Shutdown() was called at %v but the last update delivered is %v, want SHUTDOWN (updates %v)", r.id, r.shutAt.Sub(epoch(c)), last, fmtUpds(c, r))
			}
			continue
		}
		var ld *dialRec
		for _, d := range c.dials {
			if d.addr == r.addr {
				ld = d
			}
		}
		want := []connectivity.State{}
		switch {
		case ld == nil:
			if r.connects > 0 {
				c.fail("subchannel %d: Connect() was called %d times but no dial happened", r.id, r.connects)
			}
			want = append(want, connectivity.Idle)
		case !ld.ended:
			want = append(want, connectivity.Connecting)
		case ld.ok && !ld.conn.dead:
			want = append(want, connectivity.Ready)
		case ld.ok:
			want = append(want, connectivity.Idle)
		case now.Sub(ld.end) < time.Duration(c.p.BaseNs):
			want = append(want, connectivity.TransientFailure)
		default:
			want = append(want, connectivity.Idle)
		}
		ok := false
		for _, w := range want {
			if w == last {
				ok = true
			}
		}
		if !ok {
			c.fail("subchannel %d (%s): last update delivered to the LB policy is %v but the harness saw: last dial ended=%v ok=%v at %v, connection dead=%v, now=%v, base=%v => want %v (updates %v)",
				r.id, r.addr, last, ld != nil && ld.ended, ld != nil && ld.ok, func() time.Duration {
					if ld == nil {
						return 0
					}
					return ld.end.Sub(epoch(c))
				}(), ld != nil && ld.conn != nil && ld.conn.dead, now.Sub(epoch(c)), time.Duration(c.p.BaseNs), want, fmtUpds(c, r))
		}
	}
}

var epochT time.Time

func epoch(*caseCtx) time.Time { return epochT }

func fmtUpds(c *caseCtx, r *scRec) string {
	s := ""
	for _, u := range r.upds {
		s += fmt.Sprintf(" %v@%v", u.st, u.at.Sub(epoch(c)))
	}
	return s
}

// ---- oracle on the recorded sequences -------------------------------------------

func allowed(from, to connectivity.State) bool {
	switch from {
	case connectivity.Shutdown:
		return false
	case connectivity.Idle:
		return to == connectivity.Connecting || to == connectivity.Shutdown
	case connectivity.Connecting:
		// CONNECTING -> IDLE: the connection was established and lost before READY could be reported
		return to == connectivity.Ready || to == connectivity.TransientFailure || to == connectivity.Idle || to == connectivity.Shutdown
	case connectivity.Ready:
		return to == connectivity.Idle || to == connectivity.Shutdown
	case connectivity.TransientFailure:
		return to == connectivity.Idle || to == connectivity.Shutdown
	}
	return false
}

func run(t *testing.T, p plan) vk.Result {
	var c *caseCtx
	var rigErr string
	if msg := vk.Bubble(t, func(*testing.T) {
		epochT = time.Now()
		c, rigErr = exec(p)
	}); msg != "" {
		return vk.Bad("rig did not drain: %s", msg)
	}
	if rigErr != "" {
		return vk.Bad("rig failure: %s", rigErr)
	}
	if c.violation != "" {
		return vk.Bad("%s", c.violation)
	}
	res := vk.Result{Steps: len(p.Steps)}
	// channel: nothing leaves SHUTDOWN is enforced by the model + GetState
	// checkpoints; classes for the shapes seen
	seen := map[connectivity.State]bool{}
	for _, s := range c.hist {
		seen[s] = true
	}
	for s := range seen {
		res = res.With("chan_" + s.String())
	}
	if len(c.lbs) >= 2 {
		res = res.With("idle_reentry")
	}
	// subchannels
	for _, r := range c.scs {
		prev := connectivity.Idle
		var tfAt, connAt time.Time
		for i, u := range r.upds {
			if !allowed(prev, u.st) {
				return vk.Bad("subchannel %d: update #%d %v -> %v is not an allowed transition (updates%s)", r.id, i, prev, u.st, fmtUpds(c, r))
			}
			switch u.st {
			case connectivity.Connecting:
				connAt = u.at
			case connectivity.Ready, connectivity.TransientFailure:
				wantOK := u.st == connectivity.Ready
				found := false
				for _, d := range c.dials {
					if d.addr == r.addr && d.ended && d.ok == wantOK && !d.start.Before(connAt) && !d.end.After(u.at) {
						found = true
					}
				}
				if !found {
					return vk.Bad("subchannel %d: update #%d %v is not backed by a dial that ended (ok=%v) between the CONNECTING update and it (updates%s)", r.id, i, u.st, wantOK, fmtUpds(c, r))
				}
				if u.st == connectivity.TransientFailure {
					tfAt = u.at
				}
			case connectivity.Idle:
				if prev == connectivity.TransientFailure {
					if u.at.Sub(tfAt) < time.Duration(p.BaseNs) {
						return vk.Bad("subchannel %d: left TRANSIENT_FAILURE for IDLE after %v, backoff is %v (updates%s)", r.id, u.at.Sub(tfAt), time.Duration(p.BaseNs), fmtUpds(c, r))
					}
					res = res.With("sc_tf_to_idle")
				}
				if prev == connectivity.Ready {
					res = res.With("sc_ready_to_idle")
				}
				if prev == connectivity.Connecting {
					res = res.With("sc_connecting_to_idle")
				}
			case connectivity.Shutdown:
				if !r.shut {
					return vk.Bad("subchannel %d: SHUTDOWN delivered although the LB policy never shut it down (updates%s)", r.id, fmtUpds(c, r))
				}
				res = res.With("sc_shutdown_delivered")
			}
			prev = u.st
		}
	}
	// waiters
	aba := false
	for _, w := range c.waiters {
		if w.free {
			continue
		}
		if w.src != w.regCur {
			res = res.With("waiter_src_differs")
			continue
		}
		// did the state leave src and come back after registration?
		left := false
		for _, s := range c.hist[w.regChg+1:] {
			if s != w.src {
				left = true
			} else if left {
				aba = true
			}
		}
		if left {
			res = res.With("waiter_woken_by_change")
		} else {
			res = res.With("waiter_no_change")
		}
	}
	if aba {
		res = res.With("waiter_aba")
	}
	res.NonTrivial = aba
	return res
}

func TestVerifC30State(t *testing.T) {
	vk.Check(t, vk.Unit[plan]{
		ID: "C30", Name: "state",
		Rule: "real ClientConn in a synctest bubble with a recording LB policy (1-3 subchannels with unique addresses, optional reconnect-on-IDLE), constant backoff 50 ms/1 s/3 s, idle timeout off/2 s/10 s, scripted dial outcomes (ok/fail/hang) and 3-20(120) steps from {sleep around backoff/idle boundaries, cc.Connect, create/shut down/connect a subchannel, close a connection, server GOAWAY, server Stop, register a WaitForStateChange waiter with current/arbitrary source state and 1 ms/700 ms/1 h deadline}, plus 0-16 free-running GetState/WaitForStateChange loops. Checked at every quiescent point: GetState == last published state, no waiter blocked although the state differed from its source at/after registration; per subchannel: allowed transitions, READY/TF backed by a dial result, TF->IDLE only after the backoff, nothing after SHUTDOWN, last delivered update == what the harness knows happened. non-trivial = a waiter was registered with the current state as source and the channel state left that state and returned to it afterwards (ABA)",
		Gen:  gen, Run: run,
	})
}
