package c30_test

// C30: connectivity state reporting is consistent and never missed.
//
// A real grpc.ClientConn runs in a synctest bubble with a recording LB policy
// (registered once under a name nothing else uses; the per-case context is
// handed over through a package variable because cases run one at a time).
// The LB policy creates one subchannel per address, each with a unique
// address string so that the plan-driven dialer knows which subchannel is
// dialing. The driver executes plan steps (sleep, Connect, create / shut down /
// connect subchannels, replace a subchannel's address list with
// SubConn.UpdateAddresses, close a connection, server GOAWAY / Stop, register
// WaitForStateChange waiters) and checks at every quiescent point.
//
// Every address string belongs to exactly one subchannel ("sc3", "sc3.u1",
// ...), so a dial can always be attributed to a subchannel, and - because
// UpdateAddresses is only called at quiescent points - to the connection
// attempt "epoch" of that subchannel: the number of UpdateAddresses calls that
// had to abandon the running attempt / the live connection before the dial
// started. Results of dials of an older epoch must never surface.

import (
	"context"
	"errors"
	"fmt"
	"net"
	"os"
	"sort"
	"sync"
	"sync/atomic"
	"testing"
	"testing/synctest"
	"time"

	"google.golang.org/grpc"
	grpcbackoff "google.golang.org/grpc/backoff"
	"google.golang.org/grpc/balancer"
	"google.golang.org/grpc/connectivity"
	"google.golang.org/grpc/credentials/insecure"
	"google.golang.org/grpc/internal/verifkit/vk"
	"google.golang.org/grpc/resolver"
	"google.golang.org/grpc/resolver/manual"
	"google.golang.org/grpc/test/bufconn"
	"pgregory.net/rapid"
)

const lbName = "vfc30_recording_lb"

// ---- plan ------------------------------------------------------------------

type step struct {
	Op  string `json:"op"`
	A   int    `json:"a,omitempty"`
	B   int    `json:"b,omitempty"`
	Dur int64  `json:"dur,omitempty"`
	// Pref (sc_update_addrs): 0 = any live subchannel, s+1 = prefer the live
	// subchannels whose model state is connectivity.State(s), if there are any.
	Pref int `json:"pref,omitempty"`
}

type plan struct {
	BaseNs        int64    `json:"base_ns"` // backoff: BaseDelay = MaxDelay, multiplier 1, jitter 0
	IdleNs        int64    `json:"idle_ns"` // 0 = idleness disabled
	NAddrs        int      `json:"n_addrs"`
	AutoReconnect bool     `json:"auto_reconnect"` // LB policy calls Connect on every IDLE update
	Outcomes      []string `json:"outcomes"`       // per dial (global order, cycled): ok | fail | hang | slow_ok | slow_fail | hang_ok
	FreeWatchers  int      `json:"free_watchers"`  // goroutines looping GetState / WaitForStateChange
	Steps         []step   `json:"steps"`
}

const (
	opSleep     = "sleep"
	opConnect   = "connect"     // cc.Connect()
	opSCNew     = "sc_new"      // LB creates one more subchannel and connects it
	opSCShut    = "sc_shutdown" // LB shuts down live subchannel A (mod live)
	opSCConn    = "sc_connect"  // LB calls Connect on live subchannel A
	opConnClose = "conn_close"  // harness closes open connection A (mod open)
	opGoAway    = "goaway"      // server GracefulStop (GOAWAY); a fresh server takes over
	opSrvStop   = "srv_stop"    // server Stop (hard close); a fresh server takes over
	opWatch     = "watch"       // register a waiter: A = source (-1 current, 0..4 state), B = timeout kind
	// LB calls UpdateAddresses on live subchannel A (mod the preferred / live
	// ones); B = shape of the new list (see uaShapes), built from fresh unique
	// addresses and the address to keep (the connected one when READY, else
	// the first of the current list).
	opSCUpd = "sc_update_addrs"
)

// dial outcomes:
//
//	ok / fail       immediately
//	hang            blocks until the dial context is done, returns its error
//	slow_ok/_fail   takes slowDial, then ok / fail; returns the context error if
//	                the context is done first (what a net.Dialer does)
//	hang_ok         blocks until the dial context is done; if it was cancelled
//	                (not timed out) the dialer lost the race with the
//	                cancellation and returns a live connection anyway
const slowDial = 400 * time.Millisecond

const (
	uaReplace  = iota // [fresh]
	uaAppend          // [keep, fresh]
	uaPrepend         // [fresh, keep]
	uaSame            // the current list again (documented no-op)
	uaReplace2        // [fresh1, fresh2]
	uaDropHead        // current list without its first element ([fresh] if it has one element)
	uaShapes
)

// opTable: 100 slots, the ops interleaved evenly according to their weights.
// rapid draws small indices far more often than large ones (roughly
// log-uniform), so a table sorted by op would give its first op most of the
// steps; with an even interleave every prefix has the intended proportions.
var opTable = func() []string {
	weights := []struct {
		op string
		w  int
	}{{opSleep, 34}, {opSCUpd, 18}, {opWatch, 14}, {opConnect, 7}, {opConnClose, 7}, {opSCConn, 6}, {opSCShut, 5}, {opSCNew, 3}, {opGoAway, 3}, {opSrvStop, 3}}
	type slot struct {
		pos float64
		ord int
		op  string
	}
	var slots []slot
	for ord, w := range weights {
		for j := 0; j < w.w; j++ {
			slots = append(slots, slot{(float64(j) + 0.5) / float64(w.w), ord, w.op})
		}
	}
	sort.SliceStable(slots, func(i, j int) bool {
		if slots[i].pos != slots[j].pos {
			return slots[i].pos < slots[j].pos
		}
		return slots[i].ord < slots[j].ord
	})
	var out []string
	for _, s := range slots {
		out = append(out, s.op)
	}
	return out
}()

func gen(rt *rapid.T) plan {
	var p plan
	p.BaseNs = rapid.SampledFrom([]int64{50e6, 1e9, 3e9}).Draw(rt, "base")
	p.IdleNs = rapid.SampledFrom([]int64{0, 0, 2e9, 10e9}).Draw(rt, "idle")
	p.NAddrs = rapid.SampledFrom([]int{1, 2, 2, 3}).Draw(rt, "n_addrs")
	p.AutoReconnect = rapid.IntRange(0, 3).Draw(rt, "auto") < 3
	nOut := rapid.IntRange(1, 8).Draw(rt, "n_outcomes")
	for i := 0; i < nOut; i++ {
		p.Outcomes = append(p.Outcomes, rapid.SampledFrom([]string{"fail", "ok", "hang", "ok", "fail", "slow_ok", "hang", "slow_fail", "hang_ok", "fail"}).Draw(rt, "outcome"))
	}
	p.FreeWatchers = rapid.SampledFrom([]int{0, 1, 2, 3, 8, 16}).Draw(rt, "free_watchers")
	n := rapid.IntRange(3, vk.Pick(20, 120)).Draw(rt, "n_steps")
	durs := []int64{1, 1e6, int64(slowDial), p.BaseNs / 2, p.BaseNs - 1, p.BaseNs, p.BaseNs + 1, 2 * p.BaseNs, 1e9 - 1, 1e9, 1e9 + 1}
	if p.IdleNs > 0 {
		durs = append(durs, p.IdleNs/2, p.IdleNs, p.IdleNs+1)
	}
	if rapid.IntRange(0, 9).Draw(rt, "connect_first") > 0 {
		p.Steps = append(p.Steps, step{Op: opConnect})
	}
	for i := 0; i < n; i++ {
		var s step
		switch op := rapid.SampledFrom(opTable).Draw(rt, "op"); op {
		case opSCUpd:
			// Preference: CONNECTING most of the time (an attempt in flight is the
			// interesting target and the rarest state at a quiescent point).
			pref := rapid.SampledFrom([]int{2, 2, 2, 0, 2, 1, 2, 3, 2, 4}).Draw(rt, "pref")
			s = step{Op: opSCUpd, A: rapid.IntRange(0, 7).Draw(rt, "a"), B: rapid.IntRange(0, uaShapes-1).Draw(rt, "shape"), Pref: pref}
		case opSleep:
			s = step{Op: opSleep, Dur: rapid.SampledFrom(durs).Draw(rt, "dur")}
		case opWatch:
			s = step{Op: opWatch, A: rapid.IntRange(-1, 4).Draw(rt, "src"), B: rapid.IntRange(0, 2).Draw(rt, "timeout")}
		case opConnClose, opSCShut, opSCConn:
			s = step{Op: op, A: rapid.IntRange(0, 7).Draw(rt, "a")}
		default:
			s = step{Op: op}
		}
		p.Steps = append(p.Steps, s)
	}
	return p
}

// ---- recording ---------------------------------------------------------------

type scUpd struct {
	st connectivity.State
	at time.Time
}

type scRec struct {
	id     int
	gen    int
	addr   string   // first address ever; all addresses of this subchannel start with it
	list   []string // model: the address list most recently handed to grpc
	nFresh int      // fresh addresses made so far
	epoch  int      // model: number of UpdateAddresses calls that had to restart the attempt / connection
	uas    []*uaRec
	// pendingKept: an UpdateAddresses call that kept the connected address in
	// the list is being executed; a dial of this subchannel that starts now
	// means grpc gave the connection up nevertheless (accepted, see notes).
	pendingKept *uaRec
	sc          balancer.SubConn
	upds        []scUpd
	connects    int
	shutAt      time.Time
	shut        bool
}

// uaRec is one SubConn.UpdateAddresses call (made at a quiescent point).
type uaRec struct {
	at    time.Time
	nUpds int    // updates delivered to the LB policy before the call
	kind  string // same | list_only_IDLE | list_only_TRANSIENT_FAILURE | kept | kept_but_restarted | restart | supersede
	list  []string
	// supersede: the dial that was in flight; restart: the dial whose connection is given up
	old *dialRec
}

func (u *uaRec) newEpoch() bool {
	return u.kind == "restart" || u.kind == "supersede" || u.kind == "kept_but_restarted"
}

type dialRec struct {
	addr       string
	outcome    string
	start, end time.Time
	ended, ok  bool
	conn       *liveConn
	sc         *scRec
	epoch      int  // the subchannel's epoch when the dial started
	inList     bool // addr was in the subchannel's list when the dial started
	isLast     bool // ... and was its last element
}

type liveConn struct {
	c      net.Conn
	srvGen int
	dead   bool // closed by the harness, or its server sent GOAWAY / stopped
}

type waiter struct {
	id       int
	src      connectivity.State
	regCur   connectivity.State // model state at registration (quiescent)
	regChg   int                // number of model state changes at registration
	deadline time.Time
	done     bool
	result   bool
	doneAt   time.Time
	free     bool
}

type caseCtx struct {
	mu        sync.Mutex
	p         plan
	lbs       []*recLB
	scs       []*scRec
	dials     []*dialRec
	conns     []*liveConn
	waiters   []*waiter
	cur       connectivity.State   // model: most recently published channel state
	hist      []connectivity.State // model: sequence of distinct states (changes)
	closing   bool
	violation string
	lis       *bufconn.Listener
	srvGen    int
	owner     map[string]*scRec // address -> subchannel
}

func contains(l []string, a string) bool {
	for _, x := range l {
		if x == a {
			return true
		}
	}
	return false
}

func sameList(a, b []string) bool {
	if len(a) != len(b) {
		return false
	}
	for i := range a {
		if a[i] != b[i] {
			return false
		}
	}
	return true
}

func toAddrs(l []string) []resolver.Address {
	var out []resolver.Address
	for _, a := range l {
		out = append(out, resolver.Address{Addr: a})
	}
	return out
}

// lastDial returns the most recently started dial of r (c.mu held).
func (c *caseCtx) lastDial(r *scRec) *dialRec {
	var ld *dialRec
	for _, d := range c.dials {
		if d.sc == r {
			ld = d
		}
	}
	return ld
}

// scExpect is the reference model of one live subchannel at a quiescent point:
// the state the LB policy must have been told last, derived only from what the
// harness did and saw (Shutdown calls, UpdateAddresses calls, dials and their
// results, connections it or the server killed, virtual time). c.mu held.
func (c *caseCtx) scExpect(r *scRec, now time.Time) (want connectivity.State, ld *dialRec, problem string) {
	if r.shut {
		return connectivity.Shutdown, nil, ""
	}
	ld = c.lastDial(r)
	if r.epoch > 0 && (ld == nil || ld.epoch < r.epoch) {
		return connectivity.Connecting, ld, fmt.Sprintf("UpdateAddresses(%v) abandoned the running attempt / live connection but no new connection attempt was started", r.list)
	}
	switch {
	case ld == nil:
		if r.connects > 0 {
			return connectivity.Idle, ld, fmt.Sprintf("Connect() was called %d times but no dial happened", r.connects)
		}
		return connectivity.Idle, ld, ""
	case !ld.ended:
		return connectivity.Connecting, ld, ""
	case ld.ok && !ld.conn.dead:
		return connectivity.Ready, ld, ""
	case ld.ok:
		return connectivity.Idle, ld, ""
	case now.Sub(ld.end) < time.Duration(c.p.BaseNs):
		return connectivity.TransientFailure, ld, ""
	}
	return connectivity.Idle, ld, ""
}

// checkSCs compares, for every subchannel of the live LB policy, the last
// update delivered with the model (c.mu held, quiescent).
func (c *caseCtx) checkSCs(where string) {
	if len(c.lbs) == 0 || c.closing {
		return
	}
	lb := c.lbs[len(c.lbs)-1]
	if lb.closed {
		return
	}
	now := time.Now()
	for _, r := range lb.mine {
		if r.sc == nil {
			continue
		}
		last := lb.lastState(r)
		want, ld, problem := c.scExpect(r, now)
		if problem != "" {
			c.fail("%s: subchannel %d (%s): %s (history%s)", where, r.id, r.addr, problem, fmtUpds(c, r))
			continue
		}
		if r.shut {
			if last != connectivity.Shutdown {
				c.fail("%s: subchannel %d: Shutdown() was called at %v but the last update delivered is %v, want SHUTDOWN (history%s)", where, r.id, r.shutAt.Sub(epoch(c)), last, fmtUpds(c, r))
			}
			continue
		}
		if last != want {
			c.fail("%s: subchannel %d (%s, list %v, epoch %d): last update delivered to the LB policy is %v but the harness saw: last dial %s, now=%v, base=%v => want %v (history%s)",
				where, r.id, r.addr, r.list, r.epoch, last, fmtDial(c, ld), now.Sub(epoch(c)), time.Duration(c.p.BaseNs), want, fmtUpds(c, r))
		}
	}
}

func fmtDial(c *caseCtx, d *dialRec) string {
	if d == nil {
		return "none"
	}
	s := fmt.Sprintf("#%s(%s, epoch %d) started@%v", d.addr, d.outcome, d.epoch, d.start.Sub(epoch(c)))
	if !d.ended {
		return s + " in flight"
	}
	s += fmt.Sprintf(" ended@%v ok=%v", d.end.Sub(epoch(c)), d.ok)
	if d.conn != nil {
		s += fmt.Sprintf(" connection dead=%v", d.conn.dead)
	}
	return s
}

func (c *caseCtx) fail(format string, args ...any) {
	if c.violation == "" {
		c.violation = fmt.Sprintf(format, args...)
	}
}

// publish records a channel-level publication in the model (c.mu held).
func (c *caseCtx) publish(s connectivity.State) {
	if c.cur == connectivity.Shutdown || c.cur == s {
		return
	}
	c.cur = s
	c.hist = append(c.hist, s)
}

var current atomic.Pointer[caseCtx]

type lbBuilder struct{}

func (lbBuilder) Name() string { return lbName }
func (lbBuilder) Build(cc balancer.ClientConn, _ balancer.BuildOptions) balancer.Balancer {
	c := current.Load()
	lb := &recLB{cc: cc, c: c}
	c.mu.Lock()
	lb.gen = len(c.lbs)
	c.lbs = append(c.lbs, lb)
	// The channel publishes CONNECTING when it leaves idle, before it builds
	// the resolver and the LB policy.
	c.publish(connectivity.Connecting)
	c.mu.Unlock()
	return lb
}

func init() { balancer.Register(lbBuilder{}) }

type recLB struct {
	cc      balancer.ClientConn
	c       *caseCtx
	gen     int
	started bool
	closed  bool
	mine    []*scRec
}

type pick struct {
	sc  balancer.SubConn
	err error
}

func (p pick) Pick(balancer.PickInfo) (balancer.PickResult, error) {
	if p.err != nil {
		return balancer.PickResult{}, p.err
	}
	return balancer.PickResult{SubConn: p.sc}, nil
}

func (lb *recLB) lastState(r *scRec) connectivity.State {
	if len(r.upds) == 0 {
		return connectivity.Idle
	}
	return r.upds[len(r.upds)-1].st
}

// aggregate and publish (c.mu must NOT be held).
func (lb *recLB) republish() {
	c := lb.c
	c.mu.Lock()
	if lb.closed {
		c.mu.Unlock()
		return
	}
	agg := connectivity.Idle
	var ready balancer.SubConn
	nConn, nTF, nLive := 0, 0, 0
	for _, r := range lb.mine {
		if r.shut {
			continue
		}
		nLive++
		switch lb.lastState(r) {
		case connectivity.Ready:
			if ready == nil {
				ready = r.sc
			}
		case connectivity.Connecting:
			nConn++
		case connectivity.TransientFailure:
			nTF++
		}
	}
	switch {
	case ready != nil:
		agg = connectivity.Ready
	case nConn > 0:
		agg = connectivity.Connecting
	case nTF > 0 && nTF == nLive:
		agg = connectivity.TransientFailure
	case nTF > 0:
		agg = connectivity.Connecting
	}
	c.publish(agg)
	c.mu.Unlock()
	pk := pick{sc: ready}
	if ready == nil {
		pk.err = balancer.ErrNoSubConnAvailable
		if agg == connectivity.TransientFailure {
			pk.err = errors.New("all subchannels failed")
		}
	}
	lb.cc.UpdateState(balancer.State{ConnectivityState: agg, Picker: pk})
}

func (lb *recLB) newSC() *scRec {
	c := lb.c
	c.mu.Lock()
	r := &scRec{id: len(c.scs), gen: lb.gen}
	r.addr = fmt.Sprintf("sc%d", r.id)
	r.list = []string{r.addr}
	c.owner[r.addr] = r
	c.scs = append(c.scs, r)
	lb.mine = append(lb.mine, r)
	c.mu.Unlock()
	sc, err := lb.cc.NewSubConn([]resolver.Address{{Addr: r.addr}}, balancer.NewSubConnOptions{StateListener: func(s balancer.SubConnState) { lb.onState(r, s) }})
	if err != nil {
		c.mu.Lock()
		r.shut = true
		c.mu.Unlock()
		return r
	}
	c.mu.Lock()
	r.sc = sc
	c.mu.Unlock()
	return r
}

func (lb *recLB) connect(r *scRec) {
	lb.c.mu.Lock()
	sc := r.sc
	ok := sc != nil && !r.shut && !lb.closed
	if ok {
		r.connects++
	}
	lb.c.mu.Unlock()
	if ok {
		sc.Connect()
	}
}

// updateAddrs makes the LB policy call UpdateAddresses on r (quiescent point;
// c.mu must NOT be held). The model is advanced before the call: dials that
// the call triggers already see the new list and epoch.
func (lb *recLB) updateAddrs(r *scRec, shape int) {
	c := lb.c
	c.mu.Lock()
	if r.sc == nil || r.shut || lb.closed {
		c.mu.Unlock()
		return
	}
	now := time.Now()
	st, ld, _ := c.scExpect(r, now)
	keep := r.list[0]
	if st == connectivity.Ready {
		keep = ld.addr
	}
	fresh := func() string {
		r.nFresh++
		a := fmt.Sprintf("%s.u%d", r.addr, r.nFresh)
		c.owner[a] = r
		return a
	}
	var nl []string
	switch shape % uaShapes {
	case uaReplace:
		nl = []string{fresh()}
	case uaAppend:
		nl = []string{keep, fresh()}
	case uaPrepend:
		nl = []string{fresh(), keep}
	case uaSame:
		nl = append(nl, r.list...)
	case uaReplace2:
		nl = []string{fresh(), fresh()}
	case uaDropHead:
		if len(r.list) > 1 {
			nl = append(nl, r.list[1:]...)
		} else {
			nl = []string{fresh()}
		}
	}
	ua := &uaRec{at: now, nUpds: len(r.upds), list: nl}
	switch {
	case sameList(nl, r.list):
		ua.kind = "same"
	case st == connectivity.Idle || st == connectivity.TransientFailure:
		ua.kind = "list_only_" + st.String()
	case st == connectivity.Ready && contains(nl, ld.addr):
		// "If it's in the list, the connection will be kept."
		ua.kind, ua.old = "kept", ld
		r.pendingKept = ua
	case st == connectivity.Ready:
		// "If it's not in the list, the connection will gracefully close, and a
		// new connection will be created."
		ua.kind, ua.old = "restart", ld
		ld.conn.dead = true
		r.epoch++
	default: // CONNECTING: the attempt in flight is abandoned, a new one starts
		ua.kind, ua.old = "supersede", ld
		r.epoch++
	}
	r.list = nl
	r.uas = append(r.uas, ua)
	sc := r.sc
	wasKept := ua.kind == "kept"
	c.mu.Unlock()
	sc.UpdateAddresses(toAddrs(nl))
	if wasKept {
		synctest.Wait()
		c.mu.Lock()
		r.pendingKept = nil
		c.mu.Unlock()
	}
}

func (lb *recLB) shutdown(r *scRec) {
	lb.c.mu.Lock()
	sc := r.sc
	ok := sc != nil && !r.shut && !lb.closed
	if ok {
		r.shut = true
		r.shutAt = time.Now()
	}
	lb.c.mu.Unlock()
	if ok {
		sc.Shutdown()
		lb.republish()
	}
}

func (lb *recLB) onState(r *scRec, s balancer.SubConnState) {
	c := lb.c
	c.mu.Lock()
	if lb.closed {
		c.fail("subchannel %d received update %v after its LB policy was closed", r.id, s.ConnectivityState)
	}
	r.upds = append(r.upds, scUpd{st: s.ConnectivityState, at: time.Now()})
	reconnect := s.ConnectivityState == connectivity.Idle && c.p.AutoReconnect && !r.shut
	c.mu.Unlock()
	if reconnect {
		lb.connect(r)
	}
	lb.republish()
}

func (lb *recLB) UpdateClientConnState(s balancer.ClientConnState) error {
	if lb.started {
		return nil
	}
	lb.started = true
	var rs []*scRec
	for i := 0; i < lb.c.p.NAddrs; i++ {
		rs = append(rs, lb.newSC())
	}
	lb.republish()
	for _, r := range rs {
		lb.connect(r)
	}
	return nil
}
func (lb *recLB) ResolverError(error)                                        {}
func (lb *recLB) UpdateSubConnState(balancer.SubConn, balancer.SubConnState) {}
func (lb *recLB) ExitIdle() {
	lb.c.mu.Lock()
	var idle []*scRec
	for _, r := range lb.mine {
		if !r.shut && lb.lastState(r) == connectivity.Idle {
			idle = append(idle, r)
		}
	}
	lb.c.mu.Unlock()
	for _, r := range idle {
		lb.connect(r)
	}
}
func (lb *recLB) Close() {
	c := lb.c
	c.mu.Lock()
	lb.closed = true
	if !c.closing {
		// closed by the channel entering idle mode
		c.publish(connectivity.Idle)
	}
	c.mu.Unlock()
}

// ---- execution -----------------------------------------------------------------

type server struct {
	srv  *grpc.Server
	lis  *bufconn.Listener
	done chan struct{}
}

func startServer() *server {
	s := &server{srv: grpc.NewServer(), lis: bufconn.Listen(1 << 16), done: make(chan struct{})}
	go func() { defer close(s.done); _ = s.srv.Serve(s.lis) }()
	return s
}

func exec(p plan) (c *caseCtx, rigErr string) {
	c = &caseCtx{p: p, cur: connectivity.Idle, hist: []connectivity.State{connectivity.Idle}, owner: map[string]*scRec{}}
	current.Store(c)
	ctx, cancel := context.WithCancel(context.Background())
	defer cancel()
	var wg sync.WaitGroup
	srvs := []*server{startServer()}

	dialer := func(dctx context.Context, addr string) (net.Conn, error) {
		c.mu.Lock()
		i := len(c.dials)
		o := p.Outcomes[i%len(p.Outcomes)]
		rec := &dialRec{addr: addr, outcome: o, start: time.Now()}
		if r := c.owner[addr]; r != nil {
			if ua := r.pendingKept; ua != nil {
				// The connected address is still in the new list, the documentation
				// of SubConn.UpdateAddresses says the connection is kept; grpc-go
				// restarts nevertheless (notes/C30.md, "kept address"). The C30
				// statement allows either, so the model follows: the connection is
				// given up, a new epoch starts.
				ua.kind = "kept_but_restarted"
				ua.old.conn.dead = true
				r.epoch++
				r.pendingKept = nil
			}
			rec.sc, rec.epoch = r, r.epoch
			rec.inList = contains(r.list, addr)
			rec.isLast = rec.inList && r.list[len(r.list)-1] == addr
		}
		c.dials = append(c.dials, rec)
		// A dial that is started with an expired context (second address of a
		// list after the first one used up the connect deadline) fails.
		expired := dctx.Err() != nil
		if expired {
			rec.outcome = o + "(context already done)"
		}
		c.mu.Unlock()
		finish := func(ok bool, lc *liveConn) {
			c.mu.Lock()
			rec.end, rec.ended, rec.ok, rec.conn = time.Now(), true, ok, lc
			if lc != nil {
				c.conns = append(c.conns, lc)
			}
			c.mu.Unlock()
		}
		// connect to the server that is current now; late: the dial context was
		// cancelled already, grpc is going to close the connection.
		connect := func(late bool) (net.Conn, error) {
			c.mu.Lock()
			cur := srvs[len(srvs)-1]
			gen := len(srvs) - 1
			c.mu.Unlock()
			cctx := dctx
			if late {
				cctx = context.Background()
			}
			nc, err := cur.lis.DialContext(cctx)
			if err != nil {
				finish(false, nil)
				return nil, err
			}
			finish(true, &liveConn{c: nc, srvGen: gen, dead: late})
			return nc, nil
		}
		if expired {
			finish(false, nil)
			return nil, dctx.Err()
		}
		switch o {
		case "hang":
			<-dctx.Done()
			finish(false, nil)
			return nil, dctx.Err()
		case "hang_ok":
			<-dctx.Done()
			if !errors.Is(dctx.Err(), context.Canceled) {
				finish(false, nil)
				return nil, dctx.Err()
			}
			return connect(true)
		case "slow_ok", "slow_fail":
			tm := time.NewTimer(slowDial)
			select {
			case <-dctx.Done():
				tm.Stop()
				finish(false, nil)
				return nil, dctx.Err()
			case <-tm.C:
			}
			if o == "slow_ok" {
				return connect(false)
			}
			finish(false, nil)
			return nil, errors.New("scripted dial failure (slow)")
		case "ok":
			return connect(false)
		default:
			finish(false, nil)
			return nil, errors.New("scripted dial failure")
		}
	}

	r := manual.NewBuilderWithScheme("vfc30")
	r.InitialState(resolver.State{Addresses: []resolver.Address{{Addr: "unused"}}})
	cc, err := grpc.NewClient("vfc30:///x",
		grpc.WithResolvers(r),
		grpc.WithTransportCredentials(insecure.NewCredentials()),
		grpc.WithContextDialer(dialer),
		grpc.WithIdleTimeout(time.Duration(p.IdleNs)),
		grpc.WithDefaultServiceConfig(`{"loadBalancingConfig":[{"`+lbName+`":{}}]}`),
		grpc.WithConnectParams(grpc.ConnectParams{
			Backoff:           grpcbackoff.Config{BaseDelay: time.Duration(p.BaseNs), Multiplier: 1, Jitter: 0, MaxDelay: time.Duration(p.BaseNs)},
			MinConnectTimeout: time.Second,
		}))
	if err != nil {
		return c, "NewClient: " + err.Error()
	}

	// free-running watchers
	for i := 0; i < p.FreeWatchers; i++ {
		w := &waiter{id: -1 - i, free: true, done: true}
		c.mu.Lock()
		c.waiters = append(c.waiters, w)
		c.mu.Unlock()
		wg.Add(1)
		go func() {
			defer wg.Done()
			for ctx.Err() == nil {
				s := cc.GetState()
				c.mu.Lock()
				w.src, w.done = s, false
				c.mu.Unlock()
				ok := cc.WaitForStateChange(ctx, s)
				c.mu.Lock()
				w.done, w.result = true, ok
				c.mu.Unlock()
				if s == connectivity.Shutdown {
					return
				}
			}
		}()
	}

	liveLB := func() *recLB {
		c.mu.Lock()
		defer c.mu.Unlock()
		if len(c.lbs) == 0 {
			return nil
		}
		lb := c.lbs[len(c.lbs)-1]
		if lb.closed {
			return nil
		}
		return lb
	}
	liveSCs := func(lb *recLB) []*scRec {
		c.mu.Lock()
		defer c.mu.Unlock()
		var out []*scRec
		for _, r := range lb.mine {
			if !r.shut && r.sc != nil {
				out = append(out, r)
			}
		}
		return out
	}
	// checkpoint: assertions that hold at every quiescent point
	checkpoint := func(where string) {
		synctest.Wait()
		got := cc.GetState()
		c.mu.Lock()
		defer c.mu.Unlock()
		if got != c.cur {
			c.fail("%s: GetState() = %v but the most recently published channel state is %v (published sequence %v)", where, got, c.cur, c.hist)
		}
		c.checkSCs(where)
		now := time.Now()
		for _, w := range c.waiters {
			if w.done {
				if !w.free && !w.result && now.Before(w.deadline) {
					c.fail("%s: WaitForStateChange(%v) returned false before its context expired", where, w.src)
				}
				continue
			}
			if w.free {
				if w.src != c.cur {
					c.fail("%s: a WaitForStateChange(%v) call is still blocked although the channel state is %v", where, w.src, c.cur)
				}
				continue
			}
			changed := w.regCur != w.src || len(c.hist)-1 > w.regChg
			if changed {
				c.fail("%s: waiter %d WaitForStateChange(%v) registered when the state was %v (change #%d) is still blocked although the published sequence is %v", where, w.id, w.src, w.regCur, w.regChg, c.hist)
			}
			if !now.Before(w.deadline) {
				c.fail("%s: waiter %d is still blocked after its context deadline", where, w.id)
			}
		}
	}

	checkpoint("start")
	for si, s := range p.Steps {
		where := fmt.Sprintf("after step %d (%s)", si, s.Op)
		switch s.Op {
		case opSleep:
			time.Sleep(time.Duration(s.Dur))
		case opConnect:
			cc.Connect()
		case opSCNew:
			if lb := liveLB(); lb != nil {
				r := lb.newSC()
				lb.republish()
				lb.connect(r)
			}
		case opSCShut:
			if lb := liveLB(); lb != nil {
				if l := liveSCs(lb); len(l) > 0 {
					lb.shutdown(l[s.A%len(l)])
				}
			}
		case opSCConn:
			if lb := liveLB(); lb != nil {
				if l := liveSCs(lb); len(l) > 0 {
					lb.connect(l[s.A%len(l)])
				}
			}
		case opSCUpd:
			if lb := liveLB(); lb != nil {
				if l := liveSCs(lb); len(l) > 0 {
					if s.Pref > 0 {
						c.mu.Lock()
						var pl []*scRec
						for _, r := range l {
							if st, _, _ := c.scExpect(r, time.Now()); st == connectivity.State(s.Pref-1) {
								pl = append(pl, r)
							}
						}
						c.mu.Unlock()
						if len(pl) > 0 {
							l = pl
						}
					}
					lb.updateAddrs(l[s.A%len(l)], s.B)
				}
			}
		case opConnClose:
			c.mu.Lock()
			var open []*liveConn
			for _, lc := range c.conns {
				if !lc.dead {
					open = append(open, lc)
				}
			}
			var victim *liveConn
			if len(open) > 0 {
				victim = open[s.A%len(open)]
				victim.dead = true
			}
			c.mu.Unlock()
			if victim != nil {
				victim.c.Close()
			}
		case opGoAway, opSrvStop:
			old := srvs[len(srvs)-1]
			c.mu.Lock()
			for _, lc := range c.conns {
				if lc.srvGen == len(srvs)-1 {
					lc.dead = true
				}
			}
			srvs = append(srvs, startServer())
			c.mu.Unlock()
			if s.Op == opGoAway {
				wg.Add(1)
				go func() { defer wg.Done(); old.srv.GracefulStop() }()
			} else {
				old.srv.Stop()
			}
		case opWatch:
			synctest.Wait()
			c.mu.Lock()
			w := &waiter{id: len(c.waiters), regCur: c.cur, regChg: len(c.hist) - 1}
			if s.A < 0 {
				w.src = c.cur
			} else {
				w.src = connectivity.State(s.A)
			}
			d := []time.Duration{time.Millisecond, 700 * time.Millisecond, time.Hour}[s.B%3]
			w.deadline = time.Now().Add(d)
			c.waiters = append(c.waiters, w)
			c.mu.Unlock()
			wg.Add(1)
			go func() {
				defer wg.Done()
				wctx, wcancel := context.WithDeadline(ctx, w.deadline)
				defer wcancel()
				ok := cc.WaitForStateChange(wctx, w.src)
				c.mu.Lock()
				w.done, w.result, w.doneAt = true, ok, time.Now()
				c.mu.Unlock()
			}()
		}
		checkpoint(where)
	}
	finalCheck(c)
	c.mu.Lock()
	c.closing = true
	c.publish(connectivity.Shutdown)
	c.mu.Unlock()
	cc.Close()
	checkpoint("after Close")
	cancel()
	for _, s := range srvs {
		s.srv.Stop()
		<-s.done
		s.lis.Close()
	}
	wg.Wait()
	synctest.Wait()
	// nothing leaves SHUTDOWN
	if got := cc.GetState(); got != connectivity.Shutdown {
		c.mu.Lock()
		c.fail("GetState() = %v after Close", got)
		c.mu.Unlock()
	}
	return c, ""
}

// finalCheck: the last quiescent point before Close (same comparison as at
// every checkpoint: last delivered update == model).
func finalCheck(c *caseCtx) {
	synctest.Wait()
	c.mu.Lock()
	defer c.mu.Unlock()
	c.checkSCs("before Close")
}

var epochT time.Time

func epoch(*caseCtx) time.Time { return epochT }

func fmtUpds(c *caseCtx, r *scRec) string {
	s := ""
	ui := 0
	for i := 0; i <= len(r.upds); i++ {
		for ; ui < len(r.uas) && r.uas[ui].nUpds == i; ui++ {
			s += fmt.Sprintf(" [UpdateAddresses(%v):%s@%v]", r.uas[ui].list, r.uas[ui].kind, r.uas[ui].at.Sub(epoch(c)))
		}
		if i < len(r.upds) {
			s += fmt.Sprintf(" %v@%v", r.upds[i].st, r.upds[i].at.Sub(epoch(c)))
		}
	}
	return s
}

func fmtDials(c *caseCtx, r *scRec) string {
	s := ""
	for _, d := range c.dials {
		if d.sc == r {
			s += " " + fmtDial(c, d) + ";"
		}
	}
	return s
}

// ---- oracle on the recorded sequences -------------------------------------------

func allowed(from, to connectivity.State) bool {
	switch from {
	case connectivity.Shutdown:
		return false
	case connectivity.Idle:
		return to == connectivity.Connecting || to == connectivity.Shutdown
	case connectivity.Connecting:
		// CONNECTING -> IDLE: the connection was established and lost before READY could be reported
		return to == connectivity.Ready || to == connectivity.TransientFailure || to == connectivity.Idle || to == connectivity.Shutdown
	case connectivity.Ready:
		return to == connectivity.Idle || to == connectivity.Shutdown
	case connectivity.TransientFailure:
		return to == connectivity.Idle || to == connectivity.Shutdown
	}
	return false
}

func run(t *testing.T, p plan) vk.Result {
	var c *caseCtx
	var rigErr string
	if msg := vk.Bubble(t, func(*testing.T) {
		epochT = time.Now()
		c, rigErr = exec(p)
	}); msg != "" {
		return vk.Bad("rig did not drain: %s", msg)
	}
	if rigErr != "" {
		return vk.Bad("rig failure: %s", rigErr)
	}
	if c.violation != "" {
		return vk.Bad("%s", c.violation)
	}
	res := vk.Result{Steps: len(p.Steps)}
	// channel: nothing leaves SHUTDOWN is enforced by the model + GetState
	// checkpoints; classes for the shapes seen
	seen := map[connectivity.State]bool{}
	for _, s := range c.hist {
		seen[s] = true
	}
	for s := range seen {
		res = res.With("chan_" + s.String())
	}
	if len(c.lbs) >= 2 {
		res = res.With("idle_reentry")
	}
	// dials: a subchannel only dials addresses of its current list
	for _, d := range c.dials {
		if d.sc == nil {
			return vk.Bad("dial to %q, which the LB policy never gave to any subchannel", d.addr)
		}
		if !d.inList {
			return vk.Bad("subchannel %d: dial to %q started at %v although UpdateAddresses had removed that address from the subchannel's list before (history%s)", d.sc.id, d.addr, d.start.Sub(epoch(c)), fmtUpds(c, d.sc))
		}
	}
	// subchannels
	superseded := false
	for _, r := range c.scs {
		prev := connectivity.Idle
		var tfAt, connAt time.Time
		ui, ep := 0, 0
		restart := false // UpdateAddresses gave up the READY connection since the previous update
		for i, u := range r.upds {
			for ; ui < len(r.uas) && r.uas[ui].nUpds <= i; ui++ {
				if r.uas[ui].newEpoch() {
					ep++
					restart = r.uas[ui].kind == "restart" || r.uas[ui].kind == "kept_but_restarted"
				}
			}
			// READY -> CONNECTING is what grpc-go does when UpdateAddresses drops the
			// connected address (the statement does not forbid it); READY -> IDLE
			// (-> CONNECTING) would be accepted as well.
			if !allowed(prev, u.st) && !(restart && prev == connectivity.Ready && u.st == connectivity.Connecting) {
				return vk.Bad("subchannel %d: update #%d %v -> %v is not an allowed transition (history%s)", r.id, i, prev, u.st, fmtUpds(c, r))
			}
			restart = false
			switch u.st {
			case connectivity.Connecting:
				connAt = u.at
			case connectivity.Ready, connectivity.TransientFailure:
				wantOK := u.st == connectivity.Ready
				found := false
				for _, d := range c.dials {
					if d.sc == r && d.epoch == ep && d.ended && d.ok == wantOK && !d.start.Before(connAt) && !d.end.After(u.at) && (wantOK || d.isLast) {
						found = true
					}
				}
				if !found {
					return vk.Bad("subchannel %d: update #%d %v is not backed by a dial of the subchannel's current attempt (epoch %d) that ended (ok=%v%s) between the CONNECTING update and it (history%s; dials%s)", r.id, i, u.st, ep, wantOK,
						map[bool]string{true: "", false: ", last address of the list"}[wantOK], fmtUpds(c, r), fmtDials(c, r))
				}
				if u.st == connectivity.TransientFailure {
					tfAt = u.at
				}
			case connectivity.Idle:
				if prev == connectivity.TransientFailure {
					if u.at.Sub(tfAt) < time.Duration(p.BaseNs) {
						return vk.Bad("subchannel %d: left TRANSIENT_FAILURE for IDLE after %v, backoff is %v (history%s)", r.id, u.at.Sub(tfAt), time.Duration(p.BaseNs), fmtUpds(c, r))
					}
					res = res.With("sc_tf_to_idle")
				}
				if prev == connectivity.Ready {
					res = res.With("sc_ready_to_idle")
				}
				if prev == connectivity.Connecting {
					res = res.With("sc_connecting_to_idle")
				}
			case connectivity.Shutdown:
				if !r.shut {
					return vk.Bad("subchannel %d: SHUTDOWN delivered although the LB policy never shut it down (history%s)", r.id, fmtUpds(c, r))
				}
				res = res.With("sc_shutdown_delivered")
			}
			prev = u.st
		}
		for _, ua := range r.uas {
			res = res.With("ua_" + ua.kind)
			if ua.kind == "kept_but_restarted" && os.Getenv("VERIF_C30_STRICT_KEPT") != "" {
				// Not part of the C30 statement (see notes/C30.md): opt-in strict reading
				// of the SubConn.UpdateAddresses documentation.
				v := vk.Bad("subchannel %d: UpdateAddresses(%v) kept the connected address %s in the list, but the connection was given up and a new attempt started (documentation: \"If it's in the list, the connection will be kept\") (history%s)", r.id, ua.list, ua.old.addr, fmtUpds(c, r))
				v.Sig = "c30.update_addresses_kept_address_reconnects"
				return v
			}
			if ua.kind == "supersede" && ua.old != nil && ua.old.ended {
				superseded = true
				res = res.With("superseded_dial_" + ua.old.outcome)
				// what the new attempt's first dial did
				for _, d := range c.dials {
					if d.sc == r && d.epoch == ua.old.epoch+1 {
						res = res.With("superseding_dial_" + d.outcome)
						break
					}
				}
			}
		}
		if len(r.list) > 1 {
			res = res.With("sc_two_addresses")
		}
	}
	if superseded {
		res = res.With("update_addresses_supersedes_inflight_attempt")
	}
	// waiters
	aba := false
	for _, w := range c.waiters {
		if w.free {
			continue
		}
		if w.src != w.regCur {
			res = res.With("waiter_src_differs")
			continue
		}
		// did the state leave src and come back after registration?
		left := false
		for _, s := range c.hist[w.regChg+1:] {
			if s != w.src {
				left = true
			} else if left {
				aba = true
			}
		}
		if left {
			res = res.With("waiter_woken_by_change")
		} else {
			res = res.With("waiter_no_change")
		}
	}
	if aba {
		res = res.With("waiter_aba")
	}
	res.NonTrivial = aba || superseded
	return res
}

func TestVerifC30State(t *testing.T) {
	vk.Check(t, vk.Unit[plan]{
		ID: "C30", Name: "state",
		Rule: "real ClientConn in a synctest bubble with a recording LB policy (1-3 subchannels, every address string belongs to one subchannel, optional reconnect-on-IDLE), constant backoff 50 ms/1 s/3 s, idle timeout off/2 s/10 s, scripted dial outcomes (ok/fail/hang/slow_ok/slow_fail after 400 ms/hang_ok = connects although cancelled) and 3-20(120) steps from {sleep around backoff/idle/dial boundaries, cc.Connect, create/shut down/connect a subchannel, SubConn.UpdateAddresses on a live subchannel (preferably one in a drawn state; new list = [fresh] | [keep,fresh] | [fresh,keep] | same | [fresh,fresh] | list minus head), close a connection, server GOAWAY, server Stop, register a WaitForStateChange waiter with current/arbitrary source state and 1 ms/700 ms/1 h deadline}, plus 0-16 free-running GetState/WaitForStateChange loops. Checked at every quiescent point: GetState == last published state, no waiter blocked although the state differed from its source at/after registration, every subchannel's last delivered update == reference model (Shutdown/UpdateAddresses calls, dial results of the current attempt epoch, killed connections, backoff clock; after an UpdateAddresses that abandons an attempt or drops the connected address a new attempt must have started); per subchannel at the end: allowed transitions (READY->CONNECTING only right after UpdateAddresses dropped the connected address), READY/TF backed by a dial of the CURRENT epoch that ended accordingly after the CONNECTING update (TF: dial to the last address of the list), TF->IDLE only after the backoff, nothing after SHUTDOWN, no dial to an address removed from the list. non-trivial = a waiter was registered with the current state as source and the channel state left that state and returned to it afterwards (ABA), or UpdateAddresses was called with a different list while the subchannel was CONNECTING and the superseded dial then ended (class update_addresses_supersedes_inflight_attempt)",
		Gen:  gen, Run: run,
	})
}
