package c31_test

// C31 (unbounded unit): buffer.Unbounded delivers every value exactly once in
// order and signals end-of-stream only after all values were consumed; Put
// after Close reports an error and is never delivered.
//
// All operations of Unbounded are non-blocking and atomic (mutex / channel
// operation), so every interleaving of producers, a closer and the (single)
// consumer is a sequence of {Put, Close, try-receive, Load}. The plan is such
// a sequence; the consumer follows the documented protocol (Load after every
// successful receive, nothing else). Executed on one goroutine: deterministic.

import (
	"fmt"
	"runtime/debug"
	"testing"

	"google.golang.org/grpc/internal/buffer"
	"google.golang.org/grpc/internal/verifkit/vk"
	"pgregory.net/rapid"
)

// op codes: 'p' Put(next value), 'c' Close, 'r' consumer step (Load if one is
// owed, otherwise a non-blocking receive).
type ubPlan struct {
	Ops string `json:"ops"`
}

func genUbPlan(rt *rapid.T) ubPlan {
	n := rapid.IntRange(1, vk.Pick(30, 300)).Draw(rt, "n")
	if rapid.IntRange(0, 3).Draw(rt, "long") > 0 {
		n = max(n, rapid.IntRange(6, 30).Draw(rt, "nmin"))
	}
	b := make([]byte, 0, n)
	closeAt := -1
	if rapid.IntRange(0, 9).Draw(rt, "hasclose") > 0 {
		closeAt = rapid.IntRange(0, n-1).Draw(rt, "closeat")
		if rapid.Bool().Draw(rt, "closelate") {
			closeAt = n - 1 - closeAt
		}
	}
	// the put/consume ratio changes every 8 steps so that the backlog grows
	// and shrinks; producers are usually faster before the Close
	pw := rapid.IntRange(1, 9).Draw(rt, "putweight")
	for i := 0; i < n; i++ {
		if i == closeAt {
			b = append(b, 'c')
			continue
		}
		if i%8 == 0 {
			pw = rapid.IntRange(1, 9).Draw(rt, "putweight")
			if i < closeAt && rapid.Bool().Draw(rt, "fastproducer") {
				pw = max(pw, 6)
			}
		}
		k := rapid.IntRange(0, 10).Draw(rt, "op")
		switch {
		case k == 10 && rapid.IntRange(0, 3).Draw(rt, "again") == 0:
			b = append(b, 'c') // repeated / early Close
		case k < pw:
			b = append(b, 'p')
		default:
			b = append(b, 'r')
		}
	}
	return ubPlan{Ops: string(b)}
}

func runUb(_ *testing.T, p ubPlan) (result vk.Result) {
	defer func() {
		if r := recover(); r != nil {
			result = vk.Bad("panic: %v (ops %q)\n%s", r, p.Ops, debug.Stack())
		}
	}()
	u := buffer.NewUnbounded[int]()
	ch := u.Get()
	var (
		next      = 1     // next value to put
		pending   []int   // accepted, not yet received
		closed    bool    // Close has been called
		loadOwed  bool    // consumer received a value and has not called Load yet
		sawEOS    bool    // consumer observed the closed channel
		ntClose   bool    // Close with a value waiting behind the channel slot
		maxPend   int
		lateP     int
		recvd     int
		closeBusy bool
	)
	recv := func(i int, final bool) (string, bool) { // returns violation, progress
		select {
		case v, ok := <-ch:
			if !ok {
				if !closed {
					return fmt.Sprintf("step %d: channel closed although Close was never called", i), false
				}
				if len(pending) > 0 {
					return fmt.Sprintf("step %d: end-of-stream signalled while %d accepted value(s) %v were not delivered", i, len(pending), pending), false
				}
				sawEOS = true
				return "", false
			}
			if sawEOS {
				return fmt.Sprintf("step %d: value %d delivered after end-of-stream", i, v), false
			}
			if len(pending) == 0 {
				return fmt.Sprintf("step %d: received %d but nothing is pending (duplicate or invented value)", i, v), false
			}
			if v != pending[0] {
				return fmt.Sprintf("step %d: received %d, want %d (pending %v)", i, v, pending[0], pending), false
			}
			pending = pending[1:]
			loadOwed = true
			recvd++
			return "", true
		default:
			// The consumer has called Load after every receive, so an
			// accepted value must be available, and after Close + drain the
			// end-of-stream must be visible.
			if len(pending) > 0 {
				return fmt.Sprintf("step %d: nothing to receive although %d value(s) %v are pending and the consumer called Load after every receive", i, len(pending), pending), false
			}
			if closed {
				return fmt.Sprintf("step %d: buffer closed and drained (Load called after the last receive) but end-of-stream is not signalled", i), false
			}
			return "", false
		}
	}
	for i := 0; i < len(p.Ops); i++ {
		switch p.Ops[i] {
		case 'p':
			err := u.Put(next)
			if closed {
				if err == nil {
					return vk.Bad("step %d: Put(%d) after Close returned nil", i, next)
				}
				lateP++
			} else {
				if err != nil {
					return vk.Bad("step %d: Put(%d) before Close returned %v", i, next, err)
				}
				pending = append(pending, next)
				maxPend = max(maxPend, len(pending))
			}
			next++
		case 'c':
			if !closed {
				// a value sits behind the channel slot iff >= 2 are pending, or
				// 1 is pending and the slot was just emptied (Load owed)
				if len(pending) >= 2 || (len(pending) == 1 && loadOwed) {
					ntClose = true
				}
				if len(pending) > 0 {
					closeBusy = true
				}
			}
			u.Close()
			closed = true
		case 'r':
			if sawEOS {
				continue
			}
			if loadOwed {
				u.Load()
				loadOwed = false
				continue
			}
			if v, _ := recv(i, false); v != "" {
				return vk.Bad("%s (ops %q)", v, p.Ops[:i+1])
			}
		}
	}
	// drain: the consumer keeps following the protocol
	for i := len(p.Ops); !sawEOS; i++ {
		if loadOwed {
			u.Load()
			loadOwed = false
		}
		v, progress := recv(i, true)
		if v != "" {
			return vk.Bad("drain: %s (ops %q)", v, p.Ops)
		}
		if !progress {
			break
		}
	}
	if len(pending) > 0 {
		return vk.Bad("drain ended with undelivered values %v (ops %q)", pending, p.Ops)
	}
	if closed && !sawEOS {
		return vk.Bad("closed and drained but end-of-stream never observed (ops %q)", p.Ops)
	}
	res := vk.Result{NonTrivial: ntClose, Steps: len(p.Ops)}
	if ntClose {
		res.Classes = append(res.Classes, "close_with_backlog")
	}
	if closeBusy {
		res.Classes = append(res.Classes, "close_with_pending")
	}
	if !closed {
		res.Classes = append(res.Classes, "never_closed")
	}
	if lateP > 0 {
		res.Classes = append(res.Classes, "put_after_close")
	}
	switch {
	case maxPend >= 8:
		res.Classes = append(res.Classes, "backlog>=8")
	case maxPend >= 2:
		res.Classes = append(res.Classes, "backlog2-7")
	}
	if recvd > 0 {
		res.Classes = append(res.Classes, "received")
	}
	return res
}

func TestVerifC31Unbounded(t *testing.T) {
	vk.Check(t, vk.Unit[ubPlan]{
		ID: "C31", Name: "unbounded",
		Rule: "sequences over {Put, Close, consumer step (Load if owed else non-blocking receive)} of length 1..30 (thorough 300) with varying put/consume ratio, Close at a generated position (also repeated Close, Put after Close); followed by a protocol-conforming drain. non-trivial = Close was called while a value was waiting behind the one-slot channel (backlog non-empty)",
		Gen:  genUbPlan, Run: runUb,
	})
}
