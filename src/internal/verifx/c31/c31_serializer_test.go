package c31_test

// C31 (serializer unit): grpcsync.CallbackSerializer runs accepted callbacks
// one at a time, in submission order, each exactly once, all before Done is
// closed; callbacks submitted after shutdown never run and the submitter is
// told so.
//
// Bubble (testing/synctest): k submitter goroutines perform generated
// sequences of ScheduleOr / TrySchedule / ScheduleAndWait calls separated by
// virtual-time delays; callbacks take generated virtual time (so a backlog
// builds up), may schedule children and may cancel the context themselves;
// the context is cancelled at a generated virtual instant (or from inside a
// callback). Operations at different virtual instants are totally ordered,
// operations at the same instant race for real (the oracle only relies on
// orders that are certain).

import (
	"context"
	"fmt"
	"sort"
	"sync"
	"sync/atomic"
	"testing"
	"testing/synctest"
	"time"

	"google.golang.org/grpc/internal/grpcsync"
	"google.golang.org/grpc/internal/verifkit/vk"
	"pgregory.net/rapid"
)

type csOp struct {
	Delay  int `json:"delay"`            // virtual ticks to sleep before the call
	Kind   int `json:"kind"`             // 0 ScheduleOr, 1 TrySchedule, 2 ScheduleAndWait
	Dur    int `json:"dur,omitempty"`    // virtual ticks the callback takes
	Child  int `json:"child,omitempty"`  // 0 none, 1 callback calls ScheduleOr, 2 TrySchedule (before its sleep), 3/4 same after its sleep
	Cancel int `json:"cancel,omitempty"` // 1: the callback cancels the context before its sleep, 2: after
}

type csPlan struct {
	Workers  [][]csOp `json:"workers"`
	CancelAt int      `json:"cancel_at"` // virtual tick at which the controller cancels; -1 = only after all workers finished
}

const csTick = time.Millisecond

func genCsPlan(rt *rapid.T) csPlan {
	var p csPlan
	nw := rapid.IntRange(1, vk.Pick(4, 8)).Draw(rt, "workers")
	total := 0
	for w := 0; w < nw; w++ {
		n := rapid.IntRange(1, vk.Pick(6, 14)).Draw(rt, "nops")
		var ops []csOp
		for i := 0; i < n; i++ {
			o := csOp{}
			if rapid.IntRange(0, 2).Draw(rt, "hasdelay") == 0 {
				o.Delay = rapid.IntRange(1, 3).Draw(rt, "delay")
			}
			o.Kind = rapid.SampledFrom([]int{0, 0, 0, 1, 1, 2}).Draw(rt, "kind")
			if rapid.IntRange(0, 2).Draw(rt, "hasdur") > 0 {
				o.Dur = rapid.IntRange(1, 4).Draw(rt, "dur")
			}
			if rapid.IntRange(0, 5).Draw(rt, "haschild") == 0 {
				o.Child = rapid.IntRange(1, 4).Draw(rt, "child")
			}
			if rapid.IntRange(0, 29).Draw(rt, "cancelinside") == 0 {
				o.Cancel = rapid.IntRange(1, 2).Draw(rt, "cancel")
			}
			total += o.Delay
			ops = append(ops, o)
		}
		p.Workers = append(p.Workers, ops)
	}
	switch rapid.IntRange(0, 9).Draw(rt, "cancelmode") {
	case 0:
		p.CancelAt = -1
	default:
		p.CancelAt = rapid.IntRange(0, total/nw+4).Draw(rt, "cancelat")
	}
	return p
}

// one submitted callback
type csCB struct {
	id         int
	worker     int // -1 for children
	kind       int
	tSubmit    time.Duration // virtual time of the submission
	startIdx   int           // log index before the submitting call
	endIdx     int           // log index after the submitting call returned (0 = not yet)
	rejected   bool          // onFailure ran / ErrSerializerClosed
	failCalls  int
	runs       int
	runStart   int // log index of the first run start
	runEnd     int // log index of the first run end
	waitRetIdx int // ScheduleAndWait: log index when it returned
	waitErr    error
	waitDone   bool
}

type csRun struct {
	mu      sync.Mutex
	idx     int // global event counter (log index)
	cbs     []*csCB
	t0      time.Time
	cs      *grpcsync.CallbackSerializer
	ctx     context.Context
	cancel  context.CancelFunc
	running atomic.Int32
	vio     []string

	cancelStartIdx, cancelEndIdx int
	tCancel                      time.Duration
	cancelled                    bool
	doneIdx                      int
	wrongCtx                     bool
}

func (r *csRun) tick() int { // must hold mu
	r.idx++
	return r.idx
}

func (r *csRun) violate(format string, a ...any) {
	r.mu.Lock()
	r.vio = append(r.vio, fmt.Sprintf(format, a...))
	r.mu.Unlock()
}

func (r *csRun) doCancel() {
	r.mu.Lock()
	if !r.cancelled {
		r.cancelled = true
		r.cancelStartIdx = r.tick()
		r.tCancel = time.Since(r.t0)
	}
	r.mu.Unlock()
	r.cancel()
	r.mu.Lock()
	if r.cancelEndIdx == 0 {
		r.cancelEndIdx = r.tick()
	}
	r.mu.Unlock()
}

// submit performs one scheduling call. It may be called from a worker or
// from inside a callback (children; never ScheduleAndWait there).
func (r *csRun) submit(worker int, o csOp) {
	r.mu.Lock()
	cb := &csCB{id: len(r.cbs), worker: worker, kind: o.Kind, tSubmit: time.Since(r.t0)}
	cb.startIdx = r.tick()
	r.cbs = append(r.cbs, cb)
	r.mu.Unlock()

	f := func(ctx context.Context) {
		if n := r.running.Add(1); n != 1 {
			r.violate("callback %d started while %d other callback(s) were running", cb.id, n-1)
		}
		r.mu.Lock()
		cb.runs++
		if cb.runs == 1 {
			cb.runStart = r.tick()
		}
		if ctx != r.ctx {
			r.wrongCtx = true
		}
		r.mu.Unlock()
		if o.Cancel == 1 {
			r.doCancel()
		}
		if o.Child == 1 || o.Child == 2 {
			r.submit(-1, csOp{Kind: o.Child - 1})
		}
		if o.Dur > 0 {
			time.Sleep(time.Duration(o.Dur) * csTick)
		}
		if o.Child == 3 || o.Child == 4 {
			r.submit(-1, csOp{Kind: o.Child - 3})
		}
		if o.Cancel == 2 {
			r.doCancel()
		}
		r.mu.Lock()
		if cb.runEnd == 0 {
			cb.runEnd = r.tick()
		}
		r.mu.Unlock()
		r.running.Add(-1)
	}
	onFail := func() {
		r.mu.Lock()
		cb.rejected = true
		cb.failCalls++
		r.mu.Unlock()
	}
	switch o.Kind {
	case 0:
		r.cs.ScheduleOr(f, onFail)
	case 1:
		r.cs.TrySchedule(f)
	case 2:
		err := r.cs.ScheduleAndWait(f)
		r.mu.Lock()
		cb.waitDone = true
		cb.waitErr = err
		cb.waitRetIdx = r.tick()
		if err != nil {
			cb.rejected = true
		}
		r.mu.Unlock()
	}
	r.mu.Lock()
	cb.endIdx = r.tick()
	r.mu.Unlock()
}

func runCs(t *testing.T, p csPlan) vk.Result {
	r := &csRun{}
	msg := vk.Bubble(t, func(t *testing.T) {
		r.t0 = time.Now()
		r.ctx, r.cancel = context.WithCancel(context.Background())
		r.cs = grpcsync.NewCallbackSerializer(r.ctx)
		go func() {
			<-r.cs.Done()
			r.mu.Lock()
			r.doneIdx = r.tick()
			r.mu.Unlock()
		}()
		var wg sync.WaitGroup
		for w, ops := range p.Workers {
			wg.Add(1)
			go func() {
				defer wg.Done()
				for _, o := range ops {
					if o.Delay > 0 {
						time.Sleep(time.Duration(o.Delay) * csTick)
					}
					r.submit(w, o)
				}
			}()
		}
		if p.CancelAt >= 0 {
			wg.Add(1)
			go func() {
				defer wg.Done()
				if p.CancelAt > 0 {
					time.Sleep(time.Duration(p.CancelAt) * csTick)
				}
				r.doCancel()
			}()
		}
		wg.Wait()
		synctest.Wait()
		r.doCancel() // idempotent: shuts down if not done yet
		// Virtual time stops when the bubble's main goroutine exits, so wait
		// for the shutdown here (callbacks may still be sleeping). If Done is
		// never closed the bubble reports a deadlock, which is a violation.
		<-r.cs.Done()
		synctest.Wait()
	})
	if msg != "" {
		// a goroutine is blocked for ever: a ScheduleAndWait that never returns or a serializer that never finishes
		return vk.Bad("bubble did not drain (lost callback / ScheduleAndWait hangs / run loop stuck): %s", firstLines(msg, 3))
	}
	r.mu.Lock()
	defer r.mu.Unlock()
	if len(r.vio) > 0 {
		return vk.Bad("%s", r.vio[0])
	}
	if r.doneIdx == 0 {
		return vk.Bad("context cancelled and system quiescent, but Done() is not closed")
	}
	if r.doneIdx < r.cancelStartIdx {
		return vk.Bad("Done() closed before the context was cancelled")
	}
	if r.wrongCtx {
		return vk.Bad("a callback received a context other than the one given to NewCallbackSerializer")
	}
	backlogAtCancel := 0
	var ran []*csCB
	for _, cb := range r.cbs {
		desc := fmt.Sprintf("callback %d (worker %d, kind %d, submitted at %v, cancel at %v)", cb.id, cb.worker, cb.kind, cb.tSubmit, r.tCancel)
		if cb.endIdx == 0 {
			return vk.Bad("%s: the scheduling call never returned", desc)
		}
		if cb.runs > 1 {
			return vk.Bad("%s ran %d times", desc, cb.runs)
		}
		if cb.failCalls > 1 {
			return vk.Bad("%s: onFailure called %d times", desc, cb.failCalls)
		}
		if cb.rejected && cb.runs > 0 {
			return vk.Bad("%s was reported as not scheduled but ran", desc)
		}
		if cb.kind != 1 && !cb.rejected && cb.runs == 0 {
			return vk.Bad("%s was accepted (no failure reported) but never ran", desc)
		}
		// certain orders w.r.t. shutdown (virtual time)
		if cb.tSubmit < r.tCancel || cb.endIdx < r.cancelStartIdx {
			if cb.rejected {
				return vk.Bad("%s was submitted before the context was cancelled but was rejected", desc)
			}
			if cb.runs != 1 {
				return vk.Bad("%s was submitted before the context was cancelled but ran %d times", desc, cb.runs)
			}
		}
		if cb.tSubmit > r.tCancel || cb.startIdx > r.doneIdx {
			if cb.runs > 0 {
				return vk.Bad("%s was submitted after shutdown but ran", desc)
			}
			if cb.kind != 1 && !cb.rejected {
				return vk.Bad("%s was submitted after shutdown but no failure was reported", desc)
			}
		}
		if cb.kind == 2 {
			if !cb.waitDone {
				return vk.Bad("%s: ScheduleAndWait did not return", desc)
			}
			if cb.waitErr != nil && cb.waitErr != grpcsync.ErrSerializerClosed {
				return vk.Bad("%s: ScheduleAndWait returned %v", desc, cb.waitErr)
			}
			if cb.waitErr == nil && (cb.runs != 1 || cb.runEnd == 0 || cb.runEnd > cb.waitRetIdx) {
				return vk.Bad("%s: ScheduleAndWait returned nil before the callback finished (runs=%d)", desc, cb.runs)
			}
		}
		if cb.runs == 1 {
			if cb.runEnd == 0 {
				return vk.Bad("%s started but never finished", desc)
			}
			if cb.runStart > r.doneIdx || cb.runEnd > r.doneIdx {
				return vk.Bad("%s was running after Done() was closed", desc)
			}
			ran = append(ran, cb)
			if cb.endIdx < r.cancelStartIdx && cb.runStart > r.cancelStartIdx {
				backlogAtCancel++
			}
		}
	}
	// one at a time + submission order
	sort.Slice(ran, func(i, j int) bool { return ran[i].runStart < ran[j].runStart })
	for i := 1; i < len(ran); i++ {
		if ran[i].runStart < ran[i-1].runEnd {
			return vk.Bad("callbacks %d and %d overlapped", ran[i-1].id, ran[i].id)
		}
	}
	for i, a := range ran {
		for _, b := range ran[:i] { // b ran before a
			// a's submitting call (or, for ScheduleAndWait, a's execution)
			// completed before b's submission began => a was queued first
			aQueued := a.endIdx
			if a.kind == 2 {
				aQueued = a.runStart
			}
			if aQueued < b.startIdx {
				return vk.Bad("FIFO violated: callback %d (worker %d) was submitted before callback %d (worker %d) but ran after it", a.id, a.worker, b.id, b.worker)
			}
		}
	}
	res := vk.Result{NonTrivial: backlogAtCancel > 0, Steps: len(r.cbs)}
	cl := map[string]bool{}
	if backlogAtCancel > 0 {
		cl["cancel_with_backlog"] = true
	}
	if backlogAtCancel >= 3 {
		cl["cancel_with_backlog>=3"] = true
	}
	for _, cb := range r.cbs {
		switch {
		case cb.rejected:
			cl[fmt.Sprintf("rejected_kind%d", cb.kind)] = true
		case cb.kind == 1 && cb.runs == 0:
			cl["tryschedule_dropped"] = true
		}
		if cb.worker == -1 {
			cl["child_scheduled"] = true
			if cb.rejected || cb.runs == 0 {
				cl["child_after_cancel"] = true
			}
		}
		if cb.tSubmit == r.tCancel {
			cl["submit_at_cancel_instant"] = true
		}
	}
	if p.CancelAt < 0 {
		cl["cancel_after_all"] = true
	}
	for c := range cl {
		res.Classes = append(res.Classes, c)
	}
	sort.Strings(res.Classes)
	return res
}

func firstLines(s string, n int) string {
	out := ""
	for i, l := 0, 0; i < len(s); i++ {
		if s[i] == '\n' {
			l++
			if l == n {
				return out
			}
		}
		out += string(s[i])
	}
	return out
}

func TestVerifC31Serializer(t *testing.T) {
	vk.Check(t, vk.Unit[csPlan]{
		ID: "C31", Name: "serializer",
		Rule: "bubble: 1-4 (thorough 8) submitter goroutines x 1-6 (14) calls {ScheduleOr, TrySchedule, ScheduleAndWait} with virtual delays 0-3 ticks; callbacks take 0-4 ticks, may schedule a child callback and (rarely) cancel the context; controller cancels at a generated tick or after all workers. non-trivial = the cancellation landed while at least one accepted callback had not started (backlog non-empty)",
		Gen:  genCsPlan, Run: runCs,
	})
}
