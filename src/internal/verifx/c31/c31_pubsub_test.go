package c31_test

// C31 (pubsub unit): grpcsync.PubSub delivers to each subscriber the published
// values in publish order, starting with the latest value at subscription,
// and nothing after unsubscription.
//
// Bubble: one controller goroutine performs the generated operations
// {Publish, Subscribe, unsubscribe, stop (cancel the context), quiesce
// (synctest.Wait), yield}; deliveries happen asynchronously on the
// serializer goroutine and race with the controller between quiescence
// points. Each subscriber is a fresh object (re-subscribing the same
// Subscriber value is not exercised).

import (
	"context"
	"fmt"
	"runtime"
	"sort"
	"sync"
	"testing"
	"testing/synctest"

	"google.golang.org/grpc/internal/grpcsync"
	"google.golang.org/grpc/internal/verifkit/vk"
	"pgregory.net/rapid"
)

type psOp struct {
	K string `json:"k"` // pub | sub | unsub | wait | yield | stop
	A int    `json:"a,omitempty"`
}

type psPlan struct {
	Ops []psOp `json:"ops"`
}

func genPsPlan(rt *rapid.T) psPlan {
	n := rapid.IntRange(1, vk.Pick(30, 200)).Draw(rt, "n")
	var p psPlan
	stopAt := -1
	if rapid.IntRange(0, 2).Draw(rt, "hasstop") == 0 {
		stopAt = rapid.IntRange(0, n-1).Draw(rt, "stopat")
	}
	for i := 0; i < n; i++ {
		if i == stopAt {
			p.Ops = append(p.Ops, psOp{K: "stop"})
			continue
		}
		k := rapid.SampledFrom([]string{"pub", "pub", "pub", "pub", "sub", "sub", "unsub", "unsub", "wait", "yield"}).Draw(rt, "k")
		p.Ops = append(p.Ops, psOp{K: k, A: rapid.IntRange(0, 7).Draw(rt, "a")})
	}
	return p
}

type psSub struct {
	mu        sync.Mutex
	id        int
	got       []int
	unsubbed  bool // the unsubscribe function has returned
	lateMsg   int  // message delivered after unsubscription (0 = none)
}

func (s *psSub) OnMessage(msg any) {
	s.mu.Lock()
	defer s.mu.Unlock()
	v, _ := msg.(int)
	if s.unsubbed && s.lateMsg == 0 {
		s.lateMsg = v
	}
	s.got = append(s.got, v)
}

func (s *psSub) snapshot() []int {
	s.mu.Lock()
	defer s.mu.Unlock()
	return append([]int(nil), s.got...)
}

type psModelSub struct {
	s        *psSub
	cancel   func()
	expect   []int // values scheduled for this subscriber, in order
	nBefore  int   // how many of expect were scheduled before stop
	nForbid  int   // index in expect from which entries were scheduled after stop+quiescence (-1 none)
	active   bool
	frozenAt int // len(got) observed right after unsubscribe returned
}

func isPrefix(a, b []int) bool { // a is a prefix of b
	if len(a) > len(b) {
		return false
	}
	for i := range a {
		if a[i] != b[i] {
			return false
		}
	}
	return true
}

func runPs(t *testing.T, p psPlan) vk.Result {
	var viol string
	classes := map[string]bool{}
	nt := false
	msg := vk.Bubble(t, func(t *testing.T) {
		ctx, cancel := context.WithCancel(context.Background())
		defer cancel()
		ps := grpcsync.NewPubSub(ctx)
		var subs []*psModelSub
		next := 1
		cur := 0           // latest published value (0 = none)
		stopped := false   // cancel called
		stopQuiet := false // a quiescence point passed after stop
		bad := func(format string, a ...any) {
			if viol == "" {
				viol = fmt.Sprintf(format, a...)
			}
		}
		schedule := func(m *psModelSub, v int) {
			if stopQuiet && m.nForbid < 0 {
				m.nForbid = len(m.expect)
			}
			m.expect = append(m.expect, v)
			if !stopped {
				m.nBefore = len(m.expect)
			}
		}
		checkSub := func(m *psModelSub, quiescent bool, where string) {
			got := m.s.snapshot()
			if !isPrefix(got, m.expect) {
				bad("%s: subscriber %d received %v, which is not a prefix of the values published for it %v", where, m.s.id, got, m.expect)
				return
			}
			if m.nForbid >= 0 && len(got) > m.nForbid {
				bad("%s: subscriber %d received %v including values published after the PubSub was stopped (expected at most the first %d of %v)", where, m.s.id, got, m.nForbid, m.expect)
				return
			}
			if quiescent && m.active && len(got) < m.nBefore {
				bad("%s: system quiescent but subscriber %d received only %v of %v (first %d were published before stop)", where, m.s.id, got, m.expect, m.nBefore)
			}
			if !m.active && len(got) != m.frozenAt {
				bad("%s: subscriber %d received %v after unsubscribing (had %d messages when unsubscribe returned)", where, m.s.id, got[min(m.frozenAt, len(got)):], m.frozenAt)
			}
			m.s.mu.Lock()
			late := m.s.lateMsg
			m.s.mu.Unlock()
			if late != 0 {
				bad("%s: subscriber %d got message %d after its unsubscribe function returned", where, m.s.id, late)
			}
		}
		activeSubs := func() []*psModelSub {
			var out []*psModelSub
			for _, m := range subs {
				if m.active {
					out = append(out, m)
				}
			}
			return out
		}
		for i, o := range p.Ops {
			where := fmt.Sprintf("op %d %s", i, o.K)
			switch o.K {
			case "pub":
				v := next
				next++
				ps.Publish(v)
				cur = v
				for _, m := range activeSubs() {
					schedule(m, v)
				}
			case "sub":
				s := &psSub{id: len(subs)}
				m := &psModelSub{s: s, active: true, nForbid: -1}
				m.cancel = ps.Subscribe(s)
				if cur != 0 {
					schedule(m, cur)
					classes["sub_with_current_value"] = true
				} else {
					classes["sub_before_first_publish"] = true
				}
				subs = append(subs, m)
			case "unsub":
				as := activeSubs()
				if len(as) == 0 {
					continue
				}
				m := as[o.A%len(as)]
				m.cancel()
				m.s.mu.Lock()
				m.s.unsubbed = true
				m.frozenAt = len(m.s.got)
				m.s.mu.Unlock()
				m.active = false
				if m.frozenAt < len(m.expect) && (m.nForbid < 0 || m.frozenAt < m.nForbid) {
					classes["unsub_with_pending_delivery"] = true
					nt = true
				}
				checkSub(m, false, where)
			case "stop":
				if !stopped {
					for _, m := range activeSubs() {
						if len(m.s.snapshot()) < len(m.expect) {
							classes["stop_with_pending_delivery"] = true
							nt = true
						}
					}
				}
				cancel()
				stopped = true
			case "wait":
				synctest.Wait()
				if stopped {
					stopQuiet = true
				}
				for _, m := range subs {
					checkSub(m, true, where)
				}
				if stopped {
					select {
					case <-ps.Done():
					default:
						bad("%s: PubSub stopped and quiescent but Done() is not closed", where)
					}
				}
			case "yield":
				runtime.Gosched()
			}
			if !stopped {
				select {
				case <-ps.Done():
					bad("%s: Done() closed although the PubSub was not stopped", where)
				default:
				}
			}
			if viol != "" {
				return
			}
		}
		synctest.Wait()
		for _, m := range subs {
			checkSub(m, true, "end")
		}
		cancel()
		synctest.Wait()
		select {
		case <-ps.Done():
		default:
			bad("end: PubSub stopped and quiescent but Done() is not closed")
		}
		for _, m := range subs {
			checkSub(m, true, "after stop")
		}
		if stopped {
			classes["stopped_mid_plan"] = true
		}
		if len(subs) >= 2 {
			classes["multiple_subscribers"] = true
		}
	})
	if viol != "" {
		return vk.Bad("%s", viol)
	}
	if msg != "" {
		return vk.Bad("bubble did not drain: %s", firstLines(msg, 3))
	}
	res := vk.Result{NonTrivial: nt, Steps: len(p.Ops)}
	for c := range classes {
		res.Classes = append(res.Classes, c)
	}
	sort.Strings(res.Classes)
	return res
}

func TestVerifC31PubSub(t *testing.T) {
	vk.Check(t, vk.Unit[psPlan]{
		ID: "C31", Name: "pubsub",
		Rule: "bubble: controller op lists over {Publish(unique int), Subscribe(fresh subscriber), unsubscribe k-th active, stop, quiesce, yield}, length 1..30 (thorough 200); deliveries race with the controller between quiescence points. non-trivial = an unsubscribe or stop happened while a delivery to an affected subscriber was still pending",
		Gen:  genPsPlan, Run: runPs,
	})
}
