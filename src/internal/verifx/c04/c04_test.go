package c04_test

// C04: inbound flow-control accounting of grpc-go (client and server role) is
// exact and never wedges a reading application.
//
// The scripted h2peer is a *conforming greedy sender*: it sends queued gRPC
// messages as DATA frames (generated segmentation and padding) whenever the
// Ledger's view of the windows grpc-go advertised allows it, and never more.
// The application side is harness code reading with ReadMessageHeader/Read in
// plan-controlled steps. Everything runs in a synctest bubble.

import (
	"context"
	"encoding/binary"
	"fmt"
	"os"
	"strings"
	"sync"
	"testing"
	"testing/synctest"
	"time"

	"golang.org/x/net/http2"
	"google.golang.org/grpc/internal/transport"
	"google.golang.org/grpc/internal/verifkit/h2peer"
	"google.golang.org/grpc/internal/verifkit/h2peer/h2grpc"
	"google.golang.org/grpc/internal/verifkit/vk"
	"pgregory.net/rapid"
)

const (
	opOpen    = "open"    // new stream
	opMsg     = "msg"     // the peer queues a message of N payload bytes on stream S; DATA chunk size C, padding P (<0 none)
	opRead    = "read"    // the application on stream S may perform N more read calls; C = payload chunk per Read (0 = whole message, as grpc does)
	opEOS     = "eos"     // the peer ends stream S after its queued messages
	opSleep   = "sleep"   // advance virtual time by N microseconds
	opAck     = "ack"     // the peer acknowledges the PINGs received so far (only with manual acks)
	opOverrun = "overrun" // NON-conforming: the peer sends N bytes more than stream S's window allows
	opPadOnly = "padonly" // the peer sends up to N DATA frames on stream S that carry no payload, only a pad-length byte and P bytes of padding (each consumes 1+P bytes of both windows), as far as the windows allow
)

type Op struct {
	K      string `json:"k"`
	S      int    `json:"s,omitempty"`
	N      int    `json:"n,omitempty"`
	C      int    `json:"c,omitempty"`
	P      int    `json:"p,omitempty"`
	NoWait bool   `json:"nowait,omitempty"`
}

type Plan struct {
	Role      string `json:"role"`       // role of grpc-go
	Static    bool   `json:"static"`     // StaticWindowSize (BDP estimation off)
	StreamWin int32  `json:"stream_win"` // InitialWindowSize option (0 = default 65535)
	ConnWin   int32  `json:"conn_win"`   // InitialConnWindowSize option (0 = default)
	ManualAck bool   `json:"manual_ack"` // PINGs are acknowledged only by "ack" ops (else immediately)
	Ops       []Op   `json:"ops"`
}

func genWin(rt *rapid.T, label string) int32 {
	switch rapid.IntRange(0, 7).Draw(rt, label+"_kind") {
	case 0, 1, 2:
		return 0
	case 3:
		return 65536
	case 4:
		return 1 << 20
	case 5:
		return int32(rapid.IntRange(65536, 4<<20).Draw(rt, label))
	case 6:
		return int32(1<<31 - 1 - rapid.IntRange(0, 70000).Draw(rt, label))
	default:
		return int32(rapid.SampledFrom([]int{1<<31 - 1, 1 << 30, 1<<31 - 65536}).Draw(rt, label))
	}
}

func genMsgSize(rt *rapid.T, win int) int {
	switch rapid.IntRange(0, 8).Draw(rt, "msg_kind") {
	case 0:
		return rapid.IntRange(0, 16).Draw(rt, "msg")
	case 1, 2:
		return rapid.IntRange(1, 5000).Draw(rt, "msg")
	case 3, 4:
		return rapid.IntRange(5000, 70000).Draw(rt, "msg")
	case 5: // around the window
		return max(0, win-5+rapid.IntRange(-3, 3).Draw(rt, "msg_d"))
	case 6, 7: // larger than the window, up to 3x
		hi := min(3*win, vk.Pick(256<<10, 2<<20))
		return rapid.IntRange(min(win, hi), hi).Draw(rt, "msg")
	default:
		return rapid.IntRange(0, 200000).Draw(rt, "msg")
	}
}

func genPlan(role string) func(rt *rapid.T) Plan {
	return func(rt *rapid.T) Plan {
		p := Plan{Role: role}
		p.Static = rapid.IntRange(0, 2).Draw(rt, "static") == 0
		p.StreamWin = genWin(rt, "swin")
		p.ConnWin = genWin(rt, "cwin")
		p.ManualAck = rapid.Bool().Draw(rt, "manual_ack")
		win := 65535
		if p.StreamWin >= 65535 {
			win = int(p.StreamWin)
		}
		n := rapid.IntRange(4, vk.Pick(32, 120)).Draw(rt, "nops")
		maxStreams := vk.Pick(3, 8)
		streams := 0
		for i := 0; i < n; i++ {
			var op Op
			w := rapid.IntRange(0, 99).Draw(rt, "w")
			switch {
			case streams == 0 || (w < 6 && streams < maxStreams):
				op = Op{K: opOpen}
				streams++
			case w < 36:
				op = Op{K: opMsg, S: rapid.IntRange(0, 15).Draw(rt, "s"), N: genMsgSize(rt, min(win, 1<<21)), P: -1}
				switch rapid.IntRange(0, 3).Draw(rt, "chunk_kind") {
				case 0:
					op.C = 16384
				case 1:
					op.C = rapid.IntRange(1, 64).Draw(rt, "chunk")
				default:
					op.C = rapid.IntRange(1, 16384).Draw(rt, "chunk")
				}
				if op.N > 100000 && op.C < 512 {
					op.C = 512 // keep the frame count of a case bounded
				}
				if rapid.IntRange(0, 2).Draw(rt, "padded") == 0 {
					op.P = rapid.SampledFrom([]int{0, 1, 7, 100, 255, 255}).Draw(rt, "pad")
				}
			case w < 72:
				op = Op{K: opRead, S: rapid.IntRange(0, 15).Draw(rt, "s"), N: rapid.IntRange(1, 12).Draw(rt, "nreads")}
				if rapid.IntRange(0, 2).Draw(rt, "chunked") == 0 {
					op.C = rapid.SampledFrom([]int{1, 5, 100, 4096, 16384, 70000, 300000}).Draw(rt, "rchunk")
				}
			case w < 78:
				op = Op{K: opEOS, S: rapid.IntRange(0, 15).Draw(rt, "s")}
			case w < 88:
				op = Op{K: opSleep, N: rapid.SampledFrom([]int{1, 10, 100, 1000, 10000, 100000, 1000000}).Draw(rt, "us")}
			case w < 92:
				op = Op{K: opPadOnly, S: rapid.IntRange(0, 15).Draw(rt, "s"), P: rapid.SampledFrom([]int{0, 1, 100, 255, 255, 255, 255, 255}).Draw(rt, "pad")}
				if rapid.IntRange(0, 2).Draw(rt, "pad_burst") == 0 {
					op.N = rapid.IntRange(1, 8).Draw(rt, "npad")
				} else {
					op.N = rapid.IntRange(60, 300).Draw(rt, "npad")
				}
			case w < 97:
				op = Op{K: opAck}
			case w < 98:
				op = Op{K: opOverrun, S: rapid.IntRange(0, 15).Draw(rt, "s"), N: rapid.SampledFrom([]int{1, 1, 2, 100, 16384}).Draw(rt, "over")}
			default:
				op = Op{K: opSleep, N: 1}
			}
			op.NoWait = rapid.IntRange(0, 3).Draw(rt, "nowait") == 0
			p.Ops = append(p.Ops, op)
		}
		return p
	}
}

// ---- executor ----

type segment struct {
	data  []byte
	chunk int
	pad   int
}

type readStep struct {
	n     int // number of read calls allowed; <0: unlimited
	chunk int
}

type stream struct {
	idx  int
	path string
	id   uint32 // wire id (0 until known)

	// sender (peer) side, touched by the main goroutine only
	queue    []segment
	sent     []byte // all DATA payload bytes written by the peer
	eos      bool   // END_STREAM queued
	eosSent  bool
	overrun  bool // the peer broke the window on purpose; no oracle applies any more
	queuedSz int
	padOnly  int64 // bytes of both windows consumed by padding-only frames

	ready  chan *transport.ServerStream
	steps  chan readStep
	abort  chan struct{}
	done   chan struct{}
	client *transport.ClientStream

	mu      sync.Mutex
	got     []byte // bytes the application obtained, in order (5-byte headers included)
	inCall  bool   // the reader is inside ReadMessageHeader/Read
	goal    int    // stream offset the current call completes at
	readErr error
	opened  bool
}

type exec struct {
	plan Plan
	crig *h2grpc.ClientRig
	srig *h2grpc.ServerRig
	peer *h2peer.Peer
	led  *h2peer.Ledger

	mu      sync.Mutex
	streams []*stream
	byPath  map[string]*stream

	pmu      sync.Mutex
	pings    [][8]byte // pings waiting for a manual ack
	pingsIn  int
	acksSent int
	initIWS  int64
	classes  map[string]bool
	bad      []string
	maxOutWS int64
}

func (e *exec) class(c string) { e.classes[c] = true }
func (e *exec) badf(format string, a ...any) {
	if len(e.bad) < 6 {
		e.bad = append(e.bad, fmt.Sprintf(format, a...))
	}
}

// reader is the application: reads gRPC messages in plan-controlled steps.
func (e *exec) reader(s *stream, rd interface {
	ReadMessageHeader([]byte) error
}, read func(int) ([]byte, error)) {
	var hdr [5]byte
	remaining := -1 // payload bytes left in the current message; -1: need a header
	for st := range s.steps {
		for k := 0; st.n < 0 || k < st.n; k++ {
			s.mu.Lock()
			if s.readErr != nil {
				s.mu.Unlock()
				break
			}
			off := len(s.got)
			var want int
			if remaining < 0 {
				want = 5
			} else {
				want = remaining
				if st.chunk > 0 && st.chunk < want {
					want = st.chunk
				}
			}
			s.inCall, s.goal = true, off+want
			s.mu.Unlock()
			var b []byte
			var err error
			if remaining < 0 {
				err = rd.ReadMessageHeader(hdr[:])
				b = hdr[:]
			} else if want > 0 {
				b, err = read(want)
			}
			s.mu.Lock()
			s.inCall = false
			if err != nil {
				s.readErr = err
				s.mu.Unlock()
				break
			}
			s.got = append(s.got, b...)
			s.mu.Unlock()
			if remaining < 0 {
				remaining = int(binary.BigEndian.Uint32(hdr[1:]))
			} else {
				remaining -= want
			}
			if remaining == 0 {
				remaining = -1
			}
		}
	}
}

func (e *exec) clientApp(s *stream) {
	defer close(s.done)
	cs, err := e.crig.CT.NewStream(context.Background(), &transport.CallHdr{Host: "vf", Method: s.path}, nil)
	if err != nil {
		s.mu.Lock()
		s.readErr = err
		s.mu.Unlock()
		for range s.steps {
		}
		return
	}
	s.mu.Lock()
	s.client, s.opened = cs, true
	s.mu.Unlock()
	e.reader(s, cs, func(n int) ([]byte, error) {
		bs, err := cs.Read(n)
		if err != nil {
			return nil, err
		}
		b := bs.Materialize()
		bs.Free()
		return b, nil
	})
}

func (e *exec) serverApp(s *stream) {
	defer close(s.done)
	var ss *transport.ServerStream
	select {
	case ss = <-s.ready:
	case <-s.abort:
		for range s.steps {
		}
		return
	}
	s.mu.Lock()
	s.opened = true
	s.mu.Unlock()
	e.reader(s, ss, func(n int) ([]byte, error) {
		bs, err := ss.Read(n)
		if err != nil {
			return nil, err
		}
		b := bs.Materialize()
		bs.Free()
		return b, nil
	})
}

func (e *exec) pick(i int) *stream {
	if len(e.streams) == 0 {
		return nil
	}
	return e.streams[i%len(e.streams)]
}

func payload(idx, seq, n int) []byte {
	b := make([]byte, 5+n)
	binary.BigEndian.PutUint32(b[1:], uint32(n))
	x := uint32(idx*7919+seq*104729) | 1
	for i := 5; i < len(b); i++ {
		x = x*1664525 + 1013904223
		b[i] = byte(x >> 24)
	}
	return b
}

func (e *exec) doOp(op Op) {
	switch op.K {
	case opOpen:
		s := &stream{idx: len(e.streams), ready: make(chan *transport.ServerStream, 1), steps: make(chan readStep, len(e.plan.Ops)+4),
			abort: make(chan struct{}), done: make(chan struct{})}
		s.path = fmt.Sprintf("/vf/r%d", s.idx)
		e.mu.Lock()
		e.streams = append(e.streams, s)
		e.byPath[s.path] = s
		e.mu.Unlock()
		if e.plan.Role == "client" {
			go e.clientApp(s)
			synctest.Wait() // the HEADERS are on the wire now
			if id, ok := e.led.StreamIDByPath(s.path); ok {
				s.id = id
				e.peer.WriteHeaders(h2peer.Headers{StreamID: id, Fields: h2peer.ResponseHeaders()})
			}
		} else {
			go e.serverApp(s)
			s.id = e.peer.NextStreamID()
			e.peer.WriteHeaders(h2peer.Headers{StreamID: s.id, Fields: h2peer.RequestHeaders(s.path, "vf")})
		}
	case opMsg:
		s := e.pick(op.S)
		if s == nil || s.eos || s.id == 0 {
			return
		}
		s.queue = append(s.queue, segment{data: payload(s.idx, s.queuedSz, op.N), chunk: max(1, min(op.C, 16384)), pad: op.P})
		s.queuedSz++
		if op.N+5 > int(e.led.OutIWS()) {
			e.class("message_larger_than_window")
		}
	case opRead:
		s := e.pick(op.S)
		if s == nil {
			return
		}
		s.steps <- readStep{n: op.N, chunk: op.C}
	case opEOS:
		if s := e.pick(op.S); s != nil && s.id != 0 {
			s.eos = true
		}
	case opSleep:
		time.Sleep(time.Duration(op.N) * time.Microsecond)
	case opAck:
		e.ackPings()
	case opPadOnly:
		s := e.pick(op.S)
		if s == nil || s.id == 0 || s.eosSent || s.overrun || op.P < 0 || op.P > 255 {
			return
		}
		cost := int64(1 + op.P)
		waited := false
		for i := 0; i < op.N && i < 400; i++ {
			if min(e.led.OutStreamWindow(s.id), e.led.OutConnWindow()) < cost {
				if waited {
					break
				}
				synctest.Wait() // let grpc-go's WINDOW_UPDATEs arrive, then try once more
				waited = true
				i--
				continue
			}
			waited = false
			e.peer.WriteData(s.id, nil, false, op.P)
			e.class("padding_only_frames")
			s.padOnly += cost
		}
		if s.padOnly >= int64(e.led.OutIWS())/4 {
			e.class("padding_only_quarter_window")
		}
	case opOverrun:
		s := e.pick(op.S)
		if s == nil || s.id == 0 || s.eosSent || s.overrun {
			return
		}
		w := e.led.OutStreamWindow(s.id)
		n := w + int64(op.N)
		if n < 1 || n > 16384 || n > e.led.OutConnWindow() {
			return // only stream-level overruns that fit one frame and the connection window
		}
		s.overrun = true
		e.class("nonconforming_overrun")
		junk := make([]byte, n)
		e.peer.WriteData(s.id, junk, false, -1)
	}
}

func (e *exec) ackPings() {
	e.pmu.Lock()
	ps := e.pings
	e.pings = nil
	e.pmu.Unlock()
	for _, d := range ps {
		e.peer.WritePing(true, d)
		e.acksSent++
	}
}

// pump lets the conforming sender write everything the windows allow
// (round robin, one frame per stream per round). It reports progress.
func (e *exec) pump() bool {
	progress := false
	for round := 0; round < 100000; round++ {
		any := false
		for _, s := range e.streams {
			if s.id == 0 || s.overrun || s.eosSent {
				continue
			}
			if len(s.queue) == 0 {
				if s.eos {
					if e.plan.Role == "client" {
						e.peer.WriteHeaders(h2peer.Headers{StreamID: s.id, Fields: h2peer.Trailers(0, ""), EndStream: true})
					} else {
						e.peer.WriteData(s.id, nil, true, -1)
					}
					s.eosSent = true
					any = true
				}
				continue
			}
			seg := &s.queue[0]
			over := 0
			if seg.pad >= 0 {
				over = 1 + seg.pad
			}
			avail := min(e.led.OutStreamWindow(s.id), e.led.OutConnWindow())
			if len(seg.data) > 0 && avail < int64(over+1) {
				continue // blocked by flow control
			}
			n := min(len(seg.data), seg.chunk, 16384-over)
			if int64(n+over) > avail {
				n = int(avail) - over
			}
			if len(seg.data) == 0 {
				n = 0
			}
			if n > 0 || len(seg.data) == 0 {
				if n > 0 {
					e.peer.WriteData(s.id, seg.data[:n], false, seg.pad)
					if seg.pad >= 0 {
						e.class("padded_frames")
					}
					s.sent = append(s.sent, seg.data[:n]...)
					seg.data = seg.data[n:]
				}
				if len(seg.data) == 0 {
					s.queue = s.queue[1:]
				}
				any = true
			}
		}
		if !any {
			break
		}
		progress = true
	}
	return progress
}

// settle alternates pumping and quiescence until nothing moves.
func (e *exec) settle() {
	for i := 0; i < 10000; i++ {
		synctest.Wait()
		if !e.pump() {
			return
		}
	}
}

// check is evaluated at quiescence after the sender has sent all it may.
func (e *exec) check(where string) {
	if iws := e.led.OutIWS(); iws > e.maxOutWS {
		e.maxOutWS = iws
	}
	connW := e.led.OutConnWindow()
	if connW <= 0 && !e.anyOverrun() {
		e.badf("%s: the connection window grpc-go advertises is %d at quiescence (connection-level flow control must not depend on application reads)", where, connW)
	}
	L := e.led.OutIWS()
	for _, s := range e.streams {
		if s.id == 0 || s.overrun {
			continue
		}
		s.mu.Lock()
		inCall, goal, got, rerr := s.inCall, s.goal, len(s.got), s.readErr
		gotBytes := s.got
		s.mu.Unlock()
		// content: what the application obtained is a prefix of what the peer sent
		if got > len(s.sent) || string(gotBytes) != string(s.sent[:got]) {
			e.badf("%s: stream %d: the application read %d bytes that are not a prefix of the %d bytes sent", where, s.id, got, len(s.sent))
		}
		if rerr != nil && !(s.eosSent && got == len(s.sent)) {
			e.badf("%s: stream %d: application read failed with %v after %d of %d sent bytes (eos sent=%v)", where, s.id, rerr, got, len(s.sent), s.eosSent)
		}
		// exact accounting: every flow-controlled byte the peer sent is either still unread by the
		// application or has been given back, except for the batched remainder (< limit/4) grpc-go
		// holds in pendingUpdate. So at quiescence window + unread payload >= limit - limit/4.
		if rerr == nil && !s.eosSent {
			w := e.led.OutStreamWindow(s.id)
			unread := int64(len(s.sent) - got)
			if w+unread < L-L/4 {
				e.badf("%s: stream %d: window leak: the stream window the peer sees is %d with %d delivered bytes still unread by the application; %d + %d < limit - limit/4 = %d (limit %d; %d bytes of padding-only frames sent so far)", where, s.id, w, unread, w, unread, L-L/4, L, s.padOnly)
			}
			e.class("accounting_checked")
		}
		if !inCall || rerr != nil || s.eosSent {
			continue
		}
		// The application is blocked in a read that needs goal-len(sent) more bytes from the peer.
		need := int64(goal - len(s.sent))
		if need <= 0 {
			continue
		}
		w := e.led.OutStreamWindow(s.id)
		floor := L - L/4
		if need < floor {
			floor = need
		}
		e.class("reader_blocked_waiting_for_peer")
		if int64(goal-got) > L {
			e.class("blocked_read_larger_than_window")
		}
		if w <= 0 || w < floor {
			e.badf("%s: stream %d: the application is blocked reading (needs %d more bytes from the peer) but the stream window the peer sees is %d (< min(needed, limit-limit/4) = %d, limit %d; connection window %d)", where, s.id, need, w, floor, L, connW)
		}
	}
}

func (e *exec) anyOverrun() bool {
	for _, s := range e.streams {
		if s.overrun {
			return true
		}
	}
	return false
}

type outcome struct {
	bad      []string
	led      []string
	classes  map[string]bool
	setupErr error
	stats    h2peer.Stats

	acks           int  // PING acks the peer sent
	iwsLowered     bool // grpc-go sent a SETTINGS_INITIAL_WINDOW_SIZE lower than its previous one
	closedNoGoAway bool // grpc-go closed the connection without sending GOAWAY (its writer died)
}

func runPlan(t *testing.T, p Plan) (out outcome) {
	out.classes = map[string]bool{}
	msg := vk.Bubble(t, func(t *testing.T) {
		e := &exec{plan: p, byPath: map[string]*stream{}, classes: out.classes}
		cfg := h2peer.Config{ManualPingAck: true}
		cfg.OnFrame = func(f *h2peer.Frame) {
			if f.Type == http2.FramePing && !f.IsAck() {
				e.pmu.Lock()
				e.pingsIn++
				e.pings = append(e.pings, f.PingData)
				e.pmu.Unlock()
				if !p.ManualAck {
					e.ackPings()
				}
			}
		}
		var err error
		if p.Role == "client" {
			e.crig, err = h2grpc.NewClient(cfg, transport.ConnectOptions{InitialWindowSize: p.StreamWin, InitialConnWindowSize: p.ConnWin, StaticWindowSize: p.Static})
			if err == nil {
				e.peer = e.crig.Peer
			}
		} else {
			e.srig, err = h2grpc.NewServer(cfg, &transport.ServerConfig{InitialWindowSize: p.StreamWin, InitialConnWindowSize: p.ConnWin, StaticWindowSize: p.Static},
				func(ss *transport.ServerStream) {
					e.mu.Lock()
					s := e.byPath[ss.Method()]
					e.mu.Unlock()
					if s != nil {
						s.ready <- ss
					}
				})
			if err == nil {
				e.peer = e.srig.Peer
			}
		}
		if err != nil {
			out.setupErr = err
			return
		}
		e.led = e.peer.Ledger()
		synctest.Wait()
		e.initIWS = e.led.OutIWS()
		e.maxOutWS = e.initIWS
		for i, op := range p.Ops {
			e.doOp(op)
			if op.NoWait {
				e.pump()
				continue
			}
			e.settle()
			e.check(fmt.Sprintf("after op %d (%s)", i, op.K))
		}
		e.settle()
		e.check("after the last op")
		// Final phase: the applications read everything; a conforming greedy sender must complete.
		for _, s := range e.streams {
			s.steps <- readStep{n: -1}
		}
		for i := 0; i < 8; i++ {
			e.ackPings()
			e.settle()
			time.Sleep(time.Millisecond)
		}
		e.check("after the final reads")
		// A server transport whose writer died closes the connection after 1 s.
		time.Sleep(2 * time.Second)
		synctest.Wait()
		for _, s := range e.streams {
			if s.id == 0 || s.overrun {
				continue
			}
			s.mu.Lock()
			got, rerr := len(s.got), s.readErr
			s.mu.Unlock()
			pending := 0
			for _, seg := range s.queue {
				pending += len(seg.data)
			}
			if pending > 0 || got != len(s.sent) {
				e.badf("transfer did not complete on stream %d although the application reads everything: %d bytes still queued at the peer, %d of %d sent bytes read (stream window %d, connection window %d, read error %v)",
					s.id, pending, got, len(s.sent), e.led.OutStreamWindow(s.id), e.led.OutConnWindow(), rerr)
			} else if len(s.sent) > 0 {
				e.class("transfer_complete")
			}
		}
		// (i) a conforming sender is never reset / disconnected.
		for _, f := range e.led.FramesOf(h2peer.In, 0, true) {
			switch f.Type {
			case http2.FrameRSTStream:
				st, _ := e.led.Stream(f.StreamID)
				var hs *stream
				for _, s := range e.streams {
					if s.id == f.StreamID {
						hs = s
					}
				}
				if hs != nil && hs.overrun {
					if f.ErrCode == http2.ErrCodeFlowControl {
						e.class("overrun_rejected")
					}
					continue
				}
				if f.ErrCode == http2.ErrCodeFlowControl {
					e.badf("grpc-go reset stream %d with FLOW_CONTROL_ERROR although the peer stayed within the advertised windows (%s)", f.StreamID, f)
				} else if !(st.OutEnd && st.OutEndSeq < f.Seq) {
					e.badf("grpc-go reset stream %d unexpectedly (%s)", f.StreamID, f)
				}
			case http2.FrameGoAway:
				e.badf("grpc-go sent GOAWAY to a conforming peer (%s)", f)
			}
		}
		select {
		case <-e.peer.Done():
			e.badf("grpc-go closed the connection of a conforming peer (peer read error: %v)", e.peer.ReadErr())
		default:
		}
		if e.maxOutWS > e.initIWS {
			e.class("bdp_window_growth")
		}
		if e.led.OutIWS() < e.maxOutWS || e.led.OutIWS() < e.initIWS {
			e.class("advertised_initial_window_lowered")
		}
		if e.pingsIn > 0 {
			e.class("bdp_ping_seen")
		}
		for _, f := range e.led.FramesOf(h2peer.In, 0, true) {
			if f.Type == http2.FrameWindowUpdate && f.StreamID != 0 && int64(f.Increment) > e.initIWS/2 {
				e.class("large_stream_window_update") // maybeAdjust / delta path
				break
			}
		}
		out.stats = e.led.Stats()
		out.acks = e.acksSent
		{
			// evidence for the known shape "BDP estimate below a configured window"
			prev := int64(-1)
			goAway := false
			for _, f := range e.led.FramesOf(h2peer.In, 0, true) {
				if f.Type == http2.FrameGoAway {
					goAway = true
				}
				if f.Type == http2.FrameSettings && !f.IsAck() {
					for _, st := range f.Settings {
						if st.ID == http2.SettingInitialWindowSize {
							if prev >= 0 && int64(st.Val) < prev {
								out.iwsLowered = true
							}
							prev = int64(st.Val)
						}
					}
				}
			}
			select {
			case <-e.peer.Done():
				out.closedNoGoAway = !goAway
			default:
			}
		}
		if os.Getenv("VERIF_DEBUG") != "" {
			for _, f := range e.led.Frames() {
				if f.Type != http2.FrameData || os.Getenv("VERIF_DEBUG") == "2" {
					fmt.Println(f)
				}
			}
			fmt.Println("violations:", e.bad)
		}
		// Tear down.
		for _, s := range e.streams {
			close(s.abort)
			close(s.steps)
		}
		if e.crig != nil {
			e.crig.Close()
		} else {
			e.srig.Close()
		}
		for _, s := range e.streams {
			<-s.done
		}
		out.bad = e.bad
		out.led = e.led.Violations("window.overflow.", "frame.invalid", "frame.size.")
	})
	if msg != "" {
		panic("VERIF-HARNESS: " + msg)
	}
	return out
}

const rule = "plans of <=32/120 ops over <=3/8 streams: the peer queues gRPC messages (0 B .. 3x the stream window, capped at 256 KiB/2 MiB; sizes around the window +-3) with DATA chunk sizes 1..16384 and padding {none,0,1,7,100,255}, bursts of 1..300 padding-only DATA frames (no payload, pad 0..255), " +
	"the application reads in plan-controlled steps (whole messages like grpc, or chunks of 1..300000 bytes), END_STREAM, virtual sleeps 1us..1s and manual/immediate PING acks (drive the BDP estimator), 25% of the ops without waiting for quiescence; " +
	"configured stream/connection windows in {default, 64 KiB, 1 MiB, random, ~2^31-1}, BDP estimation on (2/3) or off; rare non-conforming overrun ops (own class, no oracle on that stream). " +
	"non-trivial = a message larger than the stream window was queued and the application was observed blocked in a read waiting for the peer (i.e. it was read in several frames), or padded frames were used while a reader was blocked"

func run(t *testing.T, p Plan) vk.Result {
	out := runPlan(t, p)
	if out.setupErr != nil {
		return vk.Result{Discard: true}
	}
	var cl []string
	for _, c := range []string{"message_larger_than_window", "padded_frames", "padding_only_frames", "padding_only_quarter_window", "reader_blocked_waiting_for_peer", "blocked_read_larger_than_window", "bdp_window_growth", "bdp_ping_seen",
		"advertised_initial_window_lowered", "large_stream_window_update", "transfer_complete", "nonconforming_overrun", "overrun_rejected"} {
		if out.classes[c] {
			cl = append(cl, c)
		}
	}
	if p.Static {
		cl = append(cl, "static_windows")
	} else if p.StreamWin > 65535 || p.ConnWin > 65535 {
		cl = append(cl, "bdp_with_configured_windows")
	}
	v := append(out.led, out.bad...)
	if len(v) > 0 {
		r := vk.Bad("%d violation(s), first: %s", len(v), strings.Join(v[:min(3, len(v))], " || ")).With(cl...)
		r.Sig = signature(p, out)
		return r
	}
	nt := out.classes["reader_blocked_waiting_for_peer"] && (out.classes["message_larger_than_window"] || out.classes["padded_frames"])
	res := vk.OK(nt, cl...)
	res.Steps = len(p.Ops)
	return res
}

// sigBDPShrink marks the known finding "the BDP estimator applies an estimate
// that is smaller than a configured initial window": trInFlow.newLimit
// underflows (the resulting WINDOW_UPDATE is illegal, the writer dies and
// the connection is closed) and inFlow.newLimit / SETTINGS lower the stream
// window, which can wedge or reset a conforming sender. Only cases that carry
// the trigger and its evidence on the wire get the signature.
const sigBDPShrink = "c04.bdp_estimate_below_configured_window"

func comboBDPConfigured(p Plan) bool {
	return !p.Static && (p.StreamWin > 65535 || p.ConnWin > 65535)
}

func signature(p Plan, out outcome) string {
	if !comboBDPConfigured(p) || out.acks == 0 {
		return ""
	}
	if (p.ConnWin > 65535 && out.closedNoGoAway) || (p.StreamWin > 65535 && out.iwsLowered) {
		return sigBDPShrink
	}
	return ""
}

func TestVerifC04Client(t *testing.T) {
	vk.Check(t, vk.Unit[Plan]{ID: "C04", Name: "client", Rule: "grpc-go http2Client receives from an h2peer server. " + rule, Gen: genPlan("client"), Run: run})
}

func TestVerifC04Server(t *testing.T) {
	vk.Check(t, vk.Unit[Plan]{ID: "C04", Name: "server", Rule: "grpc-go http2Server receives from an h2peer client. " + rule, Gen: genPlan("server"), Run: run})
}
