package c26_test

// C26: requests are dispatched only to the registered method.
//
// Unit "dispatch": real client (cc.Invoke with an arbitrary method string) +
// real server with a generated registry, in a bubble.
// Unit "rawpath": the same oracle with a scripted raw HTTP/2 client, which can
// also omit :path altogether.
//
// Reference (from the statement): a path is well-formed iff it is
// "/" + service + "/" + method with a slash-free method, i.e. it starts with
// '/' and contains a second '/'; service = text between the first character
// and the last '/', method = text after the last '/'.

import (
	"bytes"
	"context"
	"fmt"
	"strings"
	"sync"
	"testing"
	"time"

	"golang.org/x/net/http2"
	"google.golang.org/grpc"
	"google.golang.org/grpc/codes"
	"google.golang.org/grpc/internal/verifkit/e2e"
	"google.golang.org/grpc/internal/verifkit/vk"
	"google.golang.org/grpc/status"
	"pgregory.net/rapid"
)

type method struct {
	Name   []byte `json:"name"`
	Stream bool   `json:"stream"` // registered as a StreamDesc instead of a MethodDesc
}

type service struct {
	Name    []byte   `json:"name"`
	Methods []method `json:"methods"`
}

type plan struct {
	Services []service `json:"services"`
	Unknown  bool      `json:"unknown"` // install grpc.UnknownServiceHandler
	Paths    [][]byte  `json:"paths"`
	// NoPath (rawpath unit only): indexes into Paths that are sent without any :path field.
	NoPath []int `json:"no_path,omitempty"`
}

// ---------------------------------------------------------------- reference

type target struct {
	kind    string // "handler", "unknown", "unimplemented", "malformed"
	svc, mt int
}

func reference(p plan, path []byte) target {
	if len(path) == 0 || path[0] != '/' {
		return target{kind: "malformed"}
	}
	rest := path[1:]
	pos := bytes.LastIndexByte(rest, '/')
	if pos < 0 {
		return target{kind: "malformed"}
	}
	svc, mt := rest[:pos], rest[pos+1:]
	for i, s := range p.Services {
		if !bytes.Equal(s.Name, svc) {
			continue
		}
		for j, m := range s.Methods {
			if bytes.Equal(m.Name, mt) {
				return target{kind: "handler", svc: i, mt: j}
			}
		}
	}
	if p.Unknown {
		return target{kind: "unknown"}
	}
	return target{kind: "unimplemented"}
}

func ident(i, j int) []byte { return []byte(fmt.Sprintf("handler:%d:%d", i, j)) }

// ---------------------------------------------------------------- generator

var svcNames = []string{"a", "a.b", "a/b", "a/b/c", "", "/", "a/", "/a", "svc", "pkg.Svc", "b", "a/b.c", "s\xc3\xa9", "A", "a//b", "x/y"}
var mtNames = []string{"M", "m", "", "b", "c", "Get", "a", "M2", "\xc3\xa9", "y", "x", "b.c"}

func genName(rt *rapid.T, pool []string, allowSlash bool, label string) []byte {
	if rapid.IntRange(0, 4).Draw(rt, label+"_kind") > 0 {
		return []byte(rapid.SampledFrom(pool).Draw(rt, label))
	}
	alpha := []byte("ab/.A\xc3\xa9 %")
	n := rapid.IntRange(0, 6).Draw(rt, label+"_n")
	b := make([]byte, 0, n)
	for i := 0; i < n; i++ {
		c := rapid.SampledFrom(alpha).Draw(rt, label+"_c")
		if c == '/' && !allowSlash {
			c = '_'
		}
		b = append(b, c)
	}
	return b
}

func genRegistry(rt *rapid.T) []service {
	n := rapid.IntRange(0, 5).Draw(rt, "nsvc")
	var out []service
	for i := 0; i < n; i++ {
		name := genName(rt, svcNames, true, "svc")
		dup := false
		for _, s := range out {
			if bytes.Equal(s.Name, name) {
				dup = true
			}
		}
		if dup {
			continue // RegisterService rejects duplicates (fatal): precondition
		}
		s := service{Name: name}
		nm := rapid.IntRange(0, 4).Draw(rt, "nmt")
		for j := 0; j < nm; j++ {
			mn := genName(rt, mtNames, false, "mt") // method names are slash-free (else the path is ambiguous)
			dupm := false
			for _, m := range s.Methods {
				if bytes.Equal(m.Name, mn) {
					dupm = true
				}
			}
			if dupm {
				continue
			}
			s.Methods = append(s.Methods, method{Name: mn, Stream: rapid.Bool().Draw(rt, "stream")})
		}
		out = append(out, s)
	}
	return out
}

func join(svc, mt []byte) []byte {
	return append(append(append([]byte{'/'}, svc...), '/'), mt...)
}

func genPath(rt *rapid.T, reg []service) []byte {
	type sm struct{ s, m []byte }
	var regd []sm
	for _, s := range reg {
		for _, m := range s.Methods {
			regd = append(regd, sm{s.Name, m.Name})
		}
	}
	kind := rapid.IntRange(0, 9).Draw(rt, "path_kind")
	if len(regd) == 0 && kind <= 5 {
		kind = 6
	}
	switch kind {
	case 0, 1: // exact registered
		x := rapid.SampledFrom(regd).Draw(rt, "reg")
		return join(x.s, x.m)
	case 2, 3, 4, 5: // near miss of a registered path
		x := rapid.SampledFrom(regd).Draw(rt, "reg")
		p := join(x.s, x.m)
		switch rapid.IntRange(0, 13).Draw(rt, "mut") {
		case 0:
			return p[1:] // no leading slash
		case 1:
			return append(p, '/') // trailing slash
		case 2:
			return append([]byte{'/'}, p...) // double leading slash
		case 3: // doubled separator
			return append(append(append([]byte{'/'}, x.s...), '/', '/'), x.m...)
		case 4: // case flip of one letter
			q := append([]byte{}, p...)
			for i := len(q) - 1; i >= 0; i-- {
				if q[i] >= 'a' && q[i] <= 'z' {
					q[i] -= 32
					return q
				} else if q[i] >= 'A' && q[i] <= 'Z' {
					q[i] += 32
					return q
				}
			}
			return append(q, 'x')
		case 5:
			return append(p, 'x')
		case 6:
			if len(p) > 1 {
				return p[:len(p)-1]
			}
			return p
		case 7: // separator replaced
			return append(append(append([]byte{'/'}, x.s...), rapid.SampledFrom([]byte(".:\\ ")).Draw(rt, "sep")), x.m...)
		case 8: // swapped
			return join(x.m, x.s)
		case 9: // method of another service
			y := rapid.SampledFrom(regd).Draw(rt, "reg2")
			return join(x.s, y.m)
		case 10: // service only
			return append([]byte{'/'}, x.s...)
		case 11: // extra component in front
			return append([]byte("/x"), p...)
		case 12: // percent-encoded separator
			return append(append(append([]byte{'/'}, x.s...), "%2F"...), x.m...)
		default: // space padded
			return append(append([]byte{' '}, p...), ' ')
		}
	case 6, 7: // token soup
		toks := [][]byte{[]byte("/"), []byte("/"), []byte("//"), {}, []byte("x"), []byte("."), []byte("\xc3\xa9"), []byte("%2F"), []byte(" "), []byte("?q"), []byte("#f"), []byte("\xff"), []byte("*")}
		for _, s := range reg {
			toks = append(toks, s.Name)
			for _, m := range s.Methods {
				toks = append(toks, m.Name)
			}
		}
		n := rapid.IntRange(0, 7).Draw(rt, "ntok")
		var b []byte
		for i := 0; i < n; i++ {
			b = append(b, rapid.SampledFrom(toks).Draw(rt, "tok")...)
		}
		return b
	case 8: // no slash at all / specials
		return []byte(rapid.SampledFrom([]string{"", "/", "//", "///", "a", "svc.M", "*", "/a", "a/", "a/b", "/ /", "/\xc3\xa9/\xc3\xa9"}).Draw(rt, "special"))
	default: // very long
		n := rapid.IntRange(200, 3000).Draw(rt, "len")
		unit := rapid.SampledFrom([]string{"a", "/", "a/", "/a", "\xc3\xa9"}).Draw(rt, "unit")
		b := []byte("/" + strings.Repeat(unit, n/len(unit)))
		if len(regd) > 0 && rapid.Bool().Draw(rt, "tail") {
			x := rapid.SampledFrom(regd).Draw(rt, "reg")
			b = append(b, join(x.s, x.m)...)
		}
		return b
	}
}

func genPlan(rt *rapid.T) plan {
	p := plan{Services: genRegistry(rt), Unknown: rapid.IntRange(0, 2).Draw(rt, "unknown") == 0}
	n := rapid.IntRange(4, 10).Draw(rt, "npaths")
	for i := 0; i < n; i++ {
		p.Paths = append(p.Paths, genPath(rt, p.Services))
	}
	return p
}

// ---------------------------------------------------------------- executor

type hit struct {
	who  string // ident or "unknown"
	path string // grpc.Method(ctx) seen by the handler
}

type world struct {
	mu   sync.Mutex
	hits []hit
}

func (w *world) record(ctx context.Context, who []byte) {
	m, _ := grpc.Method(ctx)
	w.mu.Lock()
	w.hits = append(w.hits, hit{string(who), m})
	w.mu.Unlock()
}

func (w *world) take() []hit {
	w.mu.Lock()
	defer w.mu.Unlock()
	h := w.hits
	w.hits = nil
	return h
}

func startServer(p plan, w *world, noClient bool) (*e2e.Pair, error) {
	opts := e2e.Options{NoDefaultService: true, NoClient: noClient}
	if p.Unknown {
		opts.ServerOpts = append(opts.ServerOpts, grpc.UnknownServiceHandler(func(_ any, st grpc.ServerStream) error {
			w.record(st.Context(), []byte("unknown"))
			if _, err := e2e.RecvBytes(st); err != nil {
				return err
			}
			return e2e.SendBytes(st, []byte("unknown"))
		}))
	}
	opts.Register = func(srv *grpc.Server) {
		for i, s := range p.Services {
			un := map[string]e2e.UnaryFunc{}
			st := map[string]e2e.StreamSpec{}
			for j, m := range s.Methods {
				id := ident(i, j)
				if m.Stream {
					st[string(m.Name)] = e2e.StreamSpec{ClientStreams: true, ServerStreams: true, Handler: func(ss grpc.ServerStream) error {
						w.record(ss.Context(), id)
						if _, err := e2e.RecvBytes(ss); err != nil {
							return err
						}
						return e2e.SendBytes(ss, id)
					}}
				} else {
					un[string(m.Name)] = func(ctx context.Context, _ []byte) ([]byte, error) {
						w.record(ctx, id)
						return id, nil
					}
				}
			}
			srv.RegisterService(e2e.Service(string(s.Name), un, st), nil)
		}
	}
	return e2e.Start(opts)
}

// judge compares one call's outcome with the reference.
func judge(p plan, path []byte, noPath bool, resp []byte, code codes.Code, failed bool, hits []hit) (string, []string) {
	eff := path
	if noPath {
		eff = nil
	}
	want := reference(p, eff)
	classes := []string{"want_" + want.kind}
	show := fmt.Sprintf("path %q", path)
	if noPath {
		show = "request without :path"
	}
	switch want.kind {
	case "handler":
		id := string(ident(want.svc, want.mt))
		if len(hits) != 1 || hits[0].who != id {
			return fmt.Sprintf("%s names service %q method %q (%s) but handlers that ran = %+v", show, p.Services[want.svc].Name, p.Services[want.svc].Methods[want.mt].Name, id, hits), classes
		}
		if failed || string(resp) != id {
			return fmt.Sprintf("%s: handler %s ran but the client got resp=%q code=%v", show, id, resp, code), classes
		}
		if hits[0].path != string(path) {
			return fmt.Sprintf("%s: handler saw method %q", show, hits[0].path), classes
		}
	case "unknown":
		if len(hits) != 1 || hits[0].who != "unknown" {
			return fmt.Sprintf("%s is well-formed but unregistered: want the unknown-service handler, handlers that ran = %+v (code %v)", show, hits, code), classes
		}
		if failed || string(resp) != "unknown" {
			return fmt.Sprintf("%s: unknown-service handler ran but the client got resp=%q code=%v", show, resp, code), classes
		}
	case "unimplemented":
		if len(hits) != 0 {
			return fmt.Sprintf("%s is unregistered but handlers ran: %+v", show, hits), classes
		}
		if !failed || code != codes.Unimplemented {
			return fmt.Sprintf("%s is well-formed and unregistered: got code %v (failed=%v), want Unimplemented", show, code, failed), classes
		}
	case "malformed":
		if len(hits) != 0 {
			return fmt.Sprintf("%s is malformed but reached handlers %+v", show, hits), classes
		}
		if !failed {
			return fmt.Sprintf("%s is malformed but the RPC succeeded with %q", show, resp), classes
		}
		classes = append(classes, "malformed_code_"+code.String())
	}
	return "", classes
}

func pathNonTrivial(p plan, path []byte) bool {
	if bytes.Count(path, []byte("/")) >= 3 {
		return true
	}
	if len(path) > 0 && path[0] == '/' {
		rest := path[1:]
		if pos := bytes.LastIndexByte(rest, '/'); pos >= 0 && (pos == 0 || pos == len(rest)-1) {
			return true // empty component
		}
	}
	// near miss: differs from a registered full path by an edit of <= 2 bytes in length and shares a long prefix or suffix
	for _, s := range p.Services {
		for _, m := range s.Methods {
			full := join(s.Name, m.Name)
			if bytes.Equal(full, path) {
				continue
			}
			d := len(full) - len(path)
			if d < -3 || d > 3 {
				continue
			}
			if bytes.Contains(path, full[1:]) || bytes.Contains(full, path) || bytes.EqualFold(full, path) ||
				(len(path) > 2 && (bytes.HasPrefix(full, path[:len(path)-1]) || bytes.HasSuffix(full, path[1:]))) {
				return true
			}
		}
	}
	return false
}

func run(t *testing.T, p plan) vk.Result {
	var res vk.Result
	msg := vk.Bubble(t, func(t *testing.T) { res = runInBubble(p) })
	if msg != "" && res.Violation == "" {
		return vk.Bad("harness/bubble: %s", msg).With(res.Classes...)
	}
	return res
}

func runInBubble(p plan) vk.Result {
	w := &world{}
	pair, err := startServer(p, w, false)
	if err != nil {
		return vk.Bad("harness: start: %v", err)
	}
	defer pair.Close()
	out := vk.Result{}
	nt := 0
	for _, path := range p.Paths {
		out.Steps++
		ctx, cancel := context.WithTimeout(context.Background(), 30*time.Second)
		resp, err := pair.Unary(ctx, string(path), []byte("q"))
		cancel()
		hits := w.take()
		v, cls := judge(p, path, false, resp, status.Code(err), err != nil, hits)
		out.Classes = append(out.Classes, cls...)
		if pathNonTrivial(p, path) {
			nt++
			out.Classes = append(out.Classes, "path_nontrivial")
		}
		if v != "" && out.Violation == "" {
			out.Violation = v + fmt.Sprintf(" (client err: %v)", err)
		}
	}
	out.NonTrivial = nt*2 >= len(p.Paths)
	return out
}

func TestVerifC26(t *testing.T) {
	vk.Check(t, vk.Unit[plan]{
		ID: "C26", Name: "dispatch",
		Rule: "registry of 0-5 services (names incl. '/', '.', empty, non-ASCII) with 0-4 slash-free methods each (unary or streaming), unknown-service handler installed in 1/3; 4-10 paths per registry via cc.Invoke: exact registered, 14 near-miss mutations of a registered path (no leading slash, trailing/double slash, case flip, replaced separator, swapped, other service's method, %2F...), token soup over '/', registered names and specials, no-slash strings, very long paths. non-trivial = at least half of the paths have >= 3 slashes, an empty component, or are a near miss of a registered path",
		Gen:  genPlan, Run: run,
	})
}

// ---------------------------------------------------------------- raw client unit

func genRawPlan(rt *rapid.T) plan {
	p := genPlan(rt)
	for i := range p.Paths {
		if rapid.IntRange(0, 7).Draw(rt, "nopath") == 0 {
			p.NoPath = append(p.NoPath, i)
		}
	}
	return p
}

func runRaw(t *testing.T, p plan) vk.Result {
	var res vk.Result
	msg := vk.Bubble(t, func(t *testing.T) { res = runRawInBubble(p) })
	if msg != "" && res.Violation == "" {
		return vk.Bad("harness/bubble: %s", msg).With(res.Classes...)
	}
	return res
}

func runRawInBubble(p plan) vk.Result {
	w := &world{}
	pair, err := startServer(p, w, true)
	if err != nil {
		return vk.Bad("harness: start: %v", err)
	}
	defer pair.Close()
	rc, err := pair.DialRaw()
	if err != nil {
		return vk.Bad("harness: dial: %v", err)
	}
	defer rc.Conn.Close()
	_ = rc.Conn.SetDeadline(time.Now().Add(120 * time.Second))
	out := vk.Result{}
	nt := 0
	for i, path := range p.Paths {
		out.Steps++
		noPath := false
		for _, k := range p.NoPath {
			if k == i {
				noPath = true
			}
		}
		var fields []e2e.HeaderField
		for _, f := range e2e.GRPCRequestHeaders(string(path)) {
			if noPath && f.Name == ":path" {
				continue
			}
			fields = append(fields, f)
		}
		id, err := rc.StartStream(fields, false)
		if err == nil {
			err = rc.WriteMessage(id, 0, []byte("q"), true)
		}
		if err != nil {
			return vk.Bad("harness: raw write: %v", err)
		}
		frames, err := rc.ReadUntilEnd(id)
		if err != nil || len(frames) == 0 {
			return vk.Bad("path %q: connection failed: %v", path, err).With(out.Classes...)
		}
		last := frames[len(frames)-1]
		var code codes.Code = codes.Unknown
		failed := true
		if last.Type == http2.FrameHeaders {
			if gs := last.Get("grpc-status"); len(gs) == 1 {
				var n int
				if _, err := fmt.Sscanf(gs[0], "%d", &n); err == nil {
					code = codes.Code(n)
					failed = n != 0
				}
			}
		} else if last.Type == http2.FrameRSTStream {
			out.Classes = append(out.Classes, "rst")
		}
		msgs, _ := e2e.MessagesOf(frames, id)
		var resp []byte
		if len(msgs) == 1 {
			resp = msgs[0].Payload
		}
		hits := w.take()
		v, cls := judge(p, path, noPath, resp, code, failed, hits)
		out.Classes = append(out.Classes, cls...)
		if noPath {
			out.Classes = append(out.Classes, "no_path_field")
		}
		if noPath || pathNonTrivial(p, path) {
			nt++
		}
		if v != "" && out.Violation == "" {
			out.Violation = v
		}
	}
	out.NonTrivial = nt*2 >= len(p.Paths)
	return out
}

func TestVerifC26Raw(t *testing.T) {
	vk.Check(t, vk.Unit[plan]{
		ID: "C26", Name: "rawpath",
		Rule: "same registries and path grammar as unit dispatch, sent by a scripted raw HTTP/2 client (own framer + hpack encoder) to the real server; 1/8 of the requests carry no :path field at all. non-trivial as in unit dispatch (a request without :path counts)",
		Gen:  genRawPlan, Run: runRaw,
	})
}
