package c23_test

// C23: every pick's Done callback runs exactly once; queued picks are woken by
// picker updates and by context cancellation.
//
// The plan (e2elife.PickPlan) scripts, per RPC, the answers its Pick calls get
// from a custom LB policy (plain error, ErrNoSubConnAvailable, status error,
// a SubConn that never becomes READY, a READY SubConn; with or without a Done
// callback), and drives server behaviour (handlers finished with OK /
// retryable UNAVAILABLE / other codes, with a retry policy), client
// cancellations, connection kills and backend outages, partly racing.

import (
	"fmt"
	"os"
	"sync/atomic"
	"testing"

	"google.golang.org/grpc/codes"
	"google.golang.org/grpc/internal/verifkit/e2elife"
	"google.golang.org/grpc/internal/verifkit/vk"
	"pgregory.net/rapid"
)

func oracle(r *e2elife.PickRig, final bool) string {
	handlers := map[int]*e2elife.HCall{} // by pick seq
	r.Handlers.Lock()
	for _, h := range r.Handlers.Calls {
		handlers[e2elife.HandlerPickSeq(h)] = h
	}
	r.Handlers.Unlock()
	curGen := r.Ctl.Gen()
	r.Lock()
	defer r.Unlock()
	for _, rec := range r.RPCs {
		if rec.C24 != "" {
			return fmt.Sprintf("rpc %s: C24 harvest: %s", rec.ID, rec.C24)
		}
		if final && !rec.Finished {
			return fmt.Sprintf("rpc %s has not terminated after cancellation of every call", rec.ID)
		}
		for i, p := range rec.Picks {
			if p.Done == nil {
				continue
			}
			last := i == len(rec.Picks)-1
			if p.Done.Calls > 1 {
				return fmt.Sprintf("rpc %s: Done of pick #%d invoked %d times", rec.ID, i, p.Done.Calls)
			}
			if p.Done.Calls == 0 && (rec.Finished || !last) {
				why := "the RPC has terminated"
				if !rec.Finished {
					why = "the RPC has already picked again"
				}
				return fmt.Sprintf("rpc %s: Done of pick #%d (%s, gen %d) was never invoked although %s", rec.ID, i, p.Res.Kind, p.Gen, why)
			}
			if p.Done.Calls == 1 {
				di := p.Done.Infos[0]
				if p.Res.Kind == "notready" && (di.BytesSent || di.BytesReceived || di.Err != nil) {
					return fmt.Sprintf("rpc %s: Done of pick #%d on a never-ready SubConn got non-zero DoneInfo %+v", rec.ID, i, di)
				}
				if h := handlers[p.Seq]; h != nil {
					if !di.BytesSent {
						return fmt.Sprintf("rpc %s: pick #%d reached a handler but its DoneInfo says BytesSent=false", rec.ID, i)
					}
					code, msg := e2elife.StatusOf(rec.Err)
					if last && rec.Finished && !rec.Cancelled && h.Exited && code == h.ExitCode && msg == h.ExitMsg && code != codes.OK && !di.BytesReceived {
						return fmt.Sprintf("rpc %s: client received the handler's status (%v) but DoneInfo says BytesReceived=false", rec.ID, code)
					}
				}
			}
		}
		// wake-ups
		if rec.QBlocked && !rec.QFinished {
			n := len(rec.Picks) - rec.QPicks
			if !rec.Cancelled && rec.QSure && r.PublishesSinceQ > 0 && curGen > 0 && n < 1 {
				return fmt.Sprintf("rpc %s was queued in pick; %d picker update(s) since, the latest being %s, but it has not been woken (no Pick call since; the picker would now answer %q)", rec.ID, r.PublishesSinceQ, r.DescribePub(curGen), r.NextAnswer(rec).Kind)
			}
			if rec.Cancelled && rec.Quiesced && !rec.Finished {
				return fmt.Sprintf("rpc %s was queued in pick and then cancelled, but has not terminated", rec.ID)
			}
			if rec.Cancelled && rec.Finished && !rec.CancelRacing && r.PublishesSinceQ == 0 {
				if code, _ := e2elife.StatusOf(rec.Err); code != codes.Canceled {
					return fmt.Sprintf("rpc %s was queued in pick and cancelled; it ended with %v, want CANCELLED", rec.ID, code)
				}
			}
		}
		if !rec.Finished && len(rec.Picks) > 0 {
			// every picker update re-evaluates every queued pick: the last Pick call
			// of a queued RPC was made at or after the latest publish, whatever state
			// that publish reported and whether or not its picker object was new
			if lp := rec.Picks[len(rec.Picks)-1]; lp.Blocking(rec.Plan.WaitForReady) && lp.Stable && lp.Gen != curGen {
				return fmt.Sprintf("rpc %s is queued on picker generation %d and was not woken by the picker update %s (that picker would answer %q)", rec.ID, lp.Gen, r.DescribePub(curGen), r.NextAnswer(rec).Kind)
			}
		}
	}
	return ""
}

func classify(r *e2elife.PickRig) (bool, []string) {
	cl := map[string]bool{}
	nt := false
	r.Lock()
	for _, rec := range r.RPCs {
		nd, blocked := 0, 0
		for _, p := range rec.Picks {
			if p.Done != nil {
				nd++
				if p.Done.Calls == 1 && p.AddrReady && !p.Done.Infos[0].BytesSent {
					cl["done_ready_pick_without_stream"] = true
				}
				if p.Res.Kind == "notready" || (p.Res.Kind == "ready" && !p.AddrReady) {
					cl["done_on_nonready_subconn"] = true
				}
			}
			if p.Blocking(rec.Plan.WaitForReady) {
				blocked++
			}
		}
		if nd >= 2 {
			nt = true
		}
		cl[fmt.Sprintf("done_picks_%d", min(nd, 4))] = true
		if blocked >= 1 && rec.Cancelled {
			cl["cancelled_rpc_with_blocked_pick"] = true
		}
		if blocked >= 2 {
			cl["woken_repeatedly"] = true
		}
		code, _ := e2elife.StatusOf(rec.Err)
		cl["final_"+code.String()] = true
	}
	r.Unlock()
	if r.Plan.Retry {
		cl["retry_policy"] = true
	}
	for _, c := range r.PublishClasses() {
		cl[c] = true
	}
	byID := map[string]int{}
	r.Handlers.Lock()
	for _, h := range r.Handlers.Calls {
		byID[h.ID]++
	}
	r.Handlers.Unlock()
	for _, n := range byID {
		if n >= 2 {
			cl["rpc_with_retried_attempt"] = true
		}
	}
	var out []string
	for c := range cl {
		out = append(out, c)
	}
	return nt, out
}

// Shares of the two "publish that does not look like news" classes, per
// process; checked after the run (see classFloors).
var nCases, nSameState, nSameObject atomic.Int64

// classFloors: the non-trivial rule asks for same_state_publish_with_queued_rpc
// in >= 20 % and same_picker_object_republished_with_queued_rpc in >= 10 % of
// the cases (measured over whole runs in notes). One shard is too
// small to test those shares exactly; a shard that stays below half of them
// means the generator is broken and makes the run INCONCLUSIVE.
func classFloors(t *testing.T) {
	n := nCases.Load()
	if os.Getenv("VERIF_REPLAY") != "" || n < 40 {
		return
	}
	if s := nSameState.Load(); 10*s < n {
		t.Errorf("VERIF-HARNESS generator health: same_state_publish_with_queued_rpc in %d of %d cases (< 10 %)", s, n)
	}
	if s := nSameObject.Load(); 20*s < n {
		t.Errorf("VERIF-HARNESS generator health: same_picker_object_republished_with_queued_rpc in %d of %d cases (< 5 %)", s, n)
	}
}

func run(t *testing.T, p e2elife.PickPlan) vk.Result {
	var res vk.Result
	msg := vk.Bubble(t, func(t *testing.T) {
		v, r, err := e2elife.Drive(p, oracle)
		if err != nil {
			res = vk.Result{Violation: "VERIF-HARNESS " + err.Error()}
			return
		}
		nt, cl := classify(r)
		nCases.Add(1)
		for _, c := range cl {
			switch c {
			case "same_state_publish_with_queued_rpc":
				nSameState.Add(1)
			case "same_picker_object_republished_with_queued_rpc":
				nSameObject.Add(1)
			}
		}
		res = vk.Result{NonTrivial: nt, Classes: cl, Steps: r.Steps}
		if v != "" {
			res.Violation = v
		}
	})
	if msg != "" && res.Violation == "" {
		return vk.Bad("bubble did not drain: %s", msg).With(res.Classes...)
	}
	return res
}

func TestVerifC23Done(t *testing.T) {
	vk.Check(t, vk.Unit[e2elife.PickPlan]{
		ID: "C23", Name: "done",
		Rule: "custom LB policy whose picker answers each RPC's Pick calls from a script over {plain error, ErrNoSubConnAvailable, status error, never-ready SubConn, READY SubConn} with/without Done; 1-2 backends, optional retry policy (3 attempts on UNAVAILABLE); ops = start RPC (unary/streaming, wait-for-ready or not), publish picker, finish handler (OK/UNAVAILABLE/other), cancel, backend down/up, connection kill; 20% of ops race with the next. publish = UpdateState(state, picker) where the state is a free choice among IDLE/CONNECTING/READY/TRANSIENT_FAILURE independent of the picker's answers (45% repeat the previous state, so runs of equal states; the channel itself starts CONNECTING) and 30% hand over the SAME stateful picker object as the previous publish (generation = publish, not object; a quiescence point precedes such a publish); 20% of the plans start RPCs before the first publish. non-trivial = an RPC with >= 2 picks that each returned a Done callback; in addition class same_state_publish_with_queued_rpc (a publish reporting the same state as the previous one re-evaluated an RPC queued by the previous generation and did not queue it again) must hold in >= 20% and same_picker_object_republished_with_queued_rpc (a publish of the same picker object re-evaluated a queued RPC) in >= 10% of the cases",
		Gen:  func(rt *rapid.T) e2elife.PickPlan { return e2elife.GenPickPlan(rt, "done", vk.Pick(14, 40)) },
		Run:  run,
	})
	classFloors(t)
}
