package c01_test

import (
	"strings"
	"testing"

	"google.golang.org/grpc/internal/verifkit/vk"
)

const c02Rule = "same plans as C01 (application writes on <=4/16 streams interleaved with peer WINDOW_UPDATE / SETTINGS_INITIAL_WINDOW_SIZE / RST_STREAM / trailers / half-close, client cancel, transport close; " +
	"a final drain phase grants ample credit). Oracle: per stream the DATA payload on the wire is a prefix of the concatenated 5-byte-prefixed messages whose Write returned nil (checked at every quiescent point), " +
	"equal to it once grpc-go's END_STREAM is seen and, for streams still open, after the drain; END_STREAM/trailers/RST placement from the ledger. " +
	"non-trivial = >=2 streams, some stream starved (window <= 0 with unsent accepted bytes) and an END_STREAM/trailers queued behind unsent data"

func c02Run(t *testing.T, p Plan) vk.Result {
	out := runPlan(t, p)
	if out.setupErr != nil {
		return vk.Result{Discard: true}
	}
	cl := classList(out.classes)
	if out.stats.InWUAfterClose > 0 {
		cl = append(cl, "wu_after_close")
	}
	if out.stats.InRSTAfterTrailers > 0 {
		cl = append(cl, "rst_no_error_after_trailers")
	}
	for _, c := range []string{"trailers_only", "cancel_mid_message", "close_mid_message", "peer_rst_mid_message", "write_after_last_issued", "write_after_last_accepted_by_transport"} {
		if out.classes[c] {
			cl = append(cl, c)
		}
	}
	if len(out.c2) > 0 {
		return vk.Bad("%d violation(s), first: %s", len(out.c2), strings.Join(out.c2[:min(3, len(out.c2))], " || ")).With(cl...)
	}
	starved := out.classes["stream_starved"] || out.classes["conn_starved"]
	nt := out.nStreams >= 2 && starved && out.classes["end_queued_behind_data"]
	res := vk.OK(nt, cl...)
	res.Steps = len(p.Ops)
	return res
}

func TestVerifC02Client(t *testing.T) {
	vk.Check(t, vk.Unit[Plan]{ID: "C02", Name: "client", Rule: "grpc-go http2Client vs h2peer server. " + c02Rule, Gen: genPlan("client"), Run: c02Run})
}

func TestVerifC02Server(t *testing.T) {
	vk.Check(t, vk.Unit[Plan]{ID: "C02", Name: "server", Rule: "grpc-go http2Server vs h2peer client. " + c02Rule, Gen: genPlan("server"), Run: c02Run})
}
