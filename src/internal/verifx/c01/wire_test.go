package c01_test

// Shared harness of C01 (outbound DATA never exceeds the peer's windows; frame
// sizes) and C02 (per-stream byte order, completeness, END_STREAM placement):
// a real grpc-go transport (http2Client or http2Server) writes application
// messages while a scripted h2peer on the other end of a vpipe starves and
// feeds it with WINDOW_UPDATE / SETTINGS / RST_STREAM / trailers. Everything
// runs in a synctest bubble; the oracle is the h2peer Ledger (independent
// x/net framer + window/stream accounting) plus the harness' own record of
// what the application wrote.

import (
	"context"
	"errors"
	"fmt"
	"strings"
	"sync"
	"testing"
	"testing/synctest"

	"golang.org/x/net/http2"
	"golang.org/x/net/http2/hpack"
	"google.golang.org/grpc/codes"
	"google.golang.org/grpc/internal/transport"
	"google.golang.org/grpc/internal/verifkit/h2peer"
	"google.golang.org/grpc/internal/verifkit/h2peer/h2grpc"
	"google.golang.org/grpc/internal/verifkit/vk"
	"google.golang.org/grpc/mem"
	"google.golang.org/grpc/metadata"
	"google.golang.org/grpc/status"
	"pgregory.net/rapid"
)

// Op kinds.
const (
	opOpen    = "open"     // open a stream (client: NewStream; server: the peer sends HEADERS). N = extra metadata bytes, Flag (server): HEADERS carry END_STREAM
	opWrite   = "write"    // application writes a message of N payload bytes on stream S (Parts buffers)
	opLast    = "last"     // client: write with Last=true (N payload bytes, N<0: empty frame as CloseSend does); server: WriteStatus (N = trailer metadata bytes, Flag: non-OK status)
	opHdr     = "hdr"      // server: SendHeader (N = metadata bytes)
	opWUS     = "wu_s"     // peer: WINDOW_UPDATE(stream S, N) (clamped so the window stays <= 2^31-1)
	opWUC     = "wu_c"     // peer: WINDOW_UPDATE(0, N) (clamped)
	opIWS     = "iws"      // peer: SETTINGS{INITIAL_WINDOW_SIZE=N} (clamped so no stream window exceeds 2^31-1)
	opPeerRST = "peer_rst" // peer: RST_STREAM(stream S, CANCEL)
	opPeerEnd = "peer_end" // client role: the peer (server) answers stream S with [headers+]trailers (Flag: trailers-only; N&1: followed by RST_STREAM(NO_ERROR) like a grpc-go server does). server role: the peer (client) half-closes S with an empty DATA+END_STREAM
	opCancel  = "cancel"   // client: application cancels stream S (ClientStream.Close(err) -> RST_STREAM(CANCEL))
	opClose   = "close"    // close the transport under test
)

// Op is one step of a plan.
type Op struct {
	K      string `json:"k"`
	S      int    `json:"s,omitempty"` // relative stream operand: index modulo the number of streams opened so far
	N      int    `json:"n,omitempty"`
	Parts  int    `json:"parts,omitempty"`
	Flag   bool   `json:"flag,omitempty"`
	NoWait bool   `json:"nowait,omitempty"` // do not wait for quiescence before the next op
}

// Plan is a serialisable test case.
type Plan struct {
	Role     string `json:"role"`      // role of grpc-go: "client" or "server"
	PeerIWS  int64  `json:"peer_iws"`  // peer's SETTINGS_INITIAL_WINDOW_SIZE in its preface; <0: not sent (65535)
	ConnBump uint32 `json:"conn_bump"` // WINDOW_UPDATE(0) sent by the peer with its preface
	// WriteAfterLast (client role): write/last ops that follow a stream's Last write are still issued to the
	// transport instead of being dropped by the harness (gRPC's stream layer never does that, the transport must
	// refuse them itself: nothing of them may reach the wire after END_STREAM).
	WriteAfterLast bool `json:"write_after_last,omitempty"`
	Ops            []Op `json:"ops"`
}

func genSize(rt *rapid.T, label string) int {
	big := vk.Pick(300<<10, 5<<20)
	switch rapid.IntRange(0, 9).Draw(rt, label+"_kind") {
	case 0:
		return rapid.IntRange(0, 8).Draw(rt, label)
	case 1, 2: // around frame / default-window boundaries of the 5-byte-prefixed message
		b := rapid.SampledFrom([]int{16384, 65535, 65536, 2 * 16384, 16384 + 65535}).Draw(rt, label+"_b")
		return max(0, b-5+rapid.IntRange(-2, 2).Draw(rt, label+"_d"))
	case 3, 4, 5:
		return rapid.IntRange(1, 3000).Draw(rt, label)
	case 6, 7:
		return rapid.IntRange(3000, 100<<10).Draw(rt, label)
	case 8:
		return rapid.IntRange(100<<10, big).Draw(rt, label)
	default:
		return rapid.IntRange(0, 70000).Draw(rt, label)
	}
}

func genInc(rt *rapid.T, label string) int {
	switch rapid.IntRange(0, 7).Draw(rt, label+"_kind") {
	case 0:
		return rapid.IntRange(1, 16).Draw(rt, label)
	case 1, 2:
		return rapid.IntRange(1, 2000).Draw(rt, label)
	case 3:
		return rapid.SampledFrom([]int{16383, 16384, 16385, 65535, 65536}).Draw(rt, label)
	case 4, 5:
		return rapid.IntRange(2000, 200000).Draw(rt, label)
	case 6:
		return rapid.IntRange(200000, 8<<20).Draw(rt, label)
	default:
		return rapid.SampledFrom([]int{h2peer.MaxWindow, h2peer.MaxWindow - 65535, 1 << 30}).Draw(rt, label)
	}
}

func genIWS(rt *rapid.T, label string) int {
	switch rapid.IntRange(0, 7).Draw(rt, label+"_kind") {
	case 0:
		return 0
	case 1:
		return rapid.IntRange(1, 64).Draw(rt, label)
	case 2, 3:
		return rapid.IntRange(64, 40000).Draw(rt, label)
	case 4:
		return rapid.SampledFrom([]int{16383, 16384, 16385, 65535, 65536}).Draw(rt, label)
	case 5:
		return rapid.IntRange(40000, 1<<20).Draw(rt, label)
	case 6:
		return 1 << 20
	default:
		return rapid.SampledFrom([]int{h2peer.MaxWindow, 1 << 30, 1 << 24}).Draw(rt, label)
	}
}

func genPlan(role string) func(rt *rapid.T) Plan {
	return func(rt *rapid.T) Plan {
		p := Plan{Role: role, PeerIWS: -1}
		p.WriteAfterLast = role == "client" && rapid.IntRange(0, 3).Draw(rt, "write_after_last") == 0
		if rapid.IntRange(0, 3).Draw(rt, "has_iws") > 0 {
			p.PeerIWS = int64(genIWS(rt, "iws0"))
		}
		if rapid.IntRange(0, 3).Draw(rt, "has_bump") == 0 {
			p.ConnBump = uint32(genInc(rt, "bump"))
			if int64(p.ConnBump) > h2peer.MaxWindow-h2peer.DefaultWindow {
				p.ConnBump = h2peer.MaxWindow - h2peer.DefaultWindow
			}
		}
		maxOps := vk.Pick(30, 200)
		maxStreams := vk.Pick(4, 16)
		n := rapid.IntRange(3, maxOps).Draw(rt, "nops")
		streams := 0
		for i := 0; i < n; i++ {
			var op Op
			w := rapid.IntRange(0, 99).Draw(rt, "w")
			switch {
			case streams == 0 || (w < 10 && streams < maxStreams):
				op = Op{K: opOpen}
				if rapid.IntRange(0, 7).Draw(rt, "bigmd") == 0 {
					op.N = rapid.IntRange(1, 40000).Draw(rt, "mdlen")
				}
				if role == "server" && rapid.IntRange(0, 3).Draw(rt, "eos") == 0 {
					op.Flag = true
				}
				streams++
			case w < 40:
				op = Op{K: opWrite, S: rapid.IntRange(0, 31).Draw(rt, "s"), N: genSize(rt, "msg"), Parts: rapid.IntRange(1, 3).Draw(rt, "parts")}
			case w < 50:
				op = Op{K: opLast, S: rapid.IntRange(0, 31).Draw(rt, "s")}
				if rapid.Bool().Draw(rt, "write_first") {
					// a message directly followed by the end of the stream (END_STREAM / trailers queue behind it)
					p.Ops = append(p.Ops, Op{K: opWrite, S: op.S, N: genSize(rt, "msg0"), Parts: rapid.IntRange(1, 3).Draw(rt, "parts0"), NoWait: rapid.Bool().Draw(rt, "nowait0")})
				}
				if role == "client" {
					if rapid.Bool().Draw(rt, "empty") {
						op.N = -1
					} else {
						op.N, op.Parts = genSize(rt, "msg"), rapid.IntRange(1, 3).Draw(rt, "parts")
					}
				} else {
					if rapid.IntRange(0, 5).Draw(rt, "bigtr") == 0 {
						op.N = rapid.IntRange(1, 40000).Draw(rt, "trlen")
					}
					op.Flag = rapid.IntRange(0, 3).Draw(rt, "nonok") == 0
				}
			case w < 62:
				op = Op{K: opWUS, S: rapid.IntRange(0, 31).Draw(rt, "s"), N: genInc(rt, "inc")}
			case w < 74:
				op = Op{K: opWUC, N: genInc(rt, "inc")}
			case w < 84:
				op = Op{K: opIWS, N: genIWS(rt, "iws")}
			case w < 88:
				op = Op{K: opPeerRST, S: rapid.IntRange(0, 31).Draw(rt, "s")}
			case w < 93:
				op = Op{K: opPeerEnd, S: rapid.IntRange(0, 31).Draw(rt, "s"), N: rapid.IntRange(0, 1).Draw(rt, "rst"), Flag: rapid.Bool().Draw(rt, "tonly")}
			case w < 97:
				if role == "client" {
					op = Op{K: opCancel, S: rapid.IntRange(0, 31).Draw(rt, "s")}
				} else {
					op = Op{K: opHdr, S: rapid.IntRange(0, 31).Draw(rt, "s")}
					if rapid.IntRange(0, 3).Draw(rt, "bighdr") == 0 {
						op.N = rapid.IntRange(1, 40000).Draw(rt, "hdrlen")
					}
				}
			case w < 98 && i > n/2:
				op = Op{K: opClose}
			default:
				op = Op{K: opWrite, S: rapid.IntRange(0, 31).Draw(rt, "s"), N: rapid.IntRange(0, 200).Draw(rt, "msg"), Parts: 1}
			}
			op.NoWait = rapid.IntRange(0, 3).Draw(rt, "nowait") == 0
			p.Ops = append(p.Ops, op)
		}
		return p
	}
}

// ---- executor ----

type cmd struct {
	kind  string
	n     int
	parts int
	flag  bool
}

// appStream is the application side of one stream.
type appStream struct {
	idx  int
	path string

	cmds  chan cmd
	ready chan *transport.ServerStream // server role: delivered by the transport's handler
	abort chan struct{}
	done  chan struct{}

	mu        sync.Mutex
	opened    bool
	openErr   error
	accepted  []byte // concatenation of the 5-byte-prefixed messages whose Write returned nil
	nAccepted int
	lastOK    bool // client: the Last write was accepted; server: WriteStatus returned nil
	lastEmpty bool
	ended     bool // no more writes are issued (Last/WriteStatus attempted, or cancelled)
	cancelled bool
	writeErrs int
	planned   int // bytes the plan wants to write (for the final drain)
	msgSeq    int

	writeAfterLast bool // plan.WriteAfterLast (client role)
	lateWrites     int  // writes issued to the transport after the Last write
	lateAccepted   int  // ... that the transport accepted (returned nil)
}

func (a *appStream) snapshot() (accepted []byte, lastOK, cancelled bool) {
	a.mu.Lock()
	defer a.mu.Unlock()
	return a.accepted, a.lastOK, a.cancelled
}

func fillMsg(idx, seq, n int) (hdr []byte, payload []byte) {
	hdr = []byte{0, byte(n >> 24), byte(n >> 16), byte(n >> 8), byte(n)}
	payload = make([]byte, n)
	x := uint32(idx*7919+seq*104729) | 1
	for i := range payload {
		x = x*1664525 + 1013904223
		payload[i] = byte(x >> 24)
	}
	return hdr, payload
}

func split(payload []byte, parts int) mem.BufferSlice {
	if parts < 1 {
		parts = 1
	}
	var bs mem.BufferSlice
	n := len(payload)
	for i := 0; i < parts; i++ {
		lo, hi := n*i/parts, n*(i+1)/parts
		if hi > lo || (n == 0 && i == 0) {
			bs = append(bs, mem.SliceBuffer(payload[lo:hi]))
		}
	}
	return bs
}

func bigMD(key string, n int) metadata.MD {
	if n <= 0 {
		return nil
	}
	return metadata.Pairs(key, strings.Repeat("m", n))
}

type exec struct {
	plan Plan
	role string

	crig *h2grpc.ClientRig
	srig *h2grpc.ServerRig
	peer *h2peer.Peer
	led  *h2peer.Ledger

	mu      sync.Mutex
	streams []*appStream
	byPath  map[string]*appStream

	closed  bool
	classes map[string]bool
	c2      []string // C02 violations found by the harness-side oracle
}

func (e *exec) class(c string) { e.classes[c] = true }

func (e *exec) clientWorker(a *appStream, ct transport.ClientTransport, mdLen int) {
	defer close(a.done)
	ctx := context.Background()
	if mdLen > 0 {
		ctx = metadata.NewOutgoingContext(ctx, bigMD("x-pad", mdLen))
	}
	s, err := ct.NewStream(ctx, &transport.CallHdr{Host: "vf", Method: a.path}, nil)
	a.mu.Lock()
	a.opened, a.openErr = err == nil, err
	a.mu.Unlock()
	for c := range a.cmds {
		if err != nil {
			continue
		}
		switch c.kind {
		case opWrite, opLast:
			a.mu.Lock()
			skip := a.ended
			late := false
			if skip && a.writeAfterLast && !a.cancelled {
				skip, late = false, true // hand the late write to the transport; it has to refuse it
				a.lateWrites++
			}
			if c.kind == opLast {
				a.ended = true
			}
			seq := a.msgSeq
			a.msgSeq++
			a.mu.Unlock()
			if skip {
				continue
			}
			var hdr, payload []byte
			var data mem.BufferSlice
			if c.n >= 0 {
				hdr, payload = fillMsg(a.idx, seq, c.n)
				data = split(payload, c.parts)
			}
			werr := s.Write(hdr, data, &transport.WriteOptions{Last: c.kind == opLast})
			a.mu.Lock()
			if werr == nil && late {
				a.lateAccepted++
			}
			if werr == nil {
				a.accepted = append(append(a.accepted, hdr...), payload...)
				a.nAccepted++
				if c.kind == opLast {
					a.lastOK, a.lastEmpty = true, c.n < 0
				}
			} else {
				a.writeErrs++
			}
			a.mu.Unlock()
		case opCancel:
			a.mu.Lock()
			a.ended, a.cancelled = true, true
			a.mu.Unlock()
			s.Close(status.Error(codes.Canceled, "cancelled by the application"))
		}
	}
}

func (e *exec) serverWorker(a *appStream) {
	defer close(a.done)
	var s *transport.ServerStream
	select {
	case s = <-a.ready:
	case <-a.abort:
	}
	a.mu.Lock()
	a.opened = s != nil
	a.mu.Unlock()
	for c := range a.cmds {
		if s == nil {
			select {
			case s = <-a.ready:
				a.mu.Lock()
				a.opened = true
				a.mu.Unlock()
			default:
				continue
			}
		}
		switch c.kind {
		case opHdr:
			s.SendHeader(bigMD("x-hdr", c.n))
		case opWrite:
			a.mu.Lock()
			skip := a.ended
			seq := a.msgSeq
			a.msgSeq++
			a.mu.Unlock()
			if skip {
				continue
			}
			hdr, payload := fillMsg(a.idx, seq, c.n)
			werr := s.Write(hdr, split(payload, c.parts), &transport.WriteOptions{})
			a.mu.Lock()
			if werr == nil {
				a.accepted = append(append(a.accepted, hdr...), payload...)
				a.nAccepted++
			} else {
				a.writeErrs++
			}
			a.mu.Unlock()
		case opLast:
			a.mu.Lock()
			skip := a.ended
			a.ended = true
			a.mu.Unlock()
			if skip {
				continue
			}
			if c.n > 0 {
				s.SetTrailer(bigMD("x-tr", c.n))
			}
			st := status.New(codes.OK, "")
			if c.flag {
				st = status.New(codes.Internal, "application error")
			}
			werr := s.WriteStatus(st)
			a.mu.Lock()
			a.lastOK = werr == nil
			a.mu.Unlock()
		}
	}
}

func (e *exec) pick(s int) *appStream {
	if len(e.streams) == 0 {
		return nil
	}
	return e.streams[s%len(e.streams)]
}

// wireID returns the HTTP/2 stream id of an application stream (0 = not on the wire).
func (e *exec) wireID(a *appStream) uint32 {
	id, _ := e.led.StreamIDByPath(a.path)
	return id
}

// iwsRef is the largest SETTINGS_INITIAL_WINDOW_SIZE grpc-go may currently be
// applying (in force, or sent and not yet acknowledged).
func (e *exec) iwsRef() int64 {
	ref := e.led.InIWS()
	if v, ok := e.led.PendingIWS(); ok && v > ref {
		ref = v
	}
	return ref
}

func (e *exec) clampStreamInc(id uint32, n int64) int64 {
	w := e.led.InStreamWindow(id) + (e.iwsRef() - e.led.InIWS())
	if room := h2peer.MaxWindow - w; n > room {
		n = room
	}
	return n
}

func (e *exec) clampConnInc(n int64) int64 {
	if room := h2peer.MaxWindow - e.led.InConnWindow(); n > room {
		n = room
	}
	return n
}

func (e *exec) doOp(op Op) {
	switch op.K {
	case opOpen:
		a := &appStream{writeAfterLast: e.plan.WriteAfterLast && e.role == "client", idx: len(e.streams), cmds: make(chan cmd, len(e.plan.Ops)+4), ready: make(chan *transport.ServerStream, 1),
			abort: make(chan struct{}), done: make(chan struct{})}
		a.path = fmt.Sprintf("/vf/s%d", a.idx)
		e.mu.Lock()
		e.streams = append(e.streams, a)
		e.byPath[a.path] = a
		e.mu.Unlock()
		if e.role == "client" {
			go e.clientWorker(a, e.crig.CT, op.N)
		} else {
			go e.serverWorker(a)
			var extra []hpack.HeaderField
			if op.N > 0 {
				extra = append(extra, hpack.HeaderField{Name: "x-pad", Value: strings.Repeat("m", op.N)})
			}
			e.peer.WriteHeaders(h2peer.Headers{StreamID: e.peer.NextStreamID(), Fields: h2peer.RequestHeaders(a.path, "vf", extra...), EndStream: op.Flag,
				FragSizes: []int{1 + op.N%977, 16384}})
		}
	case opWrite, opLast, opHdr, opCancel:
		a := e.pick(op.S)
		if a == nil {
			return
		}
		if op.K == opWrite || (op.K == opLast && e.role == "client" && op.N >= 0) {
			a.planned += op.N + 5
		}
		if (op.K == opHdr && e.role != "server") || (op.K == opCancel && e.role != "client") {
			return
		}
		if op.K == opCancel && e.unsent(a) {
			e.class("cancel_mid_message")
		}
		a.cmds <- cmd{kind: op.K, n: op.N, parts: op.Parts, flag: op.Flag}
	case opWUS:
		a := e.pick(op.S)
		if a == nil {
			return
		}
		id := e.wireID(a)
		if id == 0 {
			return
		}
		if n := e.clampStreamInc(id, int64(op.N)); n > 0 {
			e.peer.WriteWindowUpdate(id, uint32(n))
		}
	case opWUC:
		if n := e.clampConnInc(int64(op.N)); n > 0 {
			e.peer.WriteWindowUpdate(0, uint32(n))
		}
	case opIWS:
		// Every stream window (IWS + credits - data) must stay <= 2^31-1.
		v := int64(op.N)
		for _, st := range e.led.Streams() {
			if st.Closed {
				continue
			}
			credit := st.InWindow - e.led.InIWS() // credits - data
			if v+credit > h2peer.MaxWindow {
				v = h2peer.MaxWindow - credit
			}
		}
		if v < 0 {
			v = 0
		}
		e.peer.WriteSettings(http2.Setting{ID: http2.SettingInitialWindowSize, Val: uint32(v)})
	case opPeerRST:
		a := e.pick(op.S)
		if a == nil {
			return
		}
		if id := e.wireID(a); id != 0 {
			if e.unsent(a) {
				e.class("peer_rst_mid_message")
			}
			e.peer.WriteRSTStream(id, http2.ErrCodeCancel)
		}
	case opPeerEnd:
		a := e.pick(op.S)
		if a == nil {
			return
		}
		id := e.wireID(a)
		if id == 0 {
			return
		}
		st, _ := e.led.Stream(id)
		if st.OutEnd || st.OutRST {
			return
		}
		if e.role == "client" {
			if op.Flag && st.OutHeaderBlocks == 0 {
				e.peer.WriteHeaders(h2peer.Headers{StreamID: id, Fields: h2peer.TrailersOnly(0, ""), EndStream: true})
			} else {
				if st.OutHeaderBlocks == 0 {
					e.peer.WriteHeaders(h2peer.Headers{StreamID: id, Fields: h2peer.ResponseHeaders()})
				}
				e.peer.WriteHeaders(h2peer.Headers{StreamID: id, Fields: h2peer.Trailers(0, ""), EndStream: true})
			}
			if op.N&1 == 1 {
				e.peer.WriteRSTStream(id, http2.ErrCodeNo)
			}
		} else {
			e.peer.WriteData(id, nil, true, -1)
		}
	case opClose:
		e.closeTransport()
	}
}

// unsent reports whether stream a has accepted bytes that are not on the wire yet.
func (e *exec) unsent(a *appStream) bool {
	id := e.wireID(a)
	acc, _, _ := a.snapshot()
	if id == 0 {
		return len(acc) > 0
	}
	st, _ := e.led.Stream(id)
	return !st.Closed && !st.InEnd && len(acc) > len(st.InData)
}

func (e *exec) closeTransport() {
	if e.closed {
		return
	}
	e.closed = true
	e.class("transport_closed_midway")
	for _, a := range e.streams {
		if e.unsent(a) {
			e.class("close_mid_message")
		}
	}
	if e.role == "client" {
		e.crig.CT.Close(errors.New("closed by the plan"))
	} else {
		e.srig.ST.Close(errors.New("closed by the plan"))
	}
}

// observe runs at quiescence: classes and harness-side C02 checks that need
// the application's view.
func (e *exec) observe() {
	connW := e.led.InConnWindow()
	starved := 0
	for _, a := range e.streams {
		id := e.wireID(a)
		if id == 0 {
			continue
		}
		st, _ := e.led.Stream(id)
		acc, lastOK, _ := a.snapshot()
		e.checkPrefix(a, st, acc)
		if st.Closed || st.InRST || st.InEnd {
			continue
		}
		unsent := len(acc) - len(st.InData)
		if unsent > 0 {
			if st.InWindow <= 0 {
				e.class("stream_starved")
				starved++
				if st.InWentNegative && st.InWindow < 0 {
					e.class("iws_lowered_below_outstanding")
				}
			}
			if connW <= 0 {
				e.class("conn_starved")
				starved++
			}
			if lastOK {
				e.class("end_queued_behind_data")
			}
		} else if lastOK && !st.InEnd && e.role == "client" && connW <= 0 {
			e.class("empty_end_blocked_by_conn_window")
		}
	}
	if starved > 1 {
		e.class("multi_starved")
	}
}

func (e *exec) c2bad(format string, a ...any) {
	if len(e.c2) < 8 {
		e.c2 = append(e.c2, fmt.Sprintf(format, a...))
	}
}

// checkPrefix: what is on the wire is a prefix of what the application's
// accepted writes add up to (nothing invented, reordered or duplicated).
func (e *exec) checkPrefix(a *appStream, st h2peer.Stream, acc []byte) {
	w := st.InData
	if len(w) > len(acc) {
		e.c2bad("stream %d (%s): %d DATA bytes on the wire but the application's accepted writes total %d bytes", st.ID, a.path, len(w), len(acc))
		return
	}
	if string(w) != string(acc[:len(w)]) {
		i := 0
		for i < len(w) && w[i] == acc[i] {
			i++
		}
		e.c2bad("stream %d (%s): wire DATA differs from the written messages at byte %d of %d", st.ID, a.path, i, len(w))
	}
}

// finalChecks is the C02 end-of-run oracle (after the drain phase).
func (e *exec) finalChecks(drained bool) {
	for _, a := range e.streams {
		id := e.wireID(a)
		acc, lastOK, cancelled := a.snapshot()
		if id == 0 {
			if len(acc) > 0 && !e.closed {
				e.c2bad("%s: writes were accepted but the stream never appeared on the wire", a.path)
			}
			continue
		}
		st, _ := e.led.Stream(id)
		e.checkPrefix(a, st, acc)
		if st.InEnd {
			// complete stream: equality
			if len(st.InData) != len(acc) {
				e.c2bad("stream %d (%s): END_STREAM on the wire after %d DATA bytes but %d bytes were accepted from the application", id, a.path, len(st.InData), len(acc))
			}
			if !lastOK {
				e.c2bad("stream %d (%s): END_STREAM on the wire but the application never (successfully) ended the stream", id, a.path)
			}
		}
		if e.role == "client" && st.InEnd {
			// END_STREAM only on the last frame of the stream: it is carried by a DATA frame.
			if st.InEndOnHeaders {
				e.c2bad("stream %d: client HEADERS carried END_STREAM", id)
			}
		}
		if e.role == "server" && st.InEnd && !st.InEndOnHeaders {
			e.c2bad("stream %d: server ended the stream with a DATA frame instead of trailers", id)
		}
		// completeness once credit is ample: an open stream has everything on the wire.
		if drained && !e.closed && !st.OutRST && !st.InRST && !cancelled && !st.OutEnd {
			if len(st.InData) != len(acc) {
				e.c2bad("stream %d (%s): after ample WINDOW_UPDATEs only %d of %d accepted bytes are on the wire (stream window %d, conn window %d)", id, a.path, len(st.InData), len(acc), st.InWindow, e.led.InConnWindow())
			} else if lastOK && !st.InEnd {
				e.c2bad("stream %d (%s): the application ended the stream, all data is on the wire, credit is ample, but END_STREAM never appeared", id, a.path)
			}
		}
		if len(acc) > 0 && len(st.InData) == len(acc) {
			e.class("stream_complete")
		}
		a.mu.Lock()
		late, lateOK := a.lateWrites, a.lateAccepted
		a.mu.Unlock()
		if late > 0 {
			e.class("write_after_last_issued")
		}
		if lateOK > 0 {
			// the wire oracles above judge what became of it (DATA after END_STREAM / accepted bytes missing)
			e.class("write_after_last_accepted_by_transport")
		}
		if e.role == "server" && st.InEndOnHeaders && st.InHeaderBlocks == 1 {
			e.class("trailers_only")
		}
	}
}

type outcome struct {
	c1, c2    []string
	classes   map[string]bool
	stats     h2peer.Stats
	nStreams  int
	setupErr  error
	frameErrs []string
}

func runPlan(t *testing.T, p Plan) (out outcome) {
	out.classes = map[string]bool{}
	msg := vk.Bubble(t, func(t *testing.T) {
		e := &exec{plan: p, role: p.Role, byPath: map[string]*appStream{}, classes: out.classes}
		cfg := h2peer.Config{ConnWindowBump: p.ConnBump}
		if p.PeerIWS >= 0 {
			cfg.Settings = []http2.Setting{{ID: http2.SettingInitialWindowSize, Val: uint32(p.PeerIWS)}}
		}
		var err error
		if p.Role == "client" {
			e.crig, err = h2grpc.NewClient(cfg, transport.ConnectOptions{})
			if err == nil {
				e.peer = e.crig.Peer
			}
		} else {
			e.srig, err = h2grpc.NewServer(cfg, nil, func(s *transport.ServerStream) {
				e.mu.Lock()
				a := e.byPath[s.Method()]
				e.mu.Unlock()
				if a != nil {
					a.ready <- s
				}
			})
			if err == nil {
				e.peer = e.srig.Peer
			}
		}
		if err != nil {
			out.setupErr = err
			return
		}
		e.led = e.peer.Ledger()
		synctest.Wait()
		for _, op := range p.Ops {
			e.doOp(op)
			if !op.NoWait {
				synctest.Wait()
				e.observe()
			}
		}
		synctest.Wait()
		e.observe()
		// Drain phase: ample credit for everything the plan wants to write.
		drained := false
		if !e.closed {
			var total int64
			for _, a := range e.streams {
				total += int64(a.planned) + 16
			}
			for round := 0; round < 3; round++ {
				if n := e.clampConnInc(total); n > 0 {
					e.peer.WriteWindowUpdate(0, uint32(n))
				}
				for _, a := range e.streams {
					if id := e.wireID(a); id != 0 {
						if st, _ := e.led.Stream(id); !st.Closed {
							need := int64(a.planned) + 16 - st.InWindow
							if n := e.clampStreamInc(id, need); n > 0 {
								e.peer.WriteWindowUpdate(id, uint32(n))
							}
						}
					}
				}
				synctest.Wait()
			}
			drained = true
		}
		e.finalChecks(drained)
		out.stats = e.led.Stats()
		out.nStreams = len(e.streams)
		// Tear down.
		for _, a := range e.streams {
			close(a.abort)
			close(a.cmds)
		}
		if e.crig != nil {
			e.crig.Close()
		} else {
			e.srig.Close()
		}
		for _, a := range e.streams {
			<-a.done
		}
		out.c1 = e.led.Violations("window.conn", "window.stream", "frame.size.")
		out.c2 = append(e.c2, e.led.Violations("stream.after_end", "stream.after_rst", "stream.rst_twice", "stream.rst_after_trailers", "stream.headers", "stream.idle")...)
		out.frameErrs = e.led.Violations("frame.invalid", "settings.ack")
	})
	if msg != "" {
		panic("VERIF-HARNESS: " + msg)
	}
	return out
}

func classList(m map[string]bool, extra ...string) []string {
	var out []string
	for _, c := range []string{"stream_starved", "conn_starved", "multi_starved", "iws_lowered_below_outstanding", "end_queued_behind_data",
		"empty_end_blocked_by_conn_window", "transport_closed_midway", "stream_complete"} {
		if m[c] {
			out = append(out, c)
		}
	}
	return append(out, extra...)
}
