package c01_test

import (
	"strings"
	"testing"

	"google.golang.org/grpc/internal/verifkit/vk"
)

const c01Rule = "plans of <=30 (quick) / <=200 (thorough) ops over <=4/16 streams against a real grpc-go transport and a scripted h2peer: " +
	"open (optionally with >16 KiB metadata -> CONTINUATION), application writes (0 B .. 300 KiB/5 MiB, boundary sizes 16384/65535/65536 +-2 incl. the 5-byte prefix, 1-3 buffers), " +
	"Last/WriteStatus, peer WINDOW_UPDATE(stream|conn) with increments 1..2^31-1 (clamped so windows stay <= 2^31-1), peer SETTINGS_INITIAL_WINDOW_SIZE in {0,1..64,..,65535,1 MiB,2^31-1} (also below bytes in flight), " +
	"peer RST_STREAM, peer trailers/half-close, client cancel, transport close; peer preface IWS and connection bump generated; 25% of the ops are issued without waiting for quiescence. " +
	"non-trivial = at some quiescent point a stream had accepted-but-unsent bytes while its stream window or the connection window was <= 0"

func c01Run(t *testing.T, p Plan) vk.Result {
	out := runPlan(t, p)
	if out.setupErr != nil {
		return vk.Result{Discard: true}
	}
	cl := classList(out.classes)
	if out.stats.InContinuations > 0 {
		cl = append(cl, "continuation_frames")
	}
	if out.stats.InMaxFragLen == 16384 {
		cl = append(cl, "max_size_header_fragment")
	}
	if out.stats.IWSLoweredBelowOutstanding > 0 {
		cl = append(cl, "iws_lowered_to_negative_window")
	}
	if out.stats.InConnZeroHits > 0 {
		cl = append(cl, "conn_window_hit_exactly_zero")
	}
	if out.stats.InStreamZeroHits > 0 {
		cl = append(cl, "stream_window_hit_exactly_zero")
	}
	v := append(out.c1, out.frameErrs...)
	if len(v) > 0 {
		return vk.Bad("%d ledger violation(s), first: %s", len(v), strings.Join(v[:min(3, len(v))], " || ")).With(cl...)
	}
	nt := out.classes["stream_starved"] || out.classes["conn_starved"]
	res := vk.OK(nt, cl...)
	res.Steps = len(p.Ops)
	return res
}

func TestVerifC01Client(t *testing.T) {
	vk.Check(t, vk.Unit[Plan]{ID: "C01", Name: "client", Rule: "grpc-go http2Client vs h2peer server. " + c01Rule, Gen: genPlan("client"), Run: c01Run})
}

func TestVerifC01Server(t *testing.T) {
	vk.Check(t, vk.Unit[Plan]{ID: "C01", Name: "server", Rule: "grpc-go http2Server vs h2peer client. " + c01Rule, Gen: genPlan("server"), Run: c01Run})
}
