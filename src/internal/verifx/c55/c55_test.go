package c55_test

// C55: binary-log entries are correctly truncated and never contain headers
// gRPC omits from logs.
//
// Black box on binarylog.NewTruncatingMethodLogger(h, m).Build(cfg).
//
// grpc-go turns the metadata map into a list in Go map iteration order, i.e. an
// order the harness cannot know. The oracle is therefore "permutation
// consistent": the reference (longest prefix whose counted sizes fit, reading
// of DESIGN §5 for grpc-trace-bin) is computed for every order of the loggable
// keys (<= 5 keys: <= 120 orders) and the produced entry list + truncated flag
// must equal the reference for at least one of them.

import (
	"bytes"
	"math"
	"sort"
	"strings"
	"testing"

	binlogpb "google.golang.org/grpc/binarylog/grpc_binarylog_v1"
	"google.golang.org/grpc/internal/binarylog"
	"google.golang.org/grpc/internal/verifkit/vk"
	"google.golang.org/grpc/metadata"
	"pgregory.net/rapid"
)

const traceBin = "grpc-trace-bin"

// omittedByStatement implements the list in the property statement.
func omittedByStatement(k string) bool {
	switch k {
	case ":path", ":authority", "content-type", "user-agent", "te", "lb-token":
		return true
	case traceBin:
		return false
	}
	return strings.HasPrefix(k, "grpc-")
}

type hdrPlan struct {
	Kind  int        `json:"kind"`  // 0 ClientHeader, 1 ServerHeader, 2 ServerTrailer
	MD    [][]string `json:"md"`    // [key, v1, v2, ...]; keys unique and lowercase
	Limit uint64     `json:"limit"` // header limit h
	Msg   uint64     `json:"msg"`   // message limit m (irrelevant for headers)
	Side  bool       `json:"side"`
}

type entry struct {
	k string
	v string
}

func size(e entry) uint64 { return uint64(len(e.k)) + uint64(len(e.v)) }

// refTruncate is the statement: the longest prefix whose counted key+value
// sizes fit in limit; grpc-trace-bin entries are not counted (and hence kept
// while the scan is going on).
func refTruncate(es []entry, limit uint64) (kept []entry, truncated bool) {
	if limit == math.MaxUint64 {
		return es, false
	}
	var used uint64
	n := 0
	for n < len(es) {
		if es[n].k != traceBin {
			s := size(es[n])
			if s > limit-used {
				break
			}
			used += s
		}
		n++
	}
	return es[:n], n < len(es)
}

func permutations(keys []string, f func([]string) bool) bool {
	var rec func(i int) bool
	rec = func(i int) bool {
		if i == len(keys) {
			return f(keys)
		}
		for j := i; j < len(keys); j++ {
			keys[i], keys[j] = keys[j], keys[i]
			if rec(i + 1) {
				keys[i], keys[j] = keys[j], keys[i]
				return true
			}
			keys[i], keys[j] = keys[j], keys[i]
		}
		return false
	}
	return rec(0)
}

func eqEntries(a, b []entry) bool {
	if len(a) != len(b) {
		return false
	}
	for i := range a {
		if a[i] != b[i] {
			return false
		}
	}
	return true
}

func build(p hdrPlan) (md metadata.MD, cfg binarylog.LogEntryConfig) {
	md = metadata.MD{}
	for _, e := range p.MD {
		if len(e) == 0 {
			continue
		}
		md[e[0]] = append([]string{}, e[1:]...)
	}
	switch p.Kind {
	case 0:
		cfg = &binarylog.ClientHeader{OnClientSide: p.Side, Header: md, MethodName: "/s/m", Authority: "a"}
	case 1:
		cfg = &binarylog.ServerHeader{OnClientSide: p.Side, Header: md}
	default:
		cfg = &binarylog.ServerTrailer{OnClientSide: p.Side, Trailer: md}
	}
	return md, cfg
}

func runHdr(_ *testing.T, p hdrPlan) vk.Result {
	if p.Kind < 0 || p.Kind > 2 {
		return vk.Result{Discard: true}
	}
	md, cfg := build(p)
	ml := binarylog.NewTruncatingMethodLogger(p.Limit, p.Msg)
	pb := ml.Build(cfg)
	var mdpb *binlogpb.Metadata
	switch p.Kind {
	case 0:
		mdpb = pb.GetClientHeader().GetMetadata()
	case 1:
		mdpb = pb.GetServerHeader().GetMetadata()
	default:
		mdpb = pb.GetTrailer().GetMetadata()
	}
	var out []entry
	for _, e := range mdpb.GetEntry() {
		out = append(out, entry{e.GetKey(), string(e.GetValue())})
	}
	flag := pb.GetPayloadTruncated()

	res := vk.Result{}
	// clause 2: omitted headers never appear.
	for _, e := range out {
		if omittedByStatement(e.k) {
			return vk.Bad("omitted header %q appears in the log entry (kind %d)", e.k, p.Kind)
		}
	}
	// loggable keys (those with at least one value matter)
	var keys []string
	total, nLoggable := uint64(0), 0
	hasTrace := false
	for k, vv := range md {
		if omittedByStatement(k) || k == "content-encoding" || len(vv) == 0 {
			continue
		}
		keys = append(keys, k)
		nLoggable += len(vv)
		if k == traceBin {
			hasTrace = true
			continue
		}
		for _, v := range vv {
			total += uint64(len(k) + len(v))
		}
	}
	sort.Strings(keys)
	if len(keys) > 6 {
		return vk.Result{Discard: true}
	}
	// flag <=> something dropped
	dropped := len(out) < nLoggable
	if flag != dropped {
		return (vk.Bad("payload_truncated=%v but %d of %d loggable entries are present (kind %d, limit %d)", flag, len(out), nLoggable, p.Kind, p.Limit))
	}
	// permutation-consistent longest-prefix oracle
	var matchedOrder []string
	ok := permutations(keys, func(order []string) bool {
		var full []entry
		for _, k := range order {
			for _, v := range md[k] {
				full = append(full, entry{k, v})
			}
		}
		want, wantFlag := refTruncate(full, p.Limit)
		if wantFlag == flag && eqEntries(want, out) {
			matchedOrder = append([]string{}, order...)
			return true
		}
		return false
	})
	if !ok {
		return (vk.Bad("log entry %v (truncated=%v) is not the longest fitting prefix of the loggable entries in any key order: kind %d, limit %d, metadata %v", out, flag, p.Kind, p.Limit, p.MD))
	}
	// classes / non-trivial
	if flag {
		res.NonTrivial = true
		res.Classes = append(res.Classes, "truncated")
		if len(out) > 0 {
			last := out[len(out)-1].k
			cnt := 0
			for _, e := range out {
				if e.k == last {
					cnt++
				}
			}
			if cnt < len(md[last]) {
				res.Classes = append(res.Classes, "cut_inside_value_group")
			}
		}
		if hasTrace {
			inOut := false
			for _, e := range out {
				if e.k == traceBin {
					inOut = true
				}
			}
			if inOut {
				res.Classes = append(res.Classes, "truncated_tracebin_kept")
			} else {
				res.Classes = append(res.Classes, "truncated_tracebin_dropped_after_cut(stricter reading would fail)")
			}
		}
	} else {
		res.Classes = append(res.Classes, "complete")
	}
	var used uint64
	for _, e := range out {
		if e.k != traceBin {
			used += size(e)
		}
	}
	if used == p.Limit {
		res.Classes = append(res.Classes, "limit_exactly_reached")
	}
	if hasTrace {
		res.Classes = append(res.Classes, "has_tracebin")
		if p.Limit != math.MaxUint64 && p.Limit >= used && total > p.Limit {
			// would counting trace-bin have changed the outcome?
			var tb uint64
			for _, e := range out {
				if e.k == traceBin {
					tb += size(e)
				}
			}
			if tb > 0 && used+tb > p.Limit {
				res.Classes = append(res.Classes, "tracebin_exemption_decisive")
			}
		}
	}
	if p.Limit == 0 {
		res.Classes = append(res.Classes, "limit_0")
	}
	if p.Limit == math.MaxUint64 {
		res.Classes = append(res.Classes, "limit_max")
	}
	_ = matchedOrder
	return res
}

// ---------------------------------------------------------------- generators

var omittedKeys = []string{"grpc-status", "grpc-message", "grpc-timeout", "grpc-encoding", "grpc-accept-encoding", "grpc-", "grpc-x", "grpc-trace-bin2", "grpc-tags-bin", "grpc-previous-rpc-attempts",
	":path", ":authority", "content-type", "user-agent", "te", "lb-token"}

var loggableKeys = []string{"k", "key", "auth", "x-bin", "grpc", "grpcx-foo", "xgrpc-a", "te2", "t", "path", ":method", ":scheme", "content-typ", "content-type2", "user-agent2", "lb-token-x", "lb-toke", "authority", "a-very-long-key-name-0123456789"}

func genValue(rt *rapid.T) string {
	switch rapid.IntRange(0, 5).Draw(rt, "vkind") {
	case 0:
		return ""
	case 1:
		return rapid.SampledFrom([]string{"a", "bb", "ccc", "value", "0123456789"}).Draw(rt, "v")
	case 2:
		return string(rapid.SliceOfN(rapid.Byte(), 0, 12).Draw(rt, "vbytes"))
	case 3:
		return strings.Repeat("x", rapid.IntRange(13, 300).Draw(rt, "vlong"))
	default:
		return strings.Repeat("y", rapid.IntRange(0, 12).Draw(rt, "vlen"))
	}
}

func genMD(rt *rapid.T) [][]string {
	var md [][]string
	used := map[string]bool{}
	add := func(k string) {
		if used[k] {
			return
		}
		used[k] = true
		e := []string{k}
		n := rapid.IntRange(0, 5).Draw(rt, "nvals")
		if n == 0 && rapid.Bool().Draw(rt, "atleast1") {
			n = 1
		}
		for i := 0; i < n; i++ {
			e = append(e, genValue(rt))
		}
		md = append(md, e)
	}
	nl := rapid.IntRange(0, 4).Draw(rt, "nloggable")
	for i := 0; i < nl; i++ {
		if rapid.IntRange(0, 5).Draw(rt, "rndkey") == 0 {
			k := rapid.StringOfN(rapid.SampledFrom([]rune("abgrpc-xyz019_.")), 1, 8, -1).Draw(rt, "key")
			if omittedByStatement(k) || k == "content-encoding" {
				continue
			}
			add(k)
		} else {
			add(rapid.SampledFrom(loggableKeys).Draw(rt, "lkey"))
		}
	}
	if rapid.IntRange(0, 9).Draw(rt, "trace") < 6 {
		add(traceBin)
	}
	no := rapid.IntRange(0, 3).Draw(rt, "nomitted")
	for i := 0; i < no; i++ {
		add(rapid.SampledFrom(omittedKeys).Draw(rt, "okey"))
	}
	// position in the plan is irrelevant (it becomes a Go map), but shuffle for shrinking variety
	return md
}

// genLimit aims the limit at the sums that matter: whole-key group sums plus a
// partial group, +-1, with and without the trace-bin sizes.
func genLimit(rt *rapid.T, md [][]string) uint64 {
	switch rapid.IntRange(0, 9).Draw(rt, "lkind") {
	case 0:
		return rapid.SampledFrom([]uint64{0, 1, 2, math.MaxUint64, math.MaxUint64 - 1, 1 << 32, 1 << 63}).Draw(rt, "lspecial")
	case 1:
		return uint64(rapid.IntRange(0, 2000).Draw(rt, "lsmall"))
	}
	var sum uint64
	countTrace := rapid.IntRange(0, 3).Draw(rt, "lcounttrace") == 0
	partialDone := false
	for _, e := range md {
		if len(e) < 2 || omittedByStatement(e[0]) {
			continue
		}
		if e[0] == traceBin && !countTrace {
			continue
		}
		switch rapid.IntRange(0, 3).Draw(rt, "lgroup") {
		case 0: // not included
		case 1, 2: // whole group
			for _, v := range e[1:] {
				sum += uint64(len(e[0]) + len(v))
			}
		default: // partial group
			if partialDone {
				continue
			}
			partialDone = true
			n := rapid.IntRange(0, len(e)-1).Draw(rt, "lpartial")
			for _, v := range e[1 : 1+n] {
				sum += uint64(len(e[0]) + len(v))
			}
		}
	}
	d := rapid.IntRange(-1, 1).Draw(rt, "ldelta")
	if d < 0 && sum == 0 {
		return 0
	}
	return uint64(int64(sum) + int64(d))
}

func genHdr(kinds []int) func(rt *rapid.T) hdrPlan {
	return func(rt *rapid.T) hdrPlan {
		p := hdrPlan{Kind: rapid.SampledFrom(kinds).Draw(rt, "kind"), Side: rapid.Bool().Draw(rt, "side")}
		p.MD = genMD(rt)
		p.Limit = genLimit(rt, p.MD)
		p.Msg = rapid.SampledFrom([]uint64{0, 10, math.MaxUint64}).Draw(rt, "msg")
		return p
	}
}

const hdrRule = "metadata: 0..4 loggable keys (near-misses of the omitted names, random keys), grpc-trace-bin in 60%, 0..3 omitted keys (grpc-*, :path, :authority, content-type, user-agent, te, lb-token), 0..5 values each (empty, short, binary, up to 300 bytes); limit aimed at sums of whole key groups + one partial group +-1 (with/without trace-bin sizes), specials 0,1,2,2^32,2^63,MaxUint64-1,MaxUint64, small random. non-trivial = the entry was truncated"

func TestVerifC55Header(t *testing.T) {
	vk.Check(t, vk.Unit[hdrPlan]{ID: "C55", Name: "header", Rule: "ClientHeader / ServerHeader entries; " + hdrRule, Gen: genHdr([]int{0, 1}), Run: runHdr})
}

func TestVerifC55Trailer(t *testing.T) {
	vk.Check(t, vk.Unit[hdrPlan]{ID: "C55", Name: "trailer", Rule: "ServerTrailer entries (same oracle); " + hdrRule, Gen: genHdr([]int{2}), Run: runHdr})
}

// ---------------------------------------------------------------- messages

type msgPlan struct {
	Server bool   `json:"server"`
	Side   bool   `json:"side"`
	Len    int    `json:"len"`
	Seed   int    `json:"seed"`
	Limit  uint64 `json:"limit"`
	Hdr    uint64 `json:"hdr"`
}

func payload(n, seed int) []byte {
	b := make([]byte, n)
	for i := range b {
		b[i] = byte(i*131 + seed + i/251)
	}
	return b
}

func runMsg(_ *testing.T, p msgPlan) vk.Result {
	if p.Len < 0 || p.Len > 1<<20 {
		return vk.Result{Discard: true}
	}
	data := payload(p.Len, p.Seed)
	orig := append([]byte{}, data...)
	var cfg binarylog.LogEntryConfig
	if p.Server {
		cfg = &binarylog.ServerMessage{OnClientSide: p.Side, Message: data}
	} else {
		cfg = &binarylog.ClientMessage{OnClientSide: p.Side, Message: data}
	}
	pb := binarylog.NewTruncatingMethodLogger(p.Hdr, p.Limit).Build(cfg)
	got := pb.GetMessage().GetData()
	flag := pb.GetPayloadTruncated()
	if uint64(len(got)) > p.Limit {
		return vk.Bad("message entry has %d bytes, limit %d", len(got), p.Limit)
	}
	if !bytes.HasPrefix(orig, got) {
		return vk.Bad("message entry data is not a prefix of the payload (len %d, limit %d)", p.Len, p.Limit)
	}
	dropped := len(got) < len(orig)
	if flag != dropped {
		return vk.Bad("payload_truncated=%v but %d of %d payload bytes are present (limit %d)", flag, len(got), len(orig), p.Limit)
	}
	// "at most the limit" + "flag exactly when something was dropped" leave the
	// amount open; the longest such prefix is what truncation means:
	want := uint64(len(orig))
	if p.Limit < want {
		want = p.Limit
	}
	if uint64(len(got)) != want {
		return vk.Bad("message entry has %d bytes, want min(len=%d, limit=%d)", len(got), len(orig), p.Limit)
	}
	if !bytes.Equal(data, orig) {
		return vk.Bad("Build modified the caller's message bytes")
	}
	res := vk.Result{NonTrivial: flag}
	switch {
	case uint64(p.Len) == p.Limit:
		res.Classes = append(res.Classes, "len==limit")
	case uint64(p.Len) == p.Limit+1:
		res.Classes = append(res.Classes, "len==limit+1")
	case p.Limit == math.MaxUint64:
		res.Classes = append(res.Classes, "limit_max")
	}
	if flag {
		res.Classes = append(res.Classes, "truncated")
	}
	return res
}

func genMsg(rt *rapid.T) msgPlan {
	p := msgPlan{Server: rapid.Bool().Draw(rt, "server"), Side: rapid.Bool().Draw(rt, "side"), Seed: rapid.IntRange(0, 255).Draw(rt, "seed")}
	switch rapid.IntRange(0, 3).Draw(rt, "lenkind") {
	case 0:
		p.Len = rapid.IntRange(0, 4).Draw(rt, "len")
	case 1:
		p.Len = rapid.IntRange(0, 300).Draw(rt, "len")
	case 2:
		p.Len = rapid.IntRange(0, 70000).Draw(rt, "len")
	default:
		p.Len = rapid.SampledFrom([]int{0, 1, 255, 256, 65535, 65536}).Draw(rt, "len")
	}
	switch rapid.IntRange(0, 5).Draw(rt, "limkind") {
	case 0:
		p.Limit = rapid.SampledFrom([]uint64{0, 1, math.MaxUint64, math.MaxUint64 - 1, 1 << 32, 1<<32 + 1, 1 << 63, math.MaxInt64}).Draw(rt, "limit")
	case 1:
		p.Limit = uint64(rapid.IntRange(0, 70000).Draw(rt, "limit"))
	default:
		d := rapid.IntRange(-2, 2).Draw(rt, "delta")
		if p.Len+d < 0 {
			d = 0
		}
		p.Limit = uint64(p.Len + d)
		if rapid.IntRange(0, 3).Draw(rt, "half") == 0 {
			p.Limit = uint64(p.Len / 2)
		}
	}
	p.Hdr = rapid.SampledFrom([]uint64{0, 10, math.MaxUint64}).Draw(rt, "hdr")
	return p
}

func TestVerifC55Message(t *testing.T) {
	vk.Check(t, vk.Unit[msgPlan]{ID: "C55", Name: "message",
		Rule: "Client/ServerMessage with []byte payloads of length 0..70000 (position-dependent content) and limits at len+-2, len/2, 0, 1, 2^32(+1), 2^63, MaxUint64(-1), random; non-trivial = the message was truncated",
		Gen:  genMsg, Run: runMsg})
}
