package c39_test

// C39: priority_experimental with stub children, a recording ClientConn and
// virtual time (init timer 10 s, child cache 15 min) in a synctest bubble.
//
// Oracle: a gRFC-A56-level reference model tracks, per child name, {started,
// last state, init timer deadline, reported-TF} plus the balancer-group cache
// of stopped children, and is evaluated at every quiescent point:
//
//	I1 the child in use is the highest priority that is READY or IDLE or still
//	   inside its init timeout (or not yet started), else the lowest priority
//	I2 every priority below it is stopped: its policy instance is no longer
//	   active (it sits in the 15 min cache and is closed when that expires)
//	I3 every priority above it has been started (a live policy instance exists)
//	I4 the state/picker last forwarded to the parent is the latest state/picker
//	   of the child in use (pointer identity of stub pickers; the built-in
//	   CONNECTING placeholder while that child has not reported yet)
//
// I2/I3 are checked as set equality between the stub policy instances that are
// open and the model's {active} ∪ {cached} instances, plus exact build counts.

import (
	"errors"
	"fmt"
	"sort"
	"testing"
	"testing/synctest"
	"time"

	"google.golang.org/grpc/balancer"
	"google.golang.org/grpc/connectivity"
	iserviceconfig "google.golang.org/grpc/internal/serviceconfig"
	"google.golang.org/grpc/internal/verifkit/fakecc"
	"google.golang.org/grpc/internal/verifkit/stubs"
	"google.golang.org/grpc/internal/verifkit/vk"
	"google.golang.org/grpc/internal/xds/balancer/priority"
	"pgregory.net/rapid"
)

const (
	opConfig = iota
	opReport
	opAdvance
	opResolverError
	opExitIdle
)

type op struct {
	K    int   `json:"k"`
	A    int   `json:"a"`
	B    int   `json:"b"`
	Prio []int `json:"prio,omitempty"` // child names, highest priority first
	Pol  []int `json:"pol,omitempty"`  // policy type per entry of Prio
	Init []int `json:"init,omitempty"` // state a newly built child reports synchronously (-1 none)
}

type plan struct {
	Ops []op `json:"ops"`
}

var (
	connStates = []connectivity.State{connectivity.Ready, connectivity.Connecting, connectivity.TransientFailure, connectivity.Idle}
	advances   = []time.Duration{10 * time.Second, 4 * time.Second, 6 * time.Second, time.Second, 15 * time.Minute, 20 * time.Second}
)

const (
	initTimeout  = 10 * time.Second
	cacheTimeout = 15 * time.Minute
)

func genPlan(rt *rapid.T) plan {
	var p plan
	n := 4 + fakecc.Uniform(rt, "n", vk.Pick(17, 147))
	if n < 12 && fakecc.Uniform(rt, "short", 5) > 0 {
		n += 8
	}
	var cur []int
	pol := map[int]int{}
	for i := 0; i < n; i++ {
		k := fakecc.Weighted(rt, "kind", 40, 24, 30, 3, 3)
		if i == 0 {
			k = 1
		}
		var o op
		switch k {
		case 0:
			o.K = opReport
			o.A = fakecc.Uniform(rt, "child", 12)
			// TF 40, READY 20, CONNECTING 25, IDLE 15
			o.B = []int{2, 0, 1, 3}[fakecc.Weighted(rt, "state", 40, 20, 25, 15)]
		case 1:
			o.K = opConfig
			// derive the new priority list from the current one so that
			// reorders / removals / additions of single names are common.
			next := append([]int(nil), cur...)
			switch m := fakecc.Weighted(rt, "mut", 36, 16, 12, 12, 16, 8); {
			case len(next) == 0 || m == 5: // fresh list
				next = nil
				for _, x := range []int{0, 1, 2, 3, 4} {
					if fakecc.Uniform(rt, "in", 3) > 0 {
						next = append(next, x)
					}
				}
				for j := len(next) - 1; j > 0; j-- {
					r := fakecc.Uniform(rt, "perm", j+1)
					next[j], next[r] = next[r], next[j]
				}
			case m == 0 && len(next) >= 2: // swap two
				a, b := fakecc.Uniform(rt, "i", len(next)), fakecc.Uniform(rt, "j", len(next))
				next[a], next[b] = next[b], next[a]
			case m == 1: // add a name
				x := fakecc.Uniform(rt, "add", 5)
				present := false
				for _, y := range next {
					present = present || y == x
				}
				if !present {
					at := fakecc.Uniform(rt, "at", len(next)+1)
					next = append(next[:at], append([]int{x}, next[at:]...)...)
				}
			case m == 2: // remove a name
				at := fakecc.Uniform(rt, "del", len(next))
				next = append(next[:at], next[at+1:]...)
			case m == 3: // change one child's policy type
				pol[next[fakecc.Uniform(rt, "polname", len(next))]] = fakecc.Uniform(rt, "pol", 3)
			case m == 4: // move the last to the front
				next = append([]int{next[len(next)-1]}, next[:len(next)-1]...)
			}
			if fakecc.Uniform(rt, "empty", 25) == 0 {
				next = nil
			}
			cur = next
			for _, x := range cur {
				o.Prio = append(o.Prio, x)
				o.Pol = append(o.Pol, pol[x])
				o.Init = append(o.Init, []int{-1, 1, 1, 0, 2, 3}[fakecc.Uniform(rt, "init", 6)])
			}
		case 2:
			o.K = opAdvance
			o.A = fakecc.Weighted(rt, "dt", 45, 15, 15, 8, 8, 9)
		case 3:
			o.K = opResolverError
		default:
			o.K = opExitIdle
		}
		p.Ops = append(p.Ops, o)
	}
	return p
}

// ---- model

type inst struct { // one policy instance (one Build)
	name, pol int
	stub      *stubs.Child
	hasState  bool
	lastState connectivity.State
	picker    *stubs.Picker
	initial   bool // picker is the instance's first (inline) report; resolved after binding
	closed    bool
}

func (in *inst) pk() *stubs.Picker {
	if in.initial && in.picker == nil && in.stub != nil {
		if r := in.stub.Reports(); len(r) > 0 {
			return r[0]
		}
	}
	return in.picker
}

type mchild struct {
	pol        int
	started    bool
	in         *inst
	state      connectivity.State
	reported   bool
	fromInst   *inst // instance whose picker is current (for lazy resolution)
	timer      time.Duration // deadline, 0 = not running
	reportedTF bool
}

type event struct {
	in *inst
	s  connectivity.State
}

type cacheEntry struct {
	in     *inst
	expiry time.Duration
}

type model struct {
	children map[int]*mchild
	prios    []int
	inUse    int
	cache    map[int]*cacheEntry
	now      time.Duration
	queue    []event
	builds   []*inst
	initSt   map[int]int
	// statistics
	timerExpiries, failovers, reorders, cacheReuse, cacheExpiry, polChanges, higherReady int
}

func (m *model) build(name, pol int) *inst {
	in := &inst{name: name, pol: pol}
	m.builds = append(m.builds, in)
	if s, ok := m.initSt[name]; ok && s >= 0 {
		in.initial = true
		m.queue = append(m.queue, event{in, connStates[s]})
	}
	return in
}

func (m *model) start(name int) {
	c := m.children[name]
	c.started, c.state, c.reported, c.fromInst = true, connectivity.Connecting, false, nil
	if e := m.cache[name]; e != nil {
		delete(m.cache, name)
		if e.in.pol == c.pol {
			m.cacheReuse++
			c.in = e.in
			if e.in.hasState { // the balancer group re-sends the cached state
				m.queue = append(m.queue, event{e.in, e.in.lastState})
			}
		} else {
			e.in.closed = true
			c.in = m.build(name, c.pol)
		}
	} else {
		c.in = m.build(name, c.pol)
	}
	c.timer = m.now + initTimeout
}

func (m *model) stop(name int, immediate bool) {
	c := m.children[name]
	if c == nil || !c.started {
		return
	}
	c.timer = 0
	if immediate {
		c.in.closed = true
	} else {
		m.cache[name] = &cacheEntry{c.in, m.now + cacheTimeout}
	}
	c.started, c.in, c.state, c.reported, c.reportedTF, c.fromInst = false, nil, connectivity.Connecting, false, false, nil
}

func (m *model) sync() {
	if len(m.prios) == 0 {
		return
	}
	sel := len(m.prios) - 1
	for p, name := range m.prios {
		c := m.children[name]
		if !c.started || c.state == connectivity.Ready || c.state == connectivity.Idle || (c.state == connectivity.Connecting && c.timer != 0) {
			sel = p
			break
		}
	}
	for _, name := range m.prios[sel+1:] {
		if m.children[name].started && m.children[m.prios[sel]].state == connectivity.Ready {
			m.higherReady++
		}
		m.stop(name, false)
	}
	name := m.prios[sel]
	if m.inUse != name && m.inUse >= 0 && sel > 0 {
		m.failovers++
	}
	m.inUse = name
	if !m.children[name].started {
		m.start(name)
	}
}

func (m *model) handle(ev event) {
	in := ev.in
	in.hasState, in.lastState = true, ev.s
	c := m.children[in.name]
	if c == nil || !c.started || c.in != in {
		return // cached or removed instance: only its cached state changes
	}
	old := c.state
	c.state, c.reported, c.fromInst = ev.s, true, in
	switch ev.s {
	case connectivity.Ready, connectivity.Idle:
		c.reportedTF, c.timer = false, 0
	case connectivity.TransientFailure:
		c.reportedTF, c.timer = true, 0
	case connectivity.Connecting:
		if !c.reportedTF && old != connectivity.Connecting && c.timer == 0 {
			c.timer = m.now + initTimeout
		}
	}
	m.sync()
}

func (m *model) drain() {
	for len(m.queue) > 0 {
		ev := m.queue[0]
		m.queue = m.queue[1:]
		m.handle(ev)
	}
}

func (m *model) config(prios, pols, inits []int) {
	newSet := map[int]int{}
	for i, name := range prios {
		newSet[name] = pols[i]
		m.initSt[name] = inits[i]
	}
	// reorder statistic
	pos := map[int]int{}
	for i, name := range m.prios {
		pos[name] = i
	}
	for i := 0; i < len(prios); i++ {
		for j := i + 1; j < len(prios); j++ {
			pi, ok1 := pos[prios[i]]
			pj, ok2 := pos[prios[j]]
			if ok1 && ok2 && pi > pj {
				m.reorders++
				i, j = len(prios), len(prios)
			}
		}
	}
	for name, pol := range newSet {
		c := m.children[name]
		if c == nil {
			m.children[name] = &mchild{pol: pol, state: connectivity.Connecting}
			continue
		}
		if c.pol != pol {
			m.polChanges++
			m.stop(name, true)
			c.pol = pol
		}
	}
	for name := range m.children {
		if _, ok := newSet[name]; !ok {
			m.stop(name, true)
			delete(m.children, name)
		}
	}
	m.prios = append([]int(nil), prios...)
	if len(prios) == 0 {
		m.inUse = -1
		return
	}
	m.sync()
	m.drain()
}

func (m *model) advance(d time.Duration) {
	target := m.now + d
	for {
		// earliest pending deadline <= target
		best, kind, who := target+1, 0, -1
		names := make([]int, 0, len(m.children))
		for name := range m.children {
			names = append(names, name)
		}
		sort.Ints(names)
		for _, name := range names {
			if c := m.children[name]; c.started && c.timer != 0 && c.timer < best {
				best, kind, who = c.timer, 1, name
			}
		}
		cnames := make([]int, 0, len(m.cache))
		for name := range m.cache {
			cnames = append(cnames, name)
		}
		sort.Ints(cnames)
		for _, name := range cnames {
			if e := m.cache[name]; e.expiry < best {
				best, kind, who = e.expiry, 2, name
			}
		}
		if kind == 0 {
			break
		}
		m.now = best
		if kind == 1 {
			m.children[who].timer = 0
			m.timerExpiries++
			m.sync()
			m.drain()
		} else {
			m.cache[who].in.closed = true
			delete(m.cache, who)
			m.cacheExpiry++
		}
	}
	m.now = target
}

// ---- execution

func run(t *testing.T, p plan) vk.Result {
	var res vk.Result
	msg := vk.Bubble(t, func(t *testing.T) { res = runInBubble(p) })
	if msg != "" && res.Violation == "" {
		return vk.Bad("bubble did not drain cleanly: %s", msg)
	}
	return res
}

func nameOf(c *stubs.Child) (int, bool) {
	ccs, ok := c.LastUpdate()
	if !ok {
		return 0, false
	}
	cfg, ok := ccs.BalancerConfig.(*stubs.Config)
	if !ok {
		return 0, false
	}
	var n int
	if _, err := fmt.Sscanf(cfg.Raw, "p%d", &n); err != nil {
		return 0, false
	}
	return n, true
}

func runInBubble(p plan) (res vk.Result) {
	hub := stubs.NewHub()
	defer hub.Release()
	cc := fakecc.New(hub.Key())
	pb := balancer.Get(priority.Name).Build(cc, hub.BuildOptions())
	m := &model{children: map[int]*mchild{}, cache: map[int]*cacheEntry{}, inUse: -1, initSt: map[int]int{}}
	closed := false
	defer func() {
		if !closed {
			pb.Close()
		}
		synctest.Wait()
	}()

	hub.OnUpdate = func(c *stubs.Child, ccs balancer.ClientConnState) error {
		if c.Count(stubs.CUpdateClientConnState) != 1 {
			return nil
		}
		if n, ok := nameOf(c); ok {
			if s, ok := m.initSt[n]; ok && s >= 0 {
				c.Report(connStates[s])
			}
		}
		return nil
	}
	bound := 0 // number of hub children already bound to model instances

	check := func(desc string) string {
		// bind newly built stub children to the model's predicted builds.
		hc := hub.Children()
		if len(hc) != len(m.builds) {
			return fmt.Sprintf("%s: %d child policies built so far, model expects %d", desc, len(hc), len(m.builds))
		}
		var unbound []*inst
		for _, in := range m.builds {
			if in.stub == nil {
				unbound = append(unbound, in)
			}
		}
		for _, c := range hc[bound:] {
			n, ok := nameOf(c)
			if !ok {
				return fmt.Sprintf("%s: %v was built but never received its config", desc, c)
			}
			found := false
			for i, in := range unbound {
				if in.name == n && in.stub == nil {
					if c.Name != stubs.Names[in.pol] {
						return fmt.Sprintf("%s: child p%d built with policy %s, want %s", desc, n, c.Name, stubs.Names[in.pol])
					}
					in.stub, found = c, true
					unbound = append(unbound[:i], unbound[i+1:]...)
					break
				}
			}
			if !found {
				return fmt.Sprintf("%s: unexpected build of a policy for child p%d (model: I2/I3, lower priorities start only after all higher ones failed or timed out)", desc, n)
			}
		}
		bound = len(hc)
		// I2/I3: open instances == active ∪ cached.
		for _, in := range m.builds {
			n := in.stub.CloseCount()
			switch {
			case in.closed && n != 1:
				return fmt.Sprintf("%s: policy instance %v of child p%d should be closed exactly once, Close count %d", desc, in.stub, in.name, n)
			case !in.closed && n != 0:
				return fmt.Sprintf("%s: policy instance %v of child p%d was closed but the model has it active or cached (prios %v, in use p%d)", desc, in.stub, in.name, m.prios, m.inUse)
			}
		}
		for _, call := range hub.Log() {
			if call.AfterClose && call.Kind != stubs.CSubConnState {
				return fmt.Sprintf("%s: %v called on %v after Close", desc, call.Kind, call.Child)
			}
		}
		// I1/I4: last forwarded state.
		st, ok := cc.LastState()
		if len(m.prios) == 0 {
			if m.inUse == -1 && len(m.builds) == 0 && !ok {
				return ""
			}
			if !ok || st.ConnectivityState != connectivity.TransientFailure {
				return fmt.Sprintf("%s: all priorities removed but last forwarded state is %v", desc, st.ConnectivityState)
			}
			if _, err := st.Picker.Pick(balancer.PickInfo{}); !errors.Is(err, priority.ErrAllPrioritiesRemoved) {
				return fmt.Sprintf("%s: all priorities removed, picker error %v", desc, err)
			}
			return ""
		}
		if !ok {
			return fmt.Sprintf("%s: nothing forwarded to the parent", desc)
		}
		c := m.children[m.inUse]
		sp, isStub := st.Picker.(*stubs.Picker)
		if c.reported {
			want := c.fromInst.pk()
			if c.fromInst != c.in {
				return fmt.Sprintf("%s: harness: picker instance mismatch", desc)
			}
			// the latest picker of the instance in use
			if lr := c.in.stub.LastReport(); lr != nil {
				want = lr
			}
			if st.ConnectivityState != c.state || !isStub || sp != want {
				return fmt.Sprintf("%s: parent has %v/%v, want the latest state/picker %v/%v of the child in use p%d (prios %v)", desc, st.ConnectivityState, st.Picker, c.state, want, m.inUse, m.prios)
			}
		} else {
			if st.ConnectivityState != connectivity.Connecting || isStub {
				return fmt.Sprintf("%s: parent has %v/%v, want the CONNECTING placeholder of the freshly started child in use p%d (prios %v)", desc, st.ConnectivityState, st.Picker, m.inUse, m.prios)
			}
		}
		return ""
	}

	for i, o := range p.Ops {
		desc := fmt.Sprintf("op %d %+v", i, o)
		switch o.K {
		case opConfig:
			cfg := &priority.LBConfig{Children: map[string]*priority.Child{}}
			for j, name := range o.Prio {
				n := fmt.Sprintf("p%d", name)
				cfg.Priorities = append(cfg.Priorities, n)
				cfg.Children[n] = &priority.Child{Config: &iserviceconfig.BalancerConfig{Name: stubs.Names[o.Pol[j]], Config: &stubs.Config{Raw: n}}}
			}
			m.config(o.Prio, o.Pol, o.Init)
			if err := pb.UpdateClientConnState(balancer.ClientConnState{BalancerConfig: cfg}); err != nil {
				return vk.Bad("%s: UpdateClientConnState: %v", desc, err)
			}
		case opReport:
			// candidates: active instances in priority order, then cached ones.
			var cands []*inst
			for _, name := range m.prios {
				if c := m.children[name]; c.started {
					cands = append(cands, c.in)
				}
			}
			var cn []int
			for name := range m.cache {
				cn = append(cn, name)
			}
			sort.Ints(cn)
			for _, name := range cn {
				cands = append(cands, m.cache[name].in)
			}
			if len(cands) == 0 {
				continue
			}
			in := cands[o.A%len(cands)]
			s := connStates[o.B]
			in.initial = false
			in.picker = in.stub.Report(s)
			m.handle(event{in, s})
			m.drain()
		case opAdvance:
			m.advance(advances[o.A])
			time.Sleep(advances[o.A])
		case opResolverError:
			n0 := map[*inst]int{}
			for _, c := range m.children {
				if c.started {
					n0[c.in] = c.in.stub.Count(stubs.CResolverError)
				}
			}
			c0 := map[*inst]int{}
			for _, e := range m.cache {
				c0[e.in] = e.in.stub.Count(stubs.CResolverError)
			}
			pb.ResolverError(errors.New("resolver broke"))
			for in, n := range n0 {
				if in.stub.Count(stubs.CResolverError) != n+1 {
					return vk.Bad("%s: ResolverError not forwarded exactly once to started child p%d", desc, in.name)
				}
			}
			for in, n := range c0 {
				if in.stub.Count(stubs.CResolverError) != n {
					return vk.Bad("%s: ResolverError reached the policy of stopped child p%d (I2: priorities below the one in use are stopped)", desc, in.name)
				}
			}
		case opExitIdle:
			pb.ExitIdle()
		}
		synctest.Wait()
		res.Steps++
		if v := check(desc); v != "" {
			return vk.Bad("%s", v)
		}
	}
	// Close: every instance closed exactly once.
	pb.Close()
	closed = true
	synctest.Wait()
	for _, c := range hub.Children() {
		if c.CloseCount() != 1 {
			return vk.Bad("after Close: %v has Close count %d", c, c.CloseCount())
		}
	}
	res.NonTrivial = m.timerExpiries >= 1 && m.reorders >= 1
	cl := func(c bool, s string) {
		if c {
			res.Classes = append(res.Classes, s)
		}
	}
	cl(m.timerExpiries > 0, "init_timer_expired")
	cl(m.failovers > 0, "failover_to_lower")
	cl(m.higherReady > 0, "lower_stopped_by_higher_ready")
	cl(m.reorders > 0, "config_reorder")
	cl(m.cacheReuse > 0, "restart_from_cache")
	cl(m.cacheExpiry > 0, "cache_expired")
	cl(m.polChanges > 0, "child_policy_type_changed")
	return res
}

func TestVerifC39Priority(t *testing.T) {
	vk.Check(t, vk.Unit[plan]{
		ID: "C39", Name: "priority",
		Rule: "op lists (<=20/<=150) over priority_experimental with stub children in a bubble: configs derived from the previous one (swap two priorities, add, remove, change a child's policy type, rotate, fresh permutation of up to 5 names, occasionally empty; newly built children optionally report an initial state synchronously), child reports (active children in priority order and cached ones; TF 40% CONNECTING 25% READY 20% IDLE 15%), virtual-time advances (10s/4s/6s/1s/15min/20s), ResolverError, ExitIdle, Close at the end. non-trivial = >=1 init-timer expiry and >=1 config that reverses the relative order of two kept priorities",
		Gen:  genPlan, Run: run,
	})
}
