package c32_test

// C32: RPCs are only sent on READY subchannels via the latest picker.
//
// Black-box through the plan LB policy (e2elife.PickPlan, profile "gen"):
// picker generations are published by the plan (partly racing with RPC starts
// and with each other), every Pick call is logged with the generation of the
// picker it was made on, backends go down / come up / lose their connection.
// The oracle works on the pick log, the policy's SubConn state log and the
// servers' handler log.

import (
	"fmt"
	"os"
	"sync/atomic"
	"testing"

	"google.golang.org/grpc/codes"
	"google.golang.org/grpc/internal/verifkit/e2elife"
	"google.golang.org/grpc/internal/verifkit/vk"
	"pgregory.net/rapid"
)

// wantTerminal is the reference for picker answers that end the RPC.
func wantTerminal(p *e2elife.PickRec, waitForReady bool) (codes.Code, bool) {
	switch p.Res.Kind {
	case "status":
		c := codes.Code(p.Res.Code)
		switch c { // gRFC A54: codes reserved for the data plane
		case codes.InvalidArgument, codes.NotFound, codes.AlreadyExists, codes.FailedPrecondition, codes.Aborted, codes.OutOfRange, codes.DataLoss:
			return codes.Internal, true
		}
		return c, true
	case "err":
		if !waitForReady {
			return codes.Unavailable, true
		}
	}
	return 0, false
}

func oracle(r *e2elife.PickRig, final bool) string {
	type hinfo struct {
		h   *e2elife.HCall
		seq int
	}
	var hcalls []hinfo
	r.Handlers.Lock()
	for _, h := range r.Handlers.Calls {
		hcalls = append(hcalls, hinfo{h, e2elife.HandlerPickSeq(h)})
	}
	r.Handlers.Unlock()
	curGen := r.Ctl.Gen()
	r.Lock()
	defer r.Unlock()
	bySeq := map[int]*e2elife.PickRec{}
	owner := map[int]*e2elife.RPCRec{}
	for _, rec := range r.RPCs {
		for _, p := range rec.Picks {
			bySeq[p.Seq] = p
			owner[p.Seq] = rec
		}
	}
	// every RPC attempt that reached a server was started on the SubConn of the
	// pick it carries, and that SubConn was READY when the pick returned
	served := map[int]bool{}
	for _, hi := range hcalls {
		p := bySeq[hi.seq]
		if p == nil {
			return fmt.Sprintf("rpc %s reached a handler on %s without a recorded pick (pick seq %d)", hi.h.ID, hi.h.Tag, hi.seq)
		}
		served[hi.seq] = true
		if owner[hi.seq].ID != hi.h.ID {
			return fmt.Sprintf("rpc %s carries the pick result of rpc %s", hi.h.ID, owner[hi.seq].ID)
		}
		if p.Res.Kind != "ready" {
			return fmt.Sprintf("rpc %s reached a handler after a %q pick", hi.h.ID, p.Res.Kind)
		}
		if want := fmt.Sprintf("b%d", p.Addr); hi.h.Tag != want {
			return fmt.Sprintf("rpc %s: pick #%d returned the SubConn of %s but the RPC was sent to %s", hi.h.ID, p.Idx, want, hi.h.Tag)
		}
		if p.Stable && !p.AddrReady {
			return fmt.Sprintf("rpc %s: pick #%d (generation %d) returned the SubConn of b%d while it was not READY, yet the RPC attempt was started on it", hi.h.ID, p.Idx, p.Gen, p.Addr)
		}
	}
	for _, rec := range r.RPCs {
		if rec.C24 != "" {
			return fmt.Sprintf("rpc %s: C24 harvest: %s", rec.ID, rec.C24)
		}
		prev := 0
		for i, p := range rec.Picks {
			if i == 0 && p.Gen < rec.MinGen {
				return fmt.Sprintf("rpc %s: first pick used picker generation %d, but generation %d had been published before the RPC started", rec.ID, p.Gen, rec.MinGen)
			}
			if p.Gen < prev {
				return fmt.Sprintf("rpc %s: pick #%d used generation %d after generation %d", rec.ID, i, p.Gen, prev)
			}
			prev = p.Gen
		}
		if len(rec.Picks) == 0 {
			if !rec.Finished && curGen >= 1 && rec.Quiesced {
				return fmt.Sprintf("rpc %s has not called the picker although generation %d is published", rec.ID, curGen)
			}
			continue
		}
		lp := rec.Picks[len(rec.Picks)-1]
		code, msg := e2elife.StatusOf(rec.Err)
		// answers that end the RPC
		if want, ok := wantTerminal(lp, rec.Plan.WaitForReady); ok && !rec.Cancelled {
			if !rec.Finished {
				return fmt.Sprintf("rpc %s: picker answered %q (code %d) but the RPC has not terminated", rec.ID, lp.Res.Kind, lp.Res.Code)
			}
			if code != want {
				return fmt.Sprintf("rpc %s: picker answered %q (code %v); the RPC ended with (%v,%q), want %v", rec.ID, lp.Res.Kind, codes.Code(lp.Res.Code), code, msg, want)
			}
		}
		// answers that queue the RPC
		// ... until a newer picker is published: whatever connectivity state that
		// publish reports (also the same as before) and whether or not the picker
		// object is new, the queued RPC is evaluated against it - at quiescence its
		// last Pick call was made on the latest publish
		if lp.DefinitelyQueues(rec.Plan.WaitForReady) {
			if rec.Finished && !rec.Cancelled {
				return fmt.Sprintf("rpc %s: pick #%d (generation %d) was answered %q (SubConn ready=%v) and the RPC failed with (%v,%q) instead of waiting for a newer picker", rec.ID, lp.Idx, lp.Gen, lp.Res.Kind, lp.AddrReady, code, msg)
			}
			if !rec.Finished && lp.Gen != curGen {
				na := r.NextAnswer(rec)
				what := "would queue it again"
				switch {
				case na.Kind == "ready":
					what = fmt.Sprintf("would send it on the SubConn of b%d", na.Addr%r.Plan.Backends)
				case !na.WouldQueue(rec.Plan.WaitForReady):
					what = "would end it"
				}
				return fmt.Sprintf("rpc %s is queued after pick #%d on generation %d although %s has been published: the RPC was not evaluated against the latest picker (its answer %q %s)", rec.ID, lp.Idx, lp.Gen, r.DescribePub(curGen), na.Kind, what)
			}
		}
		// a READY answer must start the attempt
		if lp.Res.Kind == "ready" && lp.Stable && lp.AddrReady && !rec.Finished && !served[lp.Seq] && !r.Dirty() {
			return fmt.Sprintf("rpc %s: pick #%d returned the READY SubConn of b%d but no attempt reached that server", rec.ID, lp.Idx, lp.Addr)
		}
	}
	return ""
}

func classify(r *e2elife.PickRig) (bool, []string) {
	cl := map[string]bool{}
	nt := false
	r.Lock()
	for _, rec := range r.RPCs {
		blocked, gens := 0, map[int]bool{}
		for i, p := range rec.Picks {
			gens[p.Gen] = true
			if p.Res.Kind == "notready" && p.Res.Shut && !p.AddrShut {
				cl["answer_is_shut_subconn_before_shutdown_was_reported"] = true
			}
			if p.Res.Kind == "notready" && p.Res.Shut && p.AddrShut {
				cl["answer_is_subconn_in_shutdown"] = true
				if i > 0 && !rec.Plan.WaitForReady {
					cl["failfast_rpc_requeued_behind_subconn_in_shutdown"] = true
				}
			}
			if p.Blocking(rec.Plan.WaitForReady) {
				blocked++
				if p.Res.Kind == "ready" {
					cl["ready_answer_on_nonready_subconn"] = true
					if !p.Stable {
						cl["readiness_racing_pick"] = true
					}
				}
			}
		}
		if blocked >= 2 {
			nt = true
		}
		cl[fmt.Sprintf("queued_%dx", min(blocked, 4))] = true
		if len(rec.Picks) > 0 && rec.Picks[0].Gen > rec.MinGen {
			cl["first_pick_on_newer_generation"] = true
		}
		if len(rec.Picks) >= 2 && rec.Picks[len(rec.Picks)-1].Gen-rec.Picks[len(rec.Picks)-2].Gen >= 2 {
			cl["skipped_generation"] = true
		}
		code, _ := e2elife.StatusOf(rec.Err)
		cl["final_"+code.String()] = true
	}
	r.Unlock()
	for _, c := range r.PublishClasses() {
		cl[c] = true
	}
	var out []string
	for c := range cl {
		out = append(out, c)
	}
	return nt, out
}

// Shares of the two "publish that does not look like news" classes, per
// process; checked after the run (see classFloors).
var nCases, nSameState, nSameObject atomic.Int64

// classFloors: the non-trivial rule asks for same_state_publish_with_queued_rpc
// in >= 20 % and same_picker_object_republished_with_queued_rpc in >= 10 % of
// the cases (measured over whole runs in notes). One shard is too
// small to test those shares exactly; a shard that stays below half of them
// means the generator is broken and makes the run INCONCLUSIVE.
func classFloors(t *testing.T) {
	n := nCases.Load()
	if os.Getenv("VERIF_REPLAY") != "" || n < 40 {
		return
	}
	if s := nSameState.Load(); 10*s < n {
		t.Errorf("VERIF-HARNESS generator health: same_state_publish_with_queued_rpc in %d of %d cases (< 10 %)", s, n)
	}
	if s := nSameObject.Load(); 20*s < n {
		t.Errorf("VERIF-HARNESS generator health: same_picker_object_republished_with_queued_rpc in %d of %d cases (< 5 %)", s, n)
	}
}

func run(t *testing.T, p e2elife.PickPlan) vk.Result {
	var res vk.Result
	msg := vk.Bubble(t, func(t *testing.T) {
		v, r, err := e2elife.Drive(p, oracle)
		if err != nil {
			res = vk.Result{Violation: "VERIF-HARNESS " + err.Error()}
			return
		}
		nt, cl := classify(r)
		nCases.Add(1)
		for _, c := range cl {
			switch c {
			case "same_state_publish_with_queued_rpc":
				nSameState.Add(1)
			case "same_picker_object_republished_with_queued_rpc":
				nSameObject.Add(1)
			}
		}
		res = vk.Result{NonTrivial: nt, Classes: cl, Steps: r.Steps}
		if v != "" {
			res.Violation = v
		}
	})
	if msg != "" && res.Violation == "" {
		return vk.Bad("bubble did not drain: %s", msg).With(res.Classes...)
	}
	return res
}

func TestVerifC32Picker(t *testing.T) {
	vk.Check(t, vk.Unit[e2elife.PickPlan]{
		ID: "C32", Name: "picker",
		Rule: "custom LB policy publishing generation-stamped pickers on plan command; per-RPC pick scripts over {plain error, ErrNoSubConnAvailable, status error, never-ready SubConn, SubConn of backend j (READY or not, depending on down/up/kill ops)}; 1-2 backends with one real server each; ops = start RPC (fail-fast / wait-for-ready), publish, finish handler, cancel, backend down/up, connection kill; a third of the ops race with the next one. publish = UpdateState(state, picker) where the state is a free choice among IDLE/CONNECTING/READY/TRANSIENT_FAILURE independent of the picker's answers (45% repeat the previous state, so runs of equal states; the channel itself starts CONNECTING) and 30% hand over the SAME stateful picker object as the previous publish (generation = publish, not object; a quiescence point precedes such a publish); 20% of the plans start RPCs before the first publish. non-trivial = an RPC queued by >= 2 pick answers (i.e. blocked across >= 2 picker generations); in addition class same_state_publish_with_queued_rpc (a publish reporting the same state as the previous one re-evaluated an RPC queued by the previous generation and did not queue it again) must hold in >= 20% and same_picker_object_republished_with_queued_rpc (a publish of the same picker object re-evaluated a queued RPC) in >= 10% of the cases",
		Gen:  func(rt *rapid.T) e2elife.PickPlan { return e2elife.GenPickPlan(rt, "gen", vk.Pick(16, 60)) },
		Run:  run,
	})
	classFloors(t)
}
