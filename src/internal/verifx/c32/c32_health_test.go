package c32_test

// C32, unit "health": SubConn state != transport liveness.
//
// Same rig as unit "picker" (plan LB policy that publishes pickers only on plan
// command, scripted Pick answers, one real server per backend, synctest
// bubble), plus subchannel-managed client-side health checking: the channel's
// service config carries healthCheckConfig.serviceName, the plan policy creates
// a generated subset of its SubConns with HealthCheckEnabled, package
// grpc/health is linked in (registers the client health-check function) and
// every backend runs a real health.Server behind a thin fault-injecting
// wrapper (Watch may hang before the first response, be rejected with
// UNAVAILABLE, answer UNIMPLEMENTED, or be broken off mid-stream). The plan
// toggles the serving status per service / shuts the health server down /
// resumes it. A health-checked subchannel keeps its transport while the health
// stream moves it through CONNECTING / TRANSIENT_FAILURE, and because the
// policy publishes only on command the latest picker keeps returning a SubConn
// that is no longer READY.

import (
	"context"
	"fmt"
	"os"
	"sort"
	"sync"
	"testing"
	"time"

	"google.golang.org/grpc"
	"google.golang.org/grpc/codes"
	"google.golang.org/grpc/connectivity"
	"google.golang.org/grpc/health"
	healthgrpc "google.golang.org/grpc/health/grpc_health_v1"
	healthpb "google.golang.org/grpc/health/grpc_health_v1"
	"google.golang.org/grpc/internal/verifkit/e2elife"
	"google.golang.org/grpc/internal/verifkit/vk"
	"google.golang.org/grpc/stats"
	"google.golang.org/grpc/status"
	"google.golang.org/protobuf/proto"
	"pgregory.net/rapid"
)

const (
	hcService = "verif.Life"  // healthCheckConfig.serviceName
	hcOther   = "verif.Other" // a service nobody watches
)

var hcModes = []string{"serve", "hang", "reject", "unimpl"}

// hcInit is the initial health configuration of one backend.
type hcInit struct {
	Status int    `json:"status"` // -1: service never registered with the health server; else a ServingStatus (0..3)
	Mode   string `json:"mode"`   // serve | hang | reject | unimpl (how Watch calls are treated)
	Down   bool   `json:"down,omitempty"`
}

// hcPlan is a PickPlan plus the health configuration. Additional op kinds:
//
//	hset    K=backend Code=ServingStatus Dur=1: the unrelated service   health.Server.SetServingStatus
//	hdown   K=backend                                                    health.Server.Shutdown
//	hresume K=backend                                                    health.Server.Resume
//	hmode   K=backend Code=index into hcModes                            treatment of (hung and future) Watch calls
//	hbreak  K=backend                                                    active Watch streams end with CANCELLED
//	hsleep  Dur                                                          advance virtual time (health-check backoff)
type hcPlan struct {
	e2elife.PickPlan
	HC    []bool   `json:"hc"`              // per backend: SubConn created with HealthCheckEnabled
	NoCfg bool     `json:"nocfg,omitempty"` // service config without healthCheckConfig (control)
	Init  []hcInit `json:"init"`
}

// hcCodec is the raw codec for the Life service and proto for the health service.
type hcCodec struct{ e2elife.RawCodec }

func (c hcCodec) Marshal(v any) ([]byte, error) {
	if m, ok := v.(proto.Message); ok {
		return proto.Marshal(m)
	}
	return c.RawCodec.Marshal(v)
}

func (c hcCodec) Unmarshal(data []byte, v any) error {
	if m, ok := v.(proto.Message); ok {
		return proto.Unmarshal(data, m)
	}
	return c.RawCodec.Unmarshal(data, v)
}

type hcConnEv struct{ Seq, Delta int }

// hcBackend is the health side of one backend: the real health.Server, the
// Watch treatment and the server-side connection log (transport liveness).
type hcBackend struct {
	hs *health.Server

	mu      sync.Mutex
	mode    string
	wake    chan struct{}
	cancels map[int]context.CancelFunc
	nextID  int
	last    string // how the latest Watch call on the current connection was treated
	watches int
	conns   int
	connLog []hcConnEv
}

type hcWatchStream struct {
	healthgrpc.Health_WatchServer
	ctx context.Context
}

func (s *hcWatchStream) Context() context.Context { return s.ctx }

// hcServer wraps the real health.Server (Check / List / status bookkeeping are
// its own); only Watch is intercepted.
type hcServer struct {
	*health.Server
	b *hcBackend
}

func (w *hcServer) Watch(req *healthpb.HealthCheckRequest, stream healthgrpc.Health_WatchServer) error {
	b := w.b
	ctx, cancel := context.WithCancel(stream.Context())
	defer cancel()
	b.mu.Lock()
	id := b.nextID
	b.nextID++
	b.cancels[id] = cancel
	b.watches++
	b.mu.Unlock()
	defer func() {
		b.mu.Lock()
		delete(b.cancels, id)
		b.mu.Unlock()
	}()
	for {
		b.mu.Lock()
		mode, wake := b.mode, b.wake
		if ctx.Err() == nil {
			b.last = mode
		}
		b.mu.Unlock()
		switch mode {
		case "hang":
			select {
			case <-wake:
				continue
			case <-ctx.Done():
				return status.Error(codes.Canceled, "verif: hung health watch ended")
			}
		case "reject":
			return status.Error(codes.Unavailable, "verif: health watch rejected")
		case "unimpl":
			return status.Error(codes.Unimplemented, "verif: health watch not implemented")
		}
		return w.Server.Watch(req, &hcWatchStream{Health_WatchServer: stream, ctx: ctx})
	}
}

// hcStats logs connection begin / end on the server side.
type hcStats struct {
	b   *hcBackend
	seq func() int
}

func (h *hcStats) TagRPC(ctx context.Context, _ *stats.RPCTagInfo) context.Context { return ctx }
func (h *hcStats) HandleRPC(context.Context, stats.RPCStats)                       {}
func (h *hcStats) TagConn(ctx context.Context, _ *stats.ConnTagInfo) context.Context {
	return ctx
}
func (h *hcStats) HandleConn(_ context.Context, s stats.ConnStats) {
	d := 0
	switch s.(type) {
	case *stats.ConnBegin:
		d = 1
	case *stats.ConnEnd:
		d = -1
	default:
		return
	}
	seq := h.seq()
	h.b.mu.Lock()
	h.b.conns += d
	h.b.connLog = append(h.b.connLog, hcConnEv{Seq: seq, Delta: d})
	if d > 0 {
		h.b.last = "none"
	}
	h.b.mu.Unlock()
}

// hcCase is the per-case harness state.
type hcCase struct {
	plan       hcPlan
	bk         []*hcBackend
	mismatches []string
}

func (c *hcCase) checked(i int) bool {
	return !c.plan.NoCfg && i >= 0 && i < len(c.plan.HC) && c.plan.HC[i]
}

func (c *hcCase) opts() e2elife.PickRigOpts {
	o := e2elife.PickRigOpts{HealthCheck: c.plan.HC, DialOpts: []grpc.DialOption{grpc.WithDefaultCallOptions(grpc.ForceCodec(hcCodec{}))}}
	if !c.plan.NoCfg {
		o.ServiceConfig = `"healthCheckConfig":{"serviceName":"` + hcService + `"},`
	}
	o.NewServer = func(r *e2elife.PickRig, i int, h func(grpc.ServerStream) error) *e2elife.Server {
		b := c.bk[i]
		sh := &hcStats{b: b, seq: func() int { return r.Ctl.NextSeq() }}
		return e2elife.StartServerSetup(h, func(s *grpc.Server) {
			healthgrpc.RegisterHealthServer(s, &hcServer{Server: b.hs, b: b})
		}, grpc.ForceServerCodec(hcCodec{}), grpc.StatsHandler(sh))
	}
	o.Op = c.op
	return o
}

func newHCCase(p hcPlan) *hcCase {
	c := &hcCase{plan: p}
	for i := 0; i < p.Backends; i++ {
		b := &hcBackend{hs: health.NewServer(), mode: "serve", wake: make(chan struct{}), cancels: map[int]context.CancelFunc{}, last: "none"}
		if i < len(p.Init) {
			in := p.Init[i]
			if in.Mode != "" {
				b.mode = in.Mode
			}
			if in.Status >= 0 {
				b.hs.SetServingStatus(hcService, healthpb.HealthCheckResponse_ServingStatus(in.Status))
			}
			if in.Down {
				b.hs.Shutdown()
			}
		}
		c.bk = append(c.bk, b)
	}
	return c
}

// op executes the health operations. Each of them may change the readiness of
// a SubConn, so picks made before the next quiescence point are not "Stable".
func (c *hcCase) op(r *e2elife.PickRig, o e2elife.PickOp) bool {
	if o.Kind == "hsleep" {
		r.SetDirty()
		time.Sleep(time.Duration(o.Dur))
		return true
	}
	if len(c.bk) == 0 {
		return false
	}
	b := c.bk[o.K%len(c.bk)]
	switch o.Kind {
	case "hset":
		r.SetDirty()
		svc := hcService
		if o.Dur == 1 {
			svc = hcOther
		}
		b.hs.SetServingStatus(svc, healthpb.HealthCheckResponse_ServingStatus(o.Code%4))
	case "hdown":
		r.SetDirty()
		b.hs.Shutdown()
	case "hresume":
		r.SetDirty()
		b.hs.Resume()
	case "hmode":
		r.SetDirty()
		b.mu.Lock()
		b.mode = hcModes[o.Code%len(hcModes)]
		close(b.wake)
		b.wake = make(chan struct{})
		b.mu.Unlock()
	case "hbreak":
		r.SetDirty()
		b.mu.Lock()
		var cs []context.CancelFunc
		ids := make([]int, 0, len(b.cancels))
		for id := range b.cancels {
			ids = append(ids, id)
		}
		sort.Ints(ids)
		for _, id := range ids {
			cs = append(cs, b.cancels[id])
		}
		if len(cs) > 0 {
			b.last = "broken"
		}
		b.mu.Unlock()
		for _, f := range cs {
			f()
		}
	default:
		return false
	}
	return true
}

// stateAt returns the last state the policy's StateListener had logged for
// SubConn i before event seq (IDLE before any).
func hcStateAt(log []e2elife.SCState, seq int) connectivity.State {
	st := connectivity.Idle
	for _, s := range log {
		if s.Seq > seq {
			break
		}
		st = s.State
	}
	return st
}

func (b *hcBackend) connsAt(seq int) int {
	b.mu.Lock()
	defer b.mu.Unlock()
	n := 0
	for _, e := range b.connLog {
		if e.Seq > seq {
			break
		}
		n += e.Delta
	}
	return n
}

// expectReady is the reference expectation for SubConn i at a quiescence point
// (diagnostic only: it measures that the generator really produces the states
// it is meant to; it is not part of the C32 verdict).
func (c *hcCase) expectReady(i int) bool {
	b := c.bk[i]
	b.mu.Lock()
	conns, last := b.conns, b.last
	b.mu.Unlock()
	if conns <= 0 {
		return false
	}
	if !c.checked(i) {
		return true
	}
	switch last {
	case "unimpl":
		return true
	case "serve":
		resp, err := b.hs.Check(context.Background(), &healthpb.HealthCheckRequest{Service: hcService})
		return err == nil && resp.GetStatus() == healthpb.HealthCheckResponse_SERVING
	}
	return false
}

// hcPickView is what the logs say about one pick that returned a backend's SubConn.
type hcPickView struct {
	state   connectivity.State
	live    bool // the backend had an open connection from this channel
	checked bool // the SubConn is health-checked
}

func (c *hcCase) view(r *e2elife.PickRig, states map[int][]e2elife.SCState, p *e2elife.PickRec) hcPickView {
	if _, ok := states[p.Addr]; !ok {
		states[p.Addr] = r.Ctl.States(p.Addr)
	}
	v := hcPickView{state: hcStateAt(states[p.Addr], p.Seq), checked: c.checked(p.Addr)}
	if p.Addr < len(c.bk) {
		v.live = c.bk[p.Addr].connsAt(p.Seq) > 0
	}
	return v
}

// oracle = the unit "picker" oracle plus the health-specific restatement: an
// attempt never reaches a backend from a pick whose SubConn was, by the
// policy's StateListener log, not READY when the pick returned; the RPC stays
// queued on the latest generation.
func (c *hcCase) oracle(r *e2elife.PickRig, final bool) string {
	if v := c.healthOracle(r); v != "" {
		return v
	}
	return oracle(r, final)
}

func (c *hcCase) healthOracle(r *e2elife.PickRig) string {
	type hinfo struct {
		h   *e2elife.HCall
		seq int
	}
	var hcalls []hinfo
	r.Handlers.Lock()
	for _, h := range r.Handlers.Calls {
		hcalls = append(hcalls, hinfo{h, e2elife.HandlerPickSeq(h)})
	}
	r.Handlers.Unlock()
	curGen := r.Ctl.Gen()
	states := map[int][]e2elife.SCState{}
	r.Lock()
	defer r.Unlock()
	served := map[int]string{}
	for _, hi := range hcalls {
		served[hi.seq] = hi.h.Tag
	}
	for _, rec := range r.RPCs {
		for i, p := range rec.Picks {
			if p.Res.Kind != "ready" || !p.Stable {
				continue
			}
			v := c.view(r, states, p)
			if (v.state == connectivity.Ready) != p.AddrReady {
				return fmt.Sprintf("VERIF-HARNESS rpc %s pick #%d: state log says %v at pick return but the picker saw ready=%v", rec.ID, p.Idx, v.state, p.AddrReady)
			}
			if v.state == connectivity.Ready {
				continue
			}
			if tag, ok := served[p.Seq]; ok {
				return fmt.Sprintf("rpc %s: pick #%d (generation %d) returned the SubConn of b%d in state %v (health-checked=%v, connection open=%v); the RPC attempt was nevertheless started on it and reached the handler of %s", rec.ID, p.Idx, p.Gen, p.Addr, v.state, v.checked, v.live, tag)
			}
			if i != len(rec.Picks)-1 {
				if nx := rec.Picks[i+1]; nx.Gen <= p.Gen {
					return fmt.Sprintf("rpc %s: pick #%d on generation %d follows pick #%d on generation %d that returned a SubConn in state %v", rec.ID, nx.Idx, nx.Gen, p.Idx, p.Gen, v.state)
				}
				continue
			}
			if rec.Finished && !rec.Cancelled {
				code, msg := e2elife.StatusOf(rec.Err)
				return fmt.Sprintf("rpc %s: last pick #%d (generation %d) returned the SubConn of b%d in state %v and the RPC ended with (%v,%q) instead of waiting for a newer picker", rec.ID, p.Idx, p.Gen, p.Addr, v.state, code, msg)
			}
			if !rec.Finished && p.Gen != curGen {
				return fmt.Sprintf("rpc %s is still queued on generation %d (SubConn of b%d was %v) although generation %d has been published", rec.ID, p.Gen, p.Addr, v.state, curGen)
			}
		}
	}
	// diagnostic: reference expectation of every SubConn's state
	for i := range c.bk {
		got := r.Ctl.State(i) == connectivity.Ready
		if want := c.expectReady(i); got != want {
			c.bk[i].mu.Lock()
			m := fmt.Sprintf("SubConn b%d: policy sees %v, reference expects ready=%v (checked=%v conns=%d last watch=%q mode=%q)", i, r.Ctl.State(i), want, c.checked(i), c.bk[i].conns, c.bk[i].last, c.bk[i].mode)
			c.bk[i].mu.Unlock()
			c.mismatches = append(c.mismatches, m)
			if os.Getenv("VERIF_C32_MODEL") != "" {
				return "VERIF-HARNESS model: " + m
			}
		}
	}
	return ""
}

func (c *hcCase) classify(r *e2elife.PickRig) (bool, []string) {
	cl := map[string]bool{}
	nt := false
	states := map[int][]e2elife.SCState{}
	hserved := map[string]bool{}
	r.Handlers.Lock()
	for _, h := range r.Handlers.Calls {
		hserved[h.ID] = true
	}
	r.Handlers.Unlock()
	r.Lock()
	for _, rec := range r.RPCs {
		unhealthy := false
		for _, p := range rec.Picks {
			if p.Res.Kind != "ready" {
				continue
			}
			if !p.Stable {
				cl["readiness_racing_pick"] = true
				continue
			}
			v := c.view(r, states, p)
			switch {
			case v.state == connectivity.Ready && v.checked:
				cl["pick_of_healthy_checked_subconn"] = true
			case v.state == connectivity.Ready:
				cl["pick_of_ready_unchecked_subconn"] = true
			case v.live && v.checked && (v.state == connectivity.Connecting || v.state == connectivity.TransientFailure):
				nt, unhealthy = true, true
				cl["pick_of_unhealthy_subconn_with_live_transport"] = true
				cl["unhealthy_live_"+v.state.String()] = true
			case v.live:
				cl["pick_of_nonready_subconn_with_connection_"+v.state.String()] = true
			default:
				cl["pick_of_subconn_without_transport"] = true
			}
		}
		if unhealthy {
			if hserved[rec.ID] {
				cl["unhealthy_pick_then_served_after_newer_picker"] = true
			}
			if n := len(rec.Picks); !hserved[rec.ID] && rec.Picks[n-1].Blocking(rec.Plan.WaitForReady) {
				cl["unhealthy_pick_rpc_queued_to_the_end"] = true
			}
		}
	}
	r.Unlock()
	for i, b := range c.bk {
		b.mu.Lock()
		if b.watches > 0 {
			cl["health_watch_seen"] = true
		}
		if b.watches > 1 {
			cl["health_watch_retried"] = true
		}
		b.mu.Unlock()
		seen := map[connectivity.State]bool{}
		for _, s := range r.Ctl.States(i) {
			seen[s.State] = true
		}
		if c.checked(i) && seen[connectivity.Ready] && seen[connectivity.TransientFailure] {
			cl["checked_subconn_ready_and_tf"] = true
		}
	}
	if len(c.mismatches) > 0 {
		cl["hc_model_mismatch"] = true
	}
	if c.plan.NoCfg {
		cl["no_health_check_config"] = true
	}
	var out []string
	for k, v := range cl {
		if v {
			out = append(out, k)
		}
	}
	sort.Strings(out)
	return nt, out
}

func runHealth(t *testing.T, p hcPlan) vk.Result {
	var res vk.Result
	msg := vk.Bubble(t, func(t *testing.T) {
		c := newHCCase(p)
		v, r, err := e2elife.DriveOpts(p.PickPlan, c.opts(), c.oracle)
		if err != nil {
			res = vk.Result{Violation: "VERIF-HARNESS " + err.Error()}
			return
		}
		nt, cl := c.classify(r)
		_, base := classify(r)
		for _, k := range base {
			if len(k) > 6 && (k[:6] == "queued" || k[:6] == "final_") {
				cl = append(cl, k)
			}
		}
		res = vk.Result{NonTrivial: nt, Classes: cl, Steps: r.Steps}
		if v != "" {
			res.Violation = v
		}
	})
	if msg != "" && res.Violation == "" {
		return vk.Bad("bubble did not drain: %s", msg).With(res.Classes...)
	}
	return res
}

// uni draws a (nearly) uniform number in [0, n) from single bits: rapid's
// integer generators are deliberately biased towards small values, which would
// distort the weights below. It shrinks towards 0.
func uni(rt *rapid.T, n int, label string) int {
	v := 0
	for i := 0; i < 10; i++ {
		v <<= 1
		if rapid.Bool().Draw(rt, label) {
			v |= 1
		}
	}
	return v % n
}

// weighted picks an index with the given weights (uniformly).
func weighted(rt *rapid.T, weights []int, label string) int {
	total := 0
	for _, w := range weights {
		total += w
	}
	n := uni(rt, total, label)
	for i, w := range weights {
		if n < w {
			return i
		}
		n -= w
	}
	return len(weights) - 1
}

func genHealthPlan(rt *rapid.T, maxOps int) hcPlan {
	p := hcPlan{}
	p.Backends = 1 + uni(rt, 2, "backends")
	p.NoCfg = uni(rt, 16, "nocfg") == 15
	for i := 0; i < p.Backends; i++ {
		p.HC = append(p.HC, uni(rt, 8, "hc") != 7)
		p.Init = append(p.Init, hcInit{
			Status: []int{1, 2, -1, 3, 0}[weighted(rt, []int{12, 5, 3, 2, 1}, "status")],
			Mode:   hcModes[weighted(rt, []int{16, 3, 2, 1}, "mode")],
			Down:   uni(rt, 16, "hdown") == 15,
		})
	}
	nowait := func() bool { return uni(rt, 4, "nowait") == 3 }
	genRes := func(addr int) e2elife.PickRes {
		res := e2elife.PickRes{}
		switch weighted(rt, []int{72, 10, 5, 7, 6}, "res") {
		case 0:
			res.Kind = "ready"
			res.Addr = addr
			if addr < 0 {
				res.Addr = uni(rt, p.Backends, "addr")
			}
			res.NoDone = uni(rt, 6, "nodone") == 5
		case 1:
			res.Kind = "nosc"
		case 2:
			res.Kind = "notready"
			res.NoDone = uni(rt, 6, "nodone") == 5
		case 3:
			res.Kind = "status"
			res.Code = 1 + uni(rt, 16, "code")
		default:
			res.Kind = "err"
		}
		return res
	}
	// addr >= 0: the first answer is that backend's SubConn
	genRPC := func(addr int) *e2elife.RPCPlan {
		rp := &e2elife.RPCPlan{WaitForReady: uni(rt, 3, "wfr") == 2, Unary: uni(rt, 4, "unary") == 3}
		for i, n := 0, 2+uni(rt, 4, "npicks"); i < n; i++ {
			if i == 0 && addr >= 0 {
				rp.Picks = append(rp.Picks, e2elife.PickRes{Kind: "ready", Addr: addr, NoDone: uni(rt, 6, "nodone") == 5})
				continue
			}
			rp.Picks = append(rp.Picks, genRes(-1))
		}
		return rp
	}
	add := func(o e2elife.PickOp) {
		o.NoWait = nowait()
		p.Ops = append(p.Ops, o)
	}
	p.Ops = append(p.Ops, e2elife.PickOp{Kind: "publish"})
	kinds := []string{"start", "publish", "hset", "episode", "hmode", "hbreak", "hdown", "hresume", "hsleep", "finish", "cancel", "down", "up", "kill"}
	weights := []int{22, 20, 14, 8, 5, 3, 2, 3, 3, 8, 3, 3, 4, 2}
	nops := 6 + uni(rt, maxOps-5, "nops")
	for len(p.Ops) < nops+1 {
		o := e2elife.PickOp{Kind: kinds[weighted(rt, weights, "op")]}
		switch o.Kind {
		case "start":
			o.RPC = genRPC(-1)
		case "finish":
			o.K = uni(rt, 6, "k")
			o.Code = []int{0, 14, 13, 5}[weighted(rt, []int{3, 1, 1, 1}, "fcode")]
		case "cancel", "down", "up", "kill", "hdown", "hresume", "hbreak":
			o.K = uni(rt, 6, "k")
		case "hset":
			o.K = uni(rt, 6, "k")
			o.Code = []int{1, 2, 3, 0}[weighted(rt, []int{6, 4, 1, 1}, "hstatus")]
			if uni(rt, 10, "other") == 9 {
				o.Dur = 1
			}
		case "hmode":
			o.K = uni(rt, 6, "k")
			o.Code = weighted(rt, []int{4, 2, 2, 1}, "hmode")
		case "hsleep":
			o.Dur = int64([]time.Duration{2 * time.Second, 500 * time.Millisecond, 5 * time.Second}[uni(rt, 3, "dur")])
		case "episode":
			// backend k turns unhealthy with its connection up, an RPC picks its
			// SubConn from the (stale) latest picker, the backend recovers, a
			// newer picker is published.
			k := uni(rt, p.Backends, "k")
			var sick, heal []e2elife.PickOp
			switch weighted(rt, []int{5, 2, 2, 2, 1}, "sick") {
			case 0:
				sick = []e2elife.PickOp{{Kind: "hset", K: k, Code: 2}}
				heal = []e2elife.PickOp{{Kind: "hset", K: k, Code: 1}}
			case 1: // stable CONNECTING: the retried Watch gets no response
				sick = []e2elife.PickOp{{Kind: "hmode", K: k, Code: 1}, {Kind: "hbreak", K: k}}
				heal = []e2elife.PickOp{{Kind: "hmode", K: k, Code: 0}, {Kind: "hset", K: k, Code: 1}}
			case 2:
				sick = []e2elife.PickOp{{Kind: "hdown", K: k}}
				heal = []e2elife.PickOp{{Kind: "hresume", K: k}}
			case 3: // Watch keeps failing: TRANSIENT_FAILURE <-> CONNECTING with backoff
				sick = []e2elife.PickOp{{Kind: "hmode", K: k, Code: 2}, {Kind: "hbreak", K: k}}
				heal = []e2elife.PickOp{{Kind: "hmode", K: k, Code: 0}, {Kind: "hset", K: k, Code: 1}, {Kind: "hsleep", Dur: int64(5 * time.Second)}}
			default:
				sick = []e2elife.PickOp{{Kind: "hset", K: k, Code: 3}}
				heal = []e2elife.PickOp{{Kind: "hset", K: k, Code: 1}}
			}
			for _, s := range sick {
				add(s)
			}
			add(e2elife.PickOp{Kind: "start", RPC: genRPC(k)})
			if uni(rt, 3, "midpub") == 2 {
				add(e2elife.PickOp{Kind: "publish"})
			}
			for _, h := range heal {
				add(h)
			}
			add(e2elife.PickOp{Kind: "publish"})
			continue
		}
		add(o)
	}
	return p
}

func TestVerifC32Health(t *testing.T) {
	vk.Check(t, vk.Unit[hcPlan]{
		ID: "C32", Name: "health",
		Rule: "unit picker's rig plus subchannel-managed health checking: healthCheckConfig in the service config, a generated subset of the plan policy's SubConns created with HealthCheckEnabled, every backend runs a real health.Server (initial status SERVING / NOT_SERVING / unknown service / shut down) behind a wrapper that can hang, reject, answer UNIMPLEMENTED to or break off Watch streams; ops = start RPC, publish (the policy publishes only on command, so a state change is never followed by a new picker unless the plan says so), set serving status (watched or unrelated service), health server shutdown / resume, Watch treatment, break streams, advance virtual time (health backoff), finish handler, cancel, backend down/up, connection kill; a quarter of the ops race with the next one. non-trivial = some pick made while no readiness-changing op was in flight returned a health-checked SubConn whose StateListener log said CONNECTING or TRANSIENT_FAILURE while the backend still had the channel's connection open (class pick_of_unhealthy_subconn_with_live_transport)",
		Gen:  func(rt *rapid.T) hcPlan { return genHealthPlan(rt, vk.Pick(16, 40)) },
		Run:  runHealth,
	})
}
