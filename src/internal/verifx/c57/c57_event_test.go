package c57_test

// C57 (event units): grpcsync.Event.Fire is reported as "newly fired" to
// exactly one of any number of concurrent firers.
//
//   - "event": bubble; k goroutines are released at the same virtual instant
//     (optionally in groups at consecutive instants) and call Fire 1..m times
//     each; observers check Done/HasFired before and after.
//   - "eventstress": the same without a bubble on real cores (the driver builds
//     this unit with the race detector): k goroutines spin on a start flag and
//     call Fire; many rounds per case. This variant is a stress test: its
//     interleavings are not controlled and not replayable.

import (
	"fmt"
	"runtime"
	"sync"
	"sync/atomic"
	"testing"
	"testing/synctest"
	"time"

	"google.golang.org/grpc/internal/grpcsync"
	"google.golang.org/grpc/internal/verifkit/vk"
	"pgregory.net/rapid"
)

type evPlan struct {
	Firers []evFirer `json:"firers"`
}

type evFirer struct {
	At    int `json:"at"`    // virtual tick at which the goroutine starts firing
	Times int `json:"times"` // number of Fire calls
}

func genEvPlan(rt *rapid.T) evPlan {
	k := rapid.IntRange(1, vk.Pick(8, 32)).Draw(rt, "k")
	var p evPlan
	spread := rapid.IntRange(0, 2).Draw(rt, "spread")
	for i := 0; i < k; i++ {
		p.Firers = append(p.Firers, evFirer{At: rapid.IntRange(0, spread).Draw(rt, "at"), Times: rapid.IntRange(1, 3).Draw(rt, "times")})
	}
	return p
}

func runEv(t *testing.T, p evPlan) vk.Result {
	var viol string
	sameInstant := 0
	msg := vk.Bubble(t, func(t *testing.T) {
		e := grpcsync.NewEvent()
		if e.HasFired() {
			viol = "new Event reports HasFired"
			return
		}
		select {
		case <-e.Done():
			viol = "Done() of a new Event is closed"
			return
		default:
		}
		var trues atomic.Int32
		var mu sync.Mutex
		var errs []string
		var wg sync.WaitGroup
		first := -1
		for _, f := range p.Firers {
			if first < 0 || f.At < first {
				first = f.At
			}
		}
		for i, f := range p.Firers {
			if f.At == first {
				sameInstant++
			}
			wg.Add(1)
			go func() {
				defer wg.Done()
				time.Sleep(time.Duration(f.At+1) * time.Millisecond)
				for j := 0; j < f.Times; j++ {
					if e.Fire() {
						trues.Add(1)
						// the winner closed the channel before returning
						select {
						case <-e.Done():
						default:
							mu.Lock()
							errs = append(errs, fmt.Sprintf("firer %d: Fire returned true but Done() is not closed", i))
							mu.Unlock()
						}
					}
					if !e.HasFired() {
						mu.Lock()
						errs = append(errs, fmt.Sprintf("firer %d: HasFired() false after Fire returned", i))
						mu.Unlock()
					}
				}
			}()
		}
		wg.Wait()
		synctest.Wait()
		if len(errs) > 0 {
			viol = errs[0]
			return
		}
		if n := trues.Load(); n != 1 {
			viol = fmt.Sprintf("%d of %d firers were told that their call fired the event, want exactly 1", n, len(p.Firers))
			return
		}
		select {
		case <-e.Done():
		default:
			viol = "Done() not closed after Fire"
		}
		if e.Fire() {
			viol = "a later Fire returned true again"
		}
	})
	if viol != "" {
		return vk.Bad("%s", viol)
	}
	if msg != "" {
		return vk.Bad("bubble did not drain: %s", msg)
	}
	res := vk.Result{NonTrivial: sameInstant >= 2, Steps: len(p.Firers)}
	if sameInstant >= 2 {
		res.Classes = append(res.Classes, "concurrent_firers_same_instant")
	}
	if sameInstant >= 8 {
		res.Classes = append(res.Classes, "concurrent_firers>=8")
	}
	return res
}

func TestVerifC57Event(t *testing.T) {
	vk.Check(t, vk.Unit[evPlan]{
		ID: "C57", Name: "event",
		Rule: "bubble: 1-8 (thorough 32) goroutines start firing at virtual tick 0..2 and call Fire 1-3 times each. non-trivial = at least two goroutines fire at the earliest instant (they race for the first Fire)",
		Gen:  genEvPlan, Run: runEv,
	})
}

// ---------------------------------------------------------------- stress

type evStressPlan struct {
	K      int `json:"k"`      // goroutines
	Rounds int `json:"rounds"` // events per case
	Times  int `json:"times"`  // Fire calls per goroutine and event
}

func genEvStress(rt *rapid.T) evStressPlan {
	return evStressPlan{
		K:      rapid.IntRange(2, 16).Draw(rt, "k"),
		Rounds: rapid.IntRange(1, vk.Pick(40, 200)).Draw(rt, "rounds"),
		Times:  rapid.IntRange(1, 2).Draw(rt, "times"),
	}
}

func runEvStress(_ *testing.T, p evStressPlan) vk.Result {
	contended := 0
	for r := 0; r < p.Rounds; r++ {
		e := grpcsync.NewEvent()
		var start atomic.Bool
		var ready, trues, falses atomic.Int32
		var notClosed atomic.Int32
		var wg sync.WaitGroup
		for i := 0; i < p.K; i++ {
			wg.Add(1)
			go func() {
				defer wg.Done()
				ready.Add(1)
				for !start.Load() {
					runtime.Gosched()
				}
				for j := 0; j < p.Times; j++ {
					if e.Fire() {
						trues.Add(1)
						select {
						case <-e.Done():
						default:
							notClosed.Add(1)
						}
					} else {
						falses.Add(1)
					}
				}
			}()
		}
		for int(ready.Load()) < p.K {
			runtime.Gosched()
		}
		start.Store(true)
		wg.Wait()
		if n := trues.Load(); n != 1 {
			return vk.Bad("round %d: %d of %d concurrent firers were told that their call fired the event, want exactly 1", r, n, p.K)
		}
		if notClosed.Load() != 0 {
			return vk.Bad("round %d: Fire returned true but Done() was not closed", r)
		}
		select {
		case <-e.Done():
		default:
			return vk.Bad("round %d: Done() not closed after Fire", r)
		}
		if int(falses.Load()) != p.K*p.Times-1 {
			return vk.Bad("round %d: %d Fire calls returned false, want %d", r, falses.Load(), p.K*p.Times-1)
		}
		contended++
	}
	res := vk.Result{NonTrivial: p.K >= 2 && contended > 0, Steps: p.Rounds}
	if runtime.GOMAXPROCS(0) >= 2 {
		res.Classes = append(res.Classes, "multi_core")
	}
	if p.K >= 8 {
		res.Classes = append(res.Classes, "firers>=8")
	}
	return res
}

func TestVerifC57EventStress(t *testing.T) {
	vk.Check(t, vk.Unit[evStressPlan]{
		ID: "C57", Name: "eventstress",
		Rule: "stress on real cores under the race detector: 2-16 goroutines spin on a start flag and call Fire 1-2 times on a fresh Event, 1-40 (thorough 200) rounds per case; interleavings are not controlled (schedule_control: stress). non-trivial = at least 2 firers",
		Gen:  genEvStress, Run: runEvStress,
	})
}
