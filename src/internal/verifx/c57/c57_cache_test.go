package c57_test

// C57 (cache unit): internal/cache.TimeoutCache. An entry's expiry callback
// runs at most once: never if the entry was removed before it expired, exactly
// once if it expired or the cache was cleared with callbacks; a removal
// returns the entry to exactly one caller.
//
// Bubble with virtual time. One controller goroutine performs the generated
// operations at generated virtual instants (ticks); the timeout is a whole
// number of ticks, so operations regularly fall on exactly the expiry instant
// of an entry. At such an instant the operation races for real with the timer
// callback unless the plan asks to "settle" first (synctest.Wait: all timer
// callbacks due at this instant have completed), so both orders occur. The
// model keeps the outcome open where the order is not determined and resolves
// it from what the cache returned; whatever the order, the final per-entry
// callback counts must be consistent with it.

import (
	"fmt"
	"sort"
	"sync"
	"testing"
	"testing/synctest"
	"time"

	"google.golang.org/grpc/internal/cache"
	"google.golang.org/grpc/internal/verifkit/vk"
	"pgregory.net/rapid"
)

type tcOp struct {
	Gap    int    `json:"gap"`              // ticks to sleep before the op (0 = same instant as the previous one)
	Settle bool   `json:"settle,omitempty"` // quiesce before the op
	K      string `json:"k"`                // add | remove | rrace | clear | clearcb | len
	Key    int    `json:"key,omitempty"`
	N      int    `json:"n,omitempty"` // rrace: number of concurrent removers
}

type tcPlan struct {
	Timeout int    `json:"timeout"` // ticks
	Ops     []tcOp `json:"ops"`
}

const tcTick = time.Millisecond

func genTcPlan(rt *rapid.T) tcPlan {
	p := tcPlan{Timeout: rapid.IntRange(1, 5).Draw(rt, "timeout")}
	n := rapid.IntRange(1, vk.Pick(20, 150)).Draw(rt, "n")
	nkeys := rapid.IntRange(1, 3).Draw(rt, "nkeys")
	// The generator keeps an approximate picture (key -> expiry tick of the
	// entry it believes present) so that it can aim operations at exactly an
	// expiry instant; the executor's model does not depend on it.
	now := 0
	expiry := map[int]int{}
	for i := 0; i < n; i++ {
		o := tcOp{}
		o.K = rapid.SampledFrom([]string{"add", "add", "add", "add", "remove", "remove", "remove", "rrace", "clear", "clearcb", "len"}).Draw(rt, "k")
		o.Key = rapid.IntRange(0, nkeys-1).Draw(rt, "key")
		aimed := false
		if len(expiry) > 0 && rapid.IntRange(0, 2).Draw(rt, "aim") == 0 {
			// go to the earliest pending expiry instant and act on that key
			bk, bt := -1, 0
			for k := 0; k < nkeys; k++ {
				if t, ok := expiry[k]; ok && t >= now && (bk < 0 || t < bt) {
					bk, bt = k, t
				}
			}
			if bk >= 0 {
				o.Gap, o.Key, aimed = bt-now, bk, true
			}
		}
		if !aimed {
			switch rapid.IntRange(0, 5).Draw(rt, "gapkind") {
			case 0, 1:
				o.Gap = 0
			case 2:
				o.Gap = p.Timeout // lands on the expiry instant of an entry added at the previous instant
			case 3:
				o.Gap = 1
			default:
				o.Gap = rapid.IntRange(0, p.Timeout+1).Draw(rt, "gap")
			}
		}
		o.Settle = rapid.IntRange(0, 4).Draw(rt, "settle") == 0
		if o.K == "rrace" {
			o.N = rapid.IntRange(2, 4).Draw(rt, "n")
		}
		now += o.Gap
		for k, t := range expiry {
			if t < now {
				delete(expiry, k)
			}
		}
		switch o.K {
		case "add":
			if _, ok := expiry[o.Key]; !ok {
				expiry[o.Key] = now + p.Timeout
			}
		case "remove", "rrace":
			delete(expiry, o.Key)
		case "clear", "clearcb":
			expiry = map[int]int{}
		}
		p.Ops = append(p.Ops, o)
	}
	return p
}

// entry states
const (
	tcPresent     = iota // in the cache as far as the model knows
	tcRemoved            // returned by Remove: callback must never run
	tcExpired            // expired: callback exactly once, at the expiry instant
	tcClearedCB          // removed by Clear(true) (or expired at that very instant): exactly once
	tcClearedNoCB        // removed by Clear(false) strictly before expiry: never
	tcClearedOpen        // Clear(false) at the expiry instant, unsettled: 0 or 1
)

type tcEntry struct {
	id      int // also the item value
	key     int
	expiry  time.Duration
	state   int
	endAt   time.Duration // instant of Clear
	cbTimes []time.Duration
	removes int // how many Remove calls returned this item
}

func runTc(t *testing.T, p tcPlan) vk.Result {
	var viol string
	classes := map[string]bool{}
	nt := false
	steps := 0
	msg := vk.Bubble(t, func(t *testing.T) {
		t0 := time.Now()
		now := func() time.Duration { return time.Since(t0) }
		timeout := time.Duration(p.Timeout) * tcTick
		c := cache.NewTimeoutCache(timeout)
		var mu sync.Mutex // guards cbTimes (callbacks run on timer goroutines)
		var entries []*tcEntry
		cur := map[int]*tcEntry{} // key -> entry the model considers (possibly) present
		bad := func(format string, a ...any) {
			if viol == "" {
				viol = fmt.Sprintf(format, a...)
			}
		}
		cbCount := func(e *tcEntry) int {
			mu.Lock()
			defer mu.Unlock()
			return len(e.cbTimes)
		}
		settled := false
		// refresh moves entries whose expiry instant has certainly passed to
		// tcExpired. open(e) reports that e's fate is undetermined right now.
		open := func(e *tcEntry) bool { return e.state == tcPresent && now() == e.expiry && !settled }
		refresh := func() {
			for k, e := range cur {
				if e.state == tcPresent && (now() > e.expiry || (now() == e.expiry && settled)) {
					e.state = tcExpired
					delete(cur, k)
				}
			}
		}
		expire := func(e *tcEntry) {
			e.state = tcExpired
			delete(cur, e.key)
		}
		for i, o := range p.Ops {
			steps++
			if o.Gap > 0 {
				time.Sleep(time.Duration(o.Gap) * tcTick)
				settled = false
			}
			if o.Settle {
				synctest.Wait()
				settled = true
			}
			refresh()
			where := fmt.Sprintf("op %d %s key %d at %v", i, o.K, o.Key, now())
			e := cur[o.Key]
			switch o.K {
			case "add":
				id := len(entries) + 1
				ne := &tcEntry{id: id, key: o.Key, expiry: now() + timeout}
				item, ok := c.Add(o.Key, id, func() {
					at := time.Since(t0)
					mu.Lock()
					ne.cbTimes = append(ne.cbTimes, at)
					mu.Unlock()
				})
				switch {
				case ok:
					if item != any(id) {
						bad("%s: Add returned (%v, true), want the new item %d", where, item, id)
					}
					if e != nil {
						if !open(e) {
							bad("%s: Add replaced entry %d which had not expired (expiry %v)", where, e.id, e.expiry)
						}
						expire(e) // the old entry must have expired just now
						classes["add_at_expiry_instant_new"] = true
					}
					entries = append(entries, ne)
					cur[o.Key] = ne
				default:
					if e == nil {
						bad("%s: Add returned (%v, false) but the key is not in the cache", where, item)
					} else if item != any(e.id) {
						bad("%s: Add returned existing item %v, want %d", where, item, e.id)
					} else if open(e) {
						classes["add_at_expiry_instant_existing"] = true
					}
					// the callback of the rejected Add must never run: keep it
					// as an entry that was never in the cache
					ne.state = tcRemoved
					entries = append(entries, ne)
				}
			case "remove":
				item, ok := c.Remove(o.Key)
				switch {
				case ok:
					if e == nil || item != any(e.id) {
						bad("%s: Remove returned (%v, true) but the model has %v", where, item, e)
						break
					}
					if open(e) {
						classes["remove_at_expiry_instant_won"] = true
						nt = true
					}
					e.state = tcRemoved
					e.removes++
					delete(cur, o.Key)
				default:
					if item != nil {
						bad("%s: Remove returned (%v, false)", where, item)
					}
					if e != nil {
						if !open(e) {
							bad("%s: Remove did not find entry %d which has not expired (expiry %v)", where, e.id, e.expiry)
						} else {
							classes["remove_at_expiry_instant_lost"] = true
							nt = true
						}
						expire(e)
					}
				}
			case "rrace":
				var wg sync.WaitGroup
				oks := make([]bool, o.N)
				items := make([]any, o.N)
				for j := 0; j < o.N; j++ {
					wg.Add(1)
					go func() {
						defer wg.Done()
						items[j], oks[j] = c.Remove(o.Key)
					}()
				}
				wg.Wait()
				won := 0
				for j := range oks {
					if oks[j] {
						won++
						if e == nil || items[j] != any(e.id) {
							bad("%s: concurrent Remove returned (%v, true) but the model has %v", where, items[j], e)
						}
					}
				}
				if won > 1 {
					bad("%s: %d concurrent Remove calls all returned the entry", where, won)
				}
				if e != nil {
					switch {
					case won == 1:
						if open(e) {
							nt = true
						}
						e.state = tcRemoved
						e.removes++
						delete(cur, o.Key)
						classes["concurrent_remove_one_winner"] = true
					case open(e):
						nt = true
						expire(e)
					default:
						bad("%s: none of %d concurrent Remove calls found entry %d which has not expired", where, o.N, e.id)
					}
				}
			case "clear", "clearcb":
				withCB := o.K == "clearcb"
				keys := make([]int, 0, len(cur))
				for k := range cur {
					keys = append(keys, k)
				}
				sort.Ints(keys)
				c.Clear(withCB)
				for _, k := range keys {
					e := cur[k]
					wasOpen := open(e)
					switch {
					case withCB:
						e.state = tcClearedCB // expired-right-now or cleared: exactly one callback either way
					case wasOpen:
						e.state = tcClearedOpen
					default:
						e.state = tcClearedNoCB
					}
					if wasOpen {
						classes["clear_at_expiry_instant"] = true
						nt = true
					}
					e.endAt = now()
					delete(cur, k)
				}
				if got := c.Len(); got != 0 {
					bad("%s: Len() = %d right after Clear", where, got)
				}
			case "len":
				lo, hi := 0, 0
				for _, e := range cur {
					hi++
					if !open(e) {
						lo++
					}
				}
				if got := c.Len(); got < lo || got > hi {
					bad("%s: Len() = %d, want %d..%d", where, got, lo, hi)
				}
			}
			// callbacks never run more than once, and never for removed entries
			for _, e := range entries {
				n := cbCount(e)
				if n > 1 {
					bad("%s: callback of entry %d (key %d) ran %d times", where, e.id, e.key, n)
				}
				if n > 0 && (e.state == tcRemoved || e.state == tcClearedNoCB) {
					bad("%s: callback of entry %d (key %d) ran although the entry was removed before it expired", where, e.id, e.key)
				}
				if n > 0 && e.state == tcPresent && !open(e) {
					bad("%s: callback of entry %d (key %d) ran before its expiry %v", where, e.id, e.key, e.expiry)
				}
			}
			if viol != "" {
				return
			}
		}
		// let everything expire, then judge every entry
		time.Sleep(timeout + tcTick)
		synctest.Wait()
		settled = true
		refresh()
		if got := c.Len(); got != 0 {
			bad("end: Len() = %d after every entry expired", got)
		}
		for _, e := range entries {
			mu.Lock()
			times := append([]time.Duration(nil), e.cbTimes...)
			mu.Unlock()
			desc := fmt.Sprintf("entry %d (key %d, expiry %v)", e.id, e.key, e.expiry)
			if e.removes > 1 {
				bad("end: %s was returned by %d Remove calls", desc, e.removes)
			}
			switch e.state {
			case tcRemoved, tcClearedNoCB:
				if len(times) != 0 {
					bad("end: %s was removed before it expired but its callback ran at %v", desc, times)
				}
			case tcExpired:
				if len(times) != 1 {
					bad("end: %s expired but its callback ran %d times", desc, len(times))
				} else if times[0] != e.expiry {
					bad("end: %s expired but its callback ran at %v", desc, times[0])
				}
				classes["expired"] = true
			case tcClearedCB:
				if len(times) != 1 {
					bad("end: %s was cleared with callbacks at %v but its callback ran %d times", desc, e.endAt, len(times))
				} else if times[0] != e.endAt {
					bad("end: %s was cleared with callbacks at %v but its callback ran at %v", desc, e.endAt, times[0])
				}
				classes["cleared_with_callback"] = true
			case tcClearedOpen:
				if len(times) > 1 || (len(times) == 1 && times[0] != e.expiry) {
					bad("end: %s cleared without callbacks at its expiry instant: callback times %v", desc, times)
				}
			case tcPresent:
				bad("end: harness: %s still present in the model", desc)
			}
		}
	})
	if viol != "" {
		return vk.Bad("%s", viol)
	}
	if msg != "" {
		return vk.Bad("bubble did not drain: %s", msg)
	}
	res := vk.Result{NonTrivial: nt, Steps: steps}
	for c := range classes {
		res.Classes = append(res.Classes, c)
	}
	sort.Strings(res.Classes)
	return res
}

func TestVerifC57Cache(t *testing.T) {
	vk.Check(t, vk.Unit[tcPlan]{
		ID: "C57", Name: "cache",
		Rule: "bubble, virtual time: timeout 1-5 ticks, 1-3 keys, 1-20 (thorough 150) ops {Add, Remove, n concurrent Removes, Clear(false), Clear(true), Len} separated by gaps of 0, 1, timeout or random ticks, optionally settling (quiescence) first. non-trivial = a Remove/Clear was issued at exactly the expiry instant of a present entry without settling (it races with the timer callback)",
		Gen:  genTcPlan, Run: runTc,
	})
}
