package c42_test

// C42: ADS requests carry correct versions, nonces and subscriptions; NACK
// contents; node identity only on the first request of a stream; responses of
// an unregistered type are neither ACKed nor NACKed; no response is read
// until all watchers have finished processing the previous one.

import (
	"sort"
	"testing"

	"google.golang.org/grpc/internal/verifkit/vk"
	"google.golang.org/grpc/internal/verifkit/xdsrig"
	"pgregory.net/rapid"
)

func cfg() xdsrig.GenCfg {
	return xdsrig.GenCfg{
		MaxServers: 1, MinOps: 4, MaxOps: vk.Pick(30, 150),
		WWatch: 16, WUnwatch: 7, WResp: 30, WBreak: 13, WGrant: 20, WRelease: 14, WAdvance: 3, WRestart: 6,
		UnknownPct: 1, HoldPct: 20, BadPct: 25, RefusePct: 15, IgnoreDel: true,
	}
}

func gen(rt *rapid.T) xdsrig.Plan {
	c := cfg()
	p := xdsrig.Gen(rt, c)
	// most cases start with a watch and an established stream
	if rapid.IntRange(0, 9).Draw(rt, "prefix") < 8 {
		pre := []xdsrig.Op{
			{K: "watch", T: rapid.IntRange(0, 1).Draw(rt, "pt"), N: xdsrig.GenName(rt), Hold: rapid.Bool().Draw(rt, "ph")},
			{K: "grant", Accept: true},
		}
		p.Ops = append(pre, p.Ops...)
	}
	return p
}

func run(t *testing.T, p xdsrig.Plan) vk.Result {
	p.Servers = 1
	rep := xdsrig.Execute(t, p, xdsrig.AspWire)
	res := vk.Result{Steps: rep.Steps}
	for c := range rep.Classes {
		res.Classes = append(res.Classes, c)
	}
	sort.Strings(res.Classes)
	if rep.OffAspect != "" {
		res.Classes = append(res.Classes, "stopped_offaspect_divergence")
		return res
	}
	res.NonTrivial = rep.Stats.Nacks >= 1 && rep.Stats.RestartsWithSubs >= 1
	if rep.Violation != "" {
		return vk.Bad("%s", rep.Violation).With(res.Classes...)
	}
	if d, ok := rep.Known[xdsrig.SigUnknownTypeStall]; ok {
		r := vk.Bad("%s", d).With(res.Classes...)
		r.Sig = xdsrig.SigUnknownTypeStall
		return r
	}
	return res
}

func TestVerifC42Wire(t *testing.T) {
	vk.Check(t, vk.Unit[xdsrig.Plan]{
		ID: "C42", Name: "wire",
		Rule: "one management server; op sequences (watch/unwatch of 4 names x 2 types with holding watchers, responses with valid/invalid/undecodable/empty resource lists incl. unsubscribed names and unregistered type URLs, stream breaks, granted/refused re-creations, releases of held done callbacks, virtual-time advances) executed one event at a time in a synctest bubble; every request compared with a per-type protocol model. non-trivial = >= 1 NACK and >= 1 stream re-creation with live subscriptions",
		Gen:  gen, Run: run,
	})
}
