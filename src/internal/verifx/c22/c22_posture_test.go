package c22_test

// C22, unit "posture": where is the *application* when the RPC's end time comes?
//
// The points of unit "deadline" all have the application parked inside a
// blocking client API call (NewStream, SendMsg, RecvMsg, Invoke) at the end time
// E, and issue request/response RPCs only through Invoke. Here one RPC per case
// is made through the public ClientConn.NewStream with a generated stream
// description (zero-value / non-streaming descriptions included — a legal way
// to drive a request/response RPC) and the application follows the script
//
//	NewStream, SendMsg x n, CloseSend, [Header], RecvMsg until error
//
// with one generated pause ("the application does something else"): the
// application is either blocked in Header()/RecvMsg() at E, or idle between two
// API calls (after NewStream, before CloseSend, after CloseSend, after Header
// returned). It resumes the script a generated time after E (or only after the
// ClientConn was closed). The handler is parked (optionally it sent its
// headers / consumed the request), so nothing but the deadline / cancellation
// ends the RPC.
//
// Oracle (from the property statement, independent of the posture): the
// handler's context is done at exactly E (virtual time, asserted at quiescence)
// and its error is consistent with a client-side cancellation; the deadline
// clauses of unit "deadline"; a call the application was blocked in returns at
// exactly E; every call made after E returns without blocking, RecvMsg with a
// legal code (CANCELLED / DEADLINE_EXCEEDED as the reference model says); after
// cc.Close no handler context is live; the bubble drains.

import (
	"context"
	"fmt"
	"io"
	"sync"
	"testing"
	"testing/synctest"
	"time"

	"google.golang.org/grpc"
	"google.golang.org/grpc/codes"
	"google.golang.org/grpc/internal/verifkit/e2elife"
	"google.golang.org/grpc/internal/verifkit/vk"
	"google.golang.org/grpc/status"
	"pgregory.net/rapid"
)

type posturePlan struct {
	Desc       string `json:"desc"`        // zero | zero_named | bidi | sstream | cstream
	Posture    string `json:"posture"`     // in_recv | in_header | idle_after_send | idle_before_closesend | idle_after_newstream
	NSend      int    `json:"nsend"`       // messages sent (1 unless the description has ClientStreams)
	HeaderCall bool   `json:"header_call"` // the application calls Header() before its first RecvMsg (always in posture in_header)
	SrvHdr     bool   `json:"srv_hdr"`     // the handler sends its headers on entry
	SrvRecv    bool   `json:"srv_recv"`    // the handler calls RecvMsg once on entry
	StartDelay int64  `json:"start_delay"` // ns between bubble start and the RPC
	D          int64  `json:"d"`           // ctx deadline, ns after RPC start; -1 = none
	SC         int64  `json:"sc"`          // service config timeout in ns; -1 = none
	C          int64  `json:"c"`           // cancel, ns after RPC start; -1 = none
	Gap        int64  `json:"gap"`         // the application resumes its script Gap ns after E; -1 = only after cc.Close
}

// psUni draws a (nearly) uniform number in [0,n) from single bits (rapid's
// integer generators are biased towards small values and the bounds).
func psUni(rt *rapid.T, n int, label string) int {
	v := 0
	for i := 0; i < 10; i++ {
		v <<= 1
		if rapid.Bool().Draw(rt, label) {
			v |= 1
		}
	}
	return v % n
}

func psDesc(name string) *grpc.StreamDesc {
	switch name {
	case "zero":
		return &grpc.StreamDesc{}
	case "zero_named":
		return &grpc.StreamDesc{StreamName: "Call"}
	case "sstream":
		return &grpc.StreamDesc{StreamName: "Call", ServerStreams: true}
	case "cstream":
		return &grpc.StreamDesc{StreamName: "Call", ClientStreams: true}
	}
	return e2elife.BidiDesc
}

func genPosture(rt *rapid.T) posturePlan {
	p := posturePlan{D: -1, SC: -1, C: -1, NSend: 1}
	switch v := psUni(rt, 20, "desc"); {
	case v < 7:
		p.Desc = "zero"
	case v < 11:
		p.Desc = "zero_named"
	case v < 15:
		p.Desc = "bidi"
	case v < 18:
		p.Desc = "sstream"
	default:
		p.Desc = "cstream"
	}
	switch v := psUni(rt, 20, "posture"); {
	case v < 7:
		p.Posture = "idle_after_send"
	case v < 12:
		p.Posture = "idle_before_closesend"
	case v < 15:
		p.Posture = "idle_after_newstream"
	case v < 18:
		p.Posture = "in_header"
	default:
		p.Posture = "in_recv"
	}
	if psDesc(p.Desc).ClientStreams {
		p.NSend = rapid.IntRange(0, 2).Draw(rt, "nsend")
	}
	p.HeaderCall = p.Posture == "in_header" || psUni(rt, 4, "header_call") == 0
	p.SrvHdr = psUni(rt, 4, "srv_hdr") == 0
	p.SrvRecv = psUni(rt, 4, "srv_recv") == 0
	p.StartDelay = rapid.SampledFrom([]int64{0, 1, 999, 1234567, 3 * sec}).Draw(rt, "start_delay")
	max := 3 * day
	switch v := psUni(rt, 20, "ender"); {
	case v < 8: // cancel only
		p.C = genDur(rt, "c", max)
	case v < 13: // cancel first, a deadline and/or service-config timeout later (possibly only a few ns later)
		p.C = genDur(rt, "c", max)
		later := func(label string) int64 {
			if rapid.Bool().Draw(rt, label+"_near") {
				return p.C + rapid.Int64Range(1, 3).Draw(rt, label+"_delta")
			}
			return p.C + 1 + genDur(rt, label, max)
		}
		switch rapid.IntRange(0, 2).Draw(rt, "later") {
		case 0:
			p.D = later("d")
		case 1:
			p.SC = later("sc")
		default:
			p.D, p.SC = later("d"), later("sc")
		}
	case v < 15: // ctx deadline
		p.D = genDur(rt, "d", max)
	case v < 17: // service-config timeout
		p.SC = genDur(rt, "sc", max)
	case v < 18: // both
		p.D, p.SC = genDur(rt, "d", max), genDur(rt, "sc", max)
	default: // deadline and a cancel within 2ns of it (ties included)
		p.D = genDur(rt, "d", max)
		p.C = p.D + rapid.Int64Range(-2, 2).Draw(rt, "c_delta")
		if p.C < 0 {
			p.C = 0
		}
	}
	switch rapid.IntRange(0, 5).Draw(rt, "gap_kind") {
	case 0:
		p.Gap = 0
	case 1:
		p.Gap = rapid.Int64Range(1, 3).Draw(rt, "gap")
	case 2:
		p.Gap = sec
	case 3:
		p.Gap = genDur(rt, "gap", day)
	default:
		p.Gap = -1
	}
	return p
}

// psOp is one client API call made by the application.
type psOp struct {
	op         string
	begin, end time.Time
	returned   bool
	err        error
}

type psApp struct {
	mu     sync.Mutex
	ops    []psOp
	paused bool // waiting at the generated pause
	done   bool
}

func (a *psApp) do(op string, f func() error) error {
	a.mu.Lock()
	a.ops = append(a.ops, psOp{op: op, begin: time.Now()})
	i := len(a.ops) - 1
	a.mu.Unlock()
	err := f()
	a.mu.Lock()
	a.ops[i].end, a.ops[i].returned, a.ops[i].err = time.Now(), true, err
	a.mu.Unlock()
	return err
}

func (a *psApp) snapshot() (ops []psOp, paused, done bool) {
	a.mu.Lock()
	defer a.mu.Unlock()
	return append([]psOp(nil), a.ops...), a.paused, a.done
}

// psScript is the application's sequence of calls after NewStream and the
// index of the call before which it pauses (len = no pause).
func psScript(p posturePlan) (seq []string, pauseBefore int) {
	for i := 0; i < p.NSend; i++ {
		seq = append(seq, "send")
	}
	afterSends := len(seq)
	seq = append(seq, "closesend")
	afterClose := len(seq)
	if p.HeaderCall {
		seq = append(seq, "header")
	}
	afterHeader := len(seq)
	seq = append(seq, "recv")
	switch p.Posture {
	case "idle_after_newstream":
		pauseBefore = 0
	case "idle_before_closesend":
		pauseBefore = afterSends
	case "idle_after_send":
		pauseBefore = afterClose
	case "in_header":
		pauseBefore = afterHeader
	default:
		pauseBefore = len(seq)
	}
	return seq, pauseBefore
}

// psPredict is the reference model of the application's posture while the RPC
// is alive: the handler never sends a message and never returns, so RecvMsg
// blocks, Header blocks unless the handler sent its headers, SendMsg (1 byte)
// and CloseSend do not block.
func psPredict(p posturePlan) string {
	seq, pb := psScript(p)
	for i, op := range seq {
		if i == pb {
			return "paused"
		}
		if op == "recv" || (op == "header" && !p.SrvHdr) {
			return "in_" + op
		}
	}
	return "paused"
}

func (a *psApp) run(ctx context.Context, cc *grpc.ClientConn, p posturePlan, resume <-chan struct{}) {
	defer func() {
		a.mu.Lock()
		a.done, a.paused = true, false
		a.mu.Unlock()
	}()
	var cs grpc.ClientStream
	if err := a.do("newstream", func() (err error) {
		cs, err = cc.NewStream(ctx, psDesc(p.Desc), e2elife.Method)
		return err
	}); err != nil {
		return
	}
	seq, pb := psScript(p)
	skipSends := false
	for i, op := range seq {
		if i == pb {
			a.mu.Lock()
			a.paused = true
			a.mu.Unlock()
			<-resume
			a.mu.Lock()
			a.paused = false
			a.mu.Unlock()
		}
		switch op {
		case "send":
			if skipSends {
				continue
			}
			msg := []byte{1}
			err := a.do("send", func() error { return cs.SendMsg(&msg) })
			if err == io.EOF {
				skipSends = true // the status comes from RecvMsg
			} else if err != nil {
				return // the error is the RPC's status
			}
		case "closesend":
			a.do("closesend", cs.CloseSend)
		case "header":
			a.do("header", func() error { _, err := cs.Header(); return err })
		case "recv":
			for {
				var b []byte
				if err := a.do("recv", func() error { return cs.RecvMsg(&b) }); err != nil {
					return
				}
			}
		}
	}
}

func runPosture(t *testing.T, p posturePlan) vk.Result {
	var res vk.Result
	msg := vk.Bubble(t, func(t *testing.T) { res = runPostureInBubble(p) })
	if msg != "" && res.Violation == "" {
		return vk.Bad("bubble did not drain: %s", msg).With(res.Classes...)
	}
	return res
}

func runPostureInBubble(p posturePlan) vk.Result {
	E := endOf(plan{D: p.D, SC: p.SC, C: p.C})
	if E < 0 || p.NSend < 0 || p.NSend > 2 {
		return vk.Result{Discard: true}
	}
	desc := psDesc(p.Desc)
	if !desc.ClientStreams && p.NSend != 1 {
		return vk.Result{Discard: true} // a request/response RPC sends exactly one message
	}
	hs := e2elife.NewHandlers()
	hs.OnEnter = func(c *e2elife.HCall) { // called with the registry lock held
		if p.SrvHdr || p.SrvRecv {
			go func() {
				if p.SrvHdr {
					hs.Do(c, e2elife.Cmd{Kind: e2elife.CmdHeader})
				}
				if p.SrvRecv {
					hs.Do(c, e2elife.Cmd{Kind: e2elife.CmdRecv})
				}
			}()
		}
	}
	srv := e2elife.StartServer(hs.Handle, grpc.InitialWindowSize(65535), grpc.InitialConnWindowSize(65535))
	var dopts []grpc.DialOption
	if p.SC >= 0 {
		dopts = append(dopts, grpc.WithDefaultServiceConfig(fmt.Sprintf(
			`{"methodConfig":[{"name":[{"service":"verif.Life","method":"Call"}],"timeout":"%d.%09ds"}]}`, p.SC/sec, p.SC%sec)))
	}
	cc, err := e2elife.Dial(e2elife.UniqueName("c22p"), srv.Dialer(), dopts...)
	if err != nil {
		srv.Close()
		return vk.Result{Violation: "VERIF-HARNESS dial: " + err.Error()}
	}
	resume := make(chan struct{})
	resumed, ccClosed := false, false
	var cancel context.CancelFunc
	release := func() {
		if !resumed {
			resumed = true
			close(resume)
		}
	}
	closeCC := func() {
		if !ccClosed {
			ccClosed = true
			cc.Close()
		}
		synctest.Wait()
	}
	teardown := func() {
		release()
		if cancel != nil {
			cancel()
		}
		closeCC()
		hs.ReleaseAll()
		srv.Close()
		synctest.Wait()
	}
	classes := []string{"desc_" + p.Desc, "posture_" + p.Posture}
	if !desc.ClientStreams && !desc.ServerStreams {
		classes = append(classes, "newstream_with_non_streaming_desc")
	}
	if p.SrvHdr {
		classes = append(classes, "handler_sent_headers")
	}
	bad := func(format string, a ...any) vk.Result {
		teardown()
		return vk.Bad(format, a...).With(classes...)
	}

	cc.Connect()
	synctest.Wait()
	time.Sleep(time.Duration(p.StartDelay))
	synctest.Wait()

	// --- start the RPC under test
	tStart := time.Now()
	at := func(rel int64) time.Time { return tStart.Add(time.Duration(rel)) }
	sleepUntil := func(rel int64) {
		if d := time.Until(at(rel)); d > 0 {
			time.Sleep(d)
		}
		synctest.Wait()
	}
	base := e2elife.WithID(context.Background(), "rut")
	var ctx context.Context
	if p.D >= 0 {
		ctx, cancel = context.WithDeadline(base, at(p.D))
	} else {
		ctx, cancel = context.WithCancel(base)
	}
	app := &psApp{}
	go app.run(ctx, cc, p, resume)
	synctest.Wait()

	// --- reference model
	dc := int64(-1) // the client's effective deadline
	for _, v := range []int64{p.D, p.SC} {
		if v >= 0 && (dc < 0 || v < dc) {
			dc = v
		}
	}
	legal := map[codes.Code]bool{}
	if dc >= 0 && dc == E {
		legal[codes.DeadlineExceeded] = true
	}
	if p.C >= 0 && p.C == E {
		legal[codes.Canceled] = true
	}
	switch {
	case legal[codes.DeadlineExceeded] && legal[codes.Canceled]:
		classes = append(classes, "end_tie")
	case legal[codes.Canceled]:
		classes = append(classes, "end_cancel")
	case p.SC >= 0 && p.SC == E && (p.D < 0 || p.SC < p.D):
		classes = append(classes, "end_sc_timeout")
	default:
		classes = append(classes, "end_deadline")
	}
	legalErr := func(err error) string {
		if err == nil {
			return "nil"
		}
		if v := e2elife.CheckRPCError(err); v != "" {
			return v
		}
		if c := status.Code(err); !legal[c] {
			return fmt.Sprintf("(%v,%q), legal codes: %v", c, status.Convert(err).Message(), legal)
		}
		return ""
	}
	// dc == 0: the context is already expired when NewStream is called; the RPC
	// never starts (NewStream must fail at once).
	stillborn := dc == 0
	state := psPredict(p)
	if stillborn {
		state = "stillborn"
	}
	classes = append(classes, "state_at_E_"+state)
	idleCancel := state == "paused" && legal[codes.Canceled] && !legal[codes.DeadlineExceeded]
	if idleCancel {
		classes = append(classes, "cancel_while_idle_between_calls")
	}

	// --- one nanosecond before E: nothing has failed, the application is where
	// the model says
	observed := func() (string, []psOp) {
		ops, paused, done := app.snapshot()
		switch {
		case done:
			return "done", ops
		case paused:
			return "paused", ops
		case len(ops) > 0 && !ops[len(ops)-1].returned:
			return "in_" + ops[len(ops)-1].op, ops
		}
		return "running", ops
	}
	if E >= 1 {
		sleepUntil(E - 1)
		got, ops := observed()
		for _, o := range ops {
			if o.returned && o.err != nil {
				return bad("%s returned error %v at %v after start, before the end time E=%v", o.op, o.err, o.end.Sub(tStart), time.Duration(E))
			}
		}
		if got != state {
			return bad("VERIF-HARNESS: application is %s one ns before E=%v, the model says %s", got, time.Duration(E), state)
		}
		if n := len(hs.ByID("rut")); n != 1 {
			return bad("VERIF-HARNESS: %d handlers entered one ns before E=%v", n, time.Duration(E))
		}
	}

	// --- the end: cancel at C (== E when it is the ender), evaluate at E
	sleepUntil(E)
	if p.C >= 0 && p.C == E {
		cancel()
		synctest.Wait()
	}
	hrut := hs.ByID("rut")
	if stillborn {
		if len(hrut) != 0 {
			return bad("RPC with an already expired deadline reached a handler")
		}
	} else if len(hrut) != 1 {
		return bad("RPC reached %d handlers by E=%v", len(hrut), time.Duration(E))
	}
	// server side: deadline clauses, context done at exactly E
	hs.Lock()
	var hv string
	for _, h := range hrut {
		if (dc >= 0) != h.HasDeadline {
			hv = fmt.Sprintf("handler context has deadline=%v, client has deadline=%v", h.HasDeadline, dc >= 0)
			break
		}
		if dc >= 0 {
			if h.Deadline.Before(at(dc)) {
				hv = fmt.Sprintf("handler deadline is %v earlier than the client's (client: %v after start)", at(dc).Sub(h.Deadline), time.Duration(dc))
				break
			}
			r := int64(at(dc).Sub(h.EnterAt))
			u := timeoutUnit(r)
			if got := int64(h.Deadline.Sub(h.EnterAt)); got >= r+u {
				hv = fmt.Sprintf("handler timeout %v exceeds the client's remaining time %v by a full grpc-timeout unit (%v) or more", time.Duration(got), time.Duration(r), time.Duration(u))
				break
			}
		}
		if !h.CtxDone {
			hv = fmt.Sprintf("handler context is not done at E=%v (application %s at E, description %s, legal codes %v)", time.Duration(E), state, p.Desc, legal)
			break
		}
		if !h.CtxDoneAt.Equal(at(E)) {
			hv = fmt.Sprintf("handler context became done %v after start, want E=%v", h.CtxDoneAt.Sub(tStart), time.Duration(E))
			break
		}
		// what the server saw is consistent with a cancellation by the client:
		// its context reports "deadline exceeded" only if its own deadline is E
		if h.CtxErr != context.Canceled && !(h.CtxErr == context.DeadlineExceeded && h.HasDeadline && h.Deadline.Equal(at(E))) {
			hv = fmt.Sprintf("handler context error at E is %v (handler deadline set: %v, %v after start)", h.CtxErr, h.HasDeadline, h.Deadline.Sub(tStart))
			break
		}
	}
	hs.Unlock()
	if hv != "" {
		return bad("%s", hv)
	}
	// client side: a call the application was blocked in has returned at E
	got, ops := observed()
	switch state {
	case "stillborn":
		if got != "done" || len(ops) != 1 || ops[0].err == nil {
			return bad("NewStream with an already expired deadline: application is %s after %d calls", got, len(ops))
		}
	case "in_recv":
		if got != "done" {
			return bad("RecvMsg has not returned at the end time E=%v (application %s; legal codes %v)", time.Duration(E), got, legal)
		}
	case "in_header":
		if got == "in_header" {
			return bad("Header() has not returned at the end time E=%v (legal codes %v)", time.Duration(E), legal)
		}
	}
	nAtE := len(ops)
	for _, o := range ops {
		if o.returned && !o.begin.Equal(o.end) && !o.end.Equal(at(E)) {
			return bad("%s blocked from %v to %v after start, want it to return at E=%v", o.op, o.begin.Sub(tStart), o.end.Sub(tStart), time.Duration(E))
		}
	}

	// --- the application resumes its script (or abandons the stream until the
	// ClientConn is closed)
	if p.Gap >= 0 {
		classes = append(classes, "resume_after_gap")
		time.Sleep(time.Duration(p.Gap))
		synctest.Wait()
		release()
		synctest.Wait()
	} else {
		classes = append(classes, "resume_after_cc_close")
		closeCC()
		if live := psLive(hs); live != "" {
			return bad("after ClientConn.Close: %s", live)
		}
		release()
		synctest.Wait()
	}
	got, ops = observed()
	if got != "done" {
		return bad("a client API call made after the end time E=%v has not returned: application is %s (legal codes %v)", time.Duration(E), got, legal)
	}
	for i, o := range ops {
		if i >= nAtE && !o.begin.Equal(o.end) {
			return bad("%s called %v after start (after E=%v) blocked for %v", o.op, o.begin.Sub(tStart), time.Duration(E), o.end.Sub(o.begin))
		}
		last := i == len(ops)-1
		switch o.op {
		case "newstream":
			if o.err != nil {
				if v := legalErr(o.err); v != "" {
					return bad("NewStream returned %s", v)
				}
			}
		case "send":
			// a status error ends the RPC; io.EOF / nil: the status comes from RecvMsg
			if o.err != nil && o.err != io.EOF {
				if v := legalErr(o.err); v != "" {
					return bad("SendMsg returned %s", v)
				}
				if !last {
					return bad("VERIF-HARNESS: application continued after a SendMsg error")
				}
			}
		case "closesend", "header":
			if o.err != nil {
				return bad("%s returned error %v", o.op, o.err)
			}
		case "recv":
			if o.err == nil || o.err == io.EOF {
				return bad("RecvMsg returned %v (no message was ever sent and the handler never returned; E=%v)", o.err, time.Duration(E))
			}
			if v := legalErr(o.err); v != "" {
				return bad("RecvMsg (application %s at E=%v) returned %s", state, time.Duration(E), v)
			}
		}
		if last && o.err == nil {
			return bad("VERIF-HARNESS: application script ended with %s = nil", o.op)
		}
	}

	// --- teardown: after cc.Close no handler context is live
	closeCC()
	if live := psLive(hs); live != "" {
		return bad("after ClientConn.Close: %s", live)
	}
	teardown()
	return vk.Result{NonTrivial: idleCancel, Classes: classes}
}

// psLive reports a handler whose context is still live.
func psLive(hs *e2elife.Handlers) string {
	hs.Lock()
	defer hs.Unlock()
	for _, h := range hs.Calls {
		if !h.CtxDone {
			return fmt.Sprintf("the context of handler #%d (%s) is still live", h.Seq, h.ID)
		}
	}
	return ""
}

func TestVerifC22Posture(t *testing.T) {
	vk.Check(t, vk.Unit[posturePlan]{
		ID: "C22", Name: "posture",
		Rule: "one RPC per case through ClientConn.NewStream with a generated stream description (zero-value / named non-streaming 55%, bidi, server-streaming, client-streaming) against a parked handler (optionally it sent headers / consumed the request); the application runs NewStream, SendMsg x n, CloseSend, [Header], RecvMsg with one pause: blocked in RecvMsg or Header at the end time E, or idle between calls (after NewStream / before CloseSend / after CloseSend / after Header returned) and resuming 0ns..1day after E or only after cc.Close; E = ctx deadline / service-config timeout / cancel (cancel alone or with a later - possibly 1-3ns later - deadline in 65% of the cases; ties) at ns-exact virtual times up to 3 days. non-trivial = the application is not inside any client API call at E and E is a cancellation (class cancel_while_idle_between_calls)",
		Gen:  genPosture, Run: runPosture,
	})
}
