package c22_test

// C22: deadlines and cancellation propagate to both ends.
//
// One RPC under test is driven to a chosen blocking point (pick: no READY
// subchannel / quota: server MAX_CONCURRENT_STREAMS exhausted / flow: peer
// grants no window / recv: blocked in RecvMsg / handler: unary Invoke with the
// handler parked) inside a synctest bubble, with a context deadline, a
// service-config timeout and/or a cancellation at generated virtual times;
// optionally the blocking condition is lifted at a generated time. The oracle
// is computed from the plan alone (reference end time E and legal codes) and
// compared with the client's event log and the handler's context record.
//
// Further blocking points that involve retries (the RPC is waiting in the retry
// backoff, or blocked in a second or later attempt, when its end time comes)
// are in c22_retry_test.go.

import (
	"context"
	"fmt"
	"io"
	"net"
	"strings"
	"sync"
	"testing"
	"testing/synctest"
	"time"

	"google.golang.org/grpc"
	"google.golang.org/grpc/codes"
	"google.golang.org/grpc/internal/verifkit/e2elife"
	"google.golang.org/grpc/internal/verifkit/vk"
	"pgregory.net/rapid"
)

type plan struct {
	Point        string `json:"point"` // pick | quota | flow | recv | handler | retry_backoff | retry_attempt | retry_over
	WaitForReady bool   `json:"wfr"`
	MaxStreams   int    `json:"max_streams"` // quota point: server limit (= number of filler RPCs)
	MsgBytes     int    `json:"msg_bytes"`   // flow point: message size
	StartDelay   int64  `json:"start_delay"` // ns between bubble start and the RPC
	D            int64  `json:"d"`           // ctx deadline, ns after RPC start; -1 = none
	SC           int64  `json:"sc"`          // service config timeout in ns; -1 = none
	C            int64  `json:"c"`           // cancel, ns after RPC start; -1 = none
	U            int64  `json:"u"`           // blocking condition lifted, ns after RPC start; -1 = never
	// Retry is set for the points retry_backoff / retry_attempt / retry_over
	// (see c22_retry_test.go); nil = no retry policy (the points above).
	Retry *retryPlan `json:"retry,omitempty"`
}

const (
	sec = int64(time.Second)
	day = 24 * 3600 * sec
)

func genDur(rt *rapid.T, label string, max int64) int64 {
	var v int64
	switch rapid.IntRange(0, 4).Draw(rt, label+"_kind") {
	case 0:
		v = rapid.Int64Range(0, 2000).Draw(rt, label)
	case 1:
		bits := rapid.IntRange(10, 31).Draw(rt, label+"_bits")
		v = rapid.Int64Range(1<<uint(bits-1), 1<<uint(bits)).Draw(rt, label)
	case 2: // around the points where the grpc-timeout encoder changes unit
		u := rapid.SampledFrom([]int64{1, 1000, 1000000}).Draw(rt, label+"_unit")
		v = 99999999*u + rapid.Int64Range(-3, 3).Draw(rt, label+"_delta")*rapid.SampledFrom([]int64{1, u}).Draw(rt, label+"_dscale")
	case 3: // log-uniform up to max
		bits := rapid.IntRange(1, 48).Draw(rt, label+"_bits")
		v = rapid.Int64Range(0, 1<<uint(bits)).Draw(rt, label)
	default:
		v = rapid.Int64Range(0, max).Draw(rt, label)
	}
	if v > max {
		v = max - rapid.Int64Range(0, 1000).Draw(rt, label+"_clip")
	}
	if v < 0 {
		v = 0
	}
	return v
}

func genPlan(rt *rapid.T) plan {
	p := plan{D: -1, SC: -1, C: -1, U: -1}
	p.Point = rapid.SampledFrom([]string{"retry_backoff", "pick", "quota", "flow", "retry_attempt", "retry_backoff", "pick", "quota", "flow",
		"retry_attempt", "recv", "handler", "retry_over"}).Draw(rt, "point")
	p.WaitForReady = rapid.IntRange(0, 2).Draw(rt, "wfr") == 0
	p.MaxStreams = rapid.IntRange(1, 2).Draw(rt, "max_streams")
	p.MsgBytes = rapid.SampledFrom([]int{1 << 10, 16 << 10, 60 << 10, 100 << 10}).Draw(rt, "msg_bytes")
	p.StartDelay = rapid.SampledFrom([]int64{0, 1, 999, 1234567, 3 * sec}).Draw(rt, "start_delay")
	if strings.HasPrefix(p.Point, "retry") {
		genRetry(rt, &p)
		return p
	}
	max := 3 * day
	if p.Point == "pick" {
		max = 15 * sec // below the 20s minimum connect timeout: the subchannel stays CONNECTING
		if p.WaitForReady {
			max = 200 * sec // through connect timeouts, TRANSIENT_FAILURE and backoff cycles
		}
	}
	ender := rapid.IntRange(0, 6).Draw(rt, "ender")
	if ender == 0 || ender == 3 || ender == 4 || ender == 6 {
		p.D = genDur(rt, "d", max)
	}
	if ender == 1 || ender == 4 || ender == 5 || ender == 6 {
		p.SC = genDur(rt, "sc", max)
	}
	if ender == 2 || ender == 3 || ender == 5 || ender == 6 {
		p.C = genDur(rt, "c", max)
		if p.D >= 0 && rapid.IntRange(0, 2).Draw(rt, "c_near_d") == 0 {
			p.C = p.D + rapid.Int64Range(-2, 2).Draw(rt, "c_delta")
			if p.C < 0 {
				p.C = 0
			}
		}
	}
	if rapid.IntRange(0, 3).Draw(rt, "unblock") == 0 {
		e := endOf(p)
		switch rapid.IntRange(0, 3).Draw(rt, "u_kind") {
		case 0:
			p.U = rapid.Int64Range(0, e).Draw(rt, "u")
		case 1:
			p.U = e + rapid.Int64Range(-2, 2).Draw(rt, "u_delta")
		case 2:
			p.U = e / 2
		default:
			p.U = genDur(rt, "u", max)
		}
		if p.U < 0 {
			p.U = 0
		}
	}
	return p
}

// endOf is the reference model for the client side: the RPC ends at the
// earliest of ctx deadline, service-config timeout and cancellation.
func endOf(p plan) int64 {
	e := int64(-1)
	for _, v := range []int64{p.D, p.SC, p.C} {
		if v >= 0 && (e < 0 || v < e) {
			e = v
		}
	}
	return e
}

// timeoutUnit re-implements the grpc-timeout unit choice (PROTOCOL-HTTP2: at
// most 8 digits): the smallest unit in which ceil(r/unit) fits 8 digits.
func timeoutUnit(r int64) int64 {
	for _, u := range []int64{1, 1e3, 1e6, 1e9, 60e9, 3600e9} {
		if (r+u-1)/u <= 99999999 {
			return u
		}
	}
	return 3600e9
}

type event struct {
	op  string
	at  time.Time
	err error
}

type call struct {
	mu     sync.Mutex
	events []event
	done   bool
	doneAt time.Time
	final  error // final error (io.EOF / nil = OK)
}

func (c *call) rec(op string, err error) {
	c.mu.Lock()
	c.events = append(c.events, event{op, time.Now(), err})
	c.mu.Unlock()
}

func (c *call) finish(err error) {
	c.mu.Lock()
	c.done, c.doneAt, c.final = true, time.Now(), err
	c.mu.Unlock()
}

func (c *call) runStream(ctx context.Context, cc *grpc.ClientConn, method string, nmsgs, size int, opts []grpc.CallOption) {
	cs, err := cc.NewStream(ctx, e2elife.BidiDesc, method, opts...)
	c.rec("newstream", err)
	if err != nil {
		c.finish(err)
		return
	}
	msg := make([]byte, size)
	for i := 0; i < nmsgs; i++ {
		err := cs.SendMsg(&msg)
		c.rec("send", err)
		if err == io.EOF {
			break // the status comes from RecvMsg
		}
		if err != nil {
			c.finish(err)
			return
		}
	}
	cs.CloseSend()
	for {
		var b []byte
		err := cs.RecvMsg(&b)
		c.rec("recv", err)
		if err != nil {
			c.finish(err)
			return
		}
	}
}

func (c *call) runUnary(ctx context.Context, cc *grpc.ClientConn, opts []grpc.CallOption) {
	req, resp := []byte{1}, []byte{}
	err := cc.Invoke(ctx, e2elife.Method, &req, &resp, opts...)
	c.rec("invoke", err)
	c.finish(err)
}

func run(t *testing.T, p plan) vk.Result {
	// A streaming RPC that is stuck in the retry backoff past its end time
	// freezes the bubble: grpc's context-watcher goroutine of a streaming RPC then
	// waits for the clientStream mutex (held by the operation parked in the
	// backoff), a goroutine blocked on a mutex is not durably blocked, so
	// synctest.Wait never returns and virtual time stops. To turn such a failure
	// into a verdict instead of a hang, the unary twin of a streaming
	// retry-backoff plan (no watcher goroutine; also a plan of the domain) is
	// executed first, and the streaming plan only if the twin holds.
	if isRetryPoint(p) && !p.Retry.Unary && phaseAt(retryModel(p.Retry), endOf(p)).kind == "backoff" {
		twin, r := p, *p.Retry
		r.Unary = true
		twin.Retry = &r
		if res := runOne(t, twin); res.Violation != "" {
			res.Violation = "(unary twin of this streaming plan, executed first) " + res.Violation
			return res.With("unary_twin_failed")
		}
	}
	return runOne(t, p)
}

func runOne(t *testing.T, p plan) vk.Result {
	var res vk.Result
	msg := vk.Bubble(t, func(t *testing.T) { res = runInBubble(p) })
	if msg != "" && res.Violation == "" {
		return vk.Bad("bubble did not drain: %s", msg).With(res.Classes...)
	}
	return res
}

func runInBubble(p plan) (res vk.Result) {
	E := endOf(p)
	if E < 0 {
		return vk.Result{Discard: true}
	}
	hs := e2elife.NewHandlers()
	retry := isRetryPoint(p)
	var rm []rtAttempt // reference model of the attempts (retry points)
	var phE rtPhase    // where the model says the RPC is at E
	stopScripts := make(chan struct{})
	if retry {
		rm = retryModel(p.Retry)
		phE = phaseAt(rm, E)
		if phE.kind == "ambiguous" {
			return vk.Result{Discard: true} // E within the jitter uncertainty (shrunk / hand-written plans only)
		}
		installScript(hs, p.Retry, stopScripts)
	}
	sopts := []grpc.ServerOption{
		// fixed windows: disables the BDP-based dynamic window so that "the peer
		// grants no window" is deterministic (64 KiB per stream and connection)
		grpc.InitialWindowSize(65535), grpc.InitialConnWindowSize(65535),
	}
	if p.Point == "quota" {
		sopts = append(sopts, grpc.MaxConcurrentStreams(uint32(p.MaxStreams)))
	}
	srv := e2elife.StartServer(hs.Handle, sopts...)
	gate := make(chan struct{})
	gateOpen := false
	if p.Point != "pick" {
		close(gate)
		gateOpen = true
	}
	dialer := func(ctx context.Context, _ string) (net.Conn, error) {
		select {
		case <-gate:
			return srv.Lis.DialContext(ctx)
		case <-ctx.Done():
			return nil, ctx.Err()
		}
	}
	var dopts []grpc.DialOption
	if retry {
		dopts = append(dopts, grpc.WithDefaultServiceConfig(retryServiceConfig(p)))
	} else if p.SC >= 0 {
		dopts = append(dopts, grpc.WithDefaultServiceConfig(fmt.Sprintf(
			`{"methodConfig":[{"name":[{"service":"verif.Life","method":"Call"}],"timeout":"%d.%09ds"}]}`, p.SC/sec, p.SC%sec)))
	}
	cc, err := e2elife.Dial(e2elife.UniqueName("c22"), dialer, dopts...)
	if err != nil {
		srv.Close()
		return vk.Result{Violation: "VERIF-HARNESS dial: " + err.Error()}
	}
	var cancels []context.CancelFunc
	torn := false
	teardown := func() {
		if !torn {
			torn = true
			close(stopScripts)
		}
		if !gateOpen {
			close(gate)
			gateOpen = true
		}
		hs.ReleaseAll()
		for _, c := range cancels {
			c()
		}
		cc.Close()
		srv.Close()
		synctest.Wait()
	}
	classes := []string{"point_" + p.Point}
	bad := func(format string, a ...any) vk.Result {
		teardown()
		return vk.Bad(format, a...).With(classes...)
	}

	// --- bring the system to the blocking point's precondition
	var fillers []*call
	if p.Point != "pick" {
		cc.Connect()
		synctest.Wait()
	}
	if p.Point == "quota" {
		for i := 0; i < p.MaxStreams; i++ {
			f := &call{}
			ctx, cancel := context.WithCancel(e2elife.WithID(context.Background(), fmt.Sprintf("filler%d", i)))
			cancels = append(cancels, cancel)
			fillers = append(fillers, f)
			go f.runStream(ctx, cc, e2elife.MethodFill, 0, 0, nil)
		}
		synctest.Wait()
		if n := len(hs.Running()); n != p.MaxStreams {
			return bad("VERIF-HARNESS: %d filler handlers running, want %d", n, p.MaxStreams)
		}
	}
	time.Sleep(time.Duration(p.StartDelay))
	synctest.Wait()

	// --- start the RPC under test
	tStart := time.Now()
	at := func(rel int64) time.Time { return tStart.Add(time.Duration(rel)) }
	base := e2elife.WithID(context.Background(), "rut")
	var ctx context.Context
	var cancel context.CancelFunc
	if p.D >= 0 {
		ctx, cancel = context.WithDeadline(base, at(p.D))
	} else {
		ctx, cancel = context.WithCancel(base)
	}
	cancels = append(cancels, cancel)
	var copts []grpc.CallOption
	if p.WaitForReady {
		copts = append(copts, grpc.WaitForReady(true))
		classes = append(classes, "wait_for_ready")
	}
	nmsgs, size := 1, 1
	if p.Point == "flow" {
		size = p.MsgBytes
		nmsgs = (300<<10)/size + 2
	}
	rut := &call{}
	if p.Point == "handler" || (retry && p.Retry.Unary) {
		go rut.runUnary(ctx, cc, copts)
	} else {
		go rut.runStream(ctx, cc, e2elife.Method, nmsgs, size, copts)
	}
	synctest.Wait()

	// --- expected outcome (reference model)
	// the client's effective deadline (absolute, relative to tStart), -1 if none
	dc := int64(-1)
	for _, v := range []int64{p.D, p.SC} {
		if v >= 0 && (dc < 0 || v < dc) {
			dc = v
		}
	}
	legal := map[codes.Code]bool{}
	if dc >= 0 && dc == E {
		legal[codes.DeadlineExceeded] = true
	}
	if p.C >= 0 && p.C == E {
		legal[codes.Canceled] = true
	}
	switch {
	case legal[codes.DeadlineExceeded] && legal[codes.Canceled]:
		classes = append(classes, "end_tie")
	case legal[codes.Canceled]:
		classes = append(classes, "end_cancel")
	case p.SC >= 0 && p.SC == E && (p.D < 0 || p.SC < p.D):
		classes = append(classes, "end_sc_timeout")
	default:
		classes = append(classes, "end_deadline")
	}
	unblocked := p.U >= 0 && p.U < E
	if unblocked {
		classes = append(classes, "unblocked_before_end")
	}

	sleepUntil := func(rel int64) {
		if d := time.Until(at(rel)); d > 0 {
			time.Sleep(d)
		}
		synctest.Wait()
	}
	snapshot := func() (bool, time.Time, error, []event) {
		rut.mu.Lock()
		defer rut.mu.Unlock()
		return rut.done, rut.doneAt, rut.final, append([]event(nil), rut.events...)
	}

	// --- lift the blocking condition at U (if before E)
	if unblocked {
		sleepUntil(p.U)
		switch p.Point {
		case "pick":
			close(gate)
			gateOpen = true
		case "quota":
			if r := hs.ByID("filler0"); len(r) == 1 {
				hs.Do(r[0], e2elife.Cmd{Kind: e2elife.CmdFinish, Code: codes.OK})
			}
		case "flow":
			if r := hs.ByID("rut"); len(r) == 1 {
				for i := 0; i < nmsgs; i++ {
					hs.Do(r[0], e2elife.Cmd{Kind: e2elife.CmdRecv})
				}
			}
		}
		synctest.Wait()
	}

	// --- one nanosecond before E nothing may have terminated (unless the
	// reference model says that an attempt legitimately ended the RPC earlier)
	alive := !retry || phE.kind != "over"
	if retry {
		classes = append(classes, retryClasses(p, rm, phE)...)
	}
	if E >= 1 {
		sleepUntil(E - 1)
		if done, _, ferr, _ := snapshot(); done && alive {
			code, m := e2elife.StatusOf(ferr)
			return bad("RPC terminated with (%v,%q) %v before its end time E=%v (blocked at %s)", code, m, time.Until(at(E)), time.Duration(E), p.Point)
		}
	}
	// where is the RPC blocked now?
	_, _, _, evs := snapshot()
	blockedAt := "newstream"
	if len(evs) > 0 {
		switch last := evs[len(evs)-1]; {
		case last.op == "newstream" && nmsgs > 0 && p.Point == "flow":
			blockedAt = "send"
		case last.op == "newstream":
			blockedAt = "recv"
		case last.op == "send" && len(evs)-1 < nmsgs:
			blockedAt = "send"
		default:
			blockedAt = "recv"
		}
	}
	if p.Point == "handler" {
		blockedAt = "invoke"
	}
	hrut := hs.ByID("rut")
	if blockedAt == "newstream" {
		if len(hrut) > 0 {
			blockedAt = "newstream(?)"
		} else if p.Point == "quota" {
			blockedAt = "newstream_quota"
		} else {
			blockedAt = "newstream_pick"
		}
	}
	if retry {
		n, lastExited := rutState(hs)
		switch {
		case !alive:
			blockedAt = "retry_over"
		case n > 0 && lastExited:
			blockedAt = fmt.Sprintf("retry_backoff_after_%d", n)
		default:
			blockedAt = fmt.Sprintf("retry_attempt_%d", n)
		}
		// harness self-check: the system is where the reference model says
		// (only when E-1 is unambiguously in the same phase as E)
		if E >= 1 && alive && phaseAt(rm, E-1) == phE {
			want := fmt.Sprintf("retry_%s_%d", map[string]string{"backoff": "backoff_after", "attempt": "attempt"}[phE.kind], phE.idx+1)
			if blockedAt != want {
				return bad("VERIF-HARNESS (retry model): RPC is at %s one ns before E=%v, the model says %s", blockedAt, time.Duration(E), want)
			}
		}
		blockedAt = strings.TrimRight(blockedAt, "_0123456789")
		if blockedAt == "retry_backoff_after" {
			blockedAt = "retry_backoff"
		}
	}
	classes = append(classes, "blocked_"+blockedAt)
	nontrivial := blockedAt == "newstream_quota" || blockedAt == "newstream_pick" || blockedAt == "send"
	if retry && alive {
		nontrivial = phE.kind == "backoff" || (phE.kind == "attempt" && phE.idx >= 1)
	}
	if !unblocked && !retry {
		want := map[string]string{"pick": "newstream_pick", "quota": "newstream_quota", "flow": "send", "recv": "recv", "handler": "invoke"}[p.Point]
		if blockedAt != want && E >= 1 {
			return bad("VERIF-HARNESS: RPC is blocked at %s, plan wanted %s (events %d)", blockedAt, want, len(evs))
		}
	}

	// --- cancel at C (== E when it is the ender), then evaluate at E
	if p.C >= 0 && p.C == E {
		sleepUntil(E)
		cancel()
		synctest.Wait()
	} else {
		sleepUntil(E)
	}
	done, doneAt, ferr, evs := snapshot()
	if !done {
		return bad("RPC has not terminated at its end time E=%v (blocked at %s; legal codes %v)", time.Duration(E), blockedAt, legal)
	}
	if !doneAt.Equal(at(E)) && alive {
		return bad("RPC terminated at %v after start, want exactly E=%v", doneAt.Sub(tStart), time.Duration(E))
	}
	code, m := e2elife.StatusOf(ferr)
	if !alive {
		// the RPC was over before E: nothing to assert about its status beyond
		// the reference model's prediction (a harness self-check); the handler
		// contexts are checked below
		a := rm[phE.idx]
		if int(code) != a.code || doneAt.Before(at(a.flo)) || doneAt.After(at(a.fhi)) {
			return bad("VERIF-HARNESS (retry model): RPC ended with (%v,%q) %v after start, the model says attempt %d ends it (%s) with code %d within [%v,%v]",
				code, m, doneAt.Sub(tStart), phE.idx+1, a.reason, a.code, time.Duration(a.flo), time.Duration(a.fhi))
		}
	} else if !legal[code] {
		return bad("RPC blocked at %s terminated at E=%v with (%v,%q), legal codes: %v", blockedAt, time.Duration(E), code, m, legal)
	}
	for _, e := range evs {
		if e.err != nil && e.err != io.EOF {
			if v := e2elife.CheckRPCError(e.err); v != "" {
				return bad("C24 harvest: %s returned %s", e.op, v)
			}
		}
		if e.err != nil && e.at.Before(at(E)) && alive {
			return bad("%s returned error %v at %v, before E=%v", e.op, e.err, e.at.Sub(tStart), time.Duration(E))
		}
	}

	// --- server side
	hs.Lock()
	var hv string
	for _, h := range hs.Calls {
		if h.ID != "rut" {
			continue
		}
		classes = append(classes, "handler_entered")
		if (dc >= 0) != h.HasDeadline {
			hv = fmt.Sprintf("handler context has deadline=%v, client has deadline=%v", h.HasDeadline, dc >= 0)
			break
		}
		if dc >= 0 {
			if h.Deadline.Before(at(dc)) {
				hv = fmt.Sprintf("handler deadline is %v earlier than the client's (client: %v after start)", at(dc).Sub(h.Deadline), time.Duration(dc))
				break
			}
			// the timeout is computed when the transport stream is created: at handler
			// entry, except when the stream then waited for stream quota
			created := h.EnterAt
			if p.Point == "quota" {
				created = tStart
				if h.EnterAt.After(tStart) {
					classes = append(classes, "timeout_stale_by_quota_wait")
				}
			}
			r := int64(at(dc).Sub(created))
			u := timeoutUnit(r)
			classes = append(classes, fmt.Sprintf("timeout_unit_%v", time.Duration(u)))
			if got := int64(h.Deadline.Sub(h.EnterAt)); got >= r+u {
				hv = fmt.Sprintf("handler timeout %v exceeds the client's remaining time %v by a full grpc-timeout unit (%v) or more", time.Duration(got), time.Duration(r), time.Duration(u))
				break
			}
		}
		if !h.CtxDone {
			hv = fmt.Sprintf("handler context is not done at E=%v (client ended with %v)", time.Duration(E), code)
			break
		}
		if retry && h.Exited && h.ExitAt.Before(at(E)) {
			// an attempt that the script ended before E: its context is done by E
			if h.CtxDoneAt.After(at(E)) {
				hv = fmt.Sprintf("context of the handler of a finished attempt became done %v after start, after E=%v", h.CtxDoneAt.Sub(tStart), time.Duration(E))
				break
			}
			continue
		}
		if !h.CtxDoneAt.Equal(at(E)) {
			hv = fmt.Sprintf("handler context became done %v after start, want E=%v", h.CtxDoneAt.Sub(tStart), time.Duration(E))
			break
		}
	}
	hs.Unlock()
	if hv != "" {
		return bad("%s", hv)
	}
	if n := len(hrut); !retry && n > 1 {
		return bad("RPC reached %d handlers", n)
	}
	if n := hs.ByID("rut"); retry && (len(n) > phE.idx+1 || (len(n) < phE.idx+1 && E != rm[phE.idx].thi)) {
		return bad("VERIF-HARNESS (retry model): RPC reached %d handlers by E=%v, the model says %d", len(n), time.Duration(E), phE.idx+1)
	}
	teardown()
	return vk.Result{NonTrivial: nontrivial, Classes: classes}
}

func TestVerifC22Deadline(t *testing.T) {
	vk.Check(t, vk.Unit[plan]{
		ID: "C22", Name: "deadline",
		Rule: "one RPC per case driven to a blocking point in {pick (dialer gated, fail-fast or wait-for-ready through connect timeouts/backoff), stream quota (MaxConcurrentStreams 1-2 exhausted by fillers), flow control (handler does not read; fixed 64KiB windows), RecvMsg, unary Invoke}; ended by ctx deadline / service-config timeout / cancel at generated ns-exact virtual times (0..3 days; values around the 8-digit grpc-timeout unit changes; cancel within 2ns of the deadline), optional unblocking before/at/after the end; retry points (retry policy maxAttempts 2-5, 1-3 retryable codes, initial/max backoff 1ns..10h, multiplier 0.5-10, optional retryThrottling; the server's handlers follow a per-attempt script: trailers-only failure with optional grpc-retry-pushback-ms 0/small/large/saturating, failure after headers, park, headers then park; unary Invoke or NewStream+Send+Recv): the end time is placed by an interval model of the gRFC A6 retry state machine strictly inside the backoff wait after attempt k for every jitter value (retry_backoff), or while attempt k (mostly >= 2) is parked or would fail only later (retry_attempt; rarely tying with the attempt's start), or after an attempt legitimately ended the RPC (retry_over: non-retryable code, committed, pushback abort, throttled, attempts exhausted - only the handler-context clauses are asserted). non-trivial = blocked in pick, stream-quota wait or SendMsg one nanosecond before the end time, or in the retry backoff at the end time (class blocked_in_retry_backoff_at_E), or in a second or later attempt at the end time (class deadline_during_later_attempt)",
		Gen:  genPlan, Run: run,
	})
}
