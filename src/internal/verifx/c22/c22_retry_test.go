package c22_test

// C22, blocking points that involve retries (gRFC A6): the RPC under test has a
// retry policy; the server (a real grpc.Server whose handlers follow a script
// drawn in the plan) fails attempts with trailers-only statuses, optionally with
// grpc-retry-pushback-ms, so that at the end time E the RPC is either waiting in
// the retry backoff ("retry_backoff"), or blocked in attempt number k >= 2
// ("retry_attempt"), or has legitimately ended before E ("retry_over").
//
// Everything the oracle needs is computed from the plan by retryModel, an
// interval model of the A6 retry state machine (attempt start / failure times
// as [lo,hi] intervals because the exponential backoff has +-20% jitter;
// pushback delays are exact). The generator places E strictly inside the chosen
// phase for every jitter value, so the verdict does not depend on the jitter.

import (
	"fmt"
	"math"
	"strconv"
	"strings"
	"time"

	"google.golang.org/grpc"
	"google.golang.org/grpc/codes"
	"google.golang.org/grpc/internal/verifkit/e2elife"
	"google.golang.org/grpc/metadata"
	"pgregory.net/rapid"
)

// inf is "never" in the model's saturating arithmetic.
const inf = int64(1) << 62

type attemptPlan struct {
	Kind     string `json:"kind"`               // fail | hdr_fail | block | hdr_block
	Hold     int64  `json:"hold"`               // ns from handler entry to the scripted action
	Code     int    `json:"code"`               // status code of fail / hdr_fail
	Pushback string `json:"pushback,omitempty"` // value of grpc-retry-pushback-ms ("" = not sent)
}

type retryPlan struct {
	Unary       bool          `json:"unary"`        // Invoke instead of NewStream+Send+Recv
	MaxAttempts int           `json:"max_attempts"` // 2..5
	Codes       []int         `json:"codes"`        // retryableStatusCodes
	InitialNs   int64         `json:"initial_ns"`
	MaxNs       int64         `json:"max_ns"`
	Mult        float64       `json:"mult"`
	ThrottleMax int           `json:"throttle_max"` // retryThrottling.maxTokens; 0 = no throttling
	Attempts    []attemptPlan `json:"attempts"`     // script per attempt; beyond the end: block
}

var codeNames = map[int]string{1: "CANCELLED", 2: "UNKNOWN", 3: "INVALID_ARGUMENT", 4: "DEADLINE_EXCEEDED", 5: "NOT_FOUND",
	6: "ALREADY_EXISTS", 7: "PERMISSION_DENIED", 8: "RESOURCE_EXHAUSTED", 9: "FAILED_PRECONDITION", 10: "ABORTED",
	11: "OUT_OF_RANGE", 12: "UNIMPLEMENTED", 13: "INTERNAL", 14: "UNAVAILABLE", 15: "DATA_LOSS", 16: "UNAUTHENTICATED"}

func isRetryPoint(p plan) bool { return p.Retry != nil && strings.HasPrefix(p.Point, "retry") }

func jsonDur(ns int64) string { return fmt.Sprintf("%d.%09ds", ns/sec, ns%sec) }

// retryServiceConfig renders the service config of a retry-point plan.
func retryServiceConfig(p plan) string {
	r := p.Retry
	var names []string
	for _, c := range r.Codes {
		names = append(names, `"`+codeNames[c]+`"`)
	}
	mc := `{"name":[{"service":"verif.Life","method":"Call"}]`
	if p.SC >= 0 {
		mc += `,"timeout":"` + jsonDur(p.SC) + `"`
	}
	mc += fmt.Sprintf(`,"retryPolicy":{"maxAttempts":%d,"initialBackoff":"%s","maxBackoff":"%s","backoffMultiplier":%s,"retryableStatusCodes":[%s]}}`,
		r.MaxAttempts, jsonDur(r.InitialNs), jsonDur(r.MaxNs), strconv.FormatFloat(r.Mult, 'f', -1, 64), strings.Join(names, ","))
	sc := `{"methodConfig":[` + mc + `]`
	if r.ThrottleMax > 0 {
		sc += fmt.Sprintf(`,"retryThrottling":{"maxTokens":%d,"tokenRatio":0.1}`, r.ThrottleMax)
	}
	return sc + `}`
}

func sadd(a, b int64) int64 {
	if a >= inf || b >= inf || a+b >= inf {
		return inf
	}
	return a + b
}

// rtAttempt is the model's view of one attempt. All times are ns after the RPC
// start. [tlo,thi] bounds the attempt's start, [flo,fhi] the time at which the
// script ends it (inf: it parks until its context is done).
type rtAttempt struct {
	tlo, thi int64
	flo, fhi int64
	next     string // "park" | "end" (the RPC ends with this attempt's status) | "retry"
	reason   string // for "end"
	code     int
	blo, bhi int64 // for "retry": bounds of the delay before the next attempt
	pushback bool  // the delay is a server pushback (exact)
}

func (r *retryPlan) script(i int) attemptPlan {
	if i < len(r.Attempts) {
		return r.Attempts[i]
	}
	return attemptPlan{Kind: "block"}
}

// retryModel is the reference model of the client's retry decisions (gRFC A6,
// written from the spec): a trailers-only failure with a retryable status is
// retried after min(initial*mult^n, max) * [0.8,1.2] (n = retries since the last
// pushback) or exactly after the server's pushback, unless the pushback value
// is negative/unparseable, the retry throttle has dropped to maxTokens/2 or
// below, or maxAttempts is reached; any other failure ends the RPC.
func retryModel(r *retryPlan) []rtAttempt {
	var m []rtAttempt
	retryable := map[int]bool{}
	for _, c := range r.Codes {
		retryable[c] = true
	}
	tokens := float64(r.ThrottleMax)
	n := 0 // retries since pushback
	tlo, thi := int64(0), int64(0)
	for i := 0; i < 8; i++ {
		sp := r.script(i)
		a := rtAttempt{tlo: tlo, thi: thi, flo: inf, fhi: inf, code: sp.Code}
		if sp.Kind != "fail" && sp.Kind != "hdr_fail" {
			a.next = "park"
			return append(m, a)
		}
		a.flo, a.fhi = sadd(tlo, sp.Hold), sadd(thi, sp.Hold)
		end := func(reason string) []rtAttempt {
			a.next, a.reason = "end", reason
			return append(m, a)
		}
		if sp.Kind == "hdr_fail" {
			return end("committed")
		}
		pbNs := int64(-1)
		if sp.Pushback != "" {
			ms, err := strconv.ParseInt(sp.Pushback, 10, 64)
			if err != nil || ms < 0 {
				return end("pushback_abort")
			}
			if ms > inf/1e6 {
				pbNs = inf
			} else {
				pbNs = ms * 1e6
			}
		}
		if !retryable[sp.Code] {
			return end("nonretryable")
		}
		if r.ThrottleMax > 0 {
			tokens--
			if tokens < 0 {
				tokens = 0
			}
			if tokens <= float64(r.ThrottleMax)/2 {
				return end("throttled")
			}
		}
		if i+1 >= r.MaxAttempts {
			return end("exhausted")
		}
		a.next = "retry"
		if pbNs >= 0 {
			a.blo, a.bhi, a.pushback = pbNs, pbNs, true
			n = 0
		} else {
			b := math.Min(float64(r.InitialNs)*math.Pow(r.Mult, float64(n)), float64(r.MaxNs))
			lo := math.Floor(0.8*b*(1-1e-9)) - 2
			hi := math.Ceil(1.2*b*(1+1e-9)) + 2
			if lo < 0 {
				lo = 0
			}
			if hi > float64(inf) {
				hi = float64(inf)
			}
			a.blo, a.bhi = int64(lo), int64(hi)
			n++
		}
		m = append(m, a)
		tlo, thi = sadd(a.flo, a.blo), sadd(a.fhi, a.bhi)
		if tlo >= inf {
			return m // the next attempt never starts
		}
	}
	return m
}

type rtPhase struct {
	kind string // "attempt" | "backoff" | "over" | "ambiguous"
	idx  int
}

// phaseAt tells where the RPC is at time t if no deadline/cancellation
// interfered before t: in attempt idx, in the backoff after attempt idx, over
// (ended by attempt idx), or ambiguous (t is within the jitter uncertainty or
// on an edge).
func phaseAt(m []rtAttempt, t int64) rtPhase {
	for i, a := range m {
		if t < a.thi {
			return rtPhase{"ambiguous", i}
		}
		if a.next == "park" || t < a.flo {
			return rtPhase{"attempt", i}
		}
		if t <= a.fhi {
			return rtPhase{"ambiguous", i}
		}
		if a.next == "end" {
			return rtPhase{"over", i}
		}
		if t < sadd(a.flo, a.blo) {
			return rtPhase{"backoff", i}
		}
	}
	return rtPhase{"ambiguous", len(m)}
}

// ---------------------------------------------------------------------------
// generator

var retryablePool = []int{14, 14, 10, 8, 13, 2, 4, 1}
var nonRetryablePool = []int{3, 5, 7, 9, 12, 16, 14, 13, 4, 1}

func genHold(rt *rapid.T, label string) int64 {
	switch rapid.IntRange(0, 3).Draw(rt, label+"_kind") {
	case 0, 1:
		return 0
	case 2:
		return rapid.Int64Range(1, 5000000).Draw(rt, label)
	default:
		return genDur(rt, label, 3600*sec)
	}
}

func genBackoffNs(rt *rapid.T, label string) int64 {
	switch rapid.IntRange(0, 4).Draw(rt, label+"_kind") {
	case 0, 1: // a few ms
		return rapid.Int64Range(1000000, 50000000).Draw(rt, label)
	case 2: // up to 10 s
		return rapid.Int64Range(50000000, 10*sec).Draw(rt, label)
	case 3: // minutes to hours
		return rapid.Int64Range(60*sec, 10*3600*sec).Draw(rt, label)
	default: // anything from 1 ns
		return 1 + genDur(rt, label, 3600*sec)
	}
}

// genRetryFail draws a retryable trailers-only failure.
func genRetryFail(rt *rapid.T, r *retryPlan, label string) attemptPlan {
	a := attemptPlan{Kind: "fail", Hold: genHold(rt, label+"_hold")}
	a.Code = rapid.SampledFrom(r.Codes).Draw(rt, label+"_code")
	switch rapid.IntRange(0, 9).Draw(rt, label+"_pb") {
	case 0:
		a.Pushback = "0"
	case 1, 2:
		a.Pushback = strconv.FormatInt(rapid.Int64Range(1, 50).Draw(rt, label+"_pbms"), 10)
	case 3:
		a.Pushback = strconv.FormatInt(rapid.Int64Range(51, 100000000).Draw(rt, label+"_pbms"), 10)
	}
	return a
}

func genTailAttempt(rt *rapid.T, r *retryPlan, label string) attemptPlan {
	switch rapid.IntRange(0, 5).Draw(rt, label+"_kind") {
	case 0:
		return genRetryFail(rt, r, label)
	case 1:
		return attemptPlan{Kind: "hdr_fail", Hold: genHold(rt, label+"_hold"), Code: rapid.SampledFrom(nonRetryablePool).Draw(rt, label+"_code")}
	case 2:
		return attemptPlan{Kind: "hdr_block", Hold: genHold(rt, label+"_hold")}
	default:
		return attemptPlan{Kind: "block"}
	}
}

func drawIn(rt *rapid.T, label string, lo, hi int64) int64 {
	if hi <= lo {
		return lo
	}
	switch rapid.IntRange(0, 4).Draw(rt, label+"_where") {
	case 0:
		return lo + rapid.Int64Range(0, min(3, hi-lo)).Draw(rt, label+"_off")
	case 1:
		return hi - rapid.Int64Range(0, min(3, hi-lo)).Draw(rt, label+"_off")
	case 2:
		return lo + (hi-lo)/2
	case 3: // around the grpc-timeout unit changes, if inside
		u := rapid.SampledFrom([]int64{1, 1000, 1000000}).Draw(rt, label+"_unit")
		v := 99999999*u + rapid.Int64Range(-3, 3).Draw(rt, label+"_delta")
		if v >= lo && v <= hi {
			return v
		}
		return rapid.Int64Range(lo, hi).Draw(rt, label)
	default:
		return rapid.Int64Range(lo, hi).Draw(rt, label)
	}
}

// genRetry fills p.Retry and the enders D/SC/C of a retry-point plan.
func genRetry(rt *rapid.T, p *plan) {
	r := &retryPlan{}
	p.Retry = r
	r.Unary = rapid.Bool().Draw(rt, "unary")
	r.MaxAttempts = rapid.IntRange(2, 5).Draw(rt, "max_attempts")
	seen := map[int]bool{}
	for i, n := 0, rapid.IntRange(1, 3).Draw(rt, "ncodes"); i < n; i++ {
		c := rapid.SampledFrom(retryablePool).Draw(rt, "rcode")
		if !seen[c] {
			seen[c] = true
			r.Codes = append(r.Codes, c)
		}
	}
	r.InitialNs = genBackoffNs(rt, "initial")
	r.MaxNs = genBackoffNs(rt, "maxbackoff")
	r.Mult = rapid.SampledFrom([]float64{0.5, 1, 1.5, 2, 3, 10}).Draw(rt, "mult")

	const horizon = 3 * day
	var E int64
	switch p.Point {
	case "retry_backoff":
		k := rapid.IntRange(0, r.MaxAttempts-2).Draw(rt, "k")
		for i := 0; i <= k; i++ {
			r.Attempts = append(r.Attempts, genRetryFail(rt, r, fmt.Sprintf("a%d", i)))
		}
		if rapid.IntRange(0, 7).Draw(rt, "huge_pb") == 0 {
			r.Attempts[k].Pushback = rapid.SampledFrom([]string{"9223372036854775807", "9223372036854", "9223372036855", "4611686018428"}).Draw(rt, "huge")
		}
		if rapid.IntRange(0, 2).Draw(rt, "throttle") == 0 {
			r.ThrottleMax = 2*(k+1) + rapid.IntRange(1, 10).Draw(rt, "tmax")
		}
		m := retryModel(r)
		lo, hi := sadd(m[k].fhi, 1), sadd(m[k].flo, m[k].blo)-1
		if hi < lo {
			// the backoff is shorter than the accumulated jitter uncertainty (or
			// zero): make attempt k push back long enough (exact, no jitter)
			ms := (m[k].fhi-m[k].flo+3)/1000000 + 1 + rapid.Int64Range(0, 2000).Draw(rt, "pb_extra")
			r.Attempts[k].Pushback = strconv.FormatInt(ms, 10)
			m = retryModel(r)
			lo, hi = sadd(m[k].fhi, 1), sadd(m[k].flo, m[k].blo)-1
		}
		E = drawIn(rt, "e", lo, min(hi, lo+horizon))
		for i, n := k+1, rapid.IntRange(0, 1).Draw(rt, "tail"); i <= k+n; i++ {
			r.Attempts = append(r.Attempts, genTailAttempt(rt, r, fmt.Sprintf("a%d", i)))
		}
	case "retry_attempt":
		k := 0
		if rapid.IntRange(0, 7).Draw(rt, "first") != 0 {
			k = rapid.IntRange(1, r.MaxAttempts-1).Draw(rt, "k")
		}
		for i := 0; i < k; i++ {
			a := genRetryFail(rt, r, fmt.Sprintf("a%d", i))
			r.Attempts = append(r.Attempts, a)
		}
		if rapid.IntRange(0, 2).Draw(rt, "throttle") == 0 {
			r.ThrottleMax = 2*k + rapid.IntRange(1, 10).Draw(rt, "tmax")
		}
		m := retryModel(r) // attempt k parks (script beyond the end)
		lo := m[k].thi
		if k >= 1 && lo <= m[k-1].fhi {
			lo = m[k-1].fhi + 1 // zero delay: E must not tie with the previous attempt's failure
		}
		switch rapid.IntRange(0, 3).Draw(rt, "k_kind") {
		case 0, 1:
			r.Attempts = append(r.Attempts, attemptPlan{Kind: "block"})
			E = lo + genDur(rt, "e_after", horizon)
		case 2:
			r.Attempts = append(r.Attempts, attemptPlan{Kind: "hdr_block", Hold: 0})
			E = lo + genDur(rt, "e_after", horizon)
		default: // the attempt would fail later than E
			a := genTailAttempt(rt, r, "ak")
			if a.Kind == "block" {
				a = genRetryFail(rt, r, "ak")
			}
			a.Hold = (lo - m[k].tlo) + 1 + genDur(rt, "ak_hold", day) // fails strictly after lo for every jitter value
			if a.Kind == "hdr_block" {
				a.Hold = 0
			}
			r.Attempts = append(r.Attempts, a)
			m = retryModel(r)
			hi := lo + horizon
			if m[k].flo < inf {
				hi = min(hi, m[k].flo-1)
			}
			E = drawIn(rt, "e", lo, hi)
		}
	default: // retry_over: attempt j legitimately ends the RPC before E
		j := rapid.IntRange(0, r.MaxAttempts-1).Draw(rt, "j")
		for i := 0; i < j; i++ {
			r.Attempts = append(r.Attempts, genRetryFail(rt, r, fmt.Sprintf("a%d", i)))
		}
		last := genRetryFail(rt, r, "aj")
		switch why := rapid.IntRange(0, 4).Draw(rt, "why"); {
		case why == 0:
			last.Kind, last.Pushback = "hdr_fail", ""
		case why == 1:
			last.Pushback = rapid.SampledFrom([]string{"-1", "x", "-9223372036854775808", "1.5"}).Draw(rt, "abort")
		case why == 2:
			r.ThrottleMax = 2*j + rapid.IntRange(1, 2).Draw(rt, "tmax")
		case why == 3 || j == r.MaxAttempts-1:
			// exhausted if j is the last allowed attempt, otherwise non-retryable
			if j != r.MaxAttempts-1 {
				last.Code, last.Pushback = nonRetryableCode(rt, r), ""
			}
		default:
			last.Code, last.Pushback = nonRetryableCode(rt, r), ""
		}
		r.Attempts = append(r.Attempts, last)
		if r.ThrottleMax == 0 && rapid.IntRange(0, 3).Draw(rt, "throttle") == 0 {
			r.ThrottleMax = 2*(j+1) + rapid.IntRange(1, 10).Draw(rt, "tmax2")
		}
		m := retryModel(r)
		E = sadd(m[len(m)-1].fhi, 1) + genDur(rt, "e_after", day)
	}

	// E is carried by one ender; further enders are at or after E
	later := func(label string) int64 {
		switch rapid.IntRange(0, 2).Draw(rt, label+"_kind") {
		case 0:
			return E + rapid.Int64Range(0, 2).Draw(rt, label)
		default:
			return E + genDur(rt, label, horizon)
		}
	}
	set := func(which int, v int64) {
		switch which {
		case 0:
			p.D = v
		case 1:
			p.SC = v
		default:
			p.C = v
		}
	}
	primary := rapid.IntRange(0, 2).Draw(rt, "primary")
	set(primary, E)
	for w := 0; w < 3; w++ {
		if w != primary && rapid.IntRange(0, 3).Draw(rt, fmt.Sprintf("also%d", w)) == 0 {
			set(w, later(fmt.Sprintf("later%d", w)))
		}
	}
}

func nonRetryableCode(rt *rapid.T, r *retryPlan) int {
	var pool []int
	for _, c := range nonRetryablePool {
		ok := true
		for _, rc := range r.Codes {
			if rc == c {
				ok = false
			}
		}
		if ok {
			pool = append(pool, c)
		}
	}
	return rapid.SampledFrom(pool).Draw(rt, "nrcode")
}

// ---------------------------------------------------------------------------
// executor helpers

// installScript makes the handlers of the RPC under test follow the plan's
// per-attempt script (attempt number = entry order of the handlers with id
// "rut"). stop ends the script goroutines at teardown.
func installScript(hs *e2elife.Handlers, r *retryPlan, stop <-chan struct{}) {
	n := 0
	hs.OnEnter = func(c *e2elife.HCall) { // called with the registry lock held
		if c.ID != "rut" {
			return
		}
		sp := r.script(n)
		n++
		if sp.Kind == "block" {
			return
		}
		go func() {
			if sp.Hold > 0 {
				t := time.NewTimer(time.Duration(sp.Hold))
				select {
				case <-t.C:
				case <-stop:
					t.Stop()
					return
				}
			}
			switch sp.Kind {
			case "fail":
				if sp.Pushback != "" {
					_ = grpc.SetTrailer(c.Ctx, metadata.Pairs("grpc-retry-pushback-ms", sp.Pushback))
				}
				hs.Do(c, e2elife.Cmd{Kind: e2elife.CmdFinish, Code: codes.Code(sp.Code), Msg: "scripted failure"})
			case "hdr_fail":
				hs.Do(c, e2elife.Cmd{Kind: e2elife.CmdHeader})
				hs.Do(c, e2elife.Cmd{Kind: e2elife.CmdFinish, Code: codes.Code(sp.Code), Msg: "scripted failure after headers"})
			case "hdr_block":
				hs.Do(c, e2elife.Cmd{Kind: e2elife.CmdHeader})
			}
		}()
	}
}

// rutState returns the number of handlers the RPC under test has reached and
// whether the latest one has returned.
func rutState(hs *e2elife.Handlers) (int, bool) {
	hs.Lock()
	defer hs.Unlock()
	n, exited := 0, false
	for _, h := range hs.Calls {
		if h.ID == "rut" {
			n++
			exited = h.Exited
		}
	}
	return n, exited
}

func retryClasses(p plan, m []rtAttempt, ph rtPhase) []string {
	cl := []string{"retry_policy"}
	if p.Retry.Unary {
		cl = append(cl, "retry_shape_unary")
	} else {
		cl = append(cl, "retry_shape_stream")
	}
	if p.Retry.ThrottleMax > 0 {
		cl = append(cl, "retry_throttling_configured")
	}
	a := m[ph.idx]
	switch ph.kind {
	case "backoff":
		cl = append(cl, "blocked_in_retry_backoff_at_E", fmt.Sprintf("backoff_after_attempt_%d", ph.idx+1))
		switch {
		case a.pushback && a.blo >= inf:
			cl = append(cl, "backoff_is_pushback_saturating")
		case a.pushback:
			cl = append(cl, "backoff_is_pushback")
		default:
			cl = append(cl, "backoff_is_exponential_jitter")
		}
		if a.thi > a.tlo {
			cl = append(cl, "backoff_after_jittered_history")
		}
	case "attempt":
		if ph.idx >= 1 {
			cl = append(cl, "deadline_during_later_attempt", fmt.Sprintf("later_attempt_%d", ph.idx+1))
		} else {
			cl = append(cl, "deadline_during_first_attempt_with_retry_policy")
		}
		if a.next != "park" {
			cl = append(cl, "attempt_would_end_after_E")
		}
		if endOf(p) == a.thi {
			cl = append(cl, "E_ties_with_attempt_start")
		}
	case "over":
		cl = append(cl, "rpc_over_before_E", "over_"+a.reason)
	}
	return cl
}
