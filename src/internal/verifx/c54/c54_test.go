package c54_test

// C54: health Watch streams converge to the latest status.
//
// Black box on health.Server inside a synctest bubble. A plan is a list of
// operations (SetServingStatus / Shutdown / Resume / Check / start a watcher /
// release or break a watcher's blocked Send / cancel a watcher); each op says
// whether the bubble is brought to quiescence (synctest.Wait) afterwards, so
// both "watcher keeps up" and "several changes pile up behind a slow sender or
// before the watcher even ran" are generated. A reference model keeps the
// status history of every service with logical time stamps (op index).

import (
	"context"
	"errors"
	"fmt"
	"sync"
	"sync/atomic"
	"testing"
	"testing/synctest"

	"google.golang.org/grpc"
	"google.golang.org/grpc/codes"
	"google.golang.org/grpc/health"
	healthpb "google.golang.org/grpc/health/grpc_health_v1"
	"google.golang.org/grpc/internal/verifkit/vk"
	"google.golang.org/grpc/status"
	"pgregory.net/rapid"
)

type st = healthpb.HealthCheckResponse_ServingStatus

const (
	opSet = iota
	opShutdown
	opResume
	opCheck
	opWatch
	opRelease
	opBreak
	opCancel
	numOps
)

var opNames = [...]string{"SetServingStatus", "Shutdown", "Resume", "Check", "Watch", "Release", "Break", "Cancel"}

var services = []string{"", "a", "b"}

type op struct {
	K    int  `json:"k"`
	Svc  int  `json:"svc"`  // service index (mod 3)
	St   int  `json:"st"`   // status 0..3
	W    int  `json:"w"`    // watcher index (mod number of watchers)
	Auto bool `json:"auto"` // opWatch: Send never blocks
	Wait bool `json:"wait"` // bring the bubble to quiescence after the op
}

type plan struct {
	Ops []op `json:"ops"`
}

// ---------------------------------------------------------------- model

type change struct {
	t  int64
	st st
}

type model struct {
	reg      map[string]st
	shutdown bool
	hist     map[string][]change
}

func newModel() *model {
	return &model{reg: map[string]st{"": healthpb.HealthCheckResponse_SERVING},
		hist: map[string][]change{"": {{0, healthpb.HealthCheckResponse_SERVING}}}}
}

func (m *model) cur(svc string) st {
	if s, ok := m.reg[svc]; ok {
		return s
	}
	return healthpb.HealthCheckResponse_SERVICE_UNKNOWN
}

// set returns true if the visible status changed.
func (m *model) set(t int64, svc string, s st) bool {
	old := m.cur(svc)
	m.reg[svc] = s
	m.hist[svc] = append(m.hist[svc], change{t, s})
	return old != s
}

// held reports whether svc had status s at some instant in [t0, t1].
func (m *model) held(svc string, t0, t1 int64, s st) bool {
	inForce := healthpb.HealthCheckResponse_SERVICE_UNKNOWN // unregistered
	for _, c := range m.hist[svc] {
		if c.t <= t0 {
			inForce = c.st
		} else if c.t <= t1 && c.st == s {
			return true
		}
	}
	return inForce == s
}

// ---------------------------------------------------------------- fake stream

type sendRec struct {
	t  int64
	st st
}

type watcher struct {
	grpc.ServerStream
	ctx    context.Context
	cancel context.CancelFunc
	clock  *atomic.Int64
	svc    string
	start  int64

	mu       sync.Mutex
	sends    []sendRec
	auto     bool
	blocked  bool
	failNext bool
	piled    int // visible status changes of svc since the current Send blocked
	maxPiled int
	gate     chan struct{}

	done    atomic.Bool
	retErr  error
	checked int // sends already verified
	dead    bool
}

func (w *watcher) Context() context.Context { return w.ctx }

func (w *watcher) Send(r *healthpb.HealthCheckResponse) error {
	w.mu.Lock()
	w.sends = append(w.sends, sendRec{w.clock.Load(), r.GetStatus()})
	auto := w.auto
	if !auto {
		w.blocked = true
		w.piled = 0
	}
	w.mu.Unlock()
	if !auto {
		select {
		case <-w.gate:
		case <-w.ctx.Done():
		}
	}
	w.mu.Lock()
	w.blocked = false
	fail := w.failNext
	w.failNext = false
	w.mu.Unlock()
	if fail {
		return errors.New("vfC54: stream broken")
	}
	return w.ctx.Err()
}

func (w *watcher) isBlocked() bool {
	w.mu.Lock()
	defer w.mu.Unlock()
	return w.blocked
}

func (w *watcher) release() {
	select {
	case w.gate <- struct{}{}:
	default:
	}
}

// ---------------------------------------------------------------- executor

type world struct {
	srv      *health.Server
	m        *model
	clock    atomic.Int64
	watchers []*watcher
	classes  map[string]bool
}

func (w *world) noteChange(svc string) {
	for _, x := range w.watchers {
		if x.svc != svc {
			continue
		}
		x.mu.Lock()
		if x.blocked {
			x.piled++
			if x.piled > x.maxPiled {
				x.maxPiled = x.piled
			}
		}
		x.mu.Unlock()
	}
}

// verify checks the sends not yet verified; only called at quiescence.
func (w *world) verify() string {
	for i, x := range w.watchers {
		x.mu.Lock()
		sends := append([]sendRec{}, x.sends...)
		x.mu.Unlock()
		for j := x.checked; j < len(sends); j++ {
			t0 := x.start
			if j > 0 {
				t0 = sends[j-1].t
				if sends[j-1].st == sends[j].st {
					return fmt.Sprintf("watcher %d (%q) was sent %v twice in a row (sends %v)", i, x.svc, sends[j].st, sends)
				}
			}
			if !w.m.held(x.svc, t0, sends[j].t, sends[j].st) {
				return fmt.Sprintf("watcher %d (%q) was sent %v (send #%d at t=%d), a status the service did not have in [t=%d, t=%d]; history %v", i, x.svc, sends[j].st, j, sends[j].t, t0, sends[j].t, w.m.hist[x.svc])
			}
		}
		x.checked = len(sends)
	}
	return ""
}

// converged: at quiescence every live watcher whose sender is not blocked has
// been sent the current status last.
func (w *world) converged(when string) string {
	for i, x := range w.watchers {
		if x.dead || x.isBlocked() {
			continue
		}
		if x.done.Load() {
			return fmt.Sprintf("%s: Watch of watcher %d (%q) returned %v although its stream is alive", when, i, x.svc, x.retErr)
		}
		x.mu.Lock()
		n := len(x.sends)
		var last st
		if n > 0 {
			last = x.sends[n-1].st
		}
		x.mu.Unlock()
		if n == 0 {
			return fmt.Sprintf("%s: watcher %d (%q) has not been sent any status at quiescence", when, i, x.svc)
		}
		if cur := w.m.cur(x.svc); last != cur {
			return fmt.Sprintf("%s: watcher %d (%q) was last sent %v but the current status is %v (sender idle, quiescent)", when, i, x.svc, last, cur)
		}
	}
	return ""
}

func (w *world) exec(t *testing.T, i int, o op) string {
	now := w.clock.Add(1)
	svc := services[mod(o.Svc, len(services))]
	switch o.K {
	case opSet:
		s := st(mod(o.St, 4))
		w.srv.SetServingStatus(svc, s)
		if w.m.shutdown {
			w.classes["set_ignored_during_shutdown"] = true
		} else if w.m.set(now, svc, s) {
			w.noteChange(svc)
		}
	case opShutdown:
		w.srv.Shutdown()
		w.m.shutdown = true
		for _, name := range services {
			if _, ok := w.m.reg[name]; ok && w.m.set(now, name, healthpb.HealthCheckResponse_NOT_SERVING) {
				w.noteChange(name)
			}
		}
	case opResume:
		w.srv.Resume()
		w.m.shutdown = false
		for _, name := range services {
			if _, ok := w.m.reg[name]; ok && w.m.set(now, name, healthpb.HealthCheckResponse_SERVING) {
				w.noteChange(name)
			}
		}
	case opCheck:
		resp, err := w.srv.Check(context.Background(), &healthpb.HealthCheckRequest{Service: svc})
		if want, ok := w.m.reg[svc]; ok {
			if err != nil {
				return fmt.Sprintf("op %d: Check(%q) failed (%v), model status %v", i, svc, err, want)
			}
			if resp.GetStatus() != want {
				return fmt.Sprintf("op %d: Check(%q) = %v, latest status is %v", i, svc, resp.GetStatus(), want)
			}
			if w.m.shutdown {
				w.classes["check_during_shutdown"] = true
				if want != healthpb.HealthCheckResponse_NOT_SERVING {
					return "harness: model not NOT_SERVING during shutdown"
				}
			}
		} else {
			w.classes["check_unregistered"] = true
			if err == nil && w.m.shutdown && resp.GetStatus() != healthpb.HealthCheckResponse_NOT_SERVING {
				return fmt.Sprintf("op %d: Check(%q) = %v between Shutdown and Resume", i, svc, resp.GetStatus())
			}
		}
	case opWatch:
		if len(w.watchers) >= 4 {
			return ""
		}
		ctx, cancel := context.WithCancel(context.Background())
		x := &watcher{ctx: ctx, cancel: cancel, clock: &w.clock, svc: svc, start: now, auto: o.Auto, gate: make(chan struct{})}
		w.watchers = append(w.watchers, x)
		go func() {
			x.retErr = w.srv.Watch(&healthpb.HealthCheckRequest{Service: svc}, x)
			x.done.Store(true)
		}()
		if _, ok := w.m.reg[svc]; !ok {
			w.classes["watch_unregistered_service"] = true
		}
		if w.m.shutdown {
			w.classes["watch_started_during_shutdown"] = true
		}
	case opRelease, opBreak, opCancel:
		if len(w.watchers) == 0 {
			return ""
		}
		x := w.watchers[mod(o.W, len(w.watchers))]
		if x.dead {
			return ""
		}
		switch o.K {
		case opRelease:
			if x.isBlocked() {
				w.classes["release_blocked_sender"] = true
			}
			x.release()
		case opBreak:
			if !x.isBlocked() {
				return ""
			}
			x.mu.Lock()
			x.failNext = true
			x.mu.Unlock()
			x.dead = true
			x.release()
			w.classes["send_error"] = true
		case opCancel:
			x.dead = true
			x.cancel()
			w.classes["cancel"] = true
		}
	}
	return ""
}

func mod(i, n int) int {
	i %= n
	if i < 0 {
		i += n
	}
	return i
}

func run(t *testing.T, p plan) vk.Result {
	var res vk.Result
	msg := vk.Bubble(t, func(t *testing.T) {
		res = runInBubble(t, p)
	})
	if msg != "" && res.Violation == "" {
		return vk.Bad("bubble did not drain (an operation or a Watch goroutine is stuck): %s", msg)
	}
	return res
}

func runInBubble(t *testing.T, p plan) vk.Result {
	w := &world{srv: health.NewServer(), m: newModel(), classes: map[string]bool{}}
	fail := func(s string) vk.Result {
		// best-effort cleanup so that the bubble can drain
		for _, x := range w.watchers {
			x.cancel()
		}
		return vk.Bad("%s", s)
	}
	steps := 0
	for i, o := range p.Ops {
		if o.K < 0 || o.K >= numOps {
			return vk.Result{Discard: true}
		}
		if s := w.exec(t, i, o); s != "" {
			return fail(s)
		}
		steps++
		if o.Wait {
			synctest.Wait()
			if s := w.verify(); s != "" {
				return fail(s)
			}
			if s := w.converged(fmt.Sprintf("after op %d %s", i, opNames[o.K])); s != "" {
				return fail(s)
			}
			for j, x := range w.watchers {
				if x.dead && !x.done.Load() {
					return fail(fmt.Sprintf("after op %d: Watch of watcher %d did not return after its stream ended", i, j))
				}
			}
		}
	}
	// epilogue: let every sender run free, then demand convergence.
	for round := 0; round < 3; round++ {
		for _, x := range w.watchers {
			x.mu.Lock()
			x.auto = true
			x.mu.Unlock()
			x.release()
		}
		synctest.Wait()
	}
	if s := w.verify(); s != "" {
		return fail(s)
	}
	for j, x := range w.watchers {
		if !x.dead && x.isBlocked() {
			return fail(fmt.Sprintf("epilogue: watcher %d is still blocked in Send", j))
		}
	}
	if s := w.converged("at the end"); s != "" {
		return fail(s)
	}
	maxPiled := 0
	for _, x := range w.watchers {
		if x.maxPiled > maxPiled {
			maxPiled = x.maxPiled
		}
		if !x.dead {
			w.classes["live_watcher_at_end"] = true
		}
	}
	for _, x := range w.watchers {
		x.cancel()
	}
	synctest.Wait()
	for j, x := range w.watchers {
		if !x.done.Load() {
			return vk.Bad("Watch of watcher %d did not return after cancellation", j)
		}
		if status.Code(x.retErr) != codes.Canceled {
			w.classes["watch_returned_"+status.Code(x.retErr).String()] = true
		}
	}
	res := vk.Result{Steps: steps, NonTrivial: maxPiled >= 2}
	if maxPiled >= 1 {
		w.classes["changes_behind_blocked_sender>=1"] = true
	}
	if maxPiled >= 2 {
		w.classes["changes_behind_blocked_sender>=2"] = true
	}
	if len(w.watchers) >= 2 {
		w.classes["watchers>=2"] = true
	}
	for c := range w.classes {
		res.Classes = append(res.Classes, c)
	}
	sortStrings(res.Classes)
	return res
}

func sortStrings(s []string) {
	for i := 1; i < len(s); i++ {
		for j := i; j > 0 && s[j] < s[j-1]; j-- {
			s[j], s[j-1] = s[j-1], s[j]
		}
	}
}

// ---------------------------------------------------------------- generator

var opTable = []int{opSet, opSet, opSet, opSet, opSet, opSet, opSet, opSet, opShutdown, opResume, opResume, opCheck, opCheck, opWatch, opWatch, opRelease, opRelease, opRelease, opBreak, opCancel}

func genPlan(rt *rapid.T) plan {
	n := rapid.IntRange(6, vk.Pick(20, 150)).Draw(rt, "nops")
	var p plan
	mainSvc := rapid.IntRange(0, 2).Draw(rt, "mainsvc")
	for i := 0; i < n; i++ {
		o := op{K: rapid.SampledFrom(opTable).Draw(rt, "op")}
		if i == 0 && rapid.IntRange(0, 3).Draw(rt, "prologue") > 0 {
			o.K = opWatch
		}
		// most ops concern one service so that changes pile up behind its watchers
		if rapid.IntRange(0, 3).Draw(rt, "onmain") > 0 {
			o.Svc = mainSvc
		} else {
			o.Svc = rapid.IntRange(0, 2).Draw(rt, "svc")
		}
		o.St = rapid.IntRange(0, 3).Draw(rt, "st")
		o.W = rapid.IntRange(0, 3).Draw(rt, "w")
		o.Auto = rapid.IntRange(0, 3).Draw(rt, "auto") == 0
		o.Wait = rapid.IntRange(0, 3).Draw(rt, "wait") > 0
		p.Ops = append(p.Ops, o)
	}
	return p
}

func TestVerifC54Watch(t *testing.T) {
	vk.Check(t, vk.Unit[plan]{
		ID: "C54", Name: "watch",
		Rule: "6..20 (thorough 150) ops over 3 services ('' pre-registered, 'a', 'b') and up to 4 watchers whose Send blocks until released (75%) or never blocks: SetServingStatus (any of the 4 enum values), Shutdown, Resume, Check, start watcher, release / break (Send error) / cancel a watcher; 75% of the ops are followed by synctest.Wait (quiescence), the rest are batched. non-trivial = some watcher had >= 2 visible status changes of its service pile up while its Send was blocked",
		Gen:  genPlan, Run: run,
	})
}
