package c15_test

// C15, part 1: keepalive dead-peer detection (client role and server role).
//
// A real grpc-go transport (http2Client via h2grpc.NewClient, http2Server via
// h2grpc.NewServer) runs against a scripted h2peer inside a synctest bubble.
// The plan is a timeline of peer activity (complete frames, ping acks, raw
// partial-frame bytes), stream open/close and pure waits; every delay is
// expressed relative to Time / Timeout (+- 1 ns) and anchored at the previous
// event, the last frame the peer delivered, or the last keepalive PING seen.
// The harness records a trace in exact virtual time (delivered frames,
// keepalive PINGs seen on the wire, stream-open intervals, the instant grpc-go
// closed its end of the pipe) and the oracle in kaJudge evaluates the property
// STATEMENT on that trace. It does not replay grpc-go's timer loop.
//
// Ordering rule at equal virtual instants: the harness sleeps to the target
// instant and then calls synctest.Wait() before acting, so everything grpc-go
// does on a timer at instant T happens before the harness' event at T. This
// makes Run a deterministic function of the plan and settles every boundary
// (an ack written at exactly ping+Timeout arrives after the close).

import (
	"context"
	"errors"
	"fmt"
	"math"
	"sync"
	"testing"
	"testing/synctest"
	"time"

	"golang.org/x/net/http2"
	"google.golang.org/grpc/codes"
	"google.golang.org/grpc/internal/transport"
	"google.golang.org/grpc/internal/verifkit/h2peer"
	"google.golang.org/grpc/internal/verifkit/h2peer/h2grpc"
	"google.golang.org/grpc/internal/verifkit/vk"
	"google.golang.org/grpc/keepalive"
	"google.golang.org/grpc/status"
	"pgregory.net/rapid"
)

const (
	kaInf       = int64(math.MaxInt64)
	kaHour      = int64(time.Hour)
	kaMaxParam  = 2 * kaHour
	kaMinParam  = int64(time.Millisecond)
	kaDefTmo    = int64(20 * time.Second)
	kaSrvDefTim = 2 * kaHour
)

// Event kinds.
const (
	evOpen    = "open"    // open a stream (client: NewStream; server: peer HEADERS, which is also a delivered frame)
	evClose   = "close"   // close the S-th open stream. B=0: locally (client cancel / server WriteStatus), B=1: by a peer frame (client role: trailers-only HEADERS; server role: RST_STREAM)
	evByte    = "byte"    // the peer delivers one complete frame (B: 0 SETTINGS, 1 WINDOW_UPDATE(0,1), 2 PING ACK with foreign data, 3 PING (client role only))
	evAck     = "ack"     // the peer acknowledges the keepalive PING (PING ACK with zero data); a delivered frame
	evDribble = "dribble" // the peer writes the next 1..8 bytes of a PING-ACK frame (a complete frame only when the 17th byte goes out)
	evWait    = "wait"    // nothing
)

// Delay anchors.
const (
	anPrev = "prev" // previous event
	anRead = "read" // last complete frame delivered by the peer
	anPing = "ping" // last keepalive PING seen from grpc-go (falls back to prev)
)

// Delay bases.
const (
	bsAbs     = "abs" // Num nanoseconds
	bsTime    = "time"
	bsTimeout = "timeout"
	bsSum     = "sum" // Time+Timeout
	bsMin     = "min" // min(Time,Timeout)
)

// KAEv is one timeline event: at  anchor + base*Num/Den + Off  (never before "now").
type KAEv struct {
	K      string `json:"k"`
	Anchor string `json:"an"`
	Base   string `json:"base"`
	Num    int64  `json:"num"`
	Den    int64  `json:"den"`
	Off    int64  `json:"off"`
	S      int    `json:"s,omitempty"`
	B      int    `json:"b,omitempty"`
}

// KAPlan is a serialisable keepalive case.
type KAPlan struct {
	Role    string `json:"role"`    // role of grpc-go: "client" | "server"
	Time    int64  `json:"time"`    // ns; 0 = unset (client: keepalive disabled, server: 2 h)
	Timeout int64  `json:"timeout"` // ns; 0 = unset (20 s)
	Permit  bool   `json:"permit"`  // client: PermitWithoutStream
	AutoAck bool   `json:"autoack"` // the peer acknowledges every PING immediately
	Ev      []KAEv `json:"ev"`
	Tail    int    `json:"tail"` // final silent observation: Tail*(Time+Timeout)+1ns
	// Wake restricts nothing in Run; it only records that the generator built
	// the "frame delivered while dormant, then a stream opens" family.
	Wake bool `json:"wake,omitempty"`
}

func (p KAPlan) effTime() int64 {
	if p.Time == 0 {
		if p.Role == "client" {
			return kaInf
		}
		return kaSrvDefTim
	}
	return p.Time
}

func (p KAPlan) effTimeout() int64 {
	if p.Timeout == 0 {
		return kaDefTmo
	}
	return p.Timeout
}

// baseTime is the Time value used to scale delays (10 s when keepalive is disabled).
func (p KAPlan) baseTime() int64 {
	if t := p.effTime(); t != kaInf {
		return t
	}
	return int64(10 * time.Second)
}

func genKAParam(rt *rapid.T, label string) int64 {
	switch rapid.IntRange(0, 9).Draw(rt, label+"_kind") {
	case 0:
		return kaMinParam
	case 1:
		return kaMaxParam
	case 2:
		return rapid.SampledFrom([]int64{int64(time.Second), int64(10 * time.Second), int64(20 * time.Second), int64(5 * time.Minute)}).Draw(rt, label+"_std")
	case 3:
		return rapid.Int64Range(kaMinParam, kaMinParam+5).Draw(rt, label+"_lo")
	case 4:
		return rapid.Int64Range(kaMaxParam-5, kaMaxParam).Draw(rt, label+"_hi")
	default:
		// log-uniform over [1 ms, 2 h]
		e := rapid.Float64Range(math.Log(float64(kaMinParam)), math.Log(float64(kaMaxParam))).Draw(rt, label+"_log")
		v := int64(math.Exp(e))
		return min(max(v, kaMinParam), kaMaxParam)
	}
}

func genKADelay(rt *rapid.T, ev *KAEv) {
	ev.Anchor = rapid.SampledFrom([]string{anPrev, anPrev, anRead, anRead, anPing}).Draw(rt, "anchor")
	ev.Base = rapid.SampledFrom([]string{bsTime, bsTime, bsTimeout, bsTimeout, bsSum, bsMin, bsAbs}).Draw(rt, "base")
	fr := rapid.SampledFrom([][2]int64{{1, 1}, {1, 1}, {1, 1}, {1, 2}, {1, 3}, {2, 1}, {3, 2}, {0, 1}, {9, 10}}).Draw(rt, "frac")
	ev.Num, ev.Den = fr[0], fr[1]
	if ev.Base == bsAbs {
		ev.Num, ev.Den = rapid.SampledFrom([]int64{0, 1, 2, 1000, 1000000}).Draw(rt, "absns"), 1
	}
	ev.Off = rapid.SampledFrom([]int64{0, 0, 0, -1, 1, -1, 1, -2, 2, 1000}).Draw(rt, "off")
}

func genKAPlan(role string, wake bool) func(rt *rapid.T) KAPlan {
	return func(rt *rapid.T) KAPlan {
		p := KAPlan{Role: role, Wake: wake}
		p.Time = genKAParam(rt, "time")
		p.Timeout = genKAParam(rt, "timeout")
		// Cost bound: the keepalive loop wakes every min(Time, remaining
		// Timeout), so Timeout/Time timer rounds per detection.
		if ratio := int64(vk.Pick(200, 1000)); p.Timeout/ratio > p.Time {
			p.Timeout = p.Time * ratio
		}
		if !wake {
			switch rapid.IntRange(0, 19).Draw(rt, "defaults") {
			case 0:
				p.Time = 0
			case 1:
				p.Timeout = 0
				if p.Time < kaDefTmo/int64(vk.Pick(200, 1000)) {
					p.Time = kaDefTmo / int64(vk.Pick(200, 1000))
				}
			}
		}
		if role == "client" {
			p.Permit = !wake && rapid.IntRange(0, 2).Draw(rt, "permit") == 0
		}
		p.AutoAck = !wake && rapid.IntRange(0, 3).Draw(rt, "autoack") == 0
		if wake {
			// silent start -> dormant; a frame while dormant; a stream; silence.
			d1 := KAEv{K: evByte, B: rapid.IntRange(0, 3).Draw(rt, "b")}
			genKADelay(rt, &d1)
			d1.Anchor, d1.Base = anPrev, rapid.SampledFrom([]string{bsTime, bsSum}).Draw(rt, "b1")
			d1.Num, d1.Den = rapid.SampledFrom([]int64{1, 2, 3}).Draw(rt, "n1"), 1
			d1.Off = rapid.SampledFrom([]int64{1, 1000, 0, 2}).Draw(rt, "o1")
			d2 := KAEv{K: evOpen}
			genKADelay(rt, &d2)
			p.Ev = []KAEv{d1, d2}
			for i, n := 0, rapid.IntRange(0, 2).Draw(rt, "extra"); i < n; i++ {
				w := KAEv{K: evWait}
				genKADelay(rt, &w)
				p.Ev = append(p.Ev, w)
			}
			p.Tail = 3
			return p
		}
		n := rapid.IntRange(1, vk.Pick(14, 40)).Draw(rt, "nev")
		for i := 0; i < n; i++ {
			var ev KAEv
			w := rapid.IntRange(0, 99).Draw(rt, "w")
			switch {
			case w < 20:
				ev.K = evOpen
			case w < 32:
				ev.K, ev.S, ev.B = evClose, rapid.IntRange(0, 7).Draw(rt, "s"), rapid.IntRange(0, 1).Draw(rt, "how")
			case w < 55:
				ev.K, ev.B = evByte, rapid.IntRange(0, 3).Draw(rt, "b")
			case w < 75:
				ev.K = evAck
			case w < 83:
				ev.K, ev.B = evDribble, rapid.IntRange(1, 8).Draw(rt, "chunk")
			default:
				ev.K = evWait
			}
			genKADelay(rt, &ev)
			// chatty run: repeat a byte event at a fixed period around Time
			if ev.K == evByte && rapid.IntRange(0, 3).Draw(rt, "chatty") == 0 {
				ev.Anchor, ev.Base, ev.Num, ev.Den = anRead, bsTime, 1, 1
				ev.Off = rapid.SampledFrom([]int64{0, 0, -1, 1}).Draw(rt, "chatty_off")
				for k, reps := 0, rapid.IntRange(1, 4).Draw(rt, "reps"); k < reps; k++ {
					p.Ev = append(p.Ev, ev)
				}
			}
			p.Ev = append(p.Ev, ev)
		}
		p.Tail = rapid.IntRange(0, 3).Draw(rt, "tail")
		return p
	}
}

// ---- trace ----

type kaInterval struct{ a, b int64 } // stream open during [a,b]; b == kaInf: still open

type kaEvRec struct {
	k   string
	at  int64
	ok  bool // the event's peer write (if any) succeeded / the action was performed
	raw bool // a raw (partial-frame) write
}

type kaTrace struct {
	mu         sync.Mutex
	reads      []int64 // instants at which the peer delivered a complete frame (successful write), ascending
	readSeq    []int   // global order of the entries of reads / pings (harness steps are separated by synctest.Wait)
	pingSeq    []int
	seq        int
	done       bool    // observation over (teardown frames are ignored)
	rawWrites  []int64 // instants of every successful peer write, including partial frames
	pings      []int64 // instants at which a keepalive PING (zero data, no ACK) from grpc-go was read by the peer
	otherPing  int     // non-keepalive PINGs from grpc-go (BDP / drain)
	streams    []kaInterval
	closedAt   int64 // instant grpc-go closed its end; -1: never
	end        int64 // end of the observation
	events     []kaEvRec
	goAways    []*h2peer.Frame
	harnessErr string
	closeWhy   string // client: Err of the transport's onClose callback
}

func (tr *kaTrace) addRead(at int64) {
	tr.mu.Lock()
	tr.seq++
	tr.reads = append(tr.reads, at)
	tr.readSeq = append(tr.readSeq, tr.seq)
	tr.rawWrites = append(tr.rawWrites, at)
	tr.mu.Unlock()
}

// ---- executor ----

type kaExec struct {
	p     KAPlan
	tr    *kaTrace
	start time.Time

	crig *h2grpc.ClientRig
	srig *h2grpc.ServerRig
	peer *h2peer.Peer

	closed func() bool

	mu      sync.Mutex
	srvNew  []*transport.ServerStream // delivered by the server transport's handler
	cstr    []*transport.ClientStream
	sstr    []*transport.ServerStream
	ids     []uint32 // wire id per harness stream index
	paths   []string
	open    []int // indices (into tr.streams) of open streams
	pmu     sync.Mutex
	pending []byte // rest of a dribbled frame (guarded by pmu: the auto-acking reader completes it too)
	nOpened int
}

func (e *kaExec) now() int64 { return int64(time.Since(e.start)) }

func (e *kaExec) delay(ev KAEv) int64 {
	var base int64
	switch ev.Base {
	case bsAbs:
		return max(0, ev.Num+ev.Off)
	case bsTime:
		base = e.p.baseTime()
	case bsTimeout:
		base = e.p.effTimeout()
	case bsSum:
		base = e.p.baseTime() + e.p.effTimeout()
	case bsMin:
		base = min(e.p.baseTime(), e.p.effTimeout())
	}
	den := ev.Den
	if den <= 0 {
		den = 1
	}
	num := min(max(ev.Num, 0), 4)
	// base <= 4h, num <= 4: no overflow
	return max(0, base/den*num+(base%den)*num/den+ev.Off)
}

// peerWrite performs a complete-frame write by the peer and records it as a delivered frame.
func (e *kaExec) peerWrite(w func() error) bool {
	e.flushPending()
	if e.closed() {
		return false
	}
	if err := w(); err != nil {
		return false
	}
	e.tr.addRead(e.now())
	return true
}

// flushPending completes a dribbled frame (that completes a frame: a delivered frame).
func (e *kaExec) flushPending() {
	e.pmu.Lock()
	defer e.pmu.Unlock()
	if len(e.pending) == 0 || e.closed() {
		e.pending = nil
		return
	}
	rest := e.pending
	e.pending = nil
	if err := e.peer.WriteRawUntainted(rest); err == nil {
		e.tr.addRead(e.now())
	}
}

var kaForeign = [8]byte{9, 9, 9, 9, 9, 9, 9, 9}

func (e *kaExec) do(ev KAEv) (ok bool) {
	client := e.p.Role == "client"
	switch ev.K {
	case evOpen:
		if len(e.open) >= 4 {
			return false
		}
		e.nOpened++
		path := fmt.Sprintf("/ka/m%d", e.nOpened)
		if client {
			s, err := e.crig.CT.NewStream(context.Background(), &transport.CallHdr{Host: "ka", Method: path}, nil)
			if err != nil {
				return false
			}
			e.cstr = append(e.cstr, s)
			e.sstr = append(e.sstr, nil)
			e.ids = append(e.ids, 0)
			e.paths = append(e.paths, path)
		} else {
			id := e.peer.NextStreamID()
			if !e.peerWrite(func() error {
				return e.peer.WriteHeaders(h2peer.Headers{StreamID: id, Fields: h2peer.RequestHeaders(path, "ka")})
			}) {
				return false
			}
			synctest.Wait()
			e.mu.Lock()
			var ss *transport.ServerStream
			if len(e.srvNew) > 0 {
				ss, e.srvNew = e.srvNew[0], e.srvNew[1:]
			}
			e.mu.Unlock()
			if ss == nil {
				if !e.closed() {
					e.tr.harnessErr = "server transport did not deliver the stream to the handler"
				}
				return false
			}
			e.cstr = append(e.cstr, nil)
			e.sstr = append(e.sstr, ss)
			e.ids = append(e.ids, id)
			e.paths = append(e.paths, path)
		}
		e.tr.mu.Lock()
		e.tr.streams = append(e.tr.streams, kaInterval{a: e.now(), b: kaInf})
		e.open = append(e.open, len(e.tr.streams)-1)
		e.tr.mu.Unlock()
		return true
	case evClose:
		if len(e.open) == 0 {
			return false
		}
		k := ev.S % len(e.open)
		idx := e.open[k]
		done := false
		if client {
			if ev.B == 1 {
				synctest.Wait()
				id, found := e.peer.Ledger().StreamIDByPath(e.paths[idx])
				if found {
					done = e.peerWrite(func() error {
						return e.peer.WriteHeaders(h2peer.Headers{StreamID: id, Fields: h2peer.TrailersOnly(0, ""), EndStream: true})
					})
				}
			}
			if !done {
				e.cstr[idx].Close(errors.New("ka: harness closes the stream"))
				done = true
			}
		} else {
			if ev.B == 1 {
				done = e.peerWrite(func() error { return e.peer.WriteRSTStream(e.ids[idx], http2.ErrCodeCancel) })
			}
			if !done {
				e.sstr[idx].WriteStatus(status.New(codes.OK, ""))
				done = true
			}
		}
		synctest.Wait()
		e.tr.mu.Lock()
		e.tr.streams[idx].b = e.now()
		e.tr.mu.Unlock()
		e.open = append(e.open[:k], e.open[k+1:]...)
		return true
	case evByte:
		switch ev.B {
		case 0:
			return e.peerWrite(func() error { return e.peer.WriteSettings() })
		case 1:
			return e.peerWrite(func() error { return e.peer.WriteWindowUpdate(0, 1) })
		case 3:
			if client { // a server-role grpc-go would count peer PINGs as keepalive-policy strikes
				return e.peerWrite(func() error { return e.peer.WritePing(false, kaForeign) })
			}
			fallthrough
		default:
			return e.peerWrite(func() error { return e.peer.WritePing(true, kaForeign) })
		}
	case evAck:
		return e.peerWrite(func() error { return e.peer.WritePing(true, [8]byte{}) })
	case evDribble:
		if e.closed() {
			return false
		}
		e.pmu.Lock()
		defer e.pmu.Unlock()
		if len(e.pending) == 0 {
			// PING ACK frame with foreign data: length 8, type 6, flags 1, stream 0
			e.pending = append([]byte{0, 0, 8, 6, 1, 0, 0, 0, 0}, kaForeign[:]...)
		}
		n := min(max(ev.B, 1), len(e.pending))
		chunk := e.pending[:n]
		e.pending = e.pending[n:]
		if err := e.peer.WriteRawUntainted(chunk); err != nil {
			e.pending = nil
			return false
		}
		e.tr.mu.Lock()
		e.tr.rawWrites = append(e.tr.rawWrites, e.now())
		if len(e.pending) == 0 {
			e.tr.seq++
			e.tr.reads = append(e.tr.reads, e.now())
			e.tr.readSeq = append(e.tr.readSeq, e.tr.seq)
		}
		e.tr.mu.Unlock()
		return true
	}
	return true
}

func runKA(t *testing.T, p KAPlan) *kaTrace {
	tr := &kaTrace{closedAt: -1}
	msg := vk.Bubble(t, func(t *testing.T) {
		e := &kaExec{p: p, tr: tr, start: time.Now()}
		zero := [8]byte{}
		cfg := h2peer.Config{ManualPingAck: true}
		cfg.OnFrame = func(f *h2peer.Frame) {
			tr.mu.Lock()
			over := tr.done
			if f.Type == http2.FrameGoAway && !over {
				tr.goAways = append(tr.goAways, f)
			}
			tr.mu.Unlock()
			if over {
				return
			}
			if f.Type != http2.FramePing || f.IsAck() {
				return
			}
			if f.PingData != zero {
				tr.mu.Lock()
				tr.otherPing++
				tr.mu.Unlock()
				return
			}
			tr.mu.Lock()
			tr.seq++
			tr.pings = append(tr.pings, e.now())
			tr.pingSeq = append(tr.pingSeq, tr.seq)
			tr.mu.Unlock()
			if p.AutoAck {
				e.flushPending() // never interleave the ack with a partial frame
				if err := e.peer.WritePing(true, zero); err == nil {
					tr.addRead(e.now())
				}
			}
		}
		var err error
		if p.Role == "client" {
			e.crig, err = h2grpc.NewClient(cfg, transport.ConnectOptions{KeepaliveParams: keepalive.ClientParameters{
				Time: time.Duration(p.Time), Timeout: time.Duration(p.Timeout), PermitWithoutStream: p.Permit}})
			if err == nil {
				e.peer = e.crig.Peer
				c := e.crig.Conn
				c.OnClose(func() {
					tr.mu.Lock()
					if !tr.done {
						tr.closedAt = e.now()
					}
					tr.mu.Unlock()
				})
				e.closed = c.Closed
			}
		} else {
			e.srig, err = h2grpc.NewServer(cfg, &transport.ServerConfig{KeepaliveParams: keepalive.ServerParameters{
				Time: time.Duration(p.Time), Timeout: time.Duration(p.Timeout)}}, func(s *transport.ServerStream) {
				e.mu.Lock()
				e.srvNew = append(e.srvNew, s)
				e.mu.Unlock()
			})
			if err == nil {
				e.peer = e.srig.Peer
				c := e.srig.Conn
				c.OnClose(func() {
					tr.mu.Lock()
					if !tr.done {
						tr.closedAt = e.now()
					}
					tr.mu.Unlock()
				})
				e.closed = c.Closed
			}
		}
		if err != nil {
			tr.harnessErr = "setup: " + err.Error()
			return
		}
		synctest.Wait()
		if e.now() != 0 {
			tr.harnessErr = fmt.Sprintf("virtual time advanced during setup: %d", e.now())
		}
		// Everything exchanged during setup (preface SETTINGS, SETTINGS ACK) was delivered at instant 0.
		tr.addRead(0)
		prev := int64(0)
		for _, ev := range p.Ev {
			if e.closed() {
				break
			}
			anchor := prev
			tr.mu.Lock()
			switch ev.Anchor {
			case anRead:
				anchor = tr.reads[len(tr.reads)-1]
			case anPing:
				if len(tr.pings) > 0 {
					anchor = tr.pings[len(tr.pings)-1]
				}
			}
			tr.mu.Unlock()
			target := max(anchor+e.delay(ev), e.now())
			if d := target - e.now(); d > 0 {
				time.Sleep(time.Duration(d))
			}
			synctest.Wait() // grpc-go's timers at this instant run first
			if e.closed() {
				break
			}
			at := e.now()
			ok := e.do(ev)
			synctest.Wait()
			tr.events = append(tr.events, kaEvRec{k: ev.K, at: at, ok: ok, raw: ev.K == evDribble})
			prev = at
		}
		if !e.closed() && p.Tail > 0 {
			time.Sleep(time.Duration(int64(p.Tail)*(p.baseTime()+p.effTimeout()) + 1))
		}
		synctest.Wait()
		tr.mu.Lock()
		tr.end = e.now()
		tr.done = true
		tr.mu.Unlock()
		if e.crig != nil {
			for _, gi := range e.crig.CloseInfos() {
				tr.closeWhy += fmt.Sprintf("[reason=%v code=%v err=%v]", gi.Reason, gi.GoAwayCode, gi.Err)
			}
			e.crig.Close()
		} else {
			e.srig.Close()
		}
	})
	if msg != "" && tr.harnessErr == "" {
		tr.harnessErr = msg
	}
	return tr
}

// ---- oracle ----

func near(d, x int64) bool { return d-x >= -1 && d-x <= 1 }

// kaVerdict is the result of judging one trace against the statement.
type kaVerdict struct {
	bad     string
	sig     string
	classes map[string]bool
	nt      bool
}

const sigWake = "c15.client_frame_while_dormant_delays_detection"

// kaJudge evaluates the statement on the trace.
//
//	(L) liveness: for every delivered frame at instant L that is followed by
//	    silence, and every interval [a,b] during which keepalive is applicable
//	    (server: always; client: PermitWithoutStream, or a stream is open), the
//	    connection is closed no later than D = max(L+Time, a) + Timeout,
//	    provided silence and applicability both last until D and D is observed.
//	(H) healthy: a keepalive close at X requires (H1) a keepalive PING seen at
//	    P <= X-Timeout with no frame delivered since P, (H2) a gap > Time without
//	    any delivered frame somewhere before X (contrapositive of "a connection
//	    that receives some byte at least once every Time is never closed").
//	(D) dormancy: every keepalive PING is sent at an instant at which keepalive
//	    is applicable; with keepalive disabled there is no PING and no close.
//
// strictWake selects the statement's bound for the shape "frame delivered
// while no stream was open, stream opened later" (unit client_wake); otherwise
// that shape gets the slack of the known finding sigWake (see notes/C15.md).
func kaJudge(p KAPlan, tr *kaTrace, strictWake bool) kaVerdict {
	v := kaVerdict{classes: map[string]bool{}}
	T, TO := p.effTime(), p.effTimeout()
	client := p.Role == "client"
	always := !client || p.Permit
	X := tr.closedAt
	closed := X >= 0

	if len(tr.goAways) > 0 && !(client && closed) {
		// A client transport says GOAWAY(NO_ERROR) when it closes; nothing else is expected here.
		v.bad = fmt.Sprintf("unexpected GOAWAY from grpc-go: %v", tr.goAways[0])
		return v
	}
	if tr.otherPing > 0 {
		v.bad = "unexpected non-keepalive PING from grpc-go (no DATA was sent, Drain was not called)"
		return v
	}
	// applicable intervals
	var app []kaInterval
	if always {
		app = []kaInterval{{0, kaInf}}
	} else {
		app = tr.streams
	}
	applicableAt := func(x int64) bool {
		for _, iv := range app {
			if iv.a <= x && x <= iv.b {
				return true
			}
		}
		return false
	}

	// (D)
	if T == kaInf {
		v.classes["keepalive_disabled"] = true
		if len(tr.pings) > 0 || closed {
			v.bad = fmt.Sprintf("keepalive disabled (Time unset) but pings=%v closedAt=%d %s", tr.pings, X, tr.closeWhy)
		}
		return v
	}
	for _, P := range tr.pings {
		if !applicableAt(P) {
			v.bad = fmt.Sprintf("keepalive PING at %d while keepalive was not applicable (no open stream, PermitWithoutStream=false); stream intervals %v", P, tr.streams)
			return v
		}
	}

	// (L)
	for i, L := range tr.reads {
		next := kaInf
		if i+1 < len(tr.reads) {
			next = tr.reads[i+1]
		}
		if next == L {
			continue
		}
		for _, iv := range app {
			if iv.a >= next {
				continue
			}
			D := max(L+T, iv.a) + TO
			if D > next || D > iv.b || D > tr.end {
				continue
			}
			// the statement demands: closed at or before D
			if closed && X <= D {
				if X == D {
					v.classes["closed_at_exact_deadline"] = true
				}
				continue
			}
			// known-finding shape: L was delivered while no stream was open and the stream opened later
			if client && !p.Permit && iv.a > L && !openAt(tr.streams, L) {
				v.classes["frame_while_dormant_then_stream"] = true
				Dtol := max(L+T, iv.a+min(T, TO)) + TO
				if closed && X <= Dtol && (Dtol <= next || X <= next) {
					if strictWake {
						v.bad = fmt.Sprintf("peer silent since %d, stream open since %d: statement bound max(%d+Time,%d)+Timeout = %d, connection closed at %d (Time=%d Timeout=%d)", L, iv.a, L, iv.a, D, X, T, TO)
						v.sig = sigWake
						return v
					}
					v.classes["known_wake_slack_used"] = true
					continue
				}
				if Dtol > next || Dtol > iv.b || Dtol > tr.end {
					continue // the slack window was not observed in silence
				}
			}
			v.bad = fmt.Sprintf("dead peer not detected in time: last frame delivered at %d, keepalive applicable since %d, Time=%d Timeout=%d => must be closed by %d; closedAt=%d (observed until %d, pings %v)", L, iv.a, T, TO, D, X, tr.end, tail(tr.pings, 6))
			return v
		}
	}

	// (H)
	if closed {
		v.classes["closed_by_keepalive"] = true
		lastRead := tr.reads[len(tr.reads)-1]
		lastReadSeq := tr.readSeq[len(tr.readSeq)-1]
		okH1 := false
		for i, P := range tr.pings {
			// "since P" is decided by order, not by the clock: a frame delivered at the very instant P after the PING answers it
			if P+TO <= X && lastReadSeq < tr.pingSeq[i] {
				okH1 = true
			}
		}
		if !okH1 {
			v.bad = fmt.Sprintf("connection closed at %d although no keepalive PING was left unanswered for Timeout=%d: pings %v, last delivered frame at %d", X, TO, tail(tr.pings, 6), lastRead)
			return v
		}
		gap := false
		for i, L := range tr.reads {
			next := X
			if i+1 < len(tr.reads) {
				next = tr.reads[i+1]
			}
			if next-L > T {
				gap = true
			}
		}
		if !gap {
			v.bad = fmt.Sprintf("connection closed at %d although a frame was delivered at least once every Time=%d (frames at %v)", X, T, tail(tr.reads, 8))
			return v
		}
		if !applicableAt(X) {
			v.classes["closed_after_last_stream_ended_ping_outstanding"] = true
		}
		// literal "some byte" reading (statistic only)
		rawGap := false
		for i, L := range tr.rawWrites {
			next := X
			if i+1 < len(tr.rawWrites) {
				next = tr.rawWrites[i+1]
			}
			if next-L > T {
				rawGap = true
			}
		}
		if !rawGap {
			v.classes["closed_while_partial_frame_bytes_arrived_every_Time"] = true
		}
	} else {
		v.classes["not_closed"] = true
	}

	// classes / non-trivial
	tr.classify(p, &v, app)
	return v
}

func openAt(ivs []kaInterval, x int64) bool {
	for _, iv := range ivs {
		if iv.a <= x && x <= iv.b {
			return true
		}
	}
	return false
}

func tail(s []int64, n int) []int64 {
	if len(s) > n {
		return s[len(s)-n:]
	}
	return s
}

func (tr *kaTrace) classify(p KAPlan, v *kaVerdict, app []kaInterval) {
	T, TO := p.effTime(), p.effTimeout()
	if p.Permit {
		v.classes["permit_without_stream"] = true
	}
	if p.AutoAck {
		v.classes["peer_autoack"] = true
	}
	if p.Time == 0 || p.Timeout == 0 {
		v.classes["default_param"] = true
	}
	switch {
	case T < TO:
		v.classes["time_lt_timeout"] = true
	case T == TO:
		v.classes["time_eq_timeout"] = true
	default:
		v.classes["time_gt_timeout"] = true
	}
	if len(tr.pings) > 0 {
		v.classes["ping_seen"] = true
	}
	if len(tr.pings) > 1 {
		v.classes["multiple_pings"] = true
	}
	// dormant -> awake: a PING at the instant a stream was opened, later than lastRead+Time
	if p.Role == "client" && !p.Permit {
		for _, iv := range tr.streams {
			for _, P := range tr.pings {
				if P == iv.a && !openAt(nonSelf(tr.streams, iv), P) {
					v.classes["dormant_to_awake_ping"] = true
				}
			}
		}
		for _, ev := range tr.events {
			if ev.ok && (ev.k == evByte || ev.k == evAck) && !openAt(tr.streams, ev.at) {
				v.classes["frame_while_no_stream"] = true
			}
		}
	}
	lastReadBefore := func(x int64) int64 {
		r := int64(0)
		for _, L := range tr.reads {
			if L < x {
				r = L
			}
		}
		return r
	}
	lastPingBefore := func(x int64) (int64, bool) {
		r, ok := int64(0), false
		for _, P := range tr.pings {
			if P <= x {
				r, ok = P, true
			}
		}
		return r, ok
	}
	for _, ev := range tr.events {
		d := ev.at - lastReadBefore(ev.at)
		if near(d, T) || near(d, T+TO) {
			v.nt = true
			v.classes["event_within_1ns_of_Time_or_deadline"] = true
		}
		if P, ok := lastPingBefore(ev.at); ok {
			dp := ev.at - P
			if near(dp, TO) {
				v.nt = true
				v.classes["event_within_1ns_of_ping_plus_Timeout"] = true
			}
			if ev.ok && ev.k == evAck && dp > TO/2 && dp < TO && tr.closedAt != P+TO {
				v.classes["ack_late_but_in_time"] = true
			}
			if ev.ok && (ev.k == evAck || ev.k == evByte) && dp == 0 {
				v.classes["frame_at_ping_instant"] = true
			}
		}
		if ev.k == evDribble && ev.ok {
			v.classes["partial_frame_bytes"] = true
		}
	}
	// chatty: >= 3 consecutive delivered frames exactly Time apart (or 1 ns less)
	run := 0
	for i := 1; i < len(tr.reads); i++ {
		if g := tr.reads[i] - tr.reads[i-1]; g == T || g == T-1 {
			run++
			if run >= 2 {
				v.classes["chatty_at_exact_period"] = true
			}
		} else if g != 0 {
			run = 0
		}
	}
}

func nonSelf(ivs []kaInterval, self kaInterval) []kaInterval {
	var out []kaInterval
	for _, iv := range ivs {
		if iv != self {
			out = append(out, iv)
		}
	}
	return out
}

func kaClassList(m map[string]bool) []string {
	var out []string
	for _, c := range []string{"closed_by_keepalive", "not_closed", "closed_at_exact_deadline", "keepalive_disabled", "permit_without_stream", "peer_autoack",
		"default_param", "time_lt_timeout", "time_eq_timeout", "time_gt_timeout", "ping_seen", "multiple_pings", "dormant_to_awake_ping", "frame_while_no_stream",
		"frame_while_dormant_then_stream", "known_wake_slack_used", "event_within_1ns_of_Time_or_deadline", "event_within_1ns_of_ping_plus_Timeout",
		"ack_late_but_in_time", "frame_at_ping_instant", "partial_frame_bytes", "chatty_at_exact_period", "closed_after_last_stream_ended_ping_outstanding",
		"closed_while_partial_frame_bytes_arrived_every_Time"} {
		if m[c] {
			out = append(out, c)
		}
	}
	return out
}

func kaRun(strictWake bool) func(t *testing.T, p KAPlan) vk.Result {
	return func(t *testing.T, p KAPlan) vk.Result {
		tr := runKA(t, p)
		if tr.harnessErr != "" {
			panic("VERIF-HARNESS: " + tr.harnessErr)
		}
		v := kaJudge(p, tr, strictWake)
		cl := kaClassList(v.classes)
		if v.bad != "" {
			r := vk.Bad("%s", v.bad).With(cl...)
			r.Sig = v.sig
			return r
		}
		nt := v.nt
		if strictWake {
			nt = v.classes["frame_while_dormant_then_stream"] || v.classes["dormant_to_awake_ping"]
		}
		r := vk.OK(nt, cl...)
		r.Steps = len(tr.events)
		return r
	}
}
