package c15_test

// C15, part 2: keepalive enforcement policy of the server.
//
// A real http2Server (h2grpc.NewServer with ServerConfig.KeepalivePolicy) is
// driven by an h2peer client that sends PINGs on a generated timeline (gaps
// around MinTime +- 1 ns and 2 h +- 1 ns), opens and finishes streams, and
// makes the server application send HEADERS / DATA / trailers in between.
//
// Reference model (from the statement, read with gRFC A8: server-sent HEADERS
// or DATA restart the accounting, i.e. the next PING is not "too early" and the
// count starts again at zero):
//
//	a PING is too early iff it is not the first PING, no HEADERS/DATA frame was
//	written by the server since the previous PING, and the gap to the previous
//	PING is < MinTime (a stream is active or PermitWithoutStream) resp. < 2 h
//	(otherwise). GOAWAY(ENHANCE_YOUR_CALM, "too_many_pings") is sent exactly
//	when the third too-early PING (counted since the last server HEADERS/DATA)
//	arrives, and never before.

import (
	"fmt"
	"sync"
	"testing"
	"testing/synctest"
	"time"

	"golang.org/x/net/http2"
	"google.golang.org/grpc/codes"
	"google.golang.org/grpc/internal/transport"
	"google.golang.org/grpc/internal/verifkit/h2peer"
	"google.golang.org/grpc/internal/verifkit/h2peer/h2grpc"
	"google.golang.org/grpc/internal/verifkit/vk"
	"google.golang.org/grpc/keepalive"
	"google.golang.org/grpc/mem"
	"google.golang.org/grpc/status"
	"pgregory.net/rapid"
)

const (
	enPing    = "ping"
	enOpen    = "open"     // peer HEADERS (no END_STREAM)
	enFinish  = "finish"   // handler WriteStatus on the S-th open stream: server-sent trailers (HEADERS) and the stream ends
	enRST     = "rst"      // peer RST_STREAM on the S-th open stream
	enSrvHdr  = "srv_hdr"  // handler SendHeader on the S-th open stream (server-sent HEADERS); no-op if already sent
	enSrvData = "srv_data" // handler Write of a small message on the S-th open stream (server-sent [HEADERS+]DATA)
	enWait    = "wait"
)

// ENEv: an event at  previous PING (or previous event when Anchor=="prev") + Thr*Num/Den + Off,
// Thr being "min" (MinTime) or "2h".
type ENEv struct {
	K      string `json:"k"`
	Anchor string `json:"an"`  // "ping" | "prev"
	Thr    string `json:"thr"` // "min" | "2h" | "abs"
	Num    int64  `json:"num"`
	Den    int64  `json:"den"`
	Off    int64  `json:"off"`
	S      int    `json:"s,omitempty"`
}

// ENPlan is a serialisable enforcement case.
type ENPlan struct {
	MinTime int64  `json:"min_time"` // ns; 0 = unset (5 min)
	Permit  bool   `json:"permit"`
	Ev      []ENEv `json:"ev"`
}

func (p ENPlan) effMin() int64 {
	if p.MinTime == 0 {
		return int64(5 * time.Minute)
	}
	return p.MinTime
}

func genENPlan(rt *rapid.T) ENPlan {
	var p ENPlan
	p.MinTime = genKAParam(rt, "min_time")
	if rapid.IntRange(0, 14).Draw(rt, "default_min") == 0 {
		p.MinTime = 0
	}
	p.Permit = rapid.IntRange(0, 2).Draw(rt, "permit") == 0
	// 1/3 of the plans are "mostly compliant": gaps >= threshold except for rare slips
	compliant := rapid.IntRange(0, 2).Draw(rt, "compliant") == 0
	n := rapid.IntRange(3, vk.Pick(16, 50)).Draw(rt, "nev")
	nOpen := 0
	for i := 0; i < n; i++ {
		var ev ENEv
		w := rapid.IntRange(0, 99).Draw(rt, "w")
		switch {
		case w < 46:
			ev.K = enPing
		case w < 60:
			ev.K = enOpen
		case w < 67:
			ev.K, ev.S = enFinish, rapid.IntRange(0, 7).Draw(rt, "s")
		case w < 71:
			ev.K, ev.S = enRST, rapid.IntRange(0, 7).Draw(rt, "s")
		case w < 81:
			ev.K, ev.S = enSrvHdr, rapid.IntRange(0, 7).Draw(rt, "s")
		case w < 93:
			ev.K, ev.S = enSrvData, rapid.IntRange(0, 7).Draw(rt, "s")
		default:
			ev.K = enWait
		}
		switch ev.K {
		case enFinish, enRST, enSrvHdr, enSrvData:
			if nOpen == 0 {
				ev.K, ev.S = enOpen, 0
			}
		}
		switch ev.K {
		case enOpen:
			nOpen = min(nOpen+1, 4)
		case enFinish, enRST:
			nOpen--
		}
		ev.Anchor = rapid.SampledFrom([]string{"ping", "ping", "ping", "prev"}).Draw(rt, "anchor")
		ev.Thr = rapid.SampledFrom([]string{"min", "min", "min", "2h", "2h", "abs"}).Draw(rt, "thr")
		fr := rapid.SampledFrom([][2]int64{{1, 1}, {1, 1}, {1, 1}, {1, 1}, {1, 2}, {0, 1}, {2, 1}, {9, 10}}).Draw(rt, "frac")
		ev.Num, ev.Den = fr[0], fr[1]
		if ev.Thr == "abs" {
			ev.Num, ev.Den = rapid.SampledFrom([]int64{0, 1, 1000, 1000000}).Draw(rt, "absns"), 1
		}
		ev.Off = rapid.SampledFrom([]int64{0, 0, 0, -1, -1, 1, 1, -2, 1000}).Draw(rt, "off")
		if compliant && ev.K == enPing && rapid.IntRange(0, 9).Draw(rt, "slip") > 0 {
			// at least the threshold that applies in the worst case (2 h unless a stream is certainly open or Permit)
			ev.Anchor, ev.Num, ev.Den = "ping", rapid.SampledFrom([]int64{1, 1, 2}).Draw(rt, "cnum"), 1
			ev.Off = rapid.SampledFrom([]int64{0, 0, 1, 1000}).Draw(rt, "coff")
			if ev.Thr == "abs" || (ev.Thr == "min" && nOpen == 0 && !p.Permit) {
				ev.Thr = "2h"
			}
		}
		if ev.K != enPing && ev.K != enWait && rapid.IntRange(0, 3).Draw(rt, "quick") > 0 {
			// stream/application events mostly happen shortly after the previous event
			ev.Anchor, ev.Thr, ev.Num, ev.Den, ev.Off = "prev", "abs", rapid.SampledFrom([]int64{0, 1, 1000}).Draw(rt, "q"), 1, 0
		}
		p.Ev = append(p.Ev, ev)
	}
	return p
}

type enOutcome struct {
	bad        string
	classes    map[string]bool
	nt         bool
	steps      int
	harnessErr string
}

func runEN(t *testing.T, p ENPlan) (out enOutcome) {
	out.classes = map[string]bool{}
	class := func(c string) { out.classes[c] = true }
	msg := vk.Bubble(t, func(t *testing.T) {
		start := time.Now()
		now := func() int64 { return int64(time.Since(start)) }
		var mu sync.Mutex
		var fresh []*transport.ServerStream
		rig, err := h2grpc.NewServer(h2peer.Config{}, &transport.ServerConfig{
			KeepalivePolicy: keepalive.EnforcementPolicy{MinTime: time.Duration(p.MinTime), PermitWithoutStream: p.Permit},
		}, func(s *transport.ServerStream) {
			mu.Lock()
			fresh = append(fresh, s)
			mu.Unlock()
		})
		if err != nil {
			out.harnessErr = "setup: " + err.Error()
			return
		}
		defer rig.Close()
		peer, led := rig.Peer, rig.Peer.Ledger()
		synctest.Wait()

		type ostream struct {
			id  uint32
			ss  *transport.ServerStream
			hdr bool
		}
		var open []*ostream
		// model state
		strikes, havePrev, reset := 0, false, false
		lastPing, prev := int64(0), int64(0)
		minT := p.effMin()
		const twoH = int64(2 * time.Hour)
		expectGoAway := false
		nPings := 0

		// srvFrames counts HEADERS/DATA frames written by the server so far (wire evidence for "reset").
		srvFrames := func() int {
			n := 0
			for _, f := range led.FramesOf(h2peer.In, 0, true) {
				if f.Type == http2.FrameHeaders || f.Type == http2.FrameData {
					n++
				}
			}
			return n
		}
		seenSrv := srvFrames()
		eyc := func() *h2peer.Frame {
			for _, g := range led.GoAways(h2peer.In) {
				return g
			}
			return nil
		}

		for _, ev := range p.Ev {
			if rig.Conn.Closed() {
				break
			}
			anchor := prev
			if ev.Anchor == "ping" && havePrev {
				anchor = lastPing
			}
			var d int64
			den := max(ev.Den, 1)
			num := min(max(ev.Num, 0), 3)
			switch ev.Thr {
			case "min":
				d = minT/den*num + (minT%den)*num/den + ev.Off
			case "2h":
				d = twoH/den*num + (twoH%den)*num/den + ev.Off
			default:
				d = ev.Num + ev.Off
			}
			target := max(anchor+max(d, 0), now())
			if w := target - now(); w > 0 {
				time.Sleep(time.Duration(w))
			}
			synctest.Wait()
			if rig.Conn.Closed() {
				break
			}
			at := now()
			out.steps++
			switch ev.K {
			case enPing:
				// model, evaluated before the PING is sent
				active := len(open) > 0
				thr := minT
				if !active && !p.Permit {
					thr = twoH
					class("ping_without_stream_2h_threshold")
				}
				if n := srvFrames(); n != seenSrv {
					seenSrv = n
					reset = true
				}
				early := false
				if reset {
					if strikes > 0 {
						class("strikes_reset_by_server_frame")
					}
					if havePrev && at-lastPing < thr {
						class("early_ping_excused_by_server_frame")
					}
					strikes, reset = 0, false
				} else if havePrev {
					gap := at - lastPing
					if gap < thr {
						early = true
						strikes++
					}
					if near(gap, thr) {
						out.nt = true
						switch gap - thr {
						case 0:
							class("gap_exactly_threshold")
						case -1:
							class("gap_threshold_minus_1ns")
						default:
							class("gap_threshold_plus_1ns")
						}
					}
				}
				if early {
					class("too_early_ping")
				}
				havePrev, lastPing = true, at
				nPings++
				if strikes > 2 {
					expectGoAway = true
				}
				var data [8]byte
				data[0], data[1], data[7] = 0xe, byte(nPings), byte(nPings>>8)
				peer.WritePing(false, data)
				synctest.Wait()
				g := eyc()
				if expectGoAway {
					class("third_strike")
					if g == nil {
						out.bad = fmt.Sprintf("third too-early PING (#%d at %d, gap threshold %d, active streams %d, permit=%v) but no GOAWAY was sent", nPings, at, thr, len(open), p.Permit)
						return
					}
					if g.ErrCode != http2.ErrCodeEnhanceYourCalm || string(g.Debug) != "too_many_pings" {
						out.bad = fmt.Sprintf("third too-early PING answered with %v instead of GOAWAY(ENHANCE_YOUR_CALM, too_many_pings)", g)
						return
					}
					if rig.Conn.Closed() {
						class("connection_closed_after_goaway")
					}
					return
				}
				if g != nil {
					out.bad = fmt.Sprintf("GOAWAY %v after PING #%d at %d although the model counts only %d too-early PING(s) since the last server HEADERS/DATA (threshold %d, permit=%v, active=%d)", g, nPings, at, strikes, thr, p.Permit, len(open))
					return
				}
				// the PING itself must be acknowledged
			case enOpen:
				if len(open) >= 4 {
					break
				}
				id := peer.NextStreamID()
				peer.WriteHeaders(h2peer.Headers{StreamID: id, Fields: h2peer.RequestHeaders(fmt.Sprintf("/en/m%d", id), "en")})
				synctest.Wait()
				mu.Lock()
				var ss *transport.ServerStream
				if len(fresh) > 0 {
					ss, fresh = fresh[0], fresh[1:]
				}
				mu.Unlock()
				if ss == nil {
					out.harnessErr = "handler did not receive the stream"
					return
				}
				open = append(open, &ostream{id: id, ss: ss})
				class("stream_opened")
			case enFinish, enRST, enSrvHdr, enSrvData:
				if len(open) == 0 {
					break
				}
				k := ev.S % len(open)
				o := open[k]
				switch ev.K {
				case enFinish:
					o.ss.WriteStatus(status.New(codes.OK, ""))
					open = append(open[:k], open[k+1:]...)
					class("server_trailers")
				case enRST:
					peer.WriteRSTStream(o.id, http2.ErrCodeCancel)
					open = append(open[:k], open[k+1:]...)
					class("peer_rst")
				case enSrvHdr:
					if !o.hdr {
						o.hdr = true
						o.ss.SendHeader(nil)
						class("server_headers")
					}
				case enSrvData:
					o.hdr = true
					o.ss.Write([]byte{0, 0, 0, 0, 1}, mem.BufferSlice{mem.SliceBuffer([]byte{42})}, &transport.WriteOptions{})
					class("server_data")
				}
				synctest.Wait()
			}
			prev = at
			if g := eyc(); g != nil {
				out.bad = fmt.Sprintf("GOAWAY %v after a %q event at %d (no PING involved)", g, ev.K, at)
				return
			}
		}
		if strikes == 0 && nPings >= 3 {
			class("compliant_timeline_3plus_pings")
		}
		if strikes > 0 && strikes <= 2 {
			class("one_or_two_strikes_no_goaway")
		}
		if v := led.Violations("frame.invalid"); len(v) > 0 {
			out.bad = "ledger: " + v[0]
		}
	})
	if msg != "" && out.harnessErr == "" {
		out.harnessErr = msg
	}
	return out
}

func enRun(t *testing.T, p ENPlan) vk.Result {
	out := runEN(t, p)
	if out.harnessErr != "" {
		panic("VERIF-HARNESS: " + out.harnessErr)
	}
	var cl []string
	for _, c := range []string{"too_early_ping", "third_strike", "connection_closed_after_goaway", "strikes_reset_by_server_frame", "early_ping_excused_by_server_frame",
		"ping_without_stream_2h_threshold", "gap_exactly_threshold", "gap_threshold_minus_1ns", "gap_threshold_plus_1ns", "compliant_timeline_3plus_pings",
		"one_or_two_strikes_no_goaway", "stream_opened", "server_trailers", "peer_rst", "server_headers", "server_data"} {
		if out.classes[c] {
			cl = append(cl, c)
		}
	}
	if p.Permit {
		cl = append(cl, "permit_without_stream")
	}
	if out.bad != "" {
		return vk.Bad("%s", out.bad).With(cl...)
	}
	r := vk.OK(out.nt, cl...)
	r.Steps = out.steps
	return r
}
