package c15_test

import (
	"testing"

	"google.golang.org/grpc/internal/verifkit/vk"
)

const kaRule = "Time, Timeout drawn from {1 ms, 2 h, 1 s/10 s/20 s/5 min, 1 ms+0..5 ns, 2 h-0..5 ns, log-uniform in [1 ms, 2 h]} (Timeout/Time capped at 200 quick / 1000 thorough for cost; 5% Time unset, 5% Timeout unset), " +
	"PermitWithoutStream (client) 1/3, auto-acking peer 1/4; a timeline of 1..14 (40) events {open stream, close stream locally / by a peer frame, peer frame (SETTINGS, WINDOW_UPDATE, PING ACK, PING), keepalive-PING ack, " +
	"1..8 raw bytes of a partial frame, wait}, each at anchor{previous event, last delivered frame, last keepalive PING} + {Time, Timeout, Time+Timeout, min} x {0,1/3,1/2,9/10,1,3/2,2} + {0,+-1,+-2,1000} ns, " +
	"25% of the frame events repeated 2-5 times at period Time+{0,-1,+1} ns; final silent observation of 0..3 x (Time+Timeout)+1 ns. " +
	"non-trivial = some event happened within 1 ns of lastFrame+Time, lastFrame+Time+Timeout or lastPing+Timeout"

func TestVerifC15Client(t *testing.T) {
	vk.Check(t, vk.Unit[KAPlan]{ID: "C15", Name: "client", Rule: "grpc-go http2Client (ConnectOptions.KeepaliveParams) vs scripted h2peer server in a synctest bubble. " + kaRule,
		Gen: genKAPlan("client", false), Run: kaRun(false)})
}

func TestVerifC15Server(t *testing.T) {
	vk.Check(t, vk.Unit[KAPlan]{ID: "C15", Name: "server", Rule: "grpc-go http2Server (ServerConfig.KeepaliveParams) vs scripted h2peer client in a synctest bubble. " + kaRule,
		Gen: genKAPlan("server", false), Run: kaRun(false)})
}

func TestVerifC15ClientWake(t *testing.T) {
	vk.Check(t, vk.Unit[KAPlan]{ID: "C15", Name: "client_wake", Rule: "focused family for the client's dormancy wake-up, PermitWithoutStream=false, peer never acks: silence until the keepalive goroutine is dormant, " +
		"one peer frame at k x Time (or k x (Time+Timeout)) + {0,1,2,1000} ns while no stream is open, then a stream opened after a generated delay, then silence for 3 x (Time+Timeout); the statement's bound " +
		"max(lastFrame+Time, streamOpen)+Timeout is asserted without slack. non-trivial = the frame really arrived while no stream was open and a stream was opened afterwards",
		Gen: genKAPlan("client", true), Run: kaRun(true)})
}

func TestVerifC15Enforce(t *testing.T) {
	vk.Check(t, vk.Unit[ENPlan]{ID: "C15", Name: "enforce", Rule: "grpc-go http2Server (ServerConfig.KeepalivePolicy: MinTime from the same distribution as Time, 1/15 unset = 5 min; PermitWithoutStream 1/3) vs h2peer client: " +
		"3..16 (50) events {PING 55%, open stream, server trailers, peer RST_STREAM, server HEADERS, server DATA, wait} at anchor{previous PING, previous event} + {MinTime, 2 h} x {0,1/2,9/10,1,2} + {0,+-1,-2,1000} ns; " +
		"reference strike model (see enforce_test.go) decides after every PING whether GOAWAY(ENHANCE_YOUR_CALM,too_many_pings) must / must not be on the wire. " +
		"non-trivial = some PING arrived within 1 ns of its threshold (MinTime or 2 h) after the previous PING",
		Gen: genENPlan, Run: enRun})
}
