// Package retryrig is the shared end-to-end rig of the C18 / C19 checks: a real
// grpc.ClientConn with a generated retry service config talks to a real
// grpc.Server over test/bufconn; the server's behaviour is scripted per RPC and
// per attempt, and it logs, per attempt, the virtual arrival/end time, the
// grpc-previous-rpc-attempts header, and every message / half-close it read.
// Exec must be called inside a testing/synctest bubble.
package retryrig

import (
	"context"
	"encoding/json"
	"fmt"
	"io"
	"net"
	"strconv"
	"strings"
	"sync"
	"testing/synctest"
	"time"

	"google.golang.org/grpc"
	"google.golang.org/grpc/codes"
	"google.golang.org/grpc/credentials/insecure"
	"google.golang.org/grpc/metadata"
	"google.golang.org/grpc/status"
	"google.golang.org/grpc/test/bufconn"
)

// Policy is a gRFC A6 retryPolicy.
type Policy struct {
	MaxAttempts int      `json:"max_attempts"`
	InitialNs   int64    `json:"initial_ns"`
	MaxNs       int64    `json:"max_ns"`
	Mult        float64  `json:"mult"`
	Codes       []uint32 `json:"codes"`
}

// Throttle is a retryThrottling policy (JSON number literals).
type Throttle struct {
	Max   string `json:"max"`
	Ratio string `json:"ratio"`
}

// Attempt kinds.
const (
	KStatus    = "status"     // trailers-only: return the status without sending anything
	KHdrStatus = "hdr_status" // send response headers, then the status
	KMsgStatus = "msg_status" // send one response message, then the status
	KHang      = "hang"       // block until the RPC context is done
)

// AttemptScript is what the server does with the i-th attempt of an RPC.
type AttemptScript struct {
	// ReadN: number of request messages to read before acting; -1 = read
	// until half-close.
	ReadN int    `json:"read_n"`
	Kind  string `json:"kind"`
	Code  uint32 `json:"code"`
	// Pushback values of the grpc-retry-pushback-ms trailer (0, 1 or 2 values).
	Pushback []string `json:"pushback,omitempty"`
	// DelayNs: server-side processing time (virtual) before it acts.
	DelayNs int64 `json:"delay_ns,omitempty"`
}

// Shapes.
const (
	Unary  = "unary"
	Client = "client" // client streaming
	Bidi   = "bidi"
)

// RPC is one application call.
type RPC struct {
	Shape     string   `json:"shape"`
	Policy    *Policy  `json:"policy,omitempty"`
	Msgs      []int    `json:"msgs"`       // request message sizes (unary: exactly one)
	CloseSend bool     `json:"close_send"` // streams: call CloseSend after the last message
	TimeoutNs int64    `json:"timeout_ns"`
	BufLimit  int      `json:"buf_limit"` // MaxRetryRPCBufferSize; 0 = default
	Script    []AttemptScript `json:"script"`
	// Settle: wait for quiescence between application operations, which makes
	// the interleaving of the application with the server deterministic.
	Settle bool `json:"settle"`
}

// Plan is one channel lifetime.
type Plan struct {
	Throttle        *Throttle `json:"throttle,omitempty"`
	MaxCallAttempts int       `json:"max_call_attempts"` // 0 = leave the default (5)
	DisableRetry    bool      `json:"disable_retry,omitempty"`
	RPCs            []RPC     `json:"rpcs"`
}

// AttemptLog is what the server saw of one attempt.
type AttemptLog struct {
	Arrive    time.Time
	End       time.Time
	Ended     bool
	Prev      []string // grpc-previous-rpc-attempts values
	Msgs      [][]byte
	HalfClose bool
	RecvErr   string
	Script    AttemptScript
	Default   bool // no script entry: default behaviour (drain, reply, OK)
}

// RPCResult is what the application saw.
type RPCResult struct {
	Start, End time.Time
	NewErr     string // NewStream / Invoke setup error text ("" if none)
	Code       codes.Code
	ErrMsg     string
	Resp       [][]byte
	Sent       [][]byte // messages successfully handed to SendMsg (nil error)
	Closed     bool     // CloseSend was called
	SendErrs   []string
	Attempts   []*AttemptLog
}

// History is the outcome of Exec.
type History struct {
	SC   string
	RPCs []*RPCResult
	Err  string // rig failure (not a property verdict)
}

// Msg returns the deterministic content of message j of RPC i.
func Msg(i, j, size int) []byte {
	b := make([]byte, size)
	x := uint32(i*7919+j*104729) | 1
	for k := range b {
		x ^= x << 13
		x ^= x >> 17
		x ^= x << 5
		b[k] = byte(x)
	}
	return b
}

// Resp is the response payload the server sends for RPC i attempt a.
func Resp(i, a int) []byte { return []byte(fmt.Sprintf("resp-%d-%d", i, a)) }

type rawCodec struct{}

func (rawCodec) Marshal(v any) ([]byte, error) {
	p, ok := v.(*[]byte)
	if !ok {
		return nil, fmt.Errorf("rawCodec: %T", v)
	}
	return *p, nil
}
func (rawCodec) Unmarshal(data []byte, v any) error {
	p, ok := v.(*[]byte)
	if !ok {
		return fmt.Errorf("rawCodec: %T", v)
	}
	*p = append([]byte(nil), data...)
	return nil
}
func (rawCodec) Name() string { return "vfraw" }

// DurJSON renders ns as a service-config duration string.
func DurJSON(ns int64) string {
	return fmt.Sprintf("%d.%09ds", ns/1e9, ns%1e9)
}

// Method is the full method name of RPC i.
func Method(i int) string { return "/vf.S/m" + strconv.Itoa(i) }

// ServiceConfig renders the plan's service config JSON.
func ServiceConfig(p Plan) string {
	var mcs []string
	for i, r := range p.RPCs {
		if r.Policy == nil {
			continue
		}
		var cs []string
		for _, c := range r.Policy.Codes {
			cs = append(cs, strconv.Itoa(int(c)))
		}
		mcs = append(mcs, fmt.Sprintf(`{"name":[{"service":"vf.S","method":"m%d"}],"retryPolicy":{"maxAttempts":%d,"initialBackoff":%q,"maxBackoff":%q,"backoffMultiplier":%s,"retryableStatusCodes":[%s]}}`,
			i, r.Policy.MaxAttempts, DurJSON(r.Policy.InitialNs), DurJSON(r.Policy.MaxNs), strconv.FormatFloat(r.Policy.Mult, 'g', -1, 64), strings.Join(cs, ",")))
	}
	sc := `{"methodConfig":[` + strings.Join(mcs, ",") + `]`
	if p.Throttle != nil {
		sc += fmt.Sprintf(`,"retryThrottling":{"maxTokens":%s,"tokenRatio":%s}`, p.Throttle.Max, p.Throttle.Ratio)
	}
	return sc + "}"
}

type server struct {
	mu   sync.Mutex
	plan Plan
	logs map[string][]*AttemptLog
}

func (s *server) handle(_ any, ss grpc.ServerStream) error {
	method, _ := grpc.MethodFromServerStream(ss)
	md, _ := metadata.FromIncomingContext(ss.Context())
	idx, err := strconv.Atoi(strings.TrimPrefix(method, "/vf.S/m"))
	if err != nil || idx < 0 || idx >= len(s.plan.RPCs) {
		return status.Error(codes.Unimplemented, "unknown method "+method)
	}
	rpc := s.plan.RPCs[idx]
	s.mu.Lock()
	a := len(s.logs[method])
	rec := &AttemptLog{Arrive: time.Now(), Prev: append([]string(nil), md["grpc-previous-rpc-attempts"]...)}
	if a < len(rpc.Script) {
		rec.Script = rpc.Script[a]
	} else {
		rec.Default = true
		rec.Script = AttemptScript{ReadN: len(rpc.Msgs), Kind: KMsgStatus, Code: 0}
		if rpc.CloseSend || rpc.Shape == Unary {
			rec.Script.ReadN = -1
		}
	}
	sc := rec.Script
	s.logs[method] = append(s.logs[method], rec)
	s.mu.Unlock()
	end := func() {
		s.mu.Lock()
		rec.End = time.Now()
		rec.Ended = true
		s.mu.Unlock()
	}
	for n := 0; sc.ReadN < 0 || n < sc.ReadN; n++ {
		var b []byte
		err := ss.RecvMsg(&b)
		if err == io.EOF {
			s.mu.Lock()
			rec.HalfClose = true
			s.mu.Unlock()
			break
		}
		if err != nil {
			s.mu.Lock()
			rec.RecvErr = err.Error()
			s.mu.Unlock()
			end()
			return err
		}
		s.mu.Lock()
		rec.Msgs = append(rec.Msgs, b)
		s.mu.Unlock()
	}
	if sc.DelayNs > 0 {
		t := time.NewTimer(time.Duration(sc.DelayNs))
		select {
		case <-t.C:
		case <-ss.Context().Done():
			t.Stop()
			end()
			return status.FromContextError(ss.Context().Err()).Err()
		}
	}
	if len(sc.Pushback) > 0 {
		ss.SetTrailer(metadata.MD{"grpc-retry-pushback-ms": append([]string(nil), sc.Pushback...)})
	}
	var st error
	if sc.Code != 0 {
		st = status.Error(codes.Code(sc.Code), fmt.Sprintf("scripted %d/%d", idx, a))
	}
	switch sc.Kind {
	case KStatus:
	case KHdrStatus:
		if err := ss.SendHeader(metadata.MD{"vf-h": []string{strconv.Itoa(a)}}); err != nil {
			end()
			return err
		}
	case KMsgStatus:
		r := Resp(idx, a)
		if err := ss.SendMsg(&r); err != nil {
			end()
			return err
		}
	case KHang:
		<-ss.Context().Done()
		end()
		return status.FromContextError(ss.Context().Err()).Err()
	}
	end()
	return st
}

// Exec runs the plan. Must be called from inside a synctest bubble.
func Exec(p Plan) *History {
	h := &History{SC: ServiceConfig(p)}
	lis := bufconn.Listen(1 << 20)
	srvState := &server{plan: p, logs: map[string][]*AttemptLog{}}
	// static 64 KB windows: flow control (and thereby what a blocked sender
	// experiences) does not depend on the BDP estimator
	srv := grpc.NewServer(grpc.UnknownServiceHandler(srvState.handle), grpc.ForceServerCodec(rawCodec{}), grpc.StaticStreamWindowSize(65535), grpc.StaticConnWindowSize(65535))
	srvDone := make(chan struct{})
	go func() { defer close(srvDone); _ = srv.Serve(lis) }()
	opts := []grpc.DialOption{
		grpc.WithTransportCredentials(insecure.NewCredentials()),
		grpc.WithContextDialer(func(ctx context.Context, _ string) (net.Conn, error) { return lis.DialContext(ctx) }),
		grpc.WithDefaultServiceConfig(h.SC),
		grpc.WithDisableServiceConfig(),
		grpc.WithIdleTimeout(0),
		grpc.WithDefaultCallOptions(grpc.ForceCodec(rawCodec{})),
	}
	if p.MaxCallAttempts != 0 {
		opts = append(opts, grpc.WithMaxCallAttempts(p.MaxCallAttempts))
	}
	if p.DisableRetry {
		opts = append(opts, grpc.WithDisableRetry())
	}
	cc, err := grpc.NewClient("passthrough:///vf", opts...)
	if err != nil {
		h.Err = "NewClient: " + err.Error()
		srv.Stop()
		<-srvDone
		return h
	}
	for i, r := range p.RPCs {
		res := execRPC(cc, i, r)
		// Let the server-side handler of the last attempt finish logging.
		synctest.Wait()
		srvState.mu.Lock()
		for _, a := range srvState.logs[Method(i)] {
			cp := *a
			res.Attempts = append(res.Attempts, &cp)
		}
		srvState.mu.Unlock()
		h.RPCs = append(h.RPCs, res)
	}
	cc.Close()
	srv.Stop()
	<-srvDone
	lis.Close()
	synctest.Wait()
	return h
}

func settle(r RPC) {
	if r.Settle {
		synctest.Wait()
	}
}

func execRPC(cc *grpc.ClientConn, i int, r RPC) *RPCResult {
	res := &RPCResult{Start: time.Now()}
	defer func() { res.End = time.Now() }()
	ctx, cancel := context.WithTimeout(context.Background(), time.Duration(r.TimeoutNs))
	defer cancel()
	var copts []grpc.CallOption
	if r.BufLimit > 0 {
		copts = append(copts, grpc.MaxRetryRPCBufferSize(r.BufLimit))
	}
	finish := func(err error) {
		if err == io.EOF {
			err = nil
		}
		st, _ := status.FromError(err)
		res.Code = st.Code()
		res.ErrMsg = st.Message()
	}
	if r.Shape == Unary {
		req := Msg(i, 0, r.Msgs[0])
		var resp []byte
		err := cc.Invoke(ctx, Method(i), &req, &resp, copts...)
		res.Sent = [][]byte{req}
		res.Closed = true
		if err == nil {
			res.Resp = append(res.Resp, resp)
		}
		finish(err)
		return res
	}
	desc := &grpc.StreamDesc{ClientStreams: true, ServerStreams: r.Shape == Bidi}
	cs, err := cc.NewStream(ctx, desc, Method(i), copts...)
	if err != nil {
		res.NewErr = err.Error()
		finish(err)
		return res
	}
	settle(r)
	for j, sz := range r.Msgs {
		m := Msg(i, j, sz)
		if err := cs.SendMsg(&m); err != nil {
			res.SendErrs = append(res.SendErrs, err.Error())
			break
		}
		res.Sent = append(res.Sent, m)
		settle(r)
	}
	if r.CloseSend && len(res.SendErrs) == 0 {
		_ = cs.CloseSend()
		res.Closed = true
		settle(r)
	}
	for k := 0; k < 4; k++ {
		var resp []byte
		err := cs.RecvMsg(&resp)
		if err != nil {
			finish(err)
			return res
		}
		res.Resp = append(res.Resp, resp)
		if r.Shape == Client {
			// client-streaming: the stream wrapper already consumed the
			// trailers; a nil error means the RPC completed with OK.
			finish(nil)
			return res
		}
	}
	cancel()
	var sink []byte
	for cs.RecvMsg(&sink) == nil {
	}
	res.Code = codes.Unknown
	res.ErrMsg = "rig: too many responses"
	return res
}

// Dump renders a history for violation messages.
func (h *History) Dump() string {
	type att struct {
		ArriveNs, EndNs int64
		Prev            []string
		NMsgs           int
		HalfClose       bool
		Kind            string
		Code            uint32
		Pushback        []string
	}
	type rr struct {
		Code     string
		Err      string
		NResp    int
		Attempts []att
	}
	var out []rr
	for _, r := range h.RPCs {
		x := rr{Code: r.Code.String(), Err: r.ErrMsg, NResp: len(r.Resp)}
		for _, a := range r.Attempts {
			x.Attempts = append(x.Attempts, att{a.Arrive.Sub(r.Start).Nanoseconds(), a.End.Sub(r.Start).Nanoseconds(), a.Prev, len(a.Msgs), a.HalfClose, a.Script.Kind, a.Script.Code, a.Script.Pushback})
		}
		out = append(out, x)
	}
	b, _ := json.Marshal(out)
	return string(b)
}

// RawCodec returns the []byte pass-through codec used by the rig (for checks
// that drive their own client).
func RawCodec() interface {
	Marshal(v any) ([]byte, error)
	Unmarshal(data []byte, v any) error
	Name() string
} {
	return rawCodec{}
}
