package c20_test

// C20 (pure part): internal/backoff.Exponential.Backoff stays within the
// documented bounds for every configuration and retry count.

import (
	"math"
	"testing"
	"time"

	grpcbackoff "google.golang.org/grpc/backoff"
	"google.golang.org/grpc/internal/backoff"
	"google.golang.org/grpc/internal/verifkit/vk"
	"pgregory.net/rapid"
)

type purePlan struct {
	Base    int64   `json:"base"`
	Max     int64   `json:"max"`
	Mult    float64 `json:"mult"`
	Jitter  float64 `json:"jitter"`
	Retries int     `json:"retries"`
	Draws   int     `json:"draws"`
}

func genDelay(rt *rapid.T, label string) int64 {
	switch rapid.IntRange(0, 4).Draw(rt, label+"_kind") {
	case 0:
		return rapid.SampledFrom([]int64{0, 1, int64(time.Millisecond), int64(time.Second), int64(120 * time.Second), math.MaxInt64, math.MaxInt64 - 1, 1 << 62, 1<<62 + 1, 1 << 53, 1<<53 + 1}).Draw(rt, label)
	case 1:
		return rapid.Int64Range(0, math.MaxInt64).Draw(rt, label)
	case 2:
		bits := rapid.IntRange(0, 62).Draw(rt, label+"_bits")
		return int64(1)<<uint(bits) + rapid.Int64Range(-1, 1).Draw(rt, label+"_d")
	case 3:
		return rapid.Int64Range(0, int64(10*time.Minute)).Draw(rt, label)
	default:
		return math.MaxInt64 - rapid.Int64Range(0, 1<<20).Draw(rt, label)
	}
}

func genPure(rt *rapid.T) purePlan {
	p := purePlan{Base: genDelay(rt, "base"), Max: genDelay(rt, "max")}
	switch rapid.IntRange(0, 3).Draw(rt, "mult_kind") {
	case 0:
		p.Mult = rapid.SampledFrom([]float64{1, 1.6, 2, 10, 1.0000001, 0.5, 0.999, 1e-9, 1e9}).Draw(rt, "mult")
	case 1:
		p.Mult = rapid.Float64Range(1, 10).Draw(rt, "mult")
	case 2:
		p.Mult = rapid.Float64Range(1e-6, 1).Draw(rt, "mult")
	default:
		p.Mult = rapid.Float64Range(1, 1.01).Draw(rt, "mult")
	}
	switch rapid.IntRange(0, 2).Draw(rt, "jit_kind") {
	case 0:
		p.Jitter = rapid.SampledFrom([]float64{0, 0.2, 1, 0.5, 1.5, 3}).Draw(rt, "jitter")
	case 1:
		p.Jitter = rapid.Float64Range(0, 1).Draw(rt, "jitter")
	default:
		p.Jitter = rapid.Float64Range(0, 3).Draw(rt, "jitter")
	}
	switch rapid.IntRange(0, 2).Draw(rt, "ret_kind") {
	case 0:
		p.Retries = rapid.IntRange(0, 5).Draw(rt, "retries")
	case 1:
		p.Retries = rapid.IntRange(0, 200).Draw(rt, "retries")
	default:
		p.Retries = rapid.IntRange(0, 10000).Draw(rt, "retries")
	}
	p.Draws = rapid.IntRange(1, 8).Draw(rt, "draws")
	return p
}

func runPure(_ *testing.T, p purePlan) vk.Result {
	bc := backoff.Exponential{Config: grpcbackoff.Config{BaseDelay: time.Duration(p.Base), MaxDelay: time.Duration(p.Max), Multiplier: p.Mult, Jitter: p.Jitter}}
	res := vk.Result{}
	// reference: m = min(base*mult^n, max), computed independently.
	base, max := float64(p.Base), float64(p.Max)
	m := base * math.Pow(p.Mult, float64(p.Retries))
	capped := false
	if p.Retries >= 1 {
		if p.Mult >= 1 {
			if m >= max || math.IsInf(m, 1) || base >= max {
				m = max
				capped = true
			}
		}
	}
	bounded := p.Retries >= 1 && p.Mult >= 1 && p.Jitter <= 1
	if capped {
		res.Classes = append(res.Classes, "capped")
	}
	if p.Max >= 1<<62 {
		res.Classes = append(res.Classes, "max>=2^62")
	}
	if !bounded {
		res.Classes = append(res.Classes, "unbounded_cfg")
	}
	res.NonTrivial = p.Retries >= 1 && (capped || p.Max >= 1<<62)
	for i := 0; i < p.Draws; i++ {
		got := bc.Backoff(p.Retries)
		if got < 0 {
			return vk.Bad("Backoff(%d) = %d (negative) for base=%d max=%d mult=%v jitter=%v", p.Retries, int64(got), p.Base, p.Max, p.Mult, p.Jitter)
		}
		if p.Retries == 0 {
			if int64(got) != p.Base {
				return vk.Bad("Backoff(0) = %d, want base delay %d", int64(got), p.Base)
			}
			continue
		}
		if !bounded {
			continue
		}
		lo, hi := (1-p.Jitter)*m, (1+p.Jitter)*m
		// relative tolerance 1e-9 (+1ns for float->int truncation); saturate at MaxInt64.
		loT := lo*(1-1e-9) - 1
		hiT := hi*(1+1e-9) + 1
		g := float64(got)
		if hiT >= math.MaxInt64 {
			hiT = math.MaxInt64
		}
		if loT > math.MaxInt64 {
			loT = math.MaxInt64
		}
		if g < loT || g > hiT {
			return vk.Bad("Backoff(%d) = %d outside [%v, %v] (m=%v) for base=%d max=%d mult=%v jitter=%v", p.Retries, int64(got), loT, hiT, m, p.Base, p.Max, p.Mult, p.Jitter)
		}
	}
	return res
}

func TestVerifC20Pure(t *testing.T) {
	vk.Check(t, vk.Unit[purePlan]{
		ID: "C20", Name: "pure",
		Rule: "configs: BaseDelay/MaxDelay from 5 generators incl. 0, 2^53±1, 2^62±1, MaxInt64-k; Multiplier in (1e-9,1e9); Jitter in [0,3]; retries 0..10000; 1-8 jitter draws each. non-trivial = retries>=1 and (cap reached or MaxDelay >= 2^62)",
		Gen:  genPure, Run: runPure,
	})
}
