package c20_test

// C20 (history part): a subchannel whose connection attempt failed waits at
// least the connection backoff before dialing again unless the backoff was
// explicitly reset, and the backoff index restarts after a successful
// connection.
//
// A real grpc.ClientConn (pick_first, 1-2 addresses from a manual resolver,
// grpc.WithConnectParams) runs in a synctest bubble against a dialer whose
// outcomes are scripted by the plan; the oracle looks only at the virtual
// timestamps of the dial attempts, the successes and the ResetConnectBackoff
// calls.

import (
	"context"
	"errors"
	"fmt"
	"math"
	"net"
	"sort"
	"sync"
	"testing"
	"testing/synctest"
	"time"

	"google.golang.org/grpc"
	grpcbackoff "google.golang.org/grpc/backoff"
	"google.golang.org/grpc/connectivity"
	"google.golang.org/grpc/credentials/insecure"
	"google.golang.org/grpc/internal/verifkit/vk"
	"google.golang.org/grpc/resolver"
	"google.golang.org/grpc/resolver/manual"
	"google.golang.org/grpc/test/bufconn"
	"pgregory.net/rapid"
)

type hOutcome struct {
	Kind string `json:"kind"` // fail | hang | ok
	// DelayNs: fail: time the dial takes before failing; ok: lifetime of the
	// connection before the harness closes it.
	DelayNs int64 `json:"delay_ns"`
}

type histPlan struct {
	BaseNs       int64      `json:"base_ns"`
	MaxNs        int64      `json:"max_ns"`
	Mult         float64    `json:"mult"`
	Jitter       float64    `json:"jitter"`
	MinConnectNs int64      `json:"min_connect_ns"`
	NAddrs       int        `json:"n_addrs"`
	NDials       int        `json:"n_dials"`
	Outcomes     []hOutcome `json:"outcomes"` // i-th dial (global order), cycled
	// ResetAtNs: virtual offsets (from start) of cc.ResetConnectBackoff calls.
	ResetAtNs []int64 `json:"reset_at_ns"`
}

type dialRec struct {
	addr       string
	start, end time.Time
	ended      bool
	ok         bool
	kind       string
}

func genHist(rt *rapid.T) histPlan {
	var p histPlan
	p.BaseNs = rapid.SampledFrom([]int64{1e6, 1e7, 1e8, 1e9, 5e9, 3e6 + 7}).Draw(rt, "base")
	if rapid.IntRange(0, 3).Draw(rt, "base_rand") == 3 {
		p.BaseNs = rapid.Int64Range(1e6, 5e9).Draw(rt, "base_v")
	}
	switch rapid.IntRange(0, 5).Draw(rt, "mult_kind") {
	case 0, 1:
		p.Mult = rapid.SampledFrom([]float64{1.6, 2, 1.5, 3, 1}).Draw(rt, "mult")
	case 2, 3:
		p.Mult = rapid.Float64Range(1, 4).Draw(rt, "mult")
	case 4:
		p.Mult = 1
	default:
		p.Mult = rapid.SampledFrom([]float64{0.5, 0.9}).Draw(rt, "mult_lt1")
	}
	switch rapid.IntRange(0, 5).Draw(rt, "jit_kind") {
	case 0, 1:
		p.Jitter = rapid.SampledFrom([]float64{0.2, 0, 0.1, 0.5, 1}).Draw(rt, "jitter")
	case 2, 3, 4:
		p.Jitter = rapid.Float64Range(0, 1).Draw(rt, "jitter")
	default:
		p.Jitter = rapid.SampledFrom([]float64{1.5, 3}).Draw(rt, "jitter_gt1")
	}
	switch rapid.IntRange(0, 3).Draw(rt, "max_kind") {
	case 0:
		p.MaxNs = p.BaseNs * rapid.Int64Range(1, 50).Draw(rt, "max_k")
	case 1:
		p.MaxNs = rapid.SampledFrom([]int64{120e9, 10e9, 1e9}).Draw(rt, "max")
	case 2:
		p.MaxNs = p.BaseNs / rapid.Int64Range(1, 4).Draw(rt, "max_div")
	default:
		p.MaxNs = rapid.Int64Range(p.BaseNs, p.BaseNs*100).Draw(rt, "max_v")
	}
	p.MinConnectNs = rapid.SampledFrom([]int64{20e9, 1e6, 1e8, 5e9, 0}).Draw(rt, "min_connect")
	p.NAddrs = rapid.SampledFrom([]int{1, 1, 1, 2}).Draw(rt, "n_addrs")
	p.NDials = rapid.IntRange(5, vk.Pick(20, 30)).Draw(rt, "n_dials")
	nOut := rapid.IntRange(1, p.NDials).Draw(rt, "n_outcomes")
	for i := 0; i < nOut; i++ {
		var o hOutcome
		switch rapid.IntRange(0, 19).Draw(rt, "outcome") {
		case 16, 17, 18:
			o.Kind = "ok"
			o.DelayNs = rapid.SampledFrom([]int64{1e6, 1, 1e9, 60e9, 7e8, 2}).Draw(rt, "lifetime") // never 0: a connection closed before the handshake is not a success
		case 19:
			o.Kind = "hang"
		case 13, 14, 15:
			o.Kind = "fail"
			o.DelayNs = rapid.Int64Range(1, 2e9).Draw(rt, "dial_time")
		default:
			o.Kind = "fail"
		}
		p.Outcomes = append(p.Outcomes, o)
	}
	nReset := rapid.SampledFrom([]int{0, 0, 1, 2, 3, 5, 8}).Draw(rt, "n_reset")
	// spread the resets over the time the failures would roughly take
	span := float64(p.BaseNs) * 4 * float64(p.NDials)
	if span > 600e9 {
		span = 600e9
	}
	// Half of the resets are aimed into the middle of a backoff period with
	// index >= 1 (timeline of a run in which every dial fails at once and the
	// jitter is zero; later resets shift the real timeline, which is fine).
	var mids []int64
	tl := 0.0
	for k := 0; k < p.NDials && tl < 600e9; k++ {
		b := float64(p.BaseNs)
		if k > 0 {
			b = math.Min(float64(p.BaseNs)*math.Pow(p.Mult, float64(k)), float64(p.MaxNs))
		}
		if k >= 1 && b >= 4 {
			mids = append(mids, int64(tl+b/2))
		}
		tl += b
	}
	for i := 0; i < nReset; i++ {
		if len(mids) > 0 && rapid.Bool().Draw(rt, "reset_aimed") {
			p.ResetAtNs = append(p.ResetAtNs, mids[rapid.IntRange(0, len(mids)-1).Draw(rt, "reset_mid")])
		} else {
			p.ResetAtNs = append(p.ResetAtNs, rapid.Int64Range(0, int64(span)).Draw(rt, "reset_at"))
		}
	}
	sort.Slice(p.ResetAtNs, func(i, j int) bool { return p.ResetAtNs[i] < p.ResetAtNs[j] })
	return p
}

type histObs struct {
	start  time.Time
	dials  []dialRec
	resets []time.Time
	err    string
}

func execHist(p histPlan) histObs {
	var (
		mu    sync.Mutex
		dials []*dialRec
		obs   histObs
	)
	obs.start = time.Now()
	ctx, cancel := context.WithCancel(context.Background())
	defer cancel()
	done := make(chan struct{})
	var doneOnce sync.Once
	var wg sync.WaitGroup

	lis := bufconn.Listen(1 << 16)
	srv := grpc.NewServer()
	srvDone := make(chan struct{})
	go func() { defer close(srvDone); _ = srv.Serve(lis) }()

	dialer := func(dctx context.Context, addr string) (net.Conn, error) {
		mu.Lock()
		i := len(dials)
		if i >= p.NDials {
			// The history is complete: park further dials. (With Multiplier < 1
			// the backoff shrinks to 0 ns and the reconnect loop would spin
			// without virtual time ever advancing.)
			mu.Unlock()
			<-dctx.Done()
			return nil, dctx.Err()
		}
		o := p.Outcomes[i%len(p.Outcomes)]
		rec := &dialRec{addr: addr, start: time.Now(), kind: o.Kind}
		dials = append(dials, rec)
		if i+1 >= p.NDials {
			doneOnce.Do(func() { close(done) })
		}
		mu.Unlock()
		finish := func(ok bool) {
			mu.Lock()
			rec.end, rec.ended, rec.ok = time.Now(), true, ok
			mu.Unlock()
		}
		switch o.Kind {
		case "hang":
			<-dctx.Done()
			finish(false)
			return nil, dctx.Err()
		case "ok":
			c, err := lis.DialContext(dctx)
			if err != nil {
				finish(false)
				return nil, err
			}
			finish(true)
			wg.Add(1)
			go func() {
				defer wg.Done()
				t := time.NewTimer(time.Duration(o.DelayNs))
				defer t.Stop()
				select {
				case <-t.C:
					c.Close()
				case <-ctx.Done():
				}
			}()
			return c, nil
		default:
			if o.DelayNs > 0 {
				t := time.NewTimer(time.Duration(o.DelayNs))
				select {
				case <-t.C:
				case <-dctx.Done():
					t.Stop()
					finish(false)
					return nil, dctx.Err()
				}
			}
			finish(false)
			return nil, errors.New("scripted dial failure")
		}
	}

	r := manual.NewBuilderWithScheme("vfc20")
	var addrs []resolver.Address
	for i := 0; i < p.NAddrs; i++ {
		addrs = append(addrs, resolver.Address{Addr: fmt.Sprintf("addr%d", i)})
	}
	r.InitialState(resolver.State{Addresses: addrs})
	cc, err := grpc.NewClient("vfc20:///x",
		grpc.WithResolvers(r),
		grpc.WithTransportCredentials(insecure.NewCredentials()),
		grpc.WithContextDialer(dialer),
		grpc.WithIdleTimeout(0),
		grpc.WithConnectParams(grpc.ConnectParams{
			Backoff:           grpcbackoff.Config{BaseDelay: time.Duration(p.BaseNs), Multiplier: p.Mult, Jitter: p.Jitter, MaxDelay: time.Duration(p.MaxNs)},
			MinConnectTimeout: time.Duration(p.MinConnectNs),
		}))
	if err != nil {
		obs.err = "NewClient: " + err.Error()
		srv.Stop()
		<-srvDone
		return obs
	}
	// An application that always wants to be connected.
	wg.Add(1)
	go func() {
		defer wg.Done()
		for {
			s := cc.GetState()
			if s == connectivity.Idle {
				cc.Connect()
			}
			if s == connectivity.Shutdown || !cc.WaitForStateChange(ctx, s) {
				return
			}
		}
	}()
	// Timeline of explicit resets; stop after NDials dials (or a horizon).
	horizon := time.NewTimer(2 * time.Hour)
	defer horizon.Stop()
	stopped := false
	for _, at := range p.ResetAtNs {
		wait := time.Until(obs.start.Add(time.Duration(at)))
		t := time.NewTimer(wait)
		select {
		case <-t.C:
			synctest.Wait() // everything scheduled for this instant has happened
			mu.Lock()
			obs.resets = append(obs.resets, time.Now())
			mu.Unlock()
			cc.ResetConnectBackoff()
		case <-done:
			t.Stop()
			stopped = true
		}
		if stopped {
			break
		}
	}
	if !stopped {
		select {
		case <-done:
		case <-horizon.C:
		}
	}
	synctest.Wait()
	cancel()
	cc.Close()
	srv.Stop()
	<-srvDone
	lis.Close()
	wg.Wait()
	synctest.Wait()
	mu.Lock()
	for _, d := range dials {
		obs.dials = append(obs.dials, *d)
	}
	mu.Unlock()
	return obs
}

func runHist(t *testing.T, p histPlan) vk.Result {
	var obs histObs
	if msg := vk.Bubble(t, func(*testing.T) { obs = execHist(p) }); msg != "" {
		return vk.Bad("rig did not drain: %s", msg)
	}
	if obs.err != "" {
		return vk.Bad("rig failure: %s", obs.err)
	}
	res := vk.Result{Steps: len(obs.dials)}
	bounded := p.Mult >= 1 && p.Jitter <= 1
	if !bounded {
		res = res.With("unbounded_cfg")
	}
	// lower(k): the least wait the statement allows after a failed attempt
	// whose backoff index was k.
	lower := func(k int) float64 {
		if k == 0 {
			return float64(p.BaseNs)
		}
		if !bounded {
			return 0
		}
		m := math.Min(float64(p.BaseNs)*math.Pow(p.Mult, float64(k)), float64(p.MaxNs))
		return (1-p.Jitter)*m*(1-1e-9) - 1
	}
	rel := func(t time.Time) int64 { return t.Sub(obs.start).Nanoseconds() }
	dump := func() string {
		s := fmt.Sprintf("cfg base=%d max=%d mult=%v jitter=%v minConnect=%d; resets at %v; dials:", p.BaseNs, p.MaxNs, p.Mult, p.Jitter, p.MinConnectNs, func() []int64 {
			var o []int64
			for _, r := range obs.resets {
				o = append(o, rel(r))
			}
			return o
		}())
		for i, d := range obs.dials {
			s += fmt.Sprintf(" [#%d %s %s start=%d end=%d ok=%v]", i, d.addr, d.kind, rel(d.start), rel(d.end), d.ok)
		}
		return s
	}
	// reset times relative to an interval; virtual time makes a reset coincide
	// exactly with the dial it triggers, so boundary cases are classified
	// separately and handled leniently.
	// skipReset: one reset known to have happened before the dial under
	// consideration started (it cut the previous backoff and thereby triggered
	// this dial); excluded once from the searches below.
	var skipReset *time.Time
	resetWhere := func(pred func(r time.Time) bool) bool {
		skipped := false
		for _, r := range obs.resets {
			if skipReset != nil && !skipped && r.Equal(*skipReset) {
				skipped = true
				continue
			}
			if pred(r) {
				return true
			}
		}
		return false
	}
	successIn := func(a, b time.Time) bool {
		for _, d := range obs.dials {
			if d.ok && !d.end.Before(a) && !d.end.After(b) {
				return true
			}
		}
		return false
	}
	byAddr := map[string][]int{}
	var order []string
	for i, d := range obs.dials {
		if _, ok := byAddr[d.addr]; !ok {
			order = append(order, d.addr)
		}
		byAddr[d.addr] = append(byAddr[d.addr], i)
	}
	deep, evidence := false, false
	for _, addr := range order {
		idxs := byAddr[addr]
		cand := map[int]bool{0: true}
		haveCut, cutBy := false, time.Time{}
		for n, di := range idxs {
			d := obs.dials[di]
			if !d.ended {
				break
			}
			if n > 0 && successIn(obs.dials[idxs[n-1]].start, d.start) {
				// some subchannel connected: pick_first shut the others down
				// and re-creates them later with a fresh index
				cand[0] = true
			}
			if d.ok {
				cand = map[int]bool{0: true}
				continue
			}
			if n+1 >= len(idxs) {
				break
			}
			next := obs.dials[idxs[n+1]]
			if next.start.Before(d.end) {
				return vk.Bad("address %s: dial #%d started before dial #%d of the same address had failed: %s", addr, idxs[n+1], di, dump())
			}
			used := map[int]bool{}
			for k := range cand {
				used[k] = true
			}
			skipReset = nil
			if haveCut && cutBy.Equal(d.start) {
				skipReset = &cutBy
			}
			resetDuring := resetWhere(func(r time.Time) bool { return !r.Before(d.start) && !r.After(d.end) })
			if resetDuring {
				used[0] = true
				res = res.With("reset_during_dial")
			}
			// strictly after the failure (a reset at the instant of the next
			// dial is what triggered that dial)
			resetAfter := resetWhere(func(r time.Time) bool { return r.After(d.end) && !r.After(next.start) })
			// at the very instant of the failure: before or after it?
			resetAmb := resetWhere(func(r time.Time) bool { return r.Equal(d.end) })
			recreated := successIn(d.start, next.start)
			gap := float64(next.start.Sub(d.end))
			lo := math.Inf(1)
			maxK := 0
			for k := range used {
				lo = math.Min(lo, lower(k))
				maxK = max(maxK, k)
			}
			// A reset inside (failure, next dial] either cut the backoff short
			// (then the next dial starts at the very instant of the reset) or
			// arrived just after the timer had expired on its own, i.e. during
			// the next dial. It certainly was a cut when the wait is shorter
			// than the backoff allows.
			cut := resetAfter && !resetAmb && !recreated && gap < lo
			switch {
			case recreated:
				res = res.With("subchannel_recreated_skip")
			case cut:
				res = res.With("reset_cut_backoff")
			case resetAfter || resetAmb:
				res = res.With("reset_near_backoff_end_unasserted")
			default:
				if gap < lo {
					return vk.Bad("address %s: dial #%d failed at %d ns and the next dial #%d started %d ns later; the backoff index was in %v so the wait must be at least %.0f ns (no reset, no success in between): %s",
						addr, di, rel(d.end), idxs[n+1], int64(gap), keys(used), lo, dump())
				}
				res = res.With(fmt.Sprintf("gap_idx_%d", min(maxK, 6)))
				if len(used) == 1 && maxK >= 2 && bounded {
					deep = true
				}
				if bounded && float64(p.BaseNs)*math.Pow(p.Mult, float64(maxK)) >= float64(p.MaxNs) && maxK >= 1 {
					res = res.With("capped")
				}
				// Index restart made observable: pick_first (single address)
				// reconnects a subchannel the moment it leaves backoff, so
				// after a success or an explicit reset the wait is exactly
				// Backoff(0) = BaseDelay. Not asserted when another reset
				// fell into this dial (the one that triggered it excepted).
				if p.NAddrs == 1 && len(used) == 1 && used[0] && !resetDuring {
					if gap > float64(p.BaseNs) {
						return vk.Bad("address %s: dial #%d failed with backoff index 0 (first attempt, or first after a success / explicit reset) but the next dial came %d ns later, want the base delay %d ns: %s", addr, di, int64(gap), p.BaseNs, dump())
					}
					if n > 0 {
						evidence = true
						if obs.dials[idxs[n-1]].ok {
							res = res.With("index_restart_after_success")
						} else {
							res = res.With("index_restart_after_reset")
						}
					}
				}
			}
			// successor index candidates
			haveCut = false
			switch {
			case cut:
				cand = map[int]bool{0: true}
				haveCut, cutBy = true, next.start
			default:
				cand = map[int]bool{}
				for k := range used {
					cand[min(k+1, 4000)] = true
				}
				if resetAfter || resetAmb || recreated {
					cand[0] = true
				}
			}
			if d.kind == "hang" {
				res = res.With("dial_hang")
			}
		}
	}
	res.NonTrivial = deep
	if evidence {
		res = res.With("index_restart_observed")
	}
	if deep {
		res = res.With("deep_idx>=2")
	}
	return res
}

func keys(m map[int]bool) []int {
	var o []int
	for k := range m {
		o = append(o, k)
	}
	sort.Ints(o)
	return o
}

func TestVerifC20History(t *testing.T) {
	vk.Check(t, vk.Unit[histPlan]{
		ID: "C20", Name: "history",
		Rule: "real ClientConn (pick_first, 1-2 addresses, always-reconnecting application) in a synctest bubble with WithConnectParams (BaseDelay 1 ms-5 s, Multiplier 1-4 (rarely <1), Jitter 0-1 (rarely >1), MaxDelay below/at/above BaseDelay x k, MinConnectTimeout 0-20 s); 5-20(30) dial attempts with scripted outcomes (fail at once / after a delay / hang until the dial deadline / succeed and be closed after a lifetime) and 0-5 ResetConnectBackoff calls at generated virtual times. Oracle on dial timestamps: next dial of a subchannel >= failure time + lower bound of Backoff(idx) unless a reset or re-creation intervened; with one address the wait after the first failure following a success or reset is exactly BaseDelay. non-trivial = a lower bound for an unambiguous backoff index >= 2 was asserted under a bounded configuration (Multiplier >= 1, Jitter <= 1); index restarts after success / reset are counted as classes",
		Gen:  genHist, Run: runHist,
	})
}
