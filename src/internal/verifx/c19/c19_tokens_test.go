package c19_test

// C19 (token accounting part): WHICH end-to-end events feed the retry token
// bucket of a channel. A generated sequence of sequential RPCs runs on ONE real
// grpc.ClientConn whose service config has a retryPolicy and retryThrottling;
// the server is scripted per attempt. A reference model written from the
// property statement / gRFC A6 predicts, RPC by RPC, how many attempts reach the
// server and the final status; a bucket that is off by one token shows up at an
// RPC whose retry decision sits on the maxTokens/2 boundary.
//
// The model works in integer 1/64 tokens (all generated maxTokens / tokenRatio
// literals are dyadic), so the decision boundary is exact and no float is
// involved on the oracle side.

import (
	"fmt"
	"math/big"
	"sort"
	"strconv"
	"strings"
	"testing"
	"time"

	"google.golang.org/grpc/codes"
	"google.golang.org/grpc/internal/verifkit/vk"
	rig "google.golang.org/grpc/internal/verifx/retryrig"
	"pgregory.net/rapid"
)

// tokScale: model token values are integers in units of 1/tokScale token.
const tokScale = 64

var tokRatios = []string{"0.5", "0.25", "1", "2", "0.125", "0.75", "1.5", "0.375"}

var tokOtherCodes = []uint32{3, 5, 7, 12, 16}

type tokPlan struct {
	P rig.Plan `json:"p"`
}

// tokCfg is the channel's throttling policy in model units.
type tokCfg struct {
	max, thr, ratio int64
	cap             int // channel-wide attempt cap (WithMaxCallAttempts; default 5)
}

func tokScaled(lit string) (int64, bool) {
	r, ok := new(big.Rat).SetString(lit)
	if !ok {
		return 0, false
	}
	r.Mul(r, big.NewRat(tokScale, 1))
	if !r.IsInt() || !r.Num().IsInt64() {
		return 0, false
	}
	return r.Num().Int64(), true
}

func tokConfig(p rig.Plan) (tokCfg, bool) {
	if p.Throttle == nil || p.DisableRetry {
		return tokCfg{}, false
	}
	m, ok1 := tokScaled(p.Throttle.Max)
	r, ok2 := tokScaled(p.Throttle.Ratio)
	// parser limits: 0 < maxTokens <= 1000, tokenRatio > 0; thr = max/2 must be
	// an integer in model units.
	if !ok1 || !ok2 || m <= 0 || m > 1000*tokScale || r <= 0 || m%2 != 0 {
		return tokCfg{}, false
	}
	c := tokCfg{max: m, thr: m / 2, ratio: r, cap: 5}
	if p.MaxCallAttempts >= 1 {
		// documented: values < 1 select the default of 5
		c.cap = p.MaxCallAttempts
	}
	return c, true
}

func tokInCodes(pol *rig.Policy, c uint32) bool {
	if pol == nil {
		return false
	}
	for _, x := range pol.Codes {
		if x == c {
			return true
		}
	}
	return false
}

// tokOutcome is what the reference model predicts for one RPC.
type tokOutcome struct {
	attempts int
	code     uint32
	after    int64 // bucket after the RPC
	// facts about the walk (for classes / the non-trivial rule)
	exhausted      bool // the last permitted attempt failed with a retryable code
	throttled      bool // a retry was refused by the bucket
	boundary       bool // a throttle-decided retry decision was taken with the bucket (after removal) exactly at thr or thr+1
	sensitive      bool // ... with thr-1 < bucket <= thr+1 (a one-token drift flips it)
	refusedAtThr   bool
	allowedAtThr1  bool
	ambiguous      bool // an event whose token cost depends on the reading occurred
	successOnRetry bool
	badPushback    bool
	validPushback  bool
	nonRetryable   bool
	committedFail  bool
	clampMax       bool
	clampZero      bool
	trace          string
}

// tokWalk is the reference model of one RPC (statement + gRFC A6
// "Throttling Retry Attempts"): bucket b before the RPC; countCommitted selects
// the reading for failures of a committed attempt (see notes/C19.md).
func tokWalk(c tokCfg, countCommitted bool, b int64, r rig.RPC) tokOutcome {
	const one = tokScale
	o := tokOutcome{}
	var tr []string
	maxAtt := 1
	if r.Policy != nil {
		maxAtt = min(r.Policy.MaxAttempts, c.cap)
	}
	remove := func() {
		b -= one
		if b < 0 {
			b = 0
			o.clampZero = true
		}
	}
	for a := 0; ; a++ {
		sc := rig.AttemptScript{Kind: rig.KMsgStatus}
		if a < len(r.Script) {
			sc = r.Script[a]
		}
		o.attempts = a + 1
		o.code = sc.Code
		_, okPB := validPushback(sc.Pushback)
		badPB := len(sc.Pushback) > 0 && !okPB
		retryable := tokInCodes(r.Policy, sc.Code)
		switch {
		case sc.Code == 0:
			// a successful RPC adds tokenRatio (once per RPC)
			b += c.ratio
			if b > c.max {
				b = c.max
				o.clampMax = true
			}
			o.successOnRetry = a > 0
			tr = append(tr, fmt.Sprintf("a%d OK +ratio->%s", a, tokFmt(b)))
		case sc.Kind != rig.KStatus:
			// failure after response headers / a message: the RPC is committed,
			// no retry. Whether it costs a token is the one event kind on which
			// the statement/A6 ("fails with a retryable code") and the
			// implementations (only retry candidates are counted) differ.
			o.committedFail = true
			if retryable || badPB {
				o.ambiguous = true
				if countCommitted {
					remove()
				}
			}
			tr = append(tr, fmt.Sprintf("a%d committed code %d ->%s", a, sc.Code, tokFmt(b)))
		case badPB:
			// negative / malformed / multi-valued pushback: do not retry, one token
			o.badPushback = true
			remove()
			tr = append(tr, fmt.Sprintf("a%d bad pushback %q -1->%s", a, sc.Pushback, tokFmt(b)))
		case !retryable:
			o.nonRetryable = true
			tr = append(tr, fmt.Sprintf("a%d code %d not retryable ->%s", a, sc.Code, tokFmt(b)))
		default:
			// trailers-only failure with a retryable code: removes one token,
			// whether or not a retry follows
			remove()
			if okPB {
				o.validPushback = true
			}
			if a+1 >= maxAtt {
				o.exhausted = true
				tr = append(tr, fmt.Sprintf("a%d code %d -1->%s last permitted attempt", a, sc.Code, tokFmt(b)))
				break
			}
			// the throttle decides
			if b == c.thr || b == c.thr+one {
				o.boundary = true
			}
			if b > c.thr-one && b <= c.thr+one {
				o.sensitive = true
			}
			if b <= c.thr {
				o.throttled = true
				if b == c.thr {
					o.refusedAtThr = true
				}
				tr = append(tr, fmt.Sprintf("a%d code %d -1->%s <= thr: refused", a, sc.Code, tokFmt(b)))
				break
			}
			if b == c.thr+one {
				o.allowedAtThr1 = true
			}
			tr = append(tr, fmt.Sprintf("a%d code %d -1->%s retry", a, sc.Code, tokFmt(b)))
			continue
		}
		break
	}
	o.after = b
	o.trace = strings.Join(tr, "; ")
	return o
}

func tokFmt(b int64) string {
	return strconv.FormatFloat(float64(b)/tokScale, 'g', -1, 64)
}

// ---------------------------------------------------------------- generator

func tokFail(code uint32) rig.AttemptScript {
	return rig.AttemptScript{ReadN: -1, Kind: rig.KStatus, Code: code}
}

func tokGenPolicy(rt *rapid.T, maxAtt int) *rig.Policy {
	pol := &rig.Policy{
		MaxAttempts: maxAtt,
		InitialNs:   rapid.SampledFrom([]int64{1, 1000, int64(time.Millisecond)}).Draw(rt, "initial"),
		Mult:        rapid.SampledFrom([]float64{1, 2, 1.5}).Draw(rt, "mult"),
	}
	pol.MaxNs = pol.InitialNs * rapid.SampledFrom([]int64{1, 4, 1000}).Draw(rt, "max_factor")
	nc := rapid.IntRange(1, 3).Draw(rt, "ncodes")
	start := rapid.IntRange(0, len(retryable)-1).Draw(rt, "code0")
	for c := 0; c < nc; c++ {
		pol.Codes = append(pol.Codes, retryable[(start+c)%len(retryable)])
	}
	return pol
}

func tokRetryableCode(rt *rapid.T, pol *rig.Policy) uint32 {
	return pol.Codes[rapid.IntRange(0, len(pol.Codes)-1).Draw(rt, "code_idx")]
}

func tokNonRetryableCode(rt *rapid.T, pol *rig.Policy) uint32 {
	var cand []uint32
	cand = append(cand, tokOtherCodes...)
	for _, c := range retryable { // retryable elsewhere, but not in this policy
		if !tokInCodes(pol, c) {
			cand = append(cand, c)
		}
	}
	return cand[rapid.IntRange(0, len(cand)-1).Draw(rt, "other_code_idx")]
}

// tokRetryableRun: n trailers-only failures with a retryable code, some with a
// small valid pushback.
func tokRetryableRun(rt *rapid.T, pol *rig.Policy, n int) []rig.AttemptScript {
	var s []rig.AttemptScript
	for k := 0; k < n; k++ {
		a := tokFail(tokRetryableCode(rt, pol))
		if rapid.IntRange(0, 9).Draw(rt, "valid_pb") == 0 {
			a.Pushback = []string{strconv.Itoa(rapid.IntRange(0, 5).Draw(rt, "pb_ms"))}
		}
		s = append(s, a)
	}
	return s
}

// tokTerminal: an attempt after which no retry may follow for a reason other
// than the bucket or maxAttempts.
func tokTerminal(rt *rapid.T, pol *rig.Policy, shape string) rig.AttemptScript {
	code := tokNonRetryableCode(rt, pol)
	if rapid.Bool().Draw(rt, "term_code_retryable") {
		code = tokRetryableCode(rt, pol)
	}
	switch rapid.IntRange(0, 6).Draw(rt, "term_kind") {
	case 0, 1: // trailers-only, code not in retryableStatusCodes
		return tokFail(tokNonRetryableCode(rt, pol))
	case 2, 3: // negative / malformed / two-valued pushback (code in or out of the policy)
		a := tokFail(code)
		if rapid.IntRange(0, 3).Draw(rt, "pb_two") == 0 {
			a.Pushback = []string{"1", "2"}
		} else {
			a.Pushback = []string{rapid.SampledFrom([]string{"-1", "-100", "abc", "", "1.5", "5ms", " 5", "9223372036854775808"}).Draw(rt, "pb_bad")}
		}
		return a
	case 4: // committed by response headers, then a status
		return rig.AttemptScript{ReadN: -1, Kind: rig.KHdrStatus, Code: code}
	case 5: // committed by a response message, then a status
		return rig.AttemptScript{ReadN: -1, Kind: rig.KMsgStatus, Code: code}
	default: // explicit success
		if shape == rig.Bidi {
			return rig.AttemptScript{ReadN: -1, Kind: rapid.SampledFrom([]string{rig.KStatus, rig.KHdrStatus, rig.KMsgStatus}).Draw(rt, "ok_kind")}
		}
		return rig.AttemptScript{ReadN: -1, Kind: rig.KMsgStatus}
	}
}

func tokGen(rt *rapid.T) tokPlan {
	const one = tokScale
	var p rig.Plan
	p.MaxCallAttempts = rapid.SampledFrom([]int{0, 0, 0, 0, 0, 2, 3, 4, -1}).Draw(rt, "cap")
	capN := 5
	if p.MaxCallAttempts >= 1 {
		capN = p.MaxCallAttempts
	}
	baseAtt := rapid.IntRange(2, 5).Draw(rt, "max_attempts")
	eff0 := min(baseAtt, capN)
	// maxTokens: mostly large enough that an RPC can exhaust its attempts from a
	// full bucket (max - (eff-1) > max/2), sometimes anything in 2..10.
	maxTok := rapid.IntRange(2, 10).Draw(rt, "max_tokens_any")
	if rapid.IntRange(0, 7).Draw(rt, "max_tokens_kind") > 0 {
		maxTok = rapid.IntRange(min(2*eff0-1, 10), 10).Draw(rt, "max_tokens")
	}
	ratio := rapid.SampledFrom(tokRatios).Draw(rt, "ratio")
	if (ratio == "1" || ratio == "2") && maxTok%2 == 1 && rapid.IntRange(0, 3).Draw(rt, "keep_odd") > 0 {
		// integer ratio: the bucket hits maxTokens/2 exactly only for even maxTokens
		if maxTok < 10 {
			maxTok++
		} else {
			maxTok--
		}
	}
	p.Throttle = &rig.Throttle{Max: strconv.Itoa(maxTok), Ratio: ratio}
	cfg, _ := tokConfig(p)
	base := tokGenPolicy(rt, baseAtt)

	nRPC := rapid.IntRange(3, vk.Pick(12, 40)).Draw(rt, "nrpc")
	b := cfg.max       // generator-side steering state (not the oracle)
	exhausted := false // an earlier RPC exhausted its attempts
	for i := 0; i < nRPC; i++ {
		var r rig.RPC
		r.Policy = base
		if rapid.IntRange(0, 5).Draw(rt, "own_policy") == 0 {
			r.Policy = tokGenPolicy(rt, rapid.IntRange(2, 5).Draw(rt, "own_max_attempts"))
		}
		pol := r.Policy
		eff := min(pol.MaxAttempts, capN)
		switch rapid.IntRange(0, 9).Draw(rt, "shape") {
		case 0:
			r.Shape = rig.Client
		case 1, 2:
			r.Shape = rig.Bidi
		default:
			r.Shape = rig.Unary
		}
		r.CloseSend = true
		r.Settle = true
		r.TimeoutNs = int64(time.Hour)
		if r.Shape == rig.Unary {
			r.Msgs = []int{rapid.IntRange(0, 16).Draw(rt, "msg")}
		} else {
			for j, n := 0, rapid.IntRange(0, 2).Draw(rt, "nmsgs"); j < n; j++ {
				r.Msgs = append(r.Msgs, rapid.IntRange(0, 16).Draw(rt, "msg"))
			}
		}

		const (
			actOK = iota
			actExhaust
			actFailThenOK
			actFailThenTerminal
			actProbe
			actDescend
		)
		act := -1
		descend := 0
		if rapid.IntRange(0, 9).Draw(rt, "steer") < 5 {
			after := b - one // bucket after the first failure, if one comes next
			switch {
			case !exhausted && b-int64(eff-1)*one > cfg.thr:
				act = actExhaust
			case !exhausted:
				act = actOK
			case after == cfg.thr || after == cfg.thr+one:
				act = actProbe
			case after < cfg.thr:
				act = actOK
			case after > cfg.thr+one:
				if d := int((after - (cfg.thr + one)) / one); d >= 1 {
					act, descend = actDescend, min(d, eff-1)
				} else if (cfg.thr+2*one-b)%cfg.ratio == 0 {
					act = actOK
				}
			}
		}
		if act < 0 {
			act = rapid.SampledFrom([]int{actOK, actOK, actExhaust, actFailThenOK, actFailThenOK, actFailThenOK, actFailThenTerminal, actFailThenTerminal, actFailThenTerminal, actProbe}).Draw(rt, "act")
		}
		// kmax: how many retryable failures in a row the bucket lets this RPC
		// retry (so that the scripted continuation is actually reached)
		kmax := 0
		for b-int64(kmax+1)*one > cfg.thr && kmax < eff-1 {
			kmax++
		}
		switch act {
		case actOK:
			if rapid.IntRange(0, 3).Draw(rt, "ok_explicit") == 0 {
				k := rig.KMsgStatus
				if r.Shape == rig.Bidi {
					k = rapid.SampledFrom([]string{rig.KStatus, rig.KHdrStatus, rig.KMsgStatus}).Draw(rt, "ok_kind")
				}
				r.Script = []rig.AttemptScript{{ReadN: -1, Kind: k}}
			}
		case actExhaust, actProbe:
			// every attempt fails with a retryable code (one more than can be
			// used: it must never be consumed)
			r.Script = tokRetryableRun(rt, pol, eff+rapid.IntRange(0, 1).Draw(rt, "extra"))
		case actFailThenOK:
			n := rapid.IntRange(1, eff-1).Draw(rt, "nfail")
			if rapid.IntRange(0, 3).Draw(rt, "nfail_any") > 0 {
				n = max(1, min(n, kmax))
			}
			r.Script = tokRetryableRun(rt, pol, n)
		case actFailThenTerminal:
			n := rapid.IntRange(0, eff-1).Draw(rt, "nfail")
			if rapid.IntRange(0, 3).Draw(rt, "nfail_any") > 0 {
				n = min(n, kmax)
			}
			r.Script = append(tokRetryableRun(rt, pol, n), tokTerminal(rt, pol, r.Shape))
		case actDescend:
			// remove exactly `descend` tokens: that many retried failures, then a
			// failure that costs nothing
			r.Script = append(tokRetryableRun(rt, pol, descend), tokFail(tokNonRetryableCode(rt, pol)))
		}
		if r.Shape == rig.Unary {
			// a unary request is sent in one go; the server may answer before
			// reading it
			for k := range r.Script {
				r.Script[k].ReadN = rapid.SampledFrom([]int{-1, -1, 0, 1}).Draw(rt, "read_n")
			}
		}
		o := tokWalk(cfg, false, b, r)
		b = o.after
		exhausted = exhausted || o.exhausted
		p.RPCs = append(p.RPCs, r)
	}
	return tokPlan{P: p}
}

// ------------------------------------------------------------------- oracle

type tokReading struct {
	name           string
	countCommitted bool
	b              int64
	dead           string // why this reading was refuted ("" = still consistent)
	exhaustedSeen  bool
	nt             bool
	classes        map[string]bool
	trace          []string
}

func tokRun(t *testing.T, pl tokPlan) vk.Result {
	p := pl.P
	cfg, ok := tokConfig(p)
	if !ok || len(p.RPCs) == 0 {
		return vk.Result{Discard: true}
	}
	for _, r := range p.RPCs {
		if r.Policy == nil || r.Policy.MaxAttempts < 2 || len(r.Policy.Codes) == 0 {
			return vk.Result{Discard: true} // this unit: every method has a retryPolicy
		}
		for _, sc := range r.Script {
			// outside this unit's domain: hanging attempts, processing delays,
			// and "OK without a response message" on a non-server-streaming
			// RPC (which the client turns into a local INTERNAL failure)
			if sc.Kind == rig.KHang || sc.DelayNs != 0 || sc.Code == 0 && sc.Kind != rig.KMsgStatus && r.Shape != rig.Bidi {
				return vk.Result{Discard: true}
			}
		}
	}
	var h *rig.History
	if msg := vk.Bubble(t, func(*testing.T) { h = rig.Exec(p) }); msg != "" {
		return vk.Bad("rig did not drain: %s", msg)
	}
	if h.Err != "" {
		return vk.Bad("rig failure: %s (service config %s)", h.Err, h.SC)
	}
	if len(h.RPCs) != len(p.RPCs) {
		return vk.Bad("rig executed %d of %d RPCs", len(h.RPCs), len(p.RPCs))
	}
	readings := []*tokReading{
		{name: "only uncommitted (retry-candidate) failures cost a token", countCommitted: false, b: cfg.max, classes: map[string]bool{}},
		{name: "a committed RPC that fails with a retryable code / bad pushback also costs a token", countCommitted: true, b: cfg.max, classes: map[string]bool{}},
	}
	steps := 0
	for i, r := range h.RPCs {
		rp := p.RPCs[i]
		if r.NewErr != "" {
			return vk.Bad("rpc %d: stream creation failed: %s", i, r.NewErr)
		}
		nObs, codeObs := len(r.Attempts), uint32(r.Code)
		steps += nObs
		alive := 0
		for _, rd := range readings {
			if rd.dead != "" {
				continue
			}
			before := rd.b
			o := tokWalk(cfg, rd.countCommitted, rd.b, rp)
			rd.trace = append(rd.trace, fmt.Sprintf("  rpc %d (%s, maxAttempts %d): bucket %s: %s => %d attempt(s), status %v", i, rp.Shape, min(rp.Policy.MaxAttempts, cfg.cap), tokFmt(before), o.trace, o.attempts, codes.Code(o.code)))
			if o.attempts != nObs || o.code != codeObs {
				rd.dead = fmt.Sprintf("rpc %d: model predicts %d attempt(s) and status %v, observed %d attempt(s) at the server and status %v (%q)", i, o.attempts, codes.Code(o.code), nObs, r.Code, r.ErrMsg)
				continue
			}
			alive++
			rd.b = o.after
			cl := rd.classes
			set := func(c bool, name string) {
				if c {
					cl[name] = true
				}
			}
			set(o.boundary, "boundary_decision")
			set(o.sensitive, "one_token_sensitive_decision")
			if o.boundary && rd.exhaustedSeen {
				cl["boundary_decision_after_exhausted_rpc"] = true
				rd.nt = true
			}
			set(o.sensitive && rd.exhaustedSeen, "one_token_sensitive_decision_after_exhausted_rpc")
			set(o.refusedAtThr, "refused_exactly_at_half")
			set(o.allowedAtThr1, "allowed_at_half_plus_1")
			set(o.exhausted, "rpc_exhausted_attempts")
			set(o.throttled, "throttled")
			set(o.ambiguous, "committed_failure_token_cost_ambiguous")
			set(o.successOnRetry, "success_on_retry")
			set(o.badPushback, "bad_pushback_charged")
			set(o.validPushback, "valid_pushback_on_retryable_failure")
			set(o.nonRetryable, "nonretryable_failure")
			set(o.committedFail, "committed_failure")
			set(o.clampMax, "clamped_at_max")
			set(o.clampZero, "clamped_at_zero")
			set(o.attempts >= 2, "retried")
			set(rp.Policy.MaxAttempts > cfg.cap, "cap_binds")
			rd.exhaustedSeen = rd.exhaustedSeen || o.exhausted
		}
		if alive == 0 {
			var sb strings.Builder
			fmt.Fprintf(&sb, "token accounting: no reading of the property explains the server's attempt log. maxTokens %s tokenRatio %s (retry refused iff bucket <= %s after the removal), attempt cap %d.\n", p.Throttle.Max, p.Throttle.Ratio, tokFmt(cfg.thr), cfg.cap)
			for k, rd := range readings {
				if k > 0 && rd.dead == readings[0].dead && strings.Join(rd.trace, "\n") == strings.Join(readings[0].trace, "\n") {
					fmt.Fprintf(&sb, " reading %q: identical (no committed failure with a retryable code so far)\n", rd.name)
					continue
				}
				fmt.Fprintf(&sb, " reading %q refuted: %s\n%s\n", rd.name, rd.dead, strings.Join(rd.trace, "\n"))
			}
			fmt.Fprintf(&sb, " history: %s", h.Dump())
			return vk.Bad("%s", sb.String())
		}
	}
	res := vk.Result{Steps: steps, NonTrivial: true}
	merged := map[string]bool{}
	first := true
	for _, rd := range readings {
		if rd.dead != "" {
			merged["reading_refuted:"+map[bool]string{false: "candidates_only", true: "committed_counted"}[rd.countCommitted]] = true
			continue
		}
		// non-trivial only if it is so under every surviving reading
		res.NonTrivial = res.NonTrivial && rd.nt
		if first {
			for c := range rd.classes {
				merged[c] = true
			}
			first = false
		}
	}
	for c := range merged {
		res.Classes = append(res.Classes, c)
	}
	sort.Strings(res.Classes)
	res.Classes = append(res.Classes, fmt.Sprintf("rpcs_%02d+", len(p.RPCs)/4*4))
	return res
}

func TestVerifC19Tokens(t *testing.T) {
	vk.Check(t, vk.Unit[tokPlan]{
		ID: "C19", Name: "tokens",
		Rule: "3-12 (thorough: up to 40) sequential RPCs (unary / client-streaming / bidi) on ONE real ClientConn+Server over bufconn in a synctest bubble; service config with per-method retryPolicy (maxAttempts 2-5, 1-3 codes, tiny backoff), WithMaxCallAttempts in {default,2,3,4,-1} and retryThrottling (maxTokens 2-10, dyadic tokenRatio 0.125-2); per attempt the server answers OK / trailers-only retryable / trailers-only non-retryable / after headers or a message (committed) / with valid or negative-malformed-double pushback. The generator steers the bucket (exhaust an RPC's attempts, climb with successes, descend with retried failures) so that retry decisions sit on the maxTokens/2 boundary. Oracle: integer (1/64 token) reference model of the statement predicts the number of attempts at the server and the final status of every RPC. non-trivial = a throttle-decided retry decision was taken with the model bucket (after removal) exactly at maxTokens/2 or maxTokens/2+1 after an earlier RPC had exhausted maxAttempts with retryable failures",
		Gen:  tokGen, Run: tokRun,
	})
}
