package c19_test

// C19 (backoff part): the delay before each retry, observed end to end in
// virtual time, is the server pushback when one was given and otherwise lies
// in [0.8, 1.2] x min(initialBackoff x multiplier^k, maxBackoff), k = retries
// since the last pushback.

import (
	"fmt"
	"math"
	"strconv"
	"testing"
	"time"

	"google.golang.org/grpc/internal/verifkit/vk"
	rig "google.golang.org/grpc/internal/verifx/retryrig"
	"pgregory.net/rapid"
)

const sigPushbackOverflow = "c19.pushback_ms_overflow"

// maxPushbackMs is the largest pushback (ms) whose nanosecond value fits a
// time.Duration.
const maxPushbackMs = math.MaxInt64 / int64(time.Millisecond)

func genDur(rt *rapid.T, label string) int64 {
	switch rapid.IntRange(0, 5).Draw(rt, label+"_kind") {
	case 0:
		return rapid.SampledFrom([]int64{1, 2, 999, 1000, int64(time.Millisecond), int64(10 * time.Millisecond), int64(100 * time.Millisecond), int64(time.Second), int64(time.Minute), int64(time.Hour)}).Draw(rt, label)
	case 1:
		return rapid.Int64Range(1, int64(time.Second)).Draw(rt, label)
	case 2:
		return rapid.Int64Range(int64(time.Millisecond), int64(30*time.Second)).Draw(rt, label)
	case 3: // not a multiple of anything
		return rapid.Int64Range(1, 1<<40).Draw(rt, label)
	case 4:
		return int64(time.Millisecond) * rapid.Int64Range(1, 5000).Draw(rt, label)
	default:
		return rapid.Int64Range(1, 1000).Draw(rt, label)
	}
}

func genMult(rt *rapid.T) float64 {
	switch rapid.IntRange(0, 4).Draw(rt, "mult_kind") {
	case 0:
		return rapid.SampledFrom([]float64{1, 2, 1.5, 1.6, 10, 0.5, 0.1, 3, 1.0001, 100, 1e-3, 1e6}).Draw(rt, "mult")
	case 1:
		return rapid.Float64Range(1, 4).Draw(rt, "mult")
	case 2:
		return rapid.Float64Range(0.01, 1).Draw(rt, "mult")
	case 3:
		return rapid.Float64Range(1, 1000).Draw(rt, "mult")
	default:
		return float64(rapid.IntRange(1, 5).Draw(rt, "mult"))
	}
}

var retryable = []uint32{14, 4, 8, 10, 13, 1, 2}

func genPushback(rt *rapid.T) []string {
	switch rapid.IntRange(0, 27).Draw(rt, "pb_kind") {
	case 0, 1, 2, 3: // valid
		return []string{strconv.FormatInt(rapid.SampledFrom([]int64{0, 1, 2, 5, 17, 100, 999, 1000, 1001, 60000, 3600000}).Draw(rt, "pb_ms"), 10)}
	case 4:
		return []string{strconv.FormatInt(rapid.Int64Range(0, 100000).Draw(rt, "pb_ms"), 10)}
	case 5: // negative / malformed: do not retry
		return []string{rapid.SampledFrom([]string{"-1", "-0001", "-100", "abc", "", "1.5", "5ms", " 5", "5 ", "0x10", "1e3", "9223372036854775808", "٣"}).Draw(rt, "pb_bad")}
	case 6: // two values
		return []string{strconv.Itoa(rapid.IntRange(0, 50).Draw(rt, "pb_a")), strconv.Itoa(rapid.IntRange(0, 50).Draw(rt, "pb_b"))}
	case 7: // huge but well-formed
		return []string{rapid.SampledFrom([]string{"9223372036854", "9223372036855", "10000000000000", "18446744073709", "18446744073710", "9223372036854775807", "4611686018427387904"}).Draw(rt, "pb_huge")}
	default:
		return nil
	}
}

type plan struct {
	P rig.Plan `json:"p"`
}

func gen(rt *rapid.T) plan {
	var p rig.Plan
	p.MaxCallAttempts = rapid.SampledFrom([]int{0, 0, 3, 8, 12}).Draw(rt, "cap")
	nRPC := rapid.IntRange(1, 2).Draw(rt, "nrpc")
	for i := 0; i < nRPC; i++ {
		var r rig.RPC
		pol := &rig.Policy{
			MaxAttempts: rapid.IntRange(2, vk.Pick(6, 10)).Draw(rt, "max_attempts"),
			InitialNs:   genDur(rt, "initial"),
			MaxNs:       genDur(rt, "max"),
			Mult:        genMult(rt),
		}
		nc := rapid.IntRange(1, 3).Draw(rt, "ncodes")
		for c := 0; c < nc; c++ {
			pol.Codes = append(pol.Codes, retryable[(rapid.IntRange(0, len(retryable)-1).Draw(rt, "code")+c)%len(retryable)])
		}
		r.Policy = pol
		switch rapid.IntRange(0, 3).Draw(rt, "shape") {
		case 0:
			r.Shape = rig.Client
		case 1:
			r.Shape = rig.Bidi
		default:
			r.Shape = rig.Unary
		}
		if r.Shape == rig.Unary {
			r.Msgs = []int{rapid.IntRange(0, 64).Draw(rt, "msg")}
			r.CloseSend = true
		} else {
			n := rapid.IntRange(0, 3).Draw(rt, "nmsgs")
			for j := 0; j < n; j++ {
				r.Msgs = append(r.Msgs, rapid.IntRange(0, 64).Draw(rt, "msg"))
			}
			r.CloseSend = rapid.Bool().Draw(rt, "close")
			r.Settle = rapid.Bool().Draw(rt, "settle")
		}
		nFail := rapid.IntRange(0, pol.MaxAttempts+1).Draw(rt, "nfail")
		var budget float64 // upper bound of the virtual time the retries may take
		k := 0
		for a := 0; a < nFail; a++ {
			s := rig.AttemptScript{Kind: rig.KStatus}
			// mostly retryable codes, so that chains get long
			if rapid.IntRange(0, 9).Draw(rt, "code_in_set") > 0 {
				s.Code = pol.Codes[rapid.IntRange(0, len(pol.Codes)-1).Draw(rt, "code_idx")]
			} else {
				s.Code = rapid.SampledFrom([]uint32{3, 5, 7, 12, 16}).Draw(rt, "code_other")
			}
			s.ReadN = rapid.IntRange(0, len(r.Msgs)).Draw(rt, "read_n")
			if r.CloseSend && rapid.IntRange(0, 3).Draw(rt, "drain") == 0 {
				s.ReadN = -1
			}
			s.Pushback = genPushback(rt)
			if rapid.IntRange(0, 2).Draw(rt, "has_delay") == 0 {
				s.DelayNs = rapid.Int64Range(1, int64(50*time.Millisecond)).Draw(rt, "delay")
			}
			budget += float64(s.DelayNs)
			if ms, ok := validPushback(s.Pushback); ok {
				if ms <= 3600000 {
					budget += float64(ms) * 1e6
				}
				k = 0
			} else if len(s.Pushback) == 0 {
				budget += 1.2*backoffBase(pol, k) + 2
				k++
			}
			r.Script = append(r.Script, s)
		}
		// A deadline comfortably beyond everything the plan can take, so that
		// it never cuts a legitimate backoff short (huge pushbacks excepted:
		// those are expected to run into the deadline).
		r.TimeoutNs = int64(2*budget) + int64(10*time.Second)
		p.RPCs = append(p.RPCs, r)
	}
	return plan{P: p}
}

// validPushback implements the property's reading of the trailer: exactly one
// value that is a non-negative decimal integer.
func validPushback(v []string) (int64, bool) {
	if len(v) != 1 || v[0] == "" {
		return 0, false
	}
	for _, c := range []byte(v[0]) {
		if c < '0' || c > '9' {
			return 0, false
		}
	}
	n, err := strconv.ParseInt(v[0], 10, 64)
	if err != nil {
		return 0, false
	}
	return n, true
}

func backoffBase(pol *rig.Policy, k int) float64 {
	return math.Min(float64(pol.InitialNs)*math.Pow(pol.Mult, float64(k)), float64(pol.MaxNs))
}

func run(t *testing.T, pl plan) vk.Result {
	p := pl.P
	var h *rig.History
	if msg := vk.Bubble(t, func(*testing.T) { h = rig.Exec(p) }); msg != "" {
		return vk.Bad("rig did not drain: %s", msg)
	}
	if h.Err != "" {
		return vk.Bad("rig failure: %s (service config %s)", h.Err, h.SC)
	}
	res := vk.Result{}
	asserted, deep := 0, false
	for i, r := range h.RPCs {
		pol := p.RPCs[i].Policy
		k := 0
		for n := 0; n < len(r.Attempts); n++ {
			a := r.Attempts[n]
			res.Steps++
			ms, okPB := validPushback(a.Script.Pushback)
			last := n == len(r.Attempts)-1
			if !last && !a.Ended {
				return vk.Bad("rpc %d: attempt %d started while attempt %d had not ended at the server: %s", i, n+1, n, h.Dump())
			}
			if len(a.Script.Pushback) > 0 && !okPB && a.Script.Kind == rig.KStatus {
				res = res.With("pushback_malformed_or_multi")
				if !last {
					return vk.Bad("rpc %d: attempt %d answered with pushback %q (negative / malformed / multiple) but attempt %d followed: %s", i, n, a.Script.Pushback, n+1, h.Dump())
				}
			}
			if last {
				if okPB && ms > maxPushbackMs {
					res = res.With("pushback_huge_waited")
				}
				break
			}
			next := r.Attempts[n+1]
			gap := next.Arrive.Sub(a.End)
			if okPB {
				if ms > maxPushbackMs {
					// The pushback does not fit a time.Duration; whatever the
					// client does it must not retry before the deadline.
					v := vk.Bad("rpc %d: attempt %d pushed back %s ms (> %d, the largest representable delay) but attempt %d arrived after %v: %s", i, n, a.Script.Pushback[0], maxPushbackMs, n+1, gap, h.Dump())
					v.Sig = sigPushbackOverflow
					return v.With("pushback_huge_overflow")
				}
				want := time.Duration(ms) * time.Millisecond
				if gap != want {
					return vk.Bad("rpc %d: retry %d arrived %v after attempt %d ended, want exactly the pushback %v: %s", i, n+1, gap, n, want, h.Dump())
				}
				res = res.With("gap_pushback")
				if ms == 0 {
					res = res.With("gap_pushback_zero")
				}
				k = 0
				asserted++
				continue
			}
			b := backoffBase(pol, k)
			lo := math.Floor(0.8*b*(1-1e-9)) - 1
			hi := 1.2*b*(1+1e-9) + 1
			g := float64(gap)
			if g < lo || g > hi {
				return vk.Bad("rpc %d: retry %d arrived %v (%d ns) after attempt %d ended; want within [0.8,1.2] x min(%d ns x %v^%d, %d ns) = [%.0f, %.0f] ns (k = %d retries since the last pushback): %s",
					i, n+1, gap, int64(gap), n, pol.InitialNs, pol.Mult, k, pol.MaxNs, lo, hi, k, h.Dump())
			}
			asserted++
			capped := float64(pol.InitialNs)*math.Pow(pol.Mult, float64(k)) >= float64(pol.MaxNs)
			switch {
			case k == 0:
				res = res.With("gap_backoff_k0")
			default:
				res = res.With("gap_backoff_k>=1")
				deep = true
			}
			if n > 0 && k == 0 {
				// a retry that restarted the exponent after a pushback
				res = res.With("reset_after_pushback")
				deep = true
			}
			if capped {
				res = res.With("gap_capped")
			}
			if pol.Mult < 1 {
				res = res.With("mult<1")
			}
			k++
		}
		res = res.With(fmt.Sprintf("attempts_%d", min(len(r.Attempts), 6)))
		res = res.With("final_" + r.Code.String())
	}
	if asserted > 0 {
		res = res.With("some_gap_asserted")
	}
	res.NonTrivial = deep
	return res
}

func TestVerifC19Backoff(t *testing.T) {
	vk.Check(t, vk.Unit[plan]{
		ID: "C19", Name: "backoff",
		Rule: "1-2 RPCs (unary / client-streaming / bidi) on a real ClientConn+Server over bufconn in a synctest bubble; retryPolicy with maxAttempts 2..6(10), initial/max backoff 1 ns..1 h from 6 generators, multiplier 1e-3..1e6; per attempt the server answers trailers-only with a (mostly retryable) code, optional processing delay and a grpc-retry-pushback-ms trailer (absent 71%, valid 18%, negative/malformed 4%, two values 4%, huge 4%). Oracle on virtual timestamps: gap(end of attempt n, arrival of attempt n+1) == pushback, else within [0.8,1.2] x min(initial x mult^k, max). non-trivial = at least one asserted gap with k >= 1, or a backoff retry that restarted at k = 0 after a pushback",
		Gen:  gen, Run: run,
	})
}
